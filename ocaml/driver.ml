(* Generic driver for the extracted models: every entry point is [sx -> sx].
   Reads one s-expression per line on stdin (integers and parenthesised lists),
   prints one s-expression per line.  Usage: driver <entry> *)
module BZ = Z
open Model

let rec pos_of_z (n : BZ.t) : positive =
  if BZ.equal n BZ.one then XH
  else if BZ.is_even n then XO (pos_of_z (BZ.shift_right n 1))
  else XI (pos_of_z (BZ.shift_right n 1))

let z_of_zarith (n : BZ.t) : z =
  match BZ.sign n with
  | 0 -> Z0
  | 1 -> Zpos (pos_of_z n)
  | _ -> Zneg (pos_of_z (BZ.neg n))

let rec zarith_of_pos (p : positive) : BZ.t =
  match p with
  | XH -> BZ.one
  | XO q -> BZ.shift_left (zarith_of_pos q) 1
  | XI q -> BZ.succ (BZ.shift_left (zarith_of_pos q) 1)

let zarith_of_z (x : z) : BZ.t =
  match x with Z0 -> BZ.zero | Zpos p -> zarith_of_pos p | Zneg p -> BZ.neg (zarith_of_pos p)

exception Parse of string

(* iterative reader: a stack of partially built lists *)
let parse_line (s : string) : sx =
  let n = String.length s in
  let stack : sx list list ref = ref [] in
  let cur : sx list ref = ref [] in
  let i = ref 0 in
  while !i < n do
    let c = s.[!i] in
    if c = '(' then begin stack := !cur :: !stack; cur := []; incr i end
    else if c = ')' then begin
      (match !stack with
       | [] -> raise (Parse "unbalanced )")
       | top :: rest -> let l = L (List.rev !cur) in cur := l :: top; stack := rest);
      incr i end
    else if c = ' ' || c = '\t' || c = '\r' then incr i
    else begin
      let j = ref !i in
      while !j < n && (let d = s.[!j] in d <> ' ' && d <> '(' && d <> ')' && d <> '\t' && d <> '\r') do incr j done;
      let tok = String.sub s !i (!j - !i) in
      (try cur := A (z_of_zarith (BZ.of_string tok)) :: !cur
       with _ -> raise (Parse ("bad token " ^ tok)));
      i := !j end
  done;
  if !stack <> [] then raise (Parse "unbalanced (");
  match !cur with
  | [x] -> x
  | _ -> raise (Parse "expected exactly one expression per line")

let rec print_sx (b : Buffer.t) (x : sx) : unit =
  match x with
  | A z -> Buffer.add_string b (BZ.to_string (zarith_of_z z))
  | L l ->
      Buffer.add_char b '(';
      List.iteri (fun k e -> if k > 0 then Buffer.add_char b ' '; print_sx b e) l;
      Buffer.add_char b ')'

let entries : (string * (sx -> sx)) list = Entries.table

let () =
  let name = if Array.length Sys.argv > 1 then Sys.argv.(1) else "" in
  let f = try List.assoc name entries
    with Not_found -> prerr_endline ("unknown entry " ^ name); exit 2 in
  let b = Buffer.create 65536 in
  (try
     while true do
       let line = input_line stdin in
       if String.length line > 0 then begin
         Buffer.clear b;
         (try print_sx b (f (parse_line line))
          with Parse m -> Buffer.add_string b ("PARSE-ERROR " ^ m)
             | Stack_overflow -> Buffer.add_string b "STACK-OVERFLOW");
         print_string (Buffer.contents b); print_newline ()
       end
     done
   with End_of_file -> ())
