(* name -> extracted entry point *)
let table : (string * (Model.sx -> Model.sx)) list = [
  "c20", Model.run_c20;
]
