(* name -> extracted entry point *)
let table : (string * (Model.sx -> Model.sx)) list = [
  "c20", Model.run_c20;
  "schema", Model.run_schema;
  "f64", Model.run_f64;
  "simple", Model.run_simple;
  "simplefrag", Model.run_simple_frag;
  "helper", Model.run_helper;
  "h14", Model.run_h14;
  "post", Model.run_post;
  "visited", Model.run_visited;
  "rules", Model.run_rules;
  "walk", Model.run_walk;
]
