#!/bin/sh
# Re-extract the model from the compiled Coq development and build the driver.
set -e
cd "$(dirname "$0")"
rm -f model.ml model.mli
coqc -Q ../coq/theories Verif ../coq/theories/Extract/Extract.v >/dev/null
ocamlfind ocamlopt -O3 -package zarith -linkpkg -w -a model.mli model.ml entries.ml driver.ml -o driver 2>&1 || \
ocamlfind ocamlopt -package zarith -linkpkg -w -a model.mli model.ml entries.ml driver.ml -o driver
