"""C07 - Spec validation never panics on a document that loads."""
import json

from .. import common as C
from .. import specrun as X

LEVEL = "proof"
N = {"quick": (30, 260), "thorough": (200, 1200)}


def run_cases(chk, binp, cases, pf_ok, pf):
    J = X.observe(binp, cases)
    dist = {"returned": 0, "panic": 0, "unloadable": 0, "crashed": 0}
    bad = []
    for j in J:
        panicked = False
        if j["rec"].get("crash"):
            dist["crashed"] += 1
            chk.violation("specification validation took the process down (%s) on a document that loads" % j["rec"]["crash"],
                          {"case": j["case"], "detail": j["rec"].get("detail", "")[:600]})
            continue
        for key, r in j["runs"].items():
            if r["outcome"] == "ok":
                dist["returned"] += 1
            elif r["outcome"] == "panic":
                dist["panic"] += 1
                panicked = True
            else:
                dist["unloadable"] += 1
        if panicked:
            bad.append(j)
    for j in bad[:3]:
        runs = {k: {"outcome": r["outcome"], "panic": r.get("panic"), "stack": r.get("stack")} for k, r in j["runs"].items() if r["outcome"] == "panic"}
        chk.violation("specification validation panicked on a document that loads", {"case": j["case"], "panics": runs})
    # tie of the visited-path heuristic (the source of the nil results) with its byte-level model
    import random
    rng = random.Random(chk.seed)
    segs = ["a", "s", "ns", "definitions", "items", "default", "x", "aa", "b", "é", "", "a.a", "200"]
    vcases = []
    for i in range(3000):
        pth = ".".join(rng.choice(segs) for _ in range(rng.randint(1, 5)))
        vs = [".".join(rng.choice(segs) for _ in range(rng.randint(1, 4))) for _ in range(rng.randint(0, 3))]
        if rng.random() < 0.2:
            vs.append(pth)
        vcases.append({"id": i, "path": pth, "visited": vs})
    vrecs = C.jsonl(C.harness(binp, "visited", "run", input="".join(json.dumps(c) + "\n" for c in vcases)))
    vouts = C.run_model("visited", [r["sx"] for r in vrecs])
    vbad = [(vcases[r["id"]], r["go"], o) for r, o in zip(vrecs, vouts) if str(int(r["go"])) != o]
    for c, g, o in vbad[:2]:
        chk.violation("correspondence broken: isVisited differs from its model", {"theorem_or_correspondence": "visited-path heuristic tie",
                      "case": c, "go": g, "model": o}, no_input=not bad)
    if not pf_ok and not bad and not vbad:
        chk.violation("proof obligations of C07 no longer check", {"theorem_or_correspondence": pf["failed"]}, no_input=True)
    origins = {}
    for j in J:
        o = j["case"].get("origin", "?")
        o = "fixture" if o.startswith("fixtures/") else o
        origins[o] = origins.get(o, 0) + 1
    loaded = [j for j in J if any(r["outcome"] != "unloadable" for r in j["runs"].values())]
    chk.coverage.update({
        "obligations": pf["obligations"], "discharged": pf["discharged"], "theorems": pf["theorems"],
        "checker_cmd": "make -C coq && coqc -Q theories Verif theories/Properties/C07.v",
        "trusted_base": C.TRUSTED_BASE_COMMON + ["axioms: " + (", ".join(pf["axioms"]) or "none"),
                                                 "partial: panics inside go-openapi/loads, analysis and spec on hostile input are outside the model; the run exercises them"],
        "evaluations": sum(len(j["runs"]) for j in J), "distinct_nontrivial": len(loaded),
        "rule": "every specification fixture of /repo (JSON and YAML), grammar-generated specifications, and 0..3 structural edits of them "
                "(delete / retype to every JSON kind incl. null / rename to names with dots, empty names / transplant a sub-tree / "
                "references to nowhere or with siblings), graphs of allOf ancestors (chains, diamonds, cycles, the reference wrapped in inline allOf members), body parameters named after a response of their operation or after a word the walkers append to paths, each validated in both continue-on-errors modes under recover; "
                "non-trivial = the document loads; distinct by document",
        "samples": [J[0]["case"], {k: v for k, v in J[-1]["case"].items() if k != "doc"}],
        "outcome_split": dist, "documents_by_origin": origins, "visited_heuristic_cases": len(vrecs), "visited_heuristic_mismatches": len(vbad),
    })
    chk.assumptions = ["documents that the loader refuses are outside the property"]


def run(chk):
    pf_ok, pf = C.proof_obligations("C07")
    binp = C.build_harness("verif")
    ng, ne = N[chk.tier]
    cases = X.corpus(chk.seed + 7, ng, ne)
    import random
    from .. import specgen as G
    rng = random.Random(chk.seed + 77)
    for _ in range(40 if chk.tier == "quick" else 400):
        d, cyc = G.ancestry_doc(rng)
        cases.append({"doc": d, "origin": "allOf ancestry graph" + (" with a cycle" if cyc else "")})
    base = [c["doc"] for c in cases if c.get("origin") == "grammar"]
    for _ in range(60 if chk.tier == "quick" else 600):
        d, e = G.collide_names(rng.choice(base), rng)
        if e != "none":
            cases.append({"doc": d, "origin": "name collision", "edits": [e]})
    import os
    cdir = os.path.join(C.VERIF, "corpus", "C07")
    extra = []
    if os.path.isdir(cdir):
        for f in sorted(os.listdir(cdir)):
            extra += C.jsonl(open(os.path.join(cdir, f)).read())
    run_cases(chk, binp, extra + cases, pf_ok, pf)


def replay(chk, path):
    payload = json.load(open(path))
    pf_ok, pf = C.proof_obligations("C07")
    binp = C.build_harness("verif")
    if "case" not in payload:
        return run(chk)
    run_cases(chk, binp, [payload["case"]], pf_ok, pf)
