"""C20 - Results combine as ordered sets of messages with additive match counts."""
import json
import os

from .. import common as C

LEVEL = "proof"
N = {"quick": 30000, "thorough": 60000}


def _observe(binp, cases_text):
    return C.jsonl(C.harness(binp, "c20", "run", input=cases_text))


_INT = __import__("re").compile(r"-?\d{19,}")


def _wrap64(s):
    """MatchCount is a Go int: sums wrap modulo 2^64 (a history that merges a result into itself some 63 times gets there);
    the model counts in Z. Both sides are compared modulo 2^64."""
    return _INT.sub(lambda m: str((int(m.group(0)) + 2**63) % 2**64 - 2**63), s)


def _mismatches(recs):
    outs = C.run_model("c20", [r["sx"] for r in recs])
    return [(r, o) for r, o in zip(recs, outs) if r["obs"] != o and _wrap64(r["obs"]) != _wrap64(o)]


def _shrink(binp, case):
    """delete operations while Go and the model still disagree"""
    ops = case["ops"]
    changed = True
    while changed:
        changed = False
        for i in range(len(ops)):
            cand = ops[:i] + ops[i + 1:]
            if not cand:
                continue
            try:
                recs = _observe(binp, json.dumps({"id": 0, "ops": cand}) + "\n")
                if recs and _mismatches(recs):
                    ops, changed = cand, True
                    break
            except Exception:
                pass
    return {"id": case["id"], "ops": ops}


def _nontrivial(case, obs):
    """>= 3 operations, a merge with a non-nil operand, and a final variable holding >= 2 messages"""
    if len(case["ops"]) < 3:
        return False
    if not any(op["k"] in (2, 3, 4) for op in case["ops"]):
        return False
    final = obs[-1]
    return any(v[0] and len(v[0][0]) + len(v[0][1]) >= 2 for v in final)


def _go(chk, cases, binp, pf_ok, pf):
    text = "".join(json.dumps(c) + "\n" for c in cases)
    recs = _observe(binp, text)
    bad = _mismatches(recs)
    byid = {c["id"]: c for c in cases}
    distinct = set()
    hist = {}
    for r in recs:
        c = byid[r["id"]]
        for op in c["ops"]:
            hist[op["k"]] = hist.get(op["k"], 0) + 1
        if _nontrivial(c, C.parse_sx(r["obs"])):
            distinct.add(json.dumps(c["ops"]))
    for r, o in bad[:3]:
        small = _shrink(binp, byid[r["id"]])
        rec = _observe(binp, json.dumps(small) + "\n")[0]
        chk.violation("Result operations differ from the ordered-set specification (proved equal to the model)",
                      {"case": small, "go": rec["obs"], "model_and_spec": C.run_model("c20", [rec["sx"]])[0],
                       "replay_cmd": "bin/check C20 --replay <this file>"})
    if not pf_ok and not bad:
        chk.violation("proof obligations of C20 no longer check", {"theorem_or_correspondence": pf["failed"]}, no_input=True)
    opnames = ["AddErrors", "AddWarnings", "Merge", "MergeAsErrors", "MergeAsWarnings", "Inc", "New", "SetNil"]
    chk.coverage.update({
        "obligations": pf["obligations"], "discharged": pf["discharged"],
        "checker_cmd": "make -C coq && coqc -Q theories Verif theories/Properties/C20.v (Print Assumptions under every theorem)",
        "trusted_base": C.TRUSTED_BASE_COMMON + ["axioms: " + (", ".join(pf["axioms"]) or "none (closed under the global context)")],
        "theorems": pf["theorems"],
        "evaluations": len(recs),
        "distinct_nontrivial": len(distinct),
        "rule": "random histories of 1..40 operations (1..2000 for every 50th in the thorough tier) over 4 *Result variables "
                "(nil, fresh, self-merge, nil operands, nil errors, 2..8 distinct message texts); after every operation the "
                "errors, warnings, MatchCount and the four queries of all variables are compared with the model; non-trivial = "
                ">= 3 operations with a merge and a final variable holding >= 2 messages; distinct by operation list",
        "samples": [byid[r["id"]] for r in recs[:2]],
        "operation_histogram": {opnames[k]: v for k, v in sorted(hist.items())},
        "steps_compared": sum(r["nops"] for r in recs),
        "tie_mismatches": len(bad),
    })
    chk.assumptions = ["value-semantics model: pointer aliasing between results is looked for by the correspondence run only",
                       "message identity is message text (error values are built from texts by the harness)"]


def run(chk):
    pf_ok, pf = C.proof_obligations("C20")
    binp = C.build_harness("verif")
    cases = []
    cdir = os.path.join(C.VERIF, "corpus", "C20")
    if os.path.isdir(cdir):
        for f in sorted(os.listdir(cdir)):
            cases += C.jsonl(open(os.path.join(cdir, f)).read())
    gen = C.jsonl(C.harness(binp, "c20", "gen", ["-seed", str(chk.seed), "-n", str(N[chk.tier]), "-tier", chk.tier]))
    for i, c in enumerate(cases + gen):
        c["id"] = i
    _go(chk, cases + gen, binp, pf_ok, pf)


def replay(chk, path):
    payload = json.load(open(path))
    pf_ok, pf = C.proof_obligations("C20")
    binp = C.build_harness("verif")
    case = payload.get("case")
    if case is None:
        return run(chk)
    case["id"] = 0
    _go(chk, [case], binp, pf_ok, pf)
