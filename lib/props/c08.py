"""C08 - Long-lived validators are stateless: reuse gives identical results."""
import json
import random

from .. import common as C
from .. import schemarun as R
from .. import simplerun as Q

LEVEL = "proof"
N = {"quick": 8000, "thorough": 30000}
PID = "C08"


def gen(binp, seed, n):
    rng = random.Random(seed)
    from .. import focusgen as F
    sc = [c for c in R.generate(binp, seed, 4 * n) if not c.get("usenumber")] + F.cases(seed + 5, 2 * n)
    qc = Q.generate(binp, seed, 2 * n)
    cases = []
    pool_vals = [c["data"] for c in sc]
    for i in range(n):
        if rng.random() < 0.7:
            base = rng.choice(sc)
            vals = [base["data"]] + [rng.choice(pool_vals) for _ in range(rng.randint(1, 8))]
            vals += [rng.choice(vals) for _ in range(rng.randint(1, 6))]      # repetitions
            vals += [None, base["data"]]
            rng.shuffle(vals)
            cases.append({"kind": "schema", "schema": {k: v for k, v in base.items() if k not in ("id", "data")}, "values": vals})
        else:
            base = rng.choice(qc)
            same = [c["val"] for c in qc if c["def"].get("type") == base["def"].get("type")][:20]
            tvs = [base["val"]] + [rng.choice(same or [base["val"]]) for _ in range(rng.randint(1, 8))]
            tvs += [rng.choice(tvs) for _ in range(rng.randint(1, 4))] + [{"k": "nil"}, base["val"]]
            rng.shuffle(tvs)
            cases.append({"kind": "header" if base.get("header") else "param",
                          "simple": {k: v for k, v in base.items() if k not in ("id", "val")}, "typed": tvs})
    # nested arrays through long-lived parameter / header validators: rows of different lengths (empty ones too), offending
    # cells at different positions from call to call - anything a validator remembers about an element shows in the names
    def cell(bad):
        return {"k": "string", "v": "toolong" if bad else "ok"}

    def matrix(depth):
        if depth == 0:
            return cell(rng.random() < 0.35)
        return {"k": "slice", "e": "iface", "l": [matrix(depth - 1) for _ in range(rng.randint(0, 3))]}

    for i in range(max(4, n // 12)):
        depth = rng.choice([2, 2, 3])
        d = {"type": "string", "maxLength": 2}
        for _ in range(depth):
            d = {"type": "array", "items": d}
        header = rng.random() < 0.3
        simple = {"header": True, "name": "X-M", "def": d} if header else {"def": dict(d, name="matrix", **{"in": "query"})}
        cases.append({"kind": "header" if header else "param", "simple": simple, "typed": [matrix(depth) for _ in range(rng.randint(3, 9))]})
    # enum members and values that only look like them (same printed form, another kind): whatever a validator remembers about
    # a value it has accepted must not let a look-alike through
    alike = [(1, ["1", "1.0", [1]]), (True, ["true", "True", 1]), ([1, 2], ["[1 2]", ["1 2"], [1, "2"], ["1", "2"]]),
             ("a b", [["a", "b"], "a  b", ["a b"]]), ({"k": 1}, ["map[k:1]", {"k": "1"}, [{"k": 1}]]), (None, ["<nil>", "null"])]
    for i in range(max(6, n // 10)):
        picks = rng.sample(alike, rng.randint(1, 4))
        vals = []
        for m, fakes in picks:
            vals += [m, rng.choice(fakes), m, rng.choice(fakes)] if rng.random() < 0.6 else [rng.choice(fakes), m, rng.choice(fakes)]
        cases.append({"kind": "schema", "schema": {"schema": {"enum": [m for m, _ in picks] + ["zz"]}, "root": ""}, "values": vals})
    for i in range(max(4, n // 20)):
        d = {"type": "array", "items": {"type": "string"}, "enum": [["a b"], ["c"]], "name": "e", "in": "query"}
        tv = lambda l: {"k": "slice", "e": "iface", "l": [{"k": "string", "v": x} for x in l]}
        seqs = [["a b"], ["a", "b"], ["c"], ["a b"], ["a", "b"], ["c", ""], ["a b "]]
        rng.shuffle(seqs)
        cases.append({"kind": "param", "simple": {"def": d}, "typed": [tv(["a b"])] + [tv(x) for x in seqs]})
        d2 = {"type": "string", "enum": ["1", "true"], "name": "s", "in": "query"}
        cases.append({"kind": "param", "simple": {"def": d2},
                      "typed": [{"k": "string", "v": "1"}, {"k": "int64", "v": "1"}, {"k": "string", "v": "true"}, {"k": "bool", "v": "true"}, {"k": "float64", "v": "1"}]})
    for i, c in enumerate(cases):
        c["id"] = i
    return cases


def run_cases(chk, binp, cases, pf_ok, pf, pid=PID):
    recs = C.jsonl(C.harness(binp, "hist", "run", input="".join(json.dumps(c) + "\n" for c in cases)))
    byid = {c["id"]: c for c in cases}
    ncalls = sum(r.get("ncalls", 0) for r in recs)
    key = "diffs" if pid == "C08" else "mutated"
    bad = [r for r in recs if r.get(key)]
    for r in bad[:3]:
        c = byid[r["id"]]
        what = "a long-lived validator returned something else than a fresh one, or than itself on a repeated call" if pid == "C08" \
            else "validation modified one of its inputs"
        chk.violation(what, {"case": c, key: r[key][:3]})
    # tie with the model: the verdict of every call of the schema histories equals the model's verdict on that value
    tie = []
    if pid == "C08":
        flat, idx = [], []
        for r in recs:
            c = byid[r["id"]]
            if c["kind"] != "schema" or r.get("skip"):
                continue
            for i, v in enumerate(c["values"][:4]):
                flat.append(dict(c["schema"], data=v))
                idx.append((r, i))
        J = R.observe(binp, flat) if flat else []
        for (r, i), j in zip(idx, J):
            o = r["outcomes"][i] if i < len(r["outcomes"]) else None
            m = j["model"]
            if o is None or m is None or m.get("outcome") != "ok" or o["outcome"] != "ok":
                continue
            if o["valid"] != m["valid"] or len(set(o["msgs"])) != m["nerr"]:
                tie.append((byid[r["id"]], i, o, m))
        for c, i, o, m in tie[:2]:
            if not bad:
                chk.violation("correspondence broken: a call of a long-lived validator differs from the model on that value",
                              {"theorem_or_correspondence": "per-call verdict and error count of the C08 tie", "case": c, "call": i,
                               "go": o, "model": {k: m[k] for k in ("valid", "nerr", "errors")}}, no_input=True)
    if not pf_ok and not bad and not tie:
        chk.violation("proof obligations of %s no longer check" % pid, {"theorem_or_correspondence": pf["failed"]}, no_input=True)
    kinds = {}
    for c in cases:
        kinds[c["kind"]] = kinds.get(c["kind"], 0) + 1
    chk.coverage.update({
        "obligations": pf["obligations"], "discharged": pf["discharged"], "theorems": pf["theorems"],
        "checker_cmd": "make -C coq && coqc -Q theories Verif theories/Properties/%s.v" % pid,
        "trusted_base": C.TRUSTED_BASE_COMMON + ["axioms: " + (", ".join(pf["axioms"]) or "none")],
        "evaluations": ncalls, "distinct_nontrivial": len(recs),
        "rule": "one validator (schema / parameter / header, built without recycling) per history, 4..18 values drawn with repetition from a "
                "pool mixing valid, invalid, nil and wrong-kind values; every call is compared (verdict and sorted message texts) with a "
                "freshly built validator on the same value and with an immediate repetition; instance, typed value and (reference-free) "
                "schema are snapshotted before and after every call, also through AgainstSchema; non-trivial = every history; distinct by history",
        "samples": [cases[0]],
        "histories": len(recs), "validator_kinds": kinds, "histories_with_findings": len(bad), "tie_mismatches": len(tie),
    })
    chk.assumptions = ["map iteration order varies by itself between calls and between validators (Go randomises it)"]


def run(chk):
    pf_ok, pf = C.proof_obligations("C08")
    binp = C.build_harness("verif")
    run_cases(chk, binp, gen(binp, chk.seed + 8, N[chk.tier]), pf_ok, pf)


def replay(chk, path):
    payload = json.load(open(path))
    pf_ok, pf = C.proof_obligations("C08")
    binp = C.build_harness("verif")
    if "case" not in payload:
        return run(chk)
    run_cases(chk, binp, [dict(payload["case"], id=0)], pf_ok, pf)
