"""C10 - Spec validation is deterministic, monotone, and keeps warnings apart."""
import json
import random
import re

from .. import common as C
from .. import specrun as X
from .. import specgen as G

LEVEL = "proof"
N = {"quick": (12, 40), "thorough": (120, 500)}
REPEATS = {"quick": 2, "thorough": 4}


def shuffled(doc, rng):
    """the same document with another member order at every level"""
    if isinstance(doc, dict):
        keys = list(doc.keys())
        rng.shuffle(keys)
        return {k: shuffled(doc[k], rng) for k in keys}
    if isinstance(doc, list):
        return [shuffled(x, rng) for x in doc]
    return doc


UNRESOLVED_RE = re.compile(r"(could not resolve reference in .* to \$ref .*|some references could not be resolved in spec\. First found: .*)")


def only_unresolved_choice(a, b):
    """the two message lists differ only by which unresolved reference the expander of go-openapi/spec met first"""
    d = set(X.normalise(a)) ^ set(X.normalise(b))
    return bool(d) and all(UNRESOLVED_RE.match(m) for m in d)


_COLL = {}


def path_collision_only(chk, binp, doc, a, b):
    """the two results differ only in reports about defaults / examples, and the document has two places with one dotted path
    in one walk of the default / example validators (a -> b and "a.b"): which of them is judged depends on map order"""
    if doc is None or "visited-path-collision" not in chk.known or a["valid"] != b["valid"]:
        return False
    d = (set(X.normalise(a["errors"])) ^ set(X.normalise(b["errors"]))) | (set(X.normalise(a.get("warnings", []))) ^ set(X.normalise(b.get("warnings", []))))
    if not d or not all(".default" in m or ".example" in m for m in d):
        return False
    key = json.dumps(doc, sort_keys=True)
    if key not in _COLL:
        seen, dup = set(), False
        for r in C.harness_parallel(binp, "sites", [{"id": 0, "doc": doc}], shards=1):
            for st in r.get("sites") or []:
                if st["walked"]:
                    k = (st["group"], st["path"])
                    dup = dup or k in seen
                    seen.add(k)
        _COLL[key] = dup
    if _COLL[key]:
        chk.known_hit.setdefault("visited-path-collision", "document with two places of one dotted path")
    return _COLL[key]


def run_cases(chk, binp, cases, pf_ok, pf):
    J = X.observe(binp, cases)
    bad = []
    docs = 0
    groups = {}
    defaults_runs = [0]
    for j in J:
        c = j["case"]
        runs = j["runs"]
        stop, cont = runs.get("cont=false,strict=true"), runs.get("cont=true,strict=true")
        if stop is None or cont is None or stop["outcome"] != "ok" or cont["outcome"] != "ok":
            continue
        docs += 1
        problems = []
        for key, base in (("cont=false", stop), ("cont=true", cont)):
            for again in j["rec"].get("repeats", {}).get(key, []):
                if again["outcome"] == base["outcome"] and again["valid"] == base["valid"] and \
                        X.normalise(again["warnings"]) == X.normalise(base["warnings"]) and only_unresolved_choice(again["errors"], base["errors"]) \
                        and "unresolved-reference-choice" in chk.known:
                    chk.known_hit.setdefault("unresolved-reference-choice", "document with several dangling references: %s" % json.dumps(c.get("edits", c.get("origin")))[:200])
                    continue
                if again["outcome"] == base["outcome"] == "ok" and path_collision_only(chk, binp, c.get("doc"), again, base):
                    continue
                if again["outcome"] != base["outcome"] or again["valid"] != base["valid"] or \
                        X.normalise(again["errors"]) != X.normalise(base["errors"]) or X.normalise(again["warnings"]) != X.normalise(base["warnings"]):
                    problems.append({"what": "validating the same document again gave another result (%s)" % key,
                                     "first": {"valid": base["valid"], "errors": base["errors"][:12], "warnings": base["warnings"][:6]},
                                     "again": {"valid": again["valid"], "errors": again["errors"][:12], "warnings": again["warnings"][:6]}})
                    break
        missing = [e for e in X.normalise(stop["errors"]) if e not in X.normalise(cont["errors"])]
        if missing and all(".default" in m for m in missing) and path_collision_only(chk, binp, c.get("doc"), dict(stop, errors=missing, warnings=[]), dict(stop, errors=[], warnings=[])):
            missing = []
        if missing:
            problems.append({"what": "an error reported when stopping early is not reported with continue-on-errors", "missing": missing[:6]})
        for name, r in (("stop-early", stop), ("continue", cont)):
            if r["valid"] != (len(r["errors"]) == 0):
                problems.append({"what": "validity does not coincide with the absence of errors (%s)" % name, "valid": r["valid"], "errors": r["errors"][:4]})
            if sorted(set(r["warnings"])) != sorted(set(r["errs_warnings"])):
                problems.append({"what": "the separately returned warnings differ from the warnings attached to the main result (%s)" % name,
                                 "returned": r["warnings"][:6], "attached": r["errs_warnings"][:6]})
        if stop["valid"] != cont["valid"]:
            problems.append({"what": "the verdict depends on continue-on-errors", "stop_early": stop["valid"], "continue": cont["valid"]})
        # through the package-level defaults (validate.SetContinueOnErrors + validate.Spec): as with the same options set on the validator
        for i, (dr, base) in enumerate(zip(j["rec"].get("defaults", []), (stop, cont, stop))):
            defaults_runs[0] += 1
            if dr["outcome"] == "ok" and dr["valid"] == base["valid"] and only_unresolved_choice(dr["errors"], base["errors"]) and "unresolved-reference-choice" in chk.known:
                continue
            if dr["outcome"] == "ok" and path_collision_only(chk, binp, c.get("doc"), dict(dr, warnings=[]), dict(base, warnings=[])):
                continue
            if dr["outcome"] != "ok" or dr["valid"] != base["valid"] or X.normalise(dr["errors"]) != X.normalise(base["errors"]):
                problems.append({"what": "validation through the package-level defaults (global switch set to %s, step %d of false/true/false) differs from the same options set on the validator"
                                         % (("false", "true", "false")[i], i + 1),
                                 "through_defaults": {"outcome": dr["outcome"], "valid": dr["valid"], "errors": dr["errors"][:8]},
                                 "on_the_validator": {"valid": base["valid"], "errors": base["errors"][:8]}})
                break
        if "group" in c:
            groups.setdefault(c["group"], []).append((c, cont))
        if problems:
            bad.append((c, problems))
    # a harmless construct added to a valid document: still valid
    pairs = {}
    for j in J:
        c = j["case"]
        r = j["runs"].get("cont=true,strict=true")
        if "pair" in c and r is not None and r["outcome"] == "ok":
            pairs.setdefault(c["pair"], {})[c["role"]] = (c, r)
    for k, pr in pairs.items():
        if "base" in pr and "harmless" in pr and pr["base"][1]["valid"] and not pr["harmless"][1]["valid"]:
            c, r = pr["harmless"]
            c = dict(c, base_doc=pr["base"][0]["doc"])
            bad.append((c, [{"what": "a valid document becomes invalid through a construct that raises a warning at most",
                             "errors": r["errors"][:6], "warnings": r["warnings"][:6]}]))
    # serialisation variants of one document: same sets
    for g, members in groups.items():
        ref = members[0][1]
        for c, r in members[1:]:
            if r["valid"] == ref["valid"] and only_unresolved_choice(r["errors"], ref["errors"]) and "unresolved-reference-choice" in chk.known:
                chk.known_hit.setdefault("unresolved-reference-choice", "member-order variant of a document with several dangling references")
                continue
            if path_collision_only(chk, binp, c.get("doc"), r, ref):
                continue
            if r["valid"] != ref["valid"] or X.normalise(r["errors"]) != X.normalise(ref["errors"]) or X.normalise(r["warnings"]) != X.normalise(ref["warnings"]):
                bad.append((c, [{"what": "a serialisation variant (member order) of the same document gives another result",
                                 "variant": {"valid": r["valid"], "errors": r["errors"][:10]}, "reference": {"valid": ref["valid"], "errors": ref["errors"][:10]}}]))
                break
    # one validator, several documents in a row: every document as with a fresh validator
    rng = random.Random(chk.seed + 1010)
    docs_only = [j["case"]["doc"] for j in J if "doc" in j["case"] and j["runs"].get("cont=true,strict=true", {}).get("outcome") == "ok"]
    seqs = []
    for i in range(min(len(docs_only), 16 if chk.tier == "quick" else 100)):
        seqs.append({"id": i, "docs": [rng.choice(docs_only) for _ in range(rng.randint(2, 4))], "cont": rng.random() < 0.5})
    # directed: what a validator keeps from a document whose references resolve (the expanded document, its analyzer) must not
    # be what a following document with a dangling reference is judged with, nor the other way round (continue-on-errors: the
    # only mode that goes on after the reference check)
    okj = [j for j in J if "doc" in j["case"] and j["runs"].get("cont=true,strict=true", {}).get("outcome") == "ok"]
    dangling = [j["case"]["doc"] for j in okj if any(UNRESOLVED_RE.match(m) for m in j["runs"]["cont=true,strict=true"]["errors"])]
    resolving = [j for j in okj if not any(UNRESOLVED_RE.match(m) for m in j["runs"]["cont=true,strict=true"]["errors"])]
    resolving_bad = [j["case"]["doc"] for j in resolving if j["runs"]["cont=true,strict=true"]["errors"]] or [j["case"]["doc"] for j in resolving]
    resolving_any = [j["case"]["doc"] for j in resolving]
    rng.shuffle(dangling)
    for d in dangling[:(12 if chk.tier == "quick" else 80)]:
        if not resolving_any:
            break
        a = rng.choice(resolving_bad if rng.random() < 0.7 else resolving_any)
        seqs.append({"id": len(seqs), "docs": [a, d, a] if rng.random() < 0.5 else [d, a, d], "cont": True})
    # the same loaded document validated again (fresh validators): the first validation must not change what the next one sees
    for d in docs_only[:(40 if chk.tier == "quick" else 300)]:
        seqs.append({"id": len(seqs), "docs": [d], "cont": rng.random() < 0.7, "same_doc": True, "again": 3})
    reuse_calls = 0
    if seqs:
        for r in C.harness_parallel(binp, "reuse", seqs, shards=14):
            if r.get("crash"):
                continue
            for i, (f, u) in enumerate(zip(r["fresh"], r["reused"])):
                reuse_calls += 1
                if f["outcome"] != "ok" or u["outcome"] != f["outcome"]:
                    if u["outcome"] == "panic" and f["outcome"] == "ok":
                        bad.append(({"docs": seqs[r["id"]]["docs"][:i + 1], "origin": "one validator, documents in a row", "cont": seqs[r["id"]]["cont"]},
                                    [{"what": "a validator that validated other documents before panics where a fresh one returns", "panic": u.get("panic")}]))
                    continue
                if u["valid"] == f["valid"] and only_unresolved_choice(u["errors"], f["errors"]) and "unresolved-reference-choice" in chk.known:
                    continue
                same = seqs[r["id"]].get("same_doc")
                if path_collision_only(chk, binp, seqs[r["id"]]["docs"][min(i, len(seqs[r["id"]]["docs"]) - 1)], u, f):
                    continue
                if same and u["valid"] == f["valid"] and X.normalise(u["errors"]) == X.normalise(f["errors"]) and \
                        any(UNRESOLVED_RE.match(m) for m in f["errors"]) and \
                        all(m.endswith("is not used anywhere") for m in set(X.normalise(u["warnings"])) ^ set(X.normalise(f["warnings"]))) and \
                        "revalidation-after-unresolved-references" in chk.known:
                    chk.known_hit.setdefault("revalidation-after-unresolved-references", "the same loaded document validated again after its references could not be resolved")
                    continue
                if u["valid"] != f["valid"] or X.normalise(u["errors"]) != X.normalise(f["errors"]) or X.normalise(u["warnings"]) != X.normalise(f["warnings"]):
                    bad.append(({"docs": seqs[r["id"]]["docs"][:i + 1], "origin": "the same loaded document, validated again" if same else "one validator, documents in a row",
                                 "cont": seqs[r["id"]]["cont"], "same_doc": bool(same), "again": i + 1},
                                [{"what": ("validating the same loaded document again gives another result (validation %d)" % (i + 1)) if same else
                                  "validating a document after other validations with the same validator gives another result than with a fresh validator",
                                  "fresh": {"valid": f["valid"], "errors": f["errors"][:8]}, "reused": {"valid": u["valid"], "errors": u["errors"][:8]}}]))
                    break
    for c, problems in bad[:3]:
        chk.violation(problems[0]["what"], {"case": c, "problems": problems[:3]})
    if not pf_ok and not bad:
        chk.violation("proof obligations of C10 no longer check", {"theorem_or_correspondence": pf["failed"]}, no_input=True)
    chk.coverage.update({
        "obligations": pf["obligations"], "discharged": pf["discharged"], "theorems": pf["theorems"],
        "checker_cmd": "make -C coq && coqc -Q theories Verif theories/Properties/C10.v",
        "trusted_base": C.TRUSTED_BASE_COMMON + ["axioms: " + (", ".join(pf["axioms"]) or "none"),
                                                 "Go randomises map iteration per range statement: repetitions in one process see different orders"],
        "evaluations": sum(2 + sum(len(v) for v in j["rec"].get("repeats", {}).values()) for j in J), "distinct_nontrivial": docs,
        "rule": "fixtures, grammar documents and edited documents (several definitions with undefined required properties, duplicate "
                "property chains, circular ancestry), each validated in both continue-on-errors modes and %d more times per mode in the "
                "same process, plus member-order variants of the same document, plus one offender of every rule also validated through the package-level defaults (validate.SetContinueOnErrors false/true/false, then validate.Spec); compared: verdict, error and warning sets (circular-ancestry "
                "messages up to the member named), monotonicity, validity vs errors, returned vs attached warnings; non-trivial = loads and "
                "returns in both modes; distinct by document" % REPEATS[chk.tier],
        "samples": [{k: v for k, v in J[0]["case"].items() if k != "doc"}],
        "documents": docs, "documents_with_findings": len(bad), "variant_groups": len(groups), "calls_on_reused_validators": reuse_calls, "runs_through_package_defaults": defaults_runs[0],
    })
    chk.assumptions = ["another process is represented by repetitions with fresh map orders and by the fresh-copy run of the check itself"]


def gen(chk):
    ng, ne = N[chk.tier]
    rng = random.Random(chk.seed + 10)
    import os
    cases = []
    cdir = os.path.join(C.VERIF, "corpus", "C10")
    if os.path.isdir(cdir):
        for f in sorted(os.listdir(cdir)):
            cases += C.jsonl(open(os.path.join(cdir, f)).read())
    allc = X.corpus(chk.seed + 10, ng, ne, edits_per_doc=(1, 2))
    fixtures = [c for c in allc if "file" in c]
    rng.shuffle(fixtures)
    cases += fixtures[:60 if chk.tier == "quick" else len(fixtures)] + [c for c in allc if "file" not in c]
    # documents built to have several independent offenders, where an early return would show
    for i in range(8 if chk.tier == "quick" else 60):
        defs = {}
        for k in range(rng.randint(2, 5)):
            defs["D%d" % k] = {"type": "object", "required": ["missing%d" % k, "other%d" % k], "properties": {"p": {"type": "string"}}}
        doc = {"swagger": "2.0", "info": {"title": "t", "version": "1"}, "paths": {"/p": {"get": {"operationId": "o", "responses": {"200": {"description": "ok"}}}}},
               "definitions": defs}
        cases.append({"doc": doc, "origin": "several undefined required properties"})
    # several independent offenders of one rule, in different operations: an early return from a map range would show
    fams = [b for b in G.BREAKING if b[1].__name__ in ("edit_array_no_items", "edit_bad_pattern", "edit_two_bodies", "edit_body_and_form", "edit_bad_items_pattern",
                                                       "edit_schema_array_no_items", "edit_extra_path_param", "edit_dangling_ref", "edit_dup_param",
                                                       "edit_path_param_not_required")]
    for i in range(len(fams) if chk.tier == "quick" else 60):
        rule, fn, _ = fams[i % len(fams)]
        d = G.SpecGen(rng).spec()
        while len(G._ops(d)) < 3:
            d = G.SpecGen(rng).spec()
        k = 0
        for _ in range(rng.randint(5, 8)):
            if fn(d, rng) is not None:
                k += 1
        cases.append({"doc": d, "origin": "%d offenders of the rule '%s' (%s)" % (k, rule, fn.__name__), "repeats": 8})
    # operations whose rejected examples share one message and add others: the set of warnings must not depend on the order
    # in which the operations are visited (message texts name the response code only, so they coincide across operations)
    for i in range(6 if chk.tier == "quick" else 40):
        paths = {}
        extras = [{}, {"enum": ["x"]}, {"pattern": "^z+$"}, {"minLength": 7}, {"enum": ["y", "z"]}, {"format": "date"}]
        rng.shuffle(extras)
        for k in range(rng.randint(2, 5)):
            sch = dict({"type": "string", "maxLength": 1, "example": "abc"}, **extras[k])
            paths["/p%d" % k] = {rng.choice(["get", "put", "post"]): {"operationId": "op%d" % k, "responses": {"200": {"description": "ok", "schema": sch}}}}
        doc = {"swagger": "2.0", "info": {"title": "t", "version": "1"}, "paths": paths}
        cases.append({"doc": doc, "origin": "operations whose rejected examples share one warning text and add others", "repeats": 8})
    # a valid document and the same document with one construct that raises a warning at most (a required property that is
    # readOnly, a property satisfied through additionalProperties ...): warnings alone never make a document invalid
    import copy
    for i in range(len(G.HARMLESS) * (2 if chk.tier == "quick" else 10)):
        fn = G.HARMLESS[i % len(G.HARMLESS)]
        base = G.SpecGen(rng).spec()
        d = copy.deepcopy(base)
        what = fn(d, rng)
        if what is not None:
            cases.append({"doc": base, "origin": "a grammar document", "pair": i, "role": "base"})
            cases.append({"doc": d, "origin": "the same document with: %s" % what, "pair": i, "role": "harmless"})
    # one offender of every rule, validated through the package-level defaults as well (global switch false, true, false)
    for i in range(len(G.BREAKING) * (2 if chk.tier == "quick" else 8)):
        rule, fn, _ = G.BREAKING[i % len(G.BREAKING)]
        d = G.SpecGen(rng).spec()
        if fn(d, rng) is not None:
            cases.append({"doc": d, "origin": "one offender of the rule '%s' (%s), also through the package defaults" % (rule, fn.__name__), "defaults": True})
    g = 0
    for c in list(cases):
        if "doc" in c and "defaults" not in c and rng.random() < 0.25:
            g += 1
            c["group"] = g
            cases.append({"doc": shuffled(c["doc"], rng), "origin": "member-order variant", "group": g})
    for c in cases:
        c.setdefault("repeats", REPEATS[chk.tier])
    return cases


def run(chk):
    pf_ok, pf = C.proof_obligations("C10")
    binp = C.build_harness("verif")
    run_cases(chk, binp, gen(chk), pf_ok, pf)


def replay(chk, path):
    payload = json.load(open(path))
    pf_ok, pf = C.proof_obligations("C10")
    binp = C.build_harness("verif")
    if "case" not in payload:
        return run(chk)
    c = dict(payload["case"], repeats=8)
    c.pop("group", None)
    if "base_doc" in c:        # a valid document and the same document with a harmless construct
        base = {"doc": c.pop("base_doc"), "origin": "the document without the construct", "pair": 0, "role": "base", "repeats": 2}
        return run_cases(chk, binp, [base, dict(c, pair=0, role="harmless")], pf_ok, pf)
    if "docs" in c:          # a history of documents through one validator: the last one is also validated alone
        c = {"doc": c["docs"][-1], "origin": c.get("origin"), "repeats": 2, "history": c["docs"]}
    run_cases(chk, binp, [c], pf_ok, pf)
