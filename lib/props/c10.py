"""C10 - Spec validation is deterministic, monotone, and keeps warnings apart."""
import json
import random
import re

from .. import common as C
from .. import specrun as X
from .. import specgen as G

LEVEL = "proof"
N = {"quick": (12, 40), "thorough": (1500, 12000)}
REPEATS = {"quick": 2, "thorough": 6}


def shuffled(doc, rng):
    """the same document with another member order at every level"""
    if isinstance(doc, dict):
        keys = list(doc.keys())
        rng.shuffle(keys)
        return {k: shuffled(doc[k], rng) for k in keys}
    if isinstance(doc, list):
        return [shuffled(x, rng) for x in doc]
    return doc


UNRESOLVED_RE = re.compile(r"(could not resolve reference in .* to \$ref .*|some references could not be resolved in spec\. First found: .*)")


def only_unresolved_choice(a, b):
    """the two message lists differ only by which unresolved reference the expander of go-openapi/spec met first"""
    d = set(X.normalise(a)) ^ set(X.normalise(b))
    return bool(d) and all(UNRESOLVED_RE.match(m) for m in d)


def run_cases(chk, binp, cases, pf_ok, pf):
    J = X.observe(binp, cases)
    bad = []
    docs = 0
    groups = {}
    for j in J:
        c = j["case"]
        runs = j["runs"]
        stop, cont = runs.get("cont=false,strict=true"), runs.get("cont=true,strict=true")
        if stop is None or cont is None or stop["outcome"] != "ok" or cont["outcome"] != "ok":
            continue
        docs += 1
        problems = []
        for key, base in (("cont=false", stop), ("cont=true", cont)):
            for again in j["rec"].get("repeats", {}).get(key, []):
                if again["outcome"] == base["outcome"] and again["valid"] == base["valid"] and \
                        X.normalise(again["warnings"]) == X.normalise(base["warnings"]) and only_unresolved_choice(again["errors"], base["errors"]) \
                        and "unresolved-reference-choice" in chk.known:
                    chk.known_hit.setdefault("unresolved-reference-choice", "document with several dangling references: %s" % json.dumps(c.get("edits", c.get("origin")))[:200])
                    continue
                if again["outcome"] != base["outcome"] or again["valid"] != base["valid"] or \
                        X.normalise(again["errors"]) != X.normalise(base["errors"]) or X.normalise(again["warnings"]) != X.normalise(base["warnings"]):
                    problems.append({"what": "validating the same document again gave another result (%s)" % key,
                                     "first": {"valid": base["valid"], "errors": base["errors"][:12], "warnings": base["warnings"][:6]},
                                     "again": {"valid": again["valid"], "errors": again["errors"][:12], "warnings": again["warnings"][:6]}})
                    break
        missing = [e for e in X.normalise(stop["errors"]) if e not in X.normalise(cont["errors"])]
        if missing:
            problems.append({"what": "an error reported when stopping early is not reported with continue-on-errors", "missing": missing[:6]})
        for name, r in (("stop-early", stop), ("continue", cont)):
            if r["valid"] != (len(r["errors"]) == 0):
                problems.append({"what": "validity does not coincide with the absence of errors (%s)" % name, "valid": r["valid"], "errors": r["errors"][:4]})
            if sorted(set(r["warnings"])) != sorted(set(r["errs_warnings"])):
                problems.append({"what": "the separately returned warnings differ from the warnings attached to the main result (%s)" % name,
                                 "returned": r["warnings"][:6], "attached": r["errs_warnings"][:6]})
        if stop["valid"] != cont["valid"]:
            problems.append({"what": "the verdict depends on continue-on-errors", "stop_early": stop["valid"], "continue": cont["valid"]})
        if "group" in c:
            groups.setdefault(c["group"], []).append((c, cont))
        if problems:
            bad.append((c, problems))
    # serialisation variants of one document: same sets
    for g, members in groups.items():
        ref = members[0][1]
        for c, r in members[1:]:
            if r["valid"] == ref["valid"] and only_unresolved_choice(r["errors"], ref["errors"]) and "unresolved-reference-choice" in chk.known:
                chk.known_hit.setdefault("unresolved-reference-choice", "member-order variant of a document with several dangling references")
                continue
            if r["valid"] != ref["valid"] or X.normalise(r["errors"]) != X.normalise(ref["errors"]) or X.normalise(r["warnings"]) != X.normalise(ref["warnings"]):
                bad.append((c, [{"what": "a serialisation variant (member order) of the same document gives another result",
                                 "variant": {"valid": r["valid"], "errors": r["errors"][:10]}, "reference": {"valid": ref["valid"], "errors": ref["errors"][:10]}}]))
                break
    for c, problems in bad[:3]:
        chk.violation(problems[0]["what"], {"case": c, "problems": problems[:3]})
    if not pf_ok and not bad:
        chk.violation("proof obligations of C10 no longer check", {"theorem_or_correspondence": pf["failed"]}, no_input=True)
    chk.coverage.update({
        "obligations": pf["obligations"], "discharged": pf["discharged"], "theorems": pf["theorems"],
        "checker_cmd": "make -C coq && coqc -Q theories Verif theories/Properties/C10.v",
        "trusted_base": C.TRUSTED_BASE_COMMON + ["axioms: " + (", ".join(pf["axioms"]) or "none"),
                                                 "Go randomises map iteration per range statement: repetitions in one process see different orders"],
        "evaluations": sum(2 + sum(len(v) for v in j["rec"].get("repeats", {}).values()) for j in J), "distinct_nontrivial": docs,
        "rule": "fixtures, grammar documents and edited documents (several definitions with undefined required properties, duplicate "
                "property chains, circular ancestry), each validated in both continue-on-errors modes and %d more times per mode in the "
                "same process, plus member-order variants of the same document; compared: verdict, error and warning sets (circular-ancestry "
                "messages up to the member named), monotonicity, validity vs errors, returned vs attached warnings; non-trivial = loads and "
                "returns in both modes; distinct by document" % REPEATS[chk.tier],
        "samples": [{k: v for k, v in J[0]["case"].items() if k != "doc"}],
        "documents": docs, "documents_with_findings": len(bad), "variant_groups": len(groups),
    })
    chk.assumptions = ["another process is represented by repetitions with fresh map orders and by the fresh-copy run of the check itself"]


def gen(chk):
    ng, ne = N[chk.tier]
    rng = random.Random(chk.seed + 10)
    import os
    cases = []
    cdir = os.path.join(C.VERIF, "corpus", "C10")
    if os.path.isdir(cdir):
        for f in sorted(os.listdir(cdir)):
            cases += C.jsonl(open(os.path.join(cdir, f)).read())
    allc = X.corpus(chk.seed + 10, ng, ne, edits_per_doc=(1, 2))
    fixtures = [c for c in allc if "file" in c]
    rng.shuffle(fixtures)
    cases += fixtures[:60 if chk.tier == "quick" else len(fixtures)] + [c for c in allc if "file" not in c]
    # documents built to have several independent offenders, where an early return would show
    for i in range(8 if chk.tier == "quick" else 400):
        defs = {}
        for k in range(rng.randint(2, 5)):
            defs["D%d" % k] = {"type": "object", "required": ["missing%d" % k, "other%d" % k], "properties": {"p": {"type": "string"}}}
        doc = {"swagger": "2.0", "info": {"title": "t", "version": "1"}, "paths": {"/p": {"get": {"operationId": "o", "responses": {"200": {"description": "ok"}}}}},
               "definitions": defs}
        cases.append({"doc": doc, "origin": "several undefined required properties"})
    g = 0
    for c in list(cases):
        if "doc" in c and rng.random() < 0.25:
            g += 1
            c["group"] = g
            cases.append({"doc": shuffled(c["doc"], rng), "origin": "member-order variant", "group": g})
    for c in cases:
        c["repeats"] = REPEATS[chk.tier]
    return cases


def run(chk):
    pf_ok, pf = C.proof_obligations("C10")
    binp = C.build_harness("verif")
    run_cases(chk, binp, gen(chk), pf_ok, pf)


def replay(chk, path):
    payload = json.load(open(path))
    pf_ok, pf = C.proof_obligations("C10")
    binp = C.build_harness("verif")
    if "case" not in payload:
        return run(chk)
    c = dict(payload["case"], repeats=8)
    c.pop("group", None)
    run_cases(chk, binp, [c], pf_ok, pf)
