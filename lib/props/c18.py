"""C18 - Applying defaults fills exactly the absent members that have a default."""
import json

from .. import common as C
from .. import postrun as P

LEVEL = "proof"
N = {"quick": 16000, "thorough": 200000}
WHICH = "defaulted"
PID = "C18"


def judge(j, problems):
    c, g = j["case"], j["go"]
    root = c["schema"]
    P.only_adds(c["data"], g["defaulted_json"], "", problems)
    if P.in_exact_class(root):
        P.check_defaults(P.flatten(root, root), c["data"], g["defaulted_json"], root, "", problems)
        return True
    # with anyOf / oneOf the selected alternative is not recomputed here; what the schema itself and its allOf members
    # declare applies whatever is selected
    P.check_must_fill(P.flatten(root, root), c["data"], g["defaulted_json"], root, "", problems)
    return False


def run_cases(chk, binp, cases, pf_ok, pf, pid=PID, which=WHICH, judge_fn=judge):
    J = P.observe(binp, cases)
    tie, viol, exact, valid, distinct, changed = [], [], 0, 0, set(), 0
    for j in J:
        g, m = j["go"], j["model"]
        if g is None or m is None:
            continue
        if g["outcome"] != "ok":
            chk.violation("validation or post-processing panicked", {"case": j["case"], "go": g})
            continue
        if m["outcome"] != "ok" or m["valid"] != g["valid"] or m[which] != g[which + "_c"]:
            tie.append(j)
        if not g["valid"]:
            continue
        valid += 1
        problems = []
        if judge_fn(j, problems):
            exact += 1
        if g[which + "_json"] != j["case"]["data"]:
            changed += 1
            distinct.add(json.dumps([j["case"]["schema"], j["case"]["data"]], sort_keys=True))
        if problems:
            viol.append((j, problems))
    for j, problems in viol[:3]:
        chk.violation("post-processed data differs from the declarative reading of the schema",
                      {"case": j["case"], "go_data_after": j["go"][which + "_json"], "problems": problems[:6]})
    if not viol:
        for j in tie[:2]:
            chk.violation("correspondence broken: Go and the model disagree on the post-processed data",
                          {"theorem_or_correspondence": "post-processed data of the %s tie" % pid, "case": j["case"],
                           "go_data_after": j["go"].get(which + "_json"), "model": str(j["model"].get(which))[:600]}, no_input=True)
    if not pf_ok and not viol and not tie:
        chk.violation("proof obligations of %s no longer check" % pid, {"theorem_or_correspondence": pf["failed"]}, no_input=True)
    chk.coverage.update({
        "obligations": pf["obligations"], "discharged": pf["discharged"], "theorems": pf["theorems"],
        "checker_cmd": "make -C coq && coqc -Q theories Verif theories/Properties/%s.v" % pid,
        "trusted_base": C.TRUSTED_BASE_COMMON + ["axioms: " + (", ".join(pf["axioms"]) or "none"),
                                                 "object identity: position in the decoded instance tree (json.Unmarshal yields a tree)"],
        "evaluations": len(J), "distinct_nontrivial": len(distinct),
        "rule": "object schemas with defaults at depth <= 4 through properties, items, additionalProperties, patternProperties and "
                "allOf/anyOf/oneOf, with instances generated from the schema (random subsets of members present, extra undescribed "
                "members at every depth); data after post-processing compared with the model for every case, and with the declarative "
                "reading for valid cases of the class without alternatives; non-trivial = valid case whose data was changed by the "
                "post-processing; distinct by (schema, instance)",
        "samples": [J[i]["case"] for i in (0, len(J) // 2, len(J) - 1)],
        "valid_cases": valid, "judged_exactly": exact, "data_changed": changed, "tie_mismatches": len(tie),
    })
    chk.assumptions = ["instances are trees (decoded JSON): pointer identity of maps and slices = position"]


def run(chk):
    pf_ok, pf = C.proof_obligations(PID)
    binp = C.build_harness("verif")
    run_cases(chk, binp, P.generate(binp, chk.seed + 18, N[chk.tier]), pf_ok, pf)


def replay(chk, path):
    payload = json.load(open(path))
    pf_ok, pf = C.proof_obligations(PID)
    binp = C.build_harness("verif")
    if "case" not in payload:
        return run(chk)
    run_cases(chk, binp, [payload["case"]], pf_ok, pf)
