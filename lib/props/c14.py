"""C14 - The exported value helpers implement their textbook definitions for every input."""
import json

from .. import common as C

LEVEL = "proof"
N = {"quick": 300000, "thorough": 500000}


def classify(case, go_err, spec_err):
    if case["fn"] == "UniqueItems" and go_err == 0 and spec_err == 1:
        return "unique-items-type-sensitive"
    # Enum converts a number at the top level; inside a slice or a map the comparison is reflect.DeepEqual again
    if case["fn"] in ("Enum", "EnumCase") and go_err == 1 and spec_err == 0 and (case.get("val") or {}).get("k") in ("slice", "nilslice", "map", "nilmap"):
        return "enum-nested-numbers-type-sensitive"
    return None


def run_cases(chk, binp, cases, pf_ok, pf):
    recs = C.jsonl(C.harness(binp, "h14", "run", input="".join(json.dumps(c) + "\n" for c in cases)))
    byid = {c["id"]: c for c in cases}
    have = [r for r in recs if "sx" in r]
    outs = C.run_model("h14", [r["sx"] for r in have])
    tie, viol, known = [], [], 0
    fnh, errs, distinct = {}, {}, set()
    for r, o in zip(have, outs):
        c, g = byid[r["id"]], r["go"]
        fnh[c["fn"]] = fnh.get(c["fn"], 0) + 1
        if g["outcome"] != "ok":
            chk.violation("a value helper panicked", {"case": c, "go": g})
            continue
        if not g["repeat_same"]:
            chk.violation("a value helper is not pure: repeating the call gave another answer", {"case": c, "go": g})
        if not g["args_untouched"]:
            chk.violation("a value helper modified its arguments", {"case": c, "go": g})
        x = C.parse_sx(o)
        if x == [-1]:
            tie.append((c, g, o))
            continue
        if g["err"]:
            errs[c["fn"]] = errs.get(c["fn"], 0) + 1
        distinct.add(json.dumps({k: v for k, v in c.items() if k != "id"}, sort_keys=True))
        if x[0] != g["err"]:
            tie.append((c, g, o))
        if x[1] != g["err"]:
            # a recorded finding is a deviation the faithful model L1 reproduces; a deviation L1 does not predict is new
            cls = classify(c, g["err"], x[1]) if x[0] == g["err"] else None
            if cls is not None and cls in chk.known:
                chk.known_hit.setdefault(cls, "%s: Go reports %s, textbook definition %s" % (json.dumps(c)[:240], g["err"], x[1]))
                known += 1
            else:
                viol.append((c, g, x[1]))
    for c, g, spec in viol[:3]:
        chk.violation("helper answer differs from its textbook definition", {"case": c, "go": g, "textbook_error": spec})
    if not viol:
        for c, g, o in tie[:2]:
            chk.violation("correspondence broken: Go and the helper model disagree",
                          {"theorem_or_correspondence": "error projection of the helper tie", "case": c, "go": g, "model": o}, no_input=True)
    if not pf_ok and not viol and not tie:
        chk.violation("proof obligations of C14 no longer check", {"theorem_or_correspondence": pf["failed"]}, no_input=True)
    chk.coverage.update({
        "obligations": pf["obligations"], "discharged": pf["discharged"], "theorems": pf["theorems"],
        "checker_cmd": "make -C coq && coqc -Q theories Verif theories/Properties/C14.v",
        "trusted_base": C.TRUSTED_BASE_COMMON + ["axioms: " + (", ".join(pf["axioms"]) or "none"),
                                                 "oracles: regexp, strfmt.Default, strings.EqualFold, string(rune) computed by the harness with the Go standard library"],
        "evaluations": len(recs), "distinct_nontrivial": len(distinct),
        "rule": "random calls of the 13 helpers with strings from a pool containing multi-byte runes and invalid UTF-8 (truncated sequences, "
                "surrogates, overlong and out-of-range forms), every integer kind, both float widths, bools, untyped nil, typed nil and "
                "empty slices / maps / pointers, nested []interface{} and typed slices, enum lists of several element types; each call "
                "made twice (purity) with an argument snapshot before and after; non-trivial = any call the model decodes; distinct by call",
        "samples": [cases[0], cases[len(cases) // 2], cases[-1]],
        "calls_per_helper": fnh, "errors_per_helper": errs, "known_finding_cases": known, "tie_mismatches": len(tie),
    })
    chk.assumptions = ["non-nil pointers built by the harness all point to equal ints", "struct values are not generated"]


def run(chk):
    pf_ok, pf = C.proof_obligations("C14")
    binp = C.build_harness("verif")
    cases = C.jsonl(C.harness(binp, "h14", "gen", ["-seed", str(chk.seed + 14), "-n", str(N[chk.tier])]))
    extra = []
    cdir = C.os.path.join(C.VERIF, "corpus", "C14")
    if C.os.path.isdir(cdir):
        for f in sorted(C.os.listdir(cdir)):
            extra += C.jsonl(open(C.os.path.join(cdir, f)).read())
    cases = extra + cases
    for i, c in enumerate(cases):
        c["id"] = i
    run_cases(chk, binp, cases, pf_ok, pf)


def replay(chk, path):
    payload = json.load(open(path))
    pf_ok, pf = C.proof_obligations("C14")
    binp = C.build_harness("verif")
    if "case" not in payload:
        return run(chk)
    run_cases(chk, binp, [dict(payload["case"], id=0)], pf_ok, pf)
