"""C12 - Validation treats its inputs as read-only."""
import json

from .. import common as C
from . import c08

LEVEL = "proof"
N = {"quick": 700, "thorough": 30000}


def run(chk):
    pf_ok, pf = C.proof_obligations("C12")
    binp = C.build_harness("verif")
    c08.run_cases(chk, binp, c08.gen(binp, chk.seed + 12, N[chk.tier]), pf_ok, pf, pid="C12")
    chk.assumptions = ["document-level snapshots (doc.Raw() bytes, expanded doc.Spec()) are taken by the spec-level checks",
                       "partial: a Go statement writing through an alias the model does not represent is caught only by the snapshots"]


def replay(chk, path):
    payload = json.load(open(path))
    pf_ok, pf = C.proof_obligations("C12")
    binp = C.build_harness("verif")
    if "case" not in payload:
        return run(chk)
    c08.run_cases(chk, binp, [dict(payload["case"], id=0)], pf_ok, pf, pid="C12")
