"""C12 - Validation treats its inputs as read-only."""
import json
import random

from .. import common as C
from .. import specgen as G
from .. import valuegen as V
from . import c08

LEVEL = "proof"
N = {"quick": 700, "thorough": 30000}
NDOC = {"quick": (70, 60), "thorough": (300, 800)}     # (fixtures, grammar documents)


def refs_of(x, out):
    if isinstance(x, dict):
        r = x.get("$ref")
        if isinstance(r, str):
            out.add(r)
        for v in x.values():
            refs_of(v, out)
    elif isinstance(x, list):
        for v in x:
            refs_of(v, out)


def self_referential(raw):
    """some definition reaches itself through references"""
    defs = raw.get("definitions") if isinstance(raw, dict) else None
    if not isinstance(defs, dict):
        return False
    edges = {}
    for k, v in defs.items():
        out = set()
        refs_of(v, out)
        edges[k] = {r.rsplit("/", 1)[-1] for r in out if r.startswith("#/definitions/")} | ({k} if "#" in out else set())
    for k in edges:
        seen, todo = set(), list(edges[k])
        while todo:
            n = todo.pop()
            if n == k:
                return True
            if n in seen:
                continue
            seen.add(n)
            todo += list(edges.get(n, ()))
    return False


def diff_paths(a, b, p=""):
    if type(a) != type(b):
        return [p]
    if isinstance(a, dict):
        out = []
        for k in sorted(set(a) | set(b)):
            out += [p + "/" + k] if (k not in a or k not in b) else diff_paths(a[k], b[k], p + "/" + k)
        return out
    if isinstance(a, list):
        if len(a) != len(b):
            return [p]
        return [d for i, (x, y) in enumerate(zip(a, b)) for d in diff_paths(x, y, p + "/%d" % i)]
    return [] if a == b else [p]


def only_expansions(before, paths):
    """every change lies inside a node X under /definitions that was a $ref before the call, and X is one the default /
    example validators are known to expand in place: a proper ancestor of X carries a default or an example (its validator
    expands the whole sub-tree through the shared maps), or X itself carries one and hangs off a pointer field (items,
    additionalProperties, additionalItems) - the only places where the walk hands over the stored schema, not a copy"""
    for p in paths:
        parts = [x for x in p.split("/") if x != ""]
        if not parts or parts[0] != "definitions":
            return False
        node, chain = before, []          # chain: (segment, node) from the root down to X
        found = None
        for x in parts:
            if isinstance(node, dict) and "$ref" in node and len(chain) >= 2:
                found = node
                break
            if isinstance(node, dict) and x in node:
                node = node[x]
            elif isinstance(node, list) and x.isdigit() and int(x) < len(node):
                node = node[int(x)]
            else:
                break
            chain.append((x, node))
        if found is None and isinstance(node, dict) and "$ref" in node:
            found = node
        if found is None:
            return False
        ancestors = [n for seg, n in chain[1:-1] if isinstance(n, dict)]       # below /definitions, above X
        carried_above = any(("default" in a or "example" in a) for a in ancestors)
        last = chain[-1][0] if chain else ""
        own = ("default" in found or "example" in found) and last in ("items", "additionalProperties", "additionalItems")
        # the last step into X goes through a pointer or a slice element (items, additionalProperties, additionalItems, not,
        # allOf[i] / anyOf[i] / oneOf[i] / items[i]): a map entry (properties.name, patternProperties.name, dependencies.name)
        # is copied before its validator is built, and the copy is what gets expanded
        segs = [seg for seg, n in chain]          # chain ends at X
        last = segs[-1] if segs else ""
        prev = segs[-2] if len(segs) >= 2 else ""
        by_pointer = last in ("items", "additionalProperties", "additionalItems", "not") and prev not in ("properties", "patternProperties", "dependencies", "definitions") \
            or (last.isdigit() and prev in ("allOf", "anyOf", "oneOf", "items"))
        if not ((carried_above or own) and by_pointer):
            return False
    return True


def doc_cases(chk):
    nf, ng = NDOC[chk.tier]
    rng = random.Random(chk.seed + 1200)
    files = G.fixture_files()
    rng.shuffle(files)
    cases = [{"file": f, "origin": "fixture " + f} for f in files[:nf]]
    sg = G.SpecGen(rng)
    for i in range(ng):
        d = sg.spec()
        V.decorate(d, rng, density=rng.choice([0.2, 0.5]), bad_share=rng.choice([0.0, 0.0, 0.1]))
        cases.append({"doc": d, "origin": "grammar + shaped schemas + defaults and examples"})
    # definitions whose default / example reaches $ref nodes through every kind of edge (map entries: properties,
    # patternProperties; pointers and slices: items, additionalProperties, allOf members), valid values
    for i in range(10 if chk.tier == "quick" else 80):
        leaf = {"type": "object", "properties": {"id": {"type": "integer"}}}
        ref = {"$ref": "#/definitions/Leaf"}
        props, value, holder = {}, {}, {"type": "object"}
        edges = [e for e in ("prop", "nested", "items", "addl", "pattern", "allof") if rng.random() < 0.55] or ["prop"]
        if "prop" in edges:
            props["tag"] = dict(ref)
            value["tag"] = {"id": rng.randint(0, 9)}
        if "nested" in edges:
            props["outer"] = {"type": "object", "properties": {"inner": dict(ref)}}
            value["outer"] = {"inner": {"id": 1}}
        if "items" in edges:
            props["arr"] = {"type": "array", "items": dict(ref)}
            value["arr"] = [{"id": 2}, {"id": 3}]
        if "addl" in edges:
            props["m"] = {"type": "object", "additionalProperties": dict(ref)}
            value["m"] = {"k": {"id": 4}}
        if "pattern" in edges:
            holder["patternProperties"] = {"^x-": dict(ref)}
            value["x-a"] = {"id": 5}
        if "allof" in edges:
            holder["allOf"] = [dict(ref)]
            value["id"] = 6
        holder["properties"] = props
        holder[rng.choice(["default", "example"])] = value
        doc = {"swagger": "2.0", "info": {"title": "t", "version": "1"},
               "paths": {"/p": {"get": {"operationId": "o", "responses": {"200": {"description": "ok", "schema": {"$ref": "#/definitions/Holder"}}}}}},
               "definitions": {"Holder": holder, "Leaf": leaf}}
        cases.append({"doc": doc, "origin": "a definition whose default / example reaches $ref nodes through " + ", ".join(edges)})
    # $ref nodes that carry a default / example of their own (a sibling of the $ref, valid for the target), one per kind of
    # edge, under definitions, parameters and responses: only the pointer edges (items, additionalProperties, additionalItems)
    # hand over the stored schema; slice members (allOf, tuple items) and map entries are copied first
    for i in range(14 if chk.tier == "quick" else 84):
        leaf = {"type": "object", "properties": {"id": {"type": "integer"}}}
        kw = rng.choice(["default", "example"])
        ref = {"$ref": "#/definitions/Leaf", kw: {"id": rng.randint(0, 9)}}
        edge = ("allof", "allof2", "tuple", "prop", "items", "addl", "addlitems", "anyof", "not")[i % 9]
        holder = {"type": "object"}
        if edge == "allof":
            holder = {"allOf": [ref, {"type": "object", "properties": {"tag": {"type": "string"}}}]}
        elif edge == "allof2":
            holder = {"type": "object", "properties": {"in": {"allOf": [{"type": "object"}, ref]}}}
        elif edge == "tuple":
            holder = {"type": "object", "properties": {"t": {"type": "array", "items": [ref, {"type": "string"}]}}}
        elif edge == "prop":
            holder["properties"] = {"tag": ref}
        elif edge == "items":
            holder["properties"] = {"arr": {"type": "array", "items": ref}}
        elif edge == "addl":
            holder["additionalProperties"] = ref
        elif edge == "addlitems":
            holder["properties"] = {"t": {"type": "array", "items": [{"type": "string"}], "additionalItems": ref}}
        elif edge == "anyof":
            holder["properties"] = {"alt": {"anyOf": [ref, {"type": "string"}]}}
        else:
            holder["properties"] = {"n": {"not": ref}}
        where = rng.choice(["definitions", "definitions", "body", "response"])
        doc = {"swagger": "2.0", "info": {"title": "t", "version": "1"},
               "paths": {"/p": {"post": {"operationId": "o", "responses": {"200": {"description": "ok", "schema": {"$ref": "#/definitions/Holder"}}}}}},
               "definitions": {"Holder": holder, "Leaf": leaf}}
        if where == "body":
            doc["definitions"]["Holder"] = {"type": "object"}
            doc["paths"]["/p"]["post"]["parameters"] = [{"name": "b", "in": "body", "schema": holder}]
        elif where == "response":
            doc["definitions"]["Holder"] = {"type": "object"}
            doc["paths"]["/p"]["post"]["responses"]["200"]["schema"] = holder
        cases.append({"doc": doc, "origin": "a $ref node carrying its own %s, reached through %s under %s" % (kw, edge, where)})
    for i, c in enumerate(cases):
        c["id"] = i
    return cases


def run_docs(chk, binp, cases):
    recs = C.harness_parallel(binp, "spec", [{k: v for k, v in c.items() if k in ("id", "doc", "file")} for c in cases], shards=14)
    byid = {c["id"]: c for c in cases}
    st = {"documents": len(recs), "accepted": 0, "accepted_without_self_reference": 0, "raw_compared": 0, "parsed_changed_but_rejected_or_recursive": 0}
    for r in recs:
        c = byid[r["id"]]
        run = (r.get("runs") or {}).get("cont=true,strict=true")
        if not run or run["outcome"] != "ok" or "raw_untouched" not in r:
            continue
        st["raw_compared"] += 1
        case = {k: v for k, v in c.items() if k != "id"}
        if not r["raw_untouched"]:
            chk.violation("spec validation changed the bytes of the loaded document", {"case": case, "level": "document"})
            continue
        if run["valid"]:
            st["accepted"] += 1
        recursive = self_referential(r.get("raw"))
        if r.get("spec_untouched"):
            if run["valid"] and not recursive:
                st["accepted_without_self_reference"] += 1
            continue
        if not run["valid"] or recursive:
            st["parsed_changed_but_rejected_or_recursive"] += 1
            continue
        st["accepted_without_self_reference"] += 1
        changed = diff_paths(r["spec_before"], r["spec_after"])
        chk.finding_or_violation("spec-refs-expanded-in-place" if only_expansions(r["spec_before"], changed) else None,
                                 "validating an accepted document without self-referential definitions changed the parsed specification at "
                                 + ", ".join(diff_paths(r["spec_before"], r["spec_after"])[:4]),
                                 {"case": case, "level": "document", "changed": diff_paths(r["spec_before"], r["spec_after"])[:20]})
    return st


def run(chk):
    pf_ok, pf = C.proof_obligations("C12")
    binp = C.build_harness("verif")
    c08.run_cases(chk, binp, c08.gen(binp, chk.seed + 12, N[chk.tier]), pf_ok, pf, pid="C12")
    chk.coverage["documents"] = run_docs(chk, binp, doc_cases(chk))
    chk.coverage["rule"] += ("; document level: fixtures and grammar documents (shaped schemas, mostly valid defaults and examples) through "
                             "SpecValidator.Validate with doc.Raw() bytes and the JSON form of doc.Spec() compared before and after")
    chk.assumptions = ["partial: a Go statement writing through an alias the model does not represent is caught only by the snapshots"]


def replay(chk, path):
    payload = json.load(open(path))
    pf_ok, pf = C.proof_obligations("C12")
    binp = C.build_harness("verif")
    if "case" not in payload:
        return run(chk)
    if payload.get("level") == "document":
        c08.run_cases(chk, binp, [], pf_ok, pf, pid="C12")
        chk.coverage["documents"] = run_docs(chk, binp, [dict(payload["case"], id=0)])
        return
    c08.run_cases(chk, binp, [dict(payload["case"], id=0)], pf_ok, pf, pid="C12")
