"""C16 - Parameter, header and items validators follow Swagger simple-schema semantics."""
import json
from fractions import Fraction

from .. import common as C
from .. import simplerun as Q

LEVEL = "proof"
N = {"quick": 150000, "thorough": 400000}


def numbers_of(d, acc):
    for k in ("maximum", "minimum", "multipleOf"):
        if k in d:
            acc.append(d[k])
    for e in d.get("enum", []) or []:
        if isinstance(e, (int, float)) and not isinstance(e, bool):
            acc.append(e)
    if isinstance(d.get("items"), dict):
        numbers_of(d["items"], acc)


def exact_numbers(c):
    """every number of the definition is the decimal it was written as, exactly representable in binary64 (or a
    multipleOf with <= 6 fractional digits), and the value's float literals are exact: otherwise decimal and binary
    readings differ and the oracle would compare different numbers"""
    acc = []
    numbers_of(c["def"], acc)
    for x in acc:
        f = Fraction(str(x)) if not isinstance(x, float) else Fraction(repr(x))
        if Fraction(float(x)) != f and (f * 10**6).denominator != 1:
            return False
        if abs(f) > 2**53:
            return False

    def vals(tv):
        if tv["k"] in ("float64", "float32"):
            lit = tv.get("v", "0")
            if Fraction(float(lit)) != Fraction(lit) or abs(Fraction(lit)) > 2**53:
                return False
            if tv["k"] == "float32" and Fraction(Q.f32(lit)) != Fraction(lit):
                return False
        return all(vals(x) for x in tv.get("l", []))
    return vals(c["val"])


def classify(c, g, why):
    codes = set(e[0] for e in g["errors"])
    d = c["def"]
    if 2001 in codes:
        return "constraint-outside-declared-type"
    if g["valid"] and why and all(w.startswith("items:") and "format" in w for w in why):
        return "items-format-needs-root-format"
    if g["valid"] and why == ["type"] and c["val"]["k"] in ("slice", "string") and d.get("format") and d.get("type") not in ("number", "integer"):
        return "type-format-shortcut"
    def has_format(x):
        return isinstance(x, dict) and (bool(x.get("format")) or has_format(x.get("items")))
    if g["valid"] and why and all(w.startswith("items:") and w.endswith("type") for w in why) and has_format(d.get("items")):
        return "type-format-shortcut"
    if why and all(w.split(":")[-1] in ("uniqueItems", "enum") or w.endswith(",uniqueItems") or w.endswith(",enum") for w in why):
        return "equality-type-sensitive"
    numeric = any("multipleOf" in w for w in why) or codes & {607} or (codes == {601} and c["val"]["k"] in ("float64", "float32"))
    if numeric:
        return "numeric-inexact"
    # nested: an element failing only for one of the reasons above
    if not g["valid"] and not why and codes <= {607, 601, 2001}:
        return "numeric-inexact"
    return None


def run_cases(chk, binp, cases, pf_ok, pf):
    J = Q.observe(binp, cases)
    tie, viol, judged, known = [], [], 0, 0
    dist = {"nil": 0, "valid": 0, "invalid": 0, "panic": 0}
    types, distinct = {}, set()
    inside = [0, 0, 0, 0]
    for j in J:
        g, c = j["go"], j["case"]
        if g is None:
            continue
        if Q.tie_diff(g, j["model"]):
            tie.append(j)
        if j["go_recycled"] != g:
            chk.violation("a recycling parameter/header validator gives another result than a plain one",
                          {"case": c, "plain": j["go"], "recycled": j["go_recycled"]})
        if g["outcome"] == "panic":
            dist["panic"] += 1
            chk.violation("parameter/header validation panicked", {"case": c, "go": j["go_raw"]})
            continue
        if g["nil"]:
            dist["nil"] += 1
            if c["val"]["k"] != "nil":
                chk.violation("a non-nil value was not validated (nil result)", {"case": c})
            continue
        dist["valid" if g["valid"] else "invalid"] += 1
        # inside the class of C16_agreement_for_the_binary64_model the model's verdict is the declarative reading's by
        # the theorem, and Go's must be too
        fr = j.get("frag")
        if fr and fr[0]:
            inside[0] += 1
            typed = len(fr) > 2 and fr[2]
            if typed:
                inside[2] += 1       # only under the divisibility clause (mult_iface), which is not proved of binary64
            if len(fr) > 3 and fr[3]:
                inside[3] += 1       # typed values, through C16_typed_agreement_for_the_binary64_model
            m = j["model"]
            if m is None or m.get("outcome") != "ok" or m.get("nil") or m.get("valid") != fr[1]:
                # for typed values the theorem assumes the numeric interface is exact: a difference here also says that
                # the binary64 instance breaks that assumption on this case
                chk.violation("the extracted model contradicts %s" % ("the typed-value agreement theorem (or the binary64 divisibility test is not exact on this case)"
                                                                      if typed else "C16_agreement_for_the_binary64_model / C16_typed_agreement_for_the_binary64_model"),
                              {"theorem_or_correspondence": "extraction of the simple-schema class", "case": c, "model": m, "reading": fr[1]}, no_input=True)
            elif g["valid"] != fr[1]:
                inside[1] += 1
                viol.append((j, fr[1], ["declarative reading of Schema/SimpleAgree.v / SimpleCarrier.v (proved equal to the model inside its class)"], None))
                continue
        t = c["def"].get("type", "")
        types[t] = types.get(t, 0) + 1
        if c["val"]["k"] == "nil":
            chk.violation("a nil value was validated", {"case": c, "go": j["go_raw"]})
            continue
        if not exact_numbers(c):
            continue
        judged += 1
        d = c["def"]
        ok, why = Q.simple_ok(d, c["val"], j["orc"], required=c.get("header", False) or d.get("required", False),
                              allow_empty=d.get("allowEmptyValue", False))
        distinct.add(json.dumps([c["def"], c["val"]], sort_keys=True))
        if ok != g["valid"]:
            cls = classify(c, g, why)
            if cls is not None and cls in chk.known:
                chk.known_hit.setdefault(cls, "def=%s val=%s: Go %s, simple-schema semantics %s (%s)" % (
                    json.dumps(d)[:200], json.dumps(c["val"])[:120], g["valid"], ok, ",".join(why)))
                known += 1
            else:
                viol.append((j, ok, why, cls))
    for j, ok, why, cls in viol[:3]:
        chk.violation("verdict differs from the simple-schema semantics outside every recorded finding class",
                      {"case": j["case"], "go": j["go_raw"], "expected_valid": ok, "unmet": why, "finding_class": cls})
    if not viol:
        for j in tie[:2]:
            chk.violation("correspondence broken: Go and the model of the parameter/header validators disagree",
                          {"theorem_or_correspondence": "result projection of the simple-schema tie", "case": j["case"],
                           "go": j["go"], "model": {k: v for k, v in (j["model"] or {}).items() if k in ("outcome", "nil", "valid", "errors", "mc", "nerr", "site")}},
                          no_input=True)
    if not pf_ok and not viol and not tie:
        chk.violation("proof obligations of C16 no longer check", {"theorem_or_correspondence": pf["failed"]}, no_input=True)
    chk.coverage.update({
        "obligations": pf["obligations"], "discharged": pf["discharged"], "theorems": pf["theorems"],
        "checker_cmd": "make -C coq && coqc -Q theories Verif theories/Properties/C16.v",
        "trusted_base": C.TRUSTED_BASE_COMMON + ["axioms: " + (", ".join(pf["axioms"]) or "none"),
                                                 "typed values: exact_iface and carrier_iface are proved of the Flocq binary64 instance (Base/F64Exact.v, Schema/NumericFlocq.v); "
                                                 "only 'multipleOf rejects a non-divisor' (mult_iface) is assumed - such cases are counted apart and compared with the reading one by one",
                                                 "exact oracle lib/simplerun.py:simple_ok (python fractions) for the failing-input search"],
        "evaluations": len(J), "distinct_nontrivial": len(distinct),
        "cases_inside_the_proved_class": inside[0], "of_which_go_differs_from_the_reading": inside[1],
        "of_which_typed_values_proved_of_the_binary64_model": inside[3],
        "of_which_only_under_the_unproved_divisibility_clause": inside[2],
        "rule": "random simple-schema definitions (type x format of that type x constraint families, items nested to depth 4) as "
                "parameters and headers, with typed Go values built by reflection (10 integer kinds, float32/64, strings, bools, []T, "
                "[][]T, []interface{}), mostly of the declared kind; each validated plain and recycling, compared with the model and "
                "judged by the exact simple-schema oracle; non-trivial = judged (numbers exactly representable); distinct by (definition, value)",
        "samples": [J[i]["case"] for i in (0, len(J) // 2, len(J) - 1)],
        "verdict_split": dist, "declared_type_histogram": types, "judged": judged, "known_finding_cases": known, "tie_mismatches": len(tie),
    })
    chk.assumptions = ["strfmt types and nil elements inside []interface{} are outside the generated values"]


def edge_cases(chk):
    """every integer edge of a Go carrier against the bounds next to it (as in C13), through parameters, headers and items"""
    import random
    from . import c13
    rng = random.Random(chk.seed + 1600)
    groups = [g for g in c13.edge_groups() if g[0] != "multipleOf" and abs(int(g[2])) <= 2**53]
    rng.shuffle(groups)
    out = []
    for kind, lit, bound, excl in groups[:(150 if chk.tier == "quick" else len(groups))]:
        for cv in c13.carriers(lit):
            if cv["k"].startswith("float") and rng.random() < 0.5:
                continue
            d = {"type": rng.choice(["number", "integer"]) if "." not in lit else "number", kind: int(bound)}
            if excl:
                d["exclusive" + kind[0].upper() + kind[1:]] = True
            shape = rng.randrange(3)
            if shape == 0:
                out.append({"def": dict(d, name="p", **{"in": "query"}), "val": cv})
            elif shape == 1:
                out.append({"header": True, "name": "h", "def": d, "val": cv})
            else:
                out.append({"def": {"name": "p", "in": "query", "type": "array", "items": d}, "val": {"k": "slice", "e": "iface", "l": [cv]}})
    return out


def run(chk):
    pf_ok, pf = C.proof_obligations("C16")
    binp = C.build_harness("verif")
    cases = Q.generate(binp, chk.seed + 16, N[chk.tier], chk.tier) + edge_cases(chk)
    for i, c in enumerate(cases):
        c["id"] = i
    run_cases(chk, binp, cases, pf_ok, pf)


def replay(chk, path):
    payload = json.load(open(path))
    pf_ok, pf = C.proof_obligations("C16")
    binp = C.build_harness("verif")
    if "case" not in payload:
        return run(chk)
    run_cases(chk, binp, [payload["case"]], pf_ok, pf)
