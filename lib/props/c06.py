"""C06 - Schema validation always terminates with a verdict and never panics."""
import json
import os
import subprocess

from .. import common as C
from .. import schemarun as R

LEVEL = "proof"
N = {"quick": 20000, "thorough": 200000}

CYCLE_WITNESS = {"schema": {"definitions": {"a": {"allOf": [{"$ref": "#/definitions/a"}]}},
                            "allOf": [{"$ref": "#/definitions/a"}]}, "data": 1, "root": ""}


def child_run(binp, case, mem_kb=2000000, secs=20):
    """run one case in a child process under ulimit -v and a timeout: the failure looked for is fatal in Go"""
    cmd = "ulimit -v %d; exec %s schema run" % (mem_kb, binp)
    try:
        p = subprocess.run(["sh", "-c", cmd], input=json.dumps(dict(case, id=0)) + "\n", capture_output=True,
                           text=True, timeout=secs)
    except subprocess.TimeoutExpired:
        return "timeout"
    if p.returncode != 0:
        err = p.stderr
        if "stack overflow" in err or "goroutine stack exceeds" in err:
            return "fatal: stack overflow"
        if "out of memory" in err or "cannot allocate" in err:
            return "fatal: out of memory"
        return "fatal: exit %d" % p.returncode
    return "returned"


def run_cases(chk, binp, cases, pf_ok, pf, with_cycle=True):
    J = R.observe(binp, cases)
    dist = {"returned": 0, "documented-panic": 0, "panic": 0, "skipped": 0}
    distinct = set()
    bad, tie = [], []
    proved = [0, 0]
    for j in J:
        g = j["go_raw"]
        one = j["oneshot"]
        outcomes = [(g["outcome"], g.get("panic", "")), (one["outcome"], one.get("panic", ""))]
        case_bad = False
        for oc, pn in outcomes:
            if oc == "ok":
                dist["returned"] += 1
            elif oc == "panic" and pn.startswith("invalid-schema"):
                dist["documented-panic"] += 1
            elif oc == "panic":
                dist["panic"] += 1
                case_bad = True
            else:
                dist["skipped"] += 1
        if case_bad:
            bad.append(j)
        m = j["model"]
        if j.get("termination_proved"):
            # inside the class of C06_decided_schemas_terminate with the fuel of the case: the model returns by the theorem,
            # and Go must have returned as well
            proved[0] += 1
            if m is None or m["outcome"] != "ok":
                chk.violation("the extracted model contradicts C06_decided_schemas_terminate", {"theorem_or_correspondence": "extraction of the termination class", "case": j["case"], "model": m}, no_input=True)
            elif g["outcome"] != "ok" and not case_bad:
                proved[1] += 1
        if m is not None and m["outcome"] != "decode-error" and not case_bad:
            mo = m["outcome"]
            go_oc = "panic" if g["outcome"] == "panic" else g["outcome"]
            if (mo == "ok") != (go_oc == "ok"):
                tie.append(j)
        if R.schema_nontrivial(j["case"]):
            distinct.add(json.dumps([j["case"]["schema"], j["case"]["data"], j["case"].get("usenumber", False)], sort_keys=True))

    def still_panics(case):
        jj = R.observe(binp, [dict(case)])[0]
        return any(o["outcome"] == "panic" and not o.get("panic", "").startswith("invalid-schema")
                   for o in (jj["go_raw"], jj["oneshot"]))

    for j in bad[:3]:
        small = R.shrink_case(j["case"], still_panics)
        jj = R.observe(binp, [dict(small)])[0]
        chk.violation("validation panicked on a schema whose references resolve",
                      {"case": small, "validator": jj["go_raw"], "oneshot": jj["oneshot"]})
    for j in tie[:2]:
        chk.violation("correspondence broken: Go and the L1 model disagree on returned / panicked",
                      {"theorem_or_correspondence": "outcome projection of the schema pipeline tie", "case": j["case"],
                       "go": j["go_raw"], "model": j["model"]}, no_input=not bad)
    # the recorded non-termination: reference cycle through composition keywords only (fatal, child process)
    cyc = None
    if with_cycle:
        cyc = child_run(binp, CYCLE_WITNESS)
        cls = "unguarded-composition-cycle"
        if cyc != "returned":
            if cls in chk.known:
                chk.known_hit.setdefault(cls, "witness: %s" % cyc)
            else:
                chk.violation("validation of a resolvable schema does not terminate", {"case": CYCLE_WITNESS, "child": cyc})
    if not pf_ok and not bad and not tie:
        chk.violation("proof obligations of C06 no longer check", {"theorem_or_correspondence": pf["failed"]}, no_input=True)
    chk.coverage.update({
        "obligations": pf["obligations"], "discharged": pf["discharged"], "theorems": pf["theorems"],
        "checker_cmd": "make -C coq && coqc -Q theories Verif theories/Properties/C06.v",
        "trusted_base": C.TRUSTED_BASE_COMMON + ["axioms: " + (", ".join(pf["axioms"]) or "none"),
                                                 "Go stack exhaustion and memory are not representable in the model"],
        "evaluations": 2 * len(J), "distinct_nontrivial": len(distinct),
        "rule": "corpus + suite + random schemas, one case in five from the malformed stream (empty enum/required, multipleOf <= 0, "
                "invalid patterns, format without type, json.Number carriers, nil registry, Swagger options); each case runs "
                "NewSchemaValidator(...).Validate and AgainstSchema under recover; non-trivial = >= 2 keywords or nesting; "
                "distinct by (schema, instance, carrier)",
        "samples": [J[i]["case"] for i in (0, len(J) // 2, len(J) - 1)],
        "outcome_split": dist, "tie_mismatches": len(tie), "cycle_witness_child": cyc,
        "cases_inside_the_termination_theorem": proved[0], "of_which_go_did_not_return": proved[1],
        "keyword_histogram": R.keyword_histogram([j["case"] for j in J]),
    })
    chk.assumptions = ["a recovered panic is classified by its runtime error text", "fatal runtime errors are only looked for on the recorded cycle witness (child process under ulimit)"]


def extra_cases():
    """deep nesting and extreme numbers"""
    out = []
    for depth in (50, 400, 2000):
        s = {}
        d = 1
        for _ in range(depth):
            s = {"items": [s]}
            d = [d]
        out.append({"schema": s, "data": d, "root": ""})
        s2 = {"type": "integer"}
        for _ in range(depth):
            s2 = {"properties": {"a": s2}}
        d2 = 1
        for _ in range(depth):
            d2 = {"a": d2}
        out.append({"schema": s2, "data": d2, "root": "r"})
    for lit in ("1e308", "-1e308", "5e-324", "9223372036854775808", "18446744073709551616", "-9223372036854775809"):
        for un in (False, True):
            out.append({"schema": {"type": "integer", "maximum": 5, "multipleOf": 3}, "data": json.loads(lit), "root": "", "usenumber": un})
            out.append({"schema": {"type": "number", "minimum": 1e308, "multipleOf": 1e-300}, "data": json.loads(lit), "root": "", "usenumber": un})
    return out


def focus(chk):
    from .. import focusgen as F
    return F.cases(chk.seed + 1007, 1800 if chk.tier == "quick" else 60000)


def run(chk):
    pf_ok, pf = C.proof_obligations("C06")
    binp = C.build_harness("verif")
    cases = R.corpus_cases("C06") + R.corpus_cases("C01") + extra_cases() + R.suite_cases() + focus(chk) + \
        R.generate(binp, chk.seed + 1000, N[chk.tier], chk.tier)
    run_cases(chk, binp, cases, pf_ok, pf)


def replay(chk, path):
    payload = json.load(open(path))
    pf_ok, pf = C.proof_obligations("C06")
    binp = C.build_harness("verif")
    if "case" not in payload:
        return run(chk)
    run_cases(chk, binp, [payload["case"]], pf_ok, pf, with_cycle=False)
