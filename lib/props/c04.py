"""C04 - Object recycling never changes an outcome, whatever came before."""
import json
import random

from .. import common as C
from .. import poolrun as P

LEVEL = "proof"
HIST = {"quick": 500, "thorough": 20000}


def run_cases(chk, binp, cases, pf_ok, pf):
    out = P.run_histories(binp, cases)
    byid = {c["id"]: c for c in cases}
    ncalls = sum(r["ncalls"] for r in out)
    for r in [r for r in out if r.get("crash")][:2]:
        chk.violation("a call through the recycling entry points took the whole process down (%s)" % r["crash"], {"case": byid[r["id"]], "detail": r.get("detail", "")[-600:]})
    bad = [r for r in out if r["double_redeems"] or r["diffs"]]
    kinds = {}
    leaks = {}
    for r in out:
        for line in r.get("stats") or []:
            name, new, red = line.split()
            new, red = int(new.split("=")[1]), int(red.split("=")[1])
            k = kinds.setdefault(name, [0, 0])
            k[0] += new
            k[1] += red
            if new != red:
                leaks[name] = leaks.get(name, 0) + (new - red)
    for r in bad[:3]:
        c = byid[r["id"]]
        # shortest prefix + call that still shows the difference
        what = "an object was redeemed twice in one tenure" if r["double_redeems"] else \
            "a call through the recycling entry points differs from the same call alone in a fresh process with recycling off"
        small = c
        if r["diffs"]:
            last = max(d["call"] for d in r["diffs"])
            small = {"id": 0, "calls": c["calls"][:last + 1]}
        chk.violation(what, {"case": small, "double_redeems": r["double_redeems"], "diffs": (r["diffs"] or [])[:3]})
    if not pf_ok and not bad:
        chk.violation("proof obligations of C04 no longer check (theorems, or the constructor table regenerated from /repo)",
                      {"theorem_or_correspondence": pf["failed"]}, no_input=True)
    chk.coverage.update({
        "obligations": pf["obligations"], "discharged": pf["discharged"], "theorems": pf["theorems"],
        "checker_cmd": "vharness ctor gen > coq/theories/Gen/CtorFacts.v && make -C coq && coqc -Q theories Verif theories/Properties/C04.v",
        "trusted_base": C.TRUSTED_BASE_COMMON + ["axioms: " + (", ".join(pf["axioms"]) or "none"),
                                                 "go/ast extraction of struct fields and constructor assignments (vharness ctor gen)",
                                                 "redeem notification hook of /repo (build tag verif): poisoning, tenure mode, pool pollution"],
        "evaluations": ncalls, "distinct_nontrivial": len(out),
        "rule": "histories of 2..8 calls mixing AgainstSchema, recycling schema / parameter / header validators over random schemas, "
                "instances and typed values (including early exits: nil data, json.Number conversion failures, invalid verdicts); each "
                "history runs (a) every call alone on fresh pools with recycling off, (b) in tenure mode (redeemed objects are poisoned "
                "and kept out of the pool: a second redeem of a pointer is seen), (c) with poisoning on polluted pools; outcomes "
                "(verdict, sorted error and warning texts) of (b) and (c) must equal (a); non-trivial = every history; distinct by history",
        "samples": [cases[0]],
        "histories": len(out), "histories_with_findings": len(bad),
        "borrowed_and_redeemed_per_pool": {k: {"new": v[0], "redeemed": v[1]} for k, v in sorted(kinds.items())},
        "leaked_objects_per_pool": leaks,
    })
    chk.assumptions = ["the generic theorem is about an abstract client; that the Go validators are such a disciplined client is what "
                       "the tenure / poisoning runs and the protocol model establish, per sampled history",
                       "whole-specification validation joins these histories in the spec-level checks"]


def gen(binp, seed, n):
    rng = random.Random(seed)
    sc, qc = P.call_pool(binp, seed, 1500, 600)
    hs = [{"calls": [P.make_call(rng, sc, qc) for _ in range(rng.randint(2, 8))]} for _ in range(n)]
    # calls with and without a format registry in one history (a nil registry is accepted: formats are then not checked)
    fmt = [dict(c) for c in sc if '"format"' in json.dumps(c["schema"]) and not c.get("usenumber")] + [dict(w) for w in P.FORMAT_WORKLOADS]
    for _ in range(max(4, n // 12)):
        calls = []
        for _ in range(rng.randint(2, 6)):
            c = dict(rng.choice(fmt))
            if rng.random() < 0.5:
                c["noformats"] = True
            else:
                c.pop("noformats", None)
            calls.append({"kind": rng.choice(["oneshot", "validator"]), "schema": c})
        hs.append({"calls": calls})
    return hs


def run(chk):
    binp = C.build_harness("verif")
    facts = P.regen_ctor_facts(binp)
    pf_ok, pf = C.proof_obligations("C04", extra_files=[facts, C.os.path.join(C.COQ, "theories", "Life", "CtorCheck.v")])
    cases = gen(binp, chk.seed + 4, HIST[chk.tier])
    for i, c in enumerate(cases):
        c["id"] = i
    run_cases(chk, binp, cases, pf_ok, pf)


def replay(chk, path):
    payload = json.load(open(path))
    binp = C.build_harness("verif")
    facts = P.regen_ctor_facts(binp)
    pf_ok, pf = C.proof_obligations("C04", extra_files=[facts, C.os.path.join(C.COQ, "theories", "Life", "CtorCheck.v")])
    if "case" not in payload:
        return run(chk)
    run_cases(chk, binp, [dict(payload["case"], id=0)], pf_ok, pf)
