"""C15 - Pattern matching always uses the expression that was asked for."""
import json
import re as pyre

from .. import common as C
from .. import concrun as K

LEVEL = "proof"
N = {"quick": (4000, 800), "thorough": (20000, 4000)}


def run_cases(chk, binr, seq, conc, pf_ok, pf):
    recs, races = K.run_race(binr, "rexp", seq + conc)
    byid = {c["id"]: c for c in seq + conc}
    bad = []
    nops = 0
    for r in recs:
        c = byid[r["id"]]
        nops += len(c["ops"])
        problems = []
        if r["wrong"]:
            problems.append({"wrong_answers": r["wrong"][:3]})
        if r["key_errors"]:
            problems.append({"cache_entries_under_wrong_key": r["key_errors"][:3]})
        # sequential histories: the key set after every operation is the set of valid patterns used so far (model)
        if not c.get("goroutines"):
            seen = []
            for i, op in enumerate(c["ops"]):
                if op["p"] not in seen and not (op["via"] == "schema" and op["p"] == ""):
                    seen.append(op["p"])
                if op["via"] == "closed" and op.get("p2", op["p"]) not in seen:
                    seen.append(op.get("p2", op["p"]))
                valid = sorted(p for p in seen if valid_go_regexp(p, r, i, c))
                if sorted(r["keys"][i] or []) != valid:
                    problems.append({"after_op": i, "cache_keys": r["keys"][i], "expected_keys": valid})
                    break
        if problems:
            bad.append((c, problems))
    for c, problems in bad[:3]:
        chk.violation("a pattern use did not behave like Go's regexp compiled from that very pattern (or the cache holds a wrong entry)",
                      {"case": c, "problems": problems})
    for f in K.FATAL[:2]:
        chk.violation("concurrent pattern use took the process down (%s)" % f["message"], {"case": f["case"], "fatal": f["message"]})
    for rep in races[:2]:
        chk.violation("data race reported by the race detector during concurrent pattern use", {"race_report": rep, "cases": "rexp concurrent stream"})
    if not pf_ok and not bad and not races and not K.FATAL:
        chk.violation("proof obligations of C15 no longer check", {"theorem_or_correspondence": pf["failed"]}, no_input=True)
    chk.coverage.update({
        "obligations": pf["obligations"], "discharged": pf["discharged"], "theorems": pf["theorems"],
        "checker_cmd": "make -C coq && coqc -Q theories Verif theories/Properties/C15.v",
        "trusted_base": C.TRUSTED_BASE_COMMON + ["axioms: " + (", ".join(pf["axioms"]) or "none"),
                                                 "atomicity of atomic.Value and sync.Mutex operations is the model's step granularity",
                                                 "Go race detector (harness built with -race)"],
        "evaluations": nops, "distinct_nontrivial": len(recs),
        "rule": "pattern sets with near duplicates (a, a+, ^a$, (a)), invalid patterns and the empty pattern, used through validate.Pattern, "
                "the pattern keyword and patternProperties, in random orders of first-time and repeated uses; sequential histories compare "
                "every answer with a private regexp.Compile of that pattern and the cache key set after every operation; concurrent cases "
                "deal the operations to 1..64 goroutines under the race detector; non-trivial = every history; distinct by history",
        "samples": [seq[0], conc[0]] if conc else [seq[0]],
        "sequential_histories": len(seq), "concurrent_histories": len(conc), "race_reports": len(races), "histories_with_findings": len(bad),
    })
    chk.assumptions = ["regexp.Compile and (*Regexp).String are the oracle: source(compile p) = p"]


_valid_cache = {}


def valid_go_regexp(p, rec, i, case):
    """whether Go's regexp accepts p: read off the run itself - a pattern that some operation so far reported as
    not invalid compiled (the harness compares each answer with a private regexp.Compile)"""
    for k, op in enumerate(case["ops"]):
        if op["p"] == p:
            return bool(rec["pattern_valid"][k])
        if op.get("p2") == p and "pattern2_valid" in rec:
            return bool(rec["pattern2_valid"][k])
    return True


def run(chk):
    pf_ok, pf = C.proof_obligations("C15")
    binr = C.build_harness("verif", race=True)
    nseq, nconc = N[chk.tier]
    seq = K.rexp_cases(chk.seed + 15, nseq, False)
    conc = K.rexp_cases(chk.seed + 1015, nconc, True)
    for i, c in enumerate(seq + conc):
        c["id"] = i
    run_cases(chk, binr, seq, conc, pf_ok, pf)


def replay(chk, path):
    payload = json.load(open(path))
    pf_ok, pf = C.proof_obligations("C15")
    binr = C.build_harness("verif", race=True)
    if "case" not in payload:
        return run(chk)
    c = dict(payload["case"], id=0)
    run_cases(chk, binr, [c] if not c.get("goroutines") else [], [c] if c.get("goroutines") else [], pf_ok, pf)
