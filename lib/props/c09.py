"""C09 - Spec defaults and examples are judged exactly as their schema judges them."""
import json
import random
import re

from .. import common as C
from .. import specgen as G
from .. import valuegen as V

LEVEL = "proof"
N = {"quick": 150, "thorough": 2500}

WRAPPERS = [re.compile(p) for p in (
    r"^default value for .* in .* does not validate its schema$",
    r"^in operation \".*\", default value in .* does not validate its schema$",
    r"^example value for .* in .* does not validate its schema$",
    r"^in operation \".*\", example value in .* does not validate its schema$",
)]


def overlap(path):
    """default_validator.go:46-73 without the exact-match part"""
    for i in range(len(path) - 2, -1, -1):
        if path[i] == "." and path[:i].endswith(path[i + 1:]):
            return True
    return False


def gen(seed, n):
    rng = random.Random(seed)
    sg = G.SpecGen(rng)
    cases = []
    for i in range(n):
        d = sg.spec()
        st = V.decorate(d, rng, density=rng.choice([0.2, 0.45, 0.8]))
        cases.append({"id": i, "doc": d, "origin": "grammar + shaped schemas + defaults and examples", "stats": st})
    return cases


def corpus_cases(start):
    import os
    out = []
    cdir = os.path.join(C.VERIF, "corpus", "C09")
    for f in sorted(os.listdir(cdir)) if os.path.isdir(cdir) else []:
        for c in C.jsonl(open(os.path.join(cdir, f)).read()):
            out.append({"id": start + len(out), "doc": c["doc"], "origin": c["origin"], "stats": {}})
    return out


def run_cases(chk, binp, cases, pf_ok, pf):
    recs = C.harness_parallel(binp, "sites", [{"id": c["id"], "doc": c["doc"]} for c in cases], shards=14)
    byid = {c["id"]: c for c in cases}
    have = [r for r in recs if r.get("sx") and not r.get("skip")]
    outs = C.run_model("walk", [r["sx"] for r in have])
    model = {r["id"]: set(C.parse_sx(o)) for r, o in zip(have, outs)}
    viol, tie, findings, unused, collided = [], [], [], [], []
    cov = {"places": 0, "with_value": 0, "rejected": 0, "accepted": 0, "by_container": {}, "by_descent": {}, "max_depth": 0,
           "skipped_by_heuristic": 0, "documents_first_pass_invalid": 0, "order_sensitive_documents": 0}
    for r in recs:
        c = byid[r["id"]]
        runs = r.get("runs") or {}
        if any(runs[k]["outcome"] == "panic" for k in runs):
            viol.append((c, "spec validation panicked", {k: runs[k].get("panic") for k in runs}))
            continue
        if r.get("skip") or r["id"] not in model or any(runs[k]["outcome"] != "ok" for k in runs):
            continue
        sites = r["sites"] or []
        rep = model[r["id"]]
        if not r.get("first_pass_valid"):
            cov["documents_first_pass_invalid"] += 1
        full = runs["cont=true"]
        go_msgs = {"default": set(full["errors"]), "example": set(full["warnings"]) | set(full["errs_warnings"])}
        # paths built twice inside one group: which of the two is walked depends on map iteration order
        seen, dup = set(), set()
        for s in sites:
            if s["walked"]:
                k = (s["group"], s["path"])
                if k in seen:
                    dup.add(s["group"])
                seen.add(k)
        if dup:
            cov["order_sensitive_documents"] += 1
        expected = {"default": set(), "example": set()}
        known = {"default": set(), "example": set()}
        for s in sites:
            cov["places"] += 1
            cov["max_depth"] = max(cov["max_depth"], s["depth"])
            if s["judged"]:
                cov["with_value"] += 1
                key = "%s of %s" % (s["kind"], s["where"])
                cov["by_container"][key] = cov["by_container"].get(key, 0) + 1
                cov["by_descent"][s["via"] or "root"] = cov["by_descent"].get(s["via"] or "root", 0) + 1
                cov["rejected" if s["judged"] == 2 else "accepted"] += 1
            if s["judged"] == 2 and s["group"] not in dup:
                known[s["kind"]].update(s["msgs"])
                if s["id"] in rep:
                    expected[s["kind"]].update(s["msgs"])
        # tie, message by message: Go reports it <-> the model reports a place that produces it
        for kind in ("default", "example"):
            for m in sorted(known[kind]):
                if (m in go_msgs[kind]) != (m in expected[kind]):
                    tie.append((c, kind, m, m in go_msgs[kind], m in expected[kind]))
                    break
        # the property, against the real code: every rejected value is reported ...
        for s in sites:
            if s["judged"] == 2 and s["group"] not in dup and s["id"] not in rep and not any(m in go_msgs[s["kind"]] for m in s["msgs"]):
                cov["skipped_by_heuristic"] += 1
                findings.append((c, s))
        # two places of one group with the same dotted path (a -> b and "a.b"): the one met second counts as visited
        for s in sites:
            if s["judged"] == 2 and s["group"] in dup and not any(m in go_msgs[s["kind"]] for m in s["msgs"]):
                collided.append((c, s))
        for s in r.get("unwalked") or []:
            if s["judged"]:
                key = "%s of unreferenced shared %s" % (s["kind"], s["where"])
                cov["by_container"][key] = cov["by_container"].get(key, 0) + 1
            if s["judged"] == 2 and not any(m in go_msgs[s["kind"]] for m in s["msgs"]):
                unused.append((c, s))
        # ... and nothing is reported for a value its schema accepts: with the schema pass and the rules satisfied, every
        # error is the report of a rejected default (or its wrapper); every warning about an example likewise
        if r.get("first_pass_valid"):
            explained = set()
            for s in sites:
                if s["judged"] == 2:
                    explained.update(s["msgs"])
            for m in full["errors"]:
                if m not in explained and not any(w.search(m) for w in WRAPPERS):
                    viol.append((c, "an error is reported that no rejected default accounts for", {"message": m}))
                    break
            for m in sorted(go_msgs["example"]):
                if ".example" in m and m not in explained and not any(w.search(m) for w in WRAPPERS):
                    viol.append((c, "a warning about an example is reported that no rejected example accounts for", {"message": m}))
                    break
            # with the early stop nothing ends validation before the default and example passes when the earlier passes
            # report nothing: the same defaults and examples are reported in both modes
            others = [m for m in full["errors"] if m not in explained and not any(w.search(m) for w in WRAPPERS)]
            if not others:
                stop = runs["cont=false"]
                stop_ex = set(stop["warnings"]) | set(stop["errs_warnings"])
                steady = set()          # messages of places outside the order-sensitive groups
                for s in sites:
                    if s["judged"] == 2 and s["group"] not in dup:
                        steady.update(s["msgs"])
                lost = sorted(m for m in go_msgs["example"] if ".example" in m and m in steady and m not in stop_ex)
                lost_d = sorted(m for m in full["errors"] if m in steady and m not in set(stop["errors"]))
                if lost or lost_d:
                    viol.append((c, "a rejected %s is reported with continue-on-errors only, although no earlier pass reports an error"
                                 % ("example" if lost else "default"), {"missing_without_continue_on_errors": (lost or lost_d)[:4]}))
            # verdict with the early stop: a reported default makes the document invalid in both modes
            if any(s["judged"] == 2 and s["kind"] == "default" and s["id"] in rep for s in sites) and runs["cont=false"]["valid"]:
                viol.append((c, "a rejected default is reported with continue-on-errors only", {}))
    for c, s in findings:
        why = "visited-suffix-overlap" if any(overlap(s["path"][:i]) for i in range(1, len(s["path"]) + 1) if i == len(s["path"]) or s["path"][i] == ".") else "unexplained"
        payload = {"case": {"doc": c["doc"], "origin": c["origin"]}, "place": {k: s[k] for k in ("kind", "where", "via", "path", "msgs")}}
        if why == "unexplained":
            chk.violation("a value its schema rejects is not reported (%s of %s at %s)" % (s["kind"], s["where"], s["path"]), payload)
            break
        chk.finding_or_violation(why, "the %s of %s at path %s is rejected by its schema and not reported: the path is taken for an already visited one"
                               % (s["kind"], s["where"], s["path"]), payload)
    for c, s in collided[:1]:
        chk.finding_or_violation("visited-path-collision",
                                 "the %s of %s at path %s is rejected by its schema and not reported: another place of the same walk has the same dotted path"
                                 % (s["kind"], s["where"], s["path"]),
                                 {"case": {"doc": c["doc"], "origin": c["origin"]}, "place": {k: s[k] for k in ("kind", "where", "via", "path", "msgs")}})
    for c, s in unused[:1]:
        chk.finding_or_violation("unreferenced-shared-declaration",
                                 "the %s of the %s %s, declared under #/parameters or #/responses and referred to by no operation, is rejected by its schema and not reported"
                                 % (s["kind"], s["where"], s["path"]),
                                 {"case": {"doc": c["doc"], "origin": c["origin"]}, "place": {k: s[k] for k in ("kind", "where", "via", "path", "msgs")}})
    for c, what, detail in viol[:3]:
        chk.violation(what, {"case": {"doc": c["doc"], "origin": c["origin"]}, "detail": detail})
    if not viol:
        for c, kind, m, go, mo in tie[:2]:
            chk.violation("correspondence broken: Go %s a rejected %s the traversal model %s" % ("reports" if go else "does not report", kind, "skips" if go else "reports"),
                          {"theorem_or_correspondence": "place-by-place tie of the C09 traversal model", "case": {"doc": c["doc"], "origin": c["origin"]},
                           "message": m, "go_reports": go, "model_reports": mo})
    if not pf_ok and not viol and not tie:
        chk.violation("proof obligations of C09 no longer check", {"theorem_or_correspondence": pf["failed"]}, no_input=True)
    chk.coverage.update({
        "obligations": pf["obligations"], "discharged": pf["discharged"], "theorems": pf["theorems"],
        "checker_cmd": "make -C coq && coqc -Q theories Verif theories/Properties/C09.v",
        "trusted_base": C.TRUSTED_BASE_COMMON + ["axioms: " + (", ".join(pf["axioms"]) or "none"),
                                                 "the enumeration of the places and of their path names is the harness's transcription of the two walkers (go/cmd/vharness/sites.go); "
                                                 "each value is judged by the exported validator of its own schema (items: hook VerifValidateItems)"],
        "evaluations": 2 * len(recs), "distinct_nontrivial": len(have),
        "rule": "grammar specifications extended with shaped schemas (repeated member names, dotted names, arrays of arrays, tuples, maps of maps, "
                "allOf in allOf) in definitions, body parameters and responses; defaults and examples placed with density 0.2/0.45/0.8 at every "
                "schema place, defaults at simple parameters, headers and their items, per-media-type response examples; values aimed inside "
                "and outside the schema (judged by the schema's own validator); non-trivial = documents whose places could be enumerated",
        "samples": [dict(cases[0]["stats"], origin=cases[0]["origin"]), dict(cases[-1]["stats"], origin=cases[-1]["origin"])],
        "distribution": cov, "tie_mismatches": len(tie),
    })
    chk.assumptions = ["a path built twice inside one group makes the outcome depend on Go's map iteration order: such groups are left out of the tie (counted)"]


def run(chk):
    pf_ok, pf = C.proof_obligations("C09")
    binp = C.build_harness("verif")
    cases = gen(chk.seed + 9, N[chk.tier])
    run_cases(chk, binp, corpus_cases(len(cases)) + cases, pf_ok, pf)


def replay(chk, path):
    payload = json.load(open(path))
    pf_ok, pf = C.proof_obligations("C09")
    binp = C.build_harness("verif")
    if "case" not in payload:
        return run(chk)
    run_cases(chk, binp, [dict(payload["case"], id=0, stats={})], pf_ok, pf)
