"""C17 - Every rejection is explained by well-formed, correctly located errors."""
import json

from .. import common as C
from .. import schemarun as R

LEVEL = "proof"
N = {"quick": 40000, "thorough": 200000}


def has_single_items_or_schema_deps(s):
    """location accuracy is claimed for nesting through properties / patternProperties / additionalProperties /
    tuple items only: single-schema items and schema dependencies are outside the claim"""
    if isinstance(s, dict):
        for k, v in s.items():
            if k == "items" and isinstance(v, dict):
                return True
            if k == "dependencies" and isinstance(v, dict) and any(isinstance(x, dict) for x in v.values()):
                return True
            if k in ("enum", "default"):
                continue
            if has_single_items_or_schema_deps(v):
                return True
    elif isinstance(s, list):
        return any(has_single_items_or_schema_deps(x) for x in s)
    return False


def required_names(s, acc):
    if isinstance(s, dict):
        for k, v in s.items():
            if k == "required" and isinstance(v, list):
                acc.update(x for x in v if isinstance(x, str))
            elif k == "dependencies" and isinstance(v, dict):
                for dv in v.values():
                    if isinstance(dv, list):
                        acc.update(x for x in dv if isinstance(x, str))
                    else:
                        required_names(dv, acc)
            elif k not in ("enum", "default"):
                required_names(v, acc)
    elif isinstance(s, list):
        for x in s:
            required_names(x, acc)


def instance_paths(root, d, req):
    """names that designate a member / element of the instance, or a missing member whose name some schema requires"""
    out = {root}

    def walk(p, v):
        if isinstance(v, dict):
            for k, x in v.items():
                q = (p + "." + k) if p != "" else None
                for cand in ([p + "." + k] + ([k] if p == "" else [])):
                    out.add(cand)
                    walk(cand, x)
            for k in req:
                if k not in v:
                    out.add(p + "." + k)
        elif isinstance(v, list):
            for i, x in enumerate(v):
                out.add("%s.%d" % (p, i))
                walk("%s.%d" % (p, i), x)
    walk(root, d)
    return out


def judge(chk, j, stats):
    c = j["case"]
    g = j["go_raw"]
    one = j["oneshot"]
    failed = False
    if g["outcome"] != "ok":
        return False
    texts = [e["text"] for e in g["errors"]]
    # invalid <-> at least one error
    if g["valid"] != (len(g["errors"]) == 0):
        chk.violation("verdict and error list disagree", {"case": c, "go": g})
        failed = True
    if len(set(texts)) != len(texts):
        chk.violation("the result lists a message twice", {"case": c, "go": g})
        failed = True
    # one-shot: nil or composite 422 listing exactly the messages of the result, without duplicates
    # (AgainstSchema validates at the root path "": with the Swagger-mode options the verdict depends on the path)
    if one["outcome"] == "ok" and not (c.get("swagger") and c.get("root")):
        if one["nil"] != g["valid"]:
            chk.violation("one-shot verdict differs from the result", {"case": c, "go": g, "oneshot": one})
            failed = True
        elif not one["nil"]:
            # AgainstSchema validates with the root path "": message lists are comparable only when the case does too
            bad = one["code"] != 422 or len(set(one["msgs"])) != len(one["msgs"])
            if c.get("root", "") == "" and sorted(one["msgs"]) != sorted(texts):
                bad = True
            if bad:
                chk.violation("composite error does not list exactly the messages of the result",
                              {"case": c, "result_messages": texts, "oneshot": one})
                failed = True
    # names extend the caller's root path
    root = c.get("root", "")
    field_level = [e for e in g["errors"] if 601 <= e["code"] <= 619]
    for e in field_level:
        if c.get("swagger") and e["name"] in ("items", "type"):
            continue
        if not (e["name"] == root or e["name"].startswith(root + ".") or (root == "" and True)):
            chk.violation("error name does not extend the root path", {"case": c, "error": e})
            failed = True
            break
    # location accuracy on the claimed class
    # the class of C17_decided_errors_designate_their_place, decided in Coq on the decoded schema (no single-schema items, no
    # schema dependency below the root or the definitions), or the same class read off the JSON text
    if j.get("located_class") and not c.get("swagger"):
        stats["located_by_theorem"] = stats.get("located_by_theorem", 0) + 1
    if not c.get("swagger") and (j.get("located_class") or not has_single_items_or_schema_deps(c["schema"])) and not c.get("usenumber"):
        stats["located"] += 1
        req = set()
        required_names(c["schema"], req)
        paths = instance_paths(root, c["data"], req)
        for e in field_level:
            if e["name"] not in paths:
                chk.violation("error name designates no member of the instance (nor a missing required one)",
                              {"case": c, "error": e, "some_valid_names": sorted(paths)[:20]})
                failed = True
                break
    return failed


def run_cases(chk, binp, cases, pf_ok, pf):
    J = R.observe(binp, cases)
    stats = {"located": 0}
    tie, distinct = [], set()
    codes = {}
    any_failed = False
    for j in J:
        any_failed |= judge(chk, j, stats)
        g, m = j["go"], j["model"]
        for e in j["go_raw"].get("errors", []):
            codes[e["code"]] = codes.get(e["code"], 0) + 1
        if m is not None and m["outcome"] == "ok" and g["outcome"] == "ok":
            if [tuple(x) for x in g["errors"]] != [tuple(x) for x in m["errors"]] or g["mc"] != m["mc"] or g["nerr"] != m["nerr"]:
                tie.append(j)
            if not g["valid"] and R.schema_nontrivial(j["case"]):
                distinct.add(json.dumps([j["case"]["schema"], j["case"]["data"], j["case"].get("root")], sort_keys=True))
    if tie and not any_failed:
        for j in tie[:2]:
            chk.violation("correspondence broken: Go and the L1 model disagree on the (code, name) set, MatchCount or error count",
                          {"theorem_or_correspondence": "error projection of the schema pipeline tie", "case": j["case"],
                           "go": {k: j["go"][k] for k in ("errors", "mc", "nerr")},
                           "model": {k: j["model"][k] for k in ("errors", "mc", "nerr")}}, no_input=True)
    if not pf_ok and not tie and not any_failed:
        chk.violation("proof obligations of C17 no longer check", {"theorem_or_correspondence": pf["failed"]}, no_input=True)
    chk.coverage.update({
        "obligations": pf["obligations"], "discharged": pf["discharged"], "theorems": pf["theorems"],
        "checker_cmd": "make -C coq && coqc -Q theories Verif theories/Properties/C17.v",
        "trusted_base": C.TRUSTED_BASE_COMMON + ["axioms: " + (", ".join(pf["axioms"]) or "none"),
                                                 "Go errors are classified by go-openapi/errors code and Name, the code-422 messages by their template"],
        "evaluations": len(J), "distinct_nontrivial": len(distinct),
        "rule": "same generators as C01 with random root paths (\"\", \"root\", \"a.b\"); compared projection: set of (code, rendered name), "
                "MatchCount, number of errors, composite error of the one-shot call; non-trivial = invalid verdict on a schema with >= 2 "
                "keywords or nesting; distinct by (schema, instance, root)",
        "samples": [J[i]["case"] for i in (0, len(J) // 2, len(J) - 1)],
        "location_checked": stats["located"], "cases_inside_the_located_class_of_the_theorem": stats.get("located_by_theorem", 0), "tie_mismatches": len(tie),
        "error_code_histogram": {str(k): v for k, v in sorted(codes.items())},
    })
    chk.assumptions = ["location accuracy is checked only where the property claims it (no single-schema items, no schema dependencies)"]


def focus(chk):
    from .. import focusgen as F
    return F.cases(chk.seed + 2007, 1800 if chk.tier == "quick" else 60000)


def run(chk):
    pf_ok, pf = C.proof_obligations("C17")
    binp = C.build_harness("verif")
    cases = R.corpus_cases("C17") + R.corpus_cases("C01") + R.suite_cases() + focus(chk) + R.generate(binp, chk.seed + 2000, N[chk.tier], chk.tier)
    run_cases(chk, binp, cases, pf_ok, pf)


def replay(chk, path):
    payload = json.load(open(path))
    pf_ok, pf = C.proof_obligations("C17")
    binp = C.build_harness("verif")
    if "case" not in payload:
        return run(chk)
    run_cases(chk, binp, [payload["case"]], pf_ok, pf)
