"""C13 - Numeric verdicts depend on the number, not on the Go type that carries it."""
import json
import random
import struct
from fractions import Fraction

from .. import common as C
from .. import schemacmp as S
from .. import simplerun as Q

LEVEL = "proof"
GROUPS = {"quick": 3000, "thorough": 60000}
FLOATS = {"quick": 20000, "thorough": 400000}

INT_KINDS = ["int", "int8", "int16", "int32", "int64", "uint", "uint8", "uint16", "uint32", "uint64"]
VALUES = ["0", "1", "2", "3", "4", "5", "6", "7", "9", "10", "12", "15", "100", "127", "128", "255", "256", "1000", "32767", "65536",
          "2147483647", "2147483648", "4294967295", "4294967296", "999999999999999", "4503599627370496", "9007199254740991",
          "-1", "-2", "-3", "-4", "-7", "-10", "-128", "-129", "-32768", "-2147483648", "-9007199254740991",
          "0.5", "1.5", "2.5", "3.5", "-0.5", "-2.5", "-3.5", "0.25", "7.75", "1024.125", "-1024.125", "0.1", "0.3"]
BOUNDS = ["0", "1", "2", "3", "5", "10", "100", "127", "128", "255", "256", "-1", "-3", "-128", "-129", "0.5", "1.5", "2.5", "3.5",
          "-0.5", "-3.5", "-2.5", "2147483647", "2147483648", "4294967296", "9007199254740991", "-9007199254740991", "7.75", "0.25"]
FACTORS = ["1", "2", "3", "5", "7", "10", "100", "0.5", "1.5", "2.5", "0.25", "0.1", "0.01", "0.001", "0.000001", "0", "-1", "-0.5", "256", "65536"]


def f32_exact(lit):
    f = struct.unpack("f", struct.pack("f", float(lit)))[0]
    return Fraction(f) == Fraction(lit)


def f64_exact(lit):
    return Fraction(float(lit)) == Fraction(lit)


def carriers(lit):
    """every carrier that represents the mathematical value exactly"""
    v = Fraction(lit)
    out = []
    if v.denominator == 1:
        for k in INT_KINDS:
            lo, hi = Q.INT_RANGES[k]
            if lo <= v <= hi:
                out.append({"k": k, "v": str(int(v))})
    if f64_exact(lit):
        out.append({"k": "float64", "v": lit})
        if f32_exact(lit):
            out.append({"k": "float32", "v": lit})
    return out


def exact_verdict(kind, c, excl, lit):
    v, b = Fraction(lit), Fraction(c)
    if kind == "maximum":
        return v < b if excl else v <= b
    if kind == "minimum":
        return v > b if excl else v >= b
    return b > 0 and (v / b).denominator == 1


EDGES = [0, 1, -1, 127, 128, -128, -129, 255, 256, 32767, 32768, 65535, 65536, 2**31 - 1, 2**31, -2**31, -2**31 - 1, 2**32 - 1, 2**32,
         2**53, -2**53, 2**62, 2**63 - 1, 2**63, -2**63, 2**64 - 1]


def edge_groups():
    """every integer edge of a Go carrier against the bounds next to it, inclusive and exclusive, maximum and minimum"""
    out = []
    for e in EDGES:
        for d in (-1, 0, 1):
            b = e + d
            if not f64_exact(str(b)) or abs(b) > 2**64:
                continue
            for kind in ("maximum", "minimum"):
                for excl in (False, True):
                    out.append((kind, str(e), str(b), excl))
        for m in (1, 2, 3, 2**31, 2**32):
            out.append(("multipleOf", str(e), str(m), False))
    # integers that binary64 cannot hold, next to a bound it can: only the exact carriers (int64, uint64, json.Number read as an
    # integer) may carry them, and any detour through float64 shows
    for e in (2**53, -2**53, 2**60, -2**60, 2**62):
        for v in (e + 1, e - 1, e + 3):
            for kind in ("maximum", "minimum"):
                for excl in (False, True):
                    out.append((kind, str(v), str(e), excl))
            out.append(("multipleOf", str(v), "2", False))
    return out


def gen_groups(seed, n):
    rng = random.Random(seed)
    cases = []
    edges = edge_groups()
    for g in range(n + len(edges)):
        if g < len(edges):
            kind, lit, c, excl = edges[g]
        else:
            kind = rng.choice(["maximum", "minimum", "multipleOf"])
            lit = rng.choice(VALUES)
            c = rng.choice(FACTORS if kind == "multipleOf" else BOUNDS)
            if kind != "multipleOf" and rng.random() < 0.35:   # bound at or next to the value
                c = rng.choice([lit, str(Fraction(lit) + 1) if Fraction(lit).denominator == 1 else lit])
                if not f64_exact(c):
                    c = lit
            excl = kind != "multipleOf" and rng.random() < 0.4
        for cv in carriers(lit):
            base = {"group": g, "kind": kind, "c": c, "excl": excl, "val": cv}
            cases.append(dict(base, entry="helper"))
            for tp, fmt in (("number", ""), ("number", "double"), ("integer", "") if Fraction(lit).denominator == 1 else ("number", "float")):
                cases.append(dict(base, entry=rng.choice(["param", "header"]), type=tp, format=fmt))
            cases.append(dict(base, entry="schema", type=rng.choice(["number", ""])))
        # json.Number through the schema validator, with the declared type deciding the conversion
        jtypes = ["number"]
        if Fraction(lit).denominator == 1:
            # edge groups: the integer conversion (exact) and the number conversion (binary64) both; random groups: one of them
            jtypes = ["integer", "number"] if g < len(edges) else [rng.choice(["integer", "number"])]
        for jt in jtypes:
            cases.append({"group": g, "kind": kind, "c": c, "excl": excl, "val": {"k": "jnum", "v": lit}, "entry": "schema-jnum", "type": jt})
    for i, cs in enumerate(cases):
        cs["id"] = i
    return cases


def in_range(c):
    """the property's quantifier: instance and constraint within +-2^53, the constraint exactly representable (multipleOf: <= 6 fractional digits)"""
    b = Fraction(c["c"])
    if abs(b) > 2**53 or abs(Fraction(c["val"]["v"])) > 2**53:
        return False        # instance values and constraints within +-2^53 (beyond: the tie with the model and carrier agreement only)
    if c["kind"] == "multipleOf":
        return (b * 10**6).denominator == 1
    return f64_exact(c["c"])


def go_verdict(rec):
    g = rec["go"]
    if g.get("outcome") != "ok":
        return None, g
    if rec["entry"] == "helper":
        return g["valid"], g
    if rec["entry"] == "simple":
        return (None if g["nil"] else g["valid"]), g
    return g["valid"], g


def model_verdict(rec, out):
    if rec["entry"] == "helper":
        x = C.parse_sx(out)
        return x[0] == 1 if len(x) == 2 else None
    if rec["entry"] == "simple":
        m = Q.model_view(out, rec["strings"])
        return m.get("valid") if m.get("outcome") == "ok" and not m.get("nil") else None
    x = C.parse_sx(out)
    m = S.model_view(C.show_sx(x[0]), rec["strings"])
    return m.get("valid") if m.get("outcome") == "ok" else None


def classify(c, g_valid, exact, g):
    """name of the recorded finding class a deviation belongs to, or None"""
    b = Fraction(c["c"])
    v = Fraction(c["val"]["v"])
    codes = set()
    if isinstance(g, dict):
        for e in g.get("errors", []) or []:
            codes.add(e["code"])
        if g.get("code"):
            codes.add(g["code"])
    if 2001 in codes:
        return "constraint-outside-declared-type"
    if c["kind"] == "multipleOf" and b > 0:
        # binary64 division and the 1e-9 tolerance of swag.IsFloat64AJSONInteger decide, unless value and factor are integers
        # on an integer carrier (exact integer arithmetic)
        if not (c["val"]["k"] in Q.INT_RANGES and b.denominator == 1):
            return "numeric-inexact"
    if c.get("type") == "integer" and c["val"]["k"] in ("float64", "float32", "jnum") and abs(v) >= 2**53 - 1:
        return "numeric-inexact"
    return None


def run_cases(chk, binp, cases, pf_ok, pf, nfloat):
    recs = C.jsonl(C.harness(binp, "num", "run", input="".join(json.dumps(c) + "\n" for c in cases)))
    byid = {c["id"]: c for c in cases}
    by_entry = {}
    for r in recs:
        if "sx" in r:
            by_entry.setdefault(r["entry"], []).append(r)
    mver = {}
    for entry, rs in by_entry.items():
        outs = C.run_model(entry, [r["sx"] for r in rs])
        for r, o in zip(rs, outs):
            mver[r["id"]] = model_verdict(r, o)
    tie, viol, known, judged = [], [], 0, 0
    big = {}
    groups = {}
    dist = {"valid": 0, "invalid": 0, "other": 0}
    for r in recs:
        if "sx" not in r:
            continue
        c = byid[r["id"]]
        gv, g = go_verdict(r)
        dist["valid" if gv is True else "invalid" if gv is False else "other"] += 1
        if mver.get(r["id"]) != gv:
            tie.append((c, g, mver.get(r["id"])))
        if gv is not None and not in_range(c) and c["kind"] != "multipleOf" and abs(Fraction(c["val"]["v"])) <= 2**53 and f64_exact(c["c"]):
            # a very large constraint against a value every carrier holds exactly: the carriers must agree with each other
            big.setdefault(c["group"], []).append((c, gv, g))
        if gv is None or not in_range(c):
            continue
        judged += 1
        exact = exact_verdict(c["kind"], c["c"], c["excl"], c["val"]["v"])
        groups.setdefault(c["group"], set()).add(gv)
        if gv != exact:
            # a recorded finding is a deviation the faithful model reproduces; one the model does not predict is new
            cls = classify(c, gv, exact, g) if mver.get(r["id"]) == gv else None
            if cls is not None and cls in chk.known:
                chk.known_hit.setdefault(cls, "%s %s%s vs %s %s via %s: Go %s, exact %s" % (
                    c["kind"], c["c"], " (exclusive)" if c["excl"] else "", c["val"]["k"], c["val"]["v"], c["entry"], gv, exact))
                known += 1
            else:
                viol.append((c, g, exact, cls))
    for grp, members in sorted(big.items()):
        verdicts = {gv for c, gv, g in members}
        if len(verdicts) > 1:
            exact = exact_verdict(members[0][0]["kind"], members[0][0]["c"], members[0][0]["excl"], members[0][0]["val"]["v"])
            for c, gv, g in members:
                if gv != exact:
                    cls = classify(c, gv, exact, g)
                    if cls is not None and cls in chk.known:
                        continue
                    viol.append((c, g, exact, cls))
                    break
    for c, g, exact, cls in viol[:3]:
        chk.violation("numeric verdict differs from exact arithmetic on the mathematical values",
                      {"case": c, "go": g, "exact_valid": exact, "finding_class": cls})
    if not viol:
        for c, g, m in tie[:2]:
            chk.violation("correspondence broken: Go and the numeric model disagree on the verdict",
                          {"theorem_or_correspondence": "verdict projection of the numeric tie", "case": c, "go": g, "model_valid": m}, no_input=True)
    # float model self-test, bit for bit
    fcases = C.harness(binp, "f64", "gen", ["-seed", str(chk.seed), "-n", str(nfloat)])
    frecs = C.jsonl(C.harness(binp, "f64", "run", input=fcases))
    fouts = C.run_model("f64", [r["sx"] for r in frecs])
    fbad = [(r, o) for r, o in zip(frecs, fouts) if not r.get("nan") and r["obs"] != o]
    for r, o in fbad[:2]:
        chk.violation("correspondence broken: Flocq transcription of a float64 operation differs from Go",
                      {"theorem_or_correspondence": "bit-exact float model", "op": r["op"], "input": r["sx"], "go": r["obs"], "model": o},
                      no_input=not viol)
    if not pf_ok and not viol and not tie and not fbad:
        chk.violation("proof obligations of C13 no longer check", {"theorem_or_correspondence": pf["failed"]}, no_input=True)
    split = sum(1 for s in groups.values() if len(s) > 1)
    chk.coverage.update({
        "obligations": pf["obligations"], "discharged": pf["discharged"], "theorems": pf["theorems"],
        "checker_cmd": "make -C coq && coqc -Q theories Verif theories/Properties/C13.v",
        "trusted_base": C.TRUSTED_BASE_COMMON + ["axioms: " + (", ".join(pf["axioms"]) or "none"),
                                                 "Flocq 4.1.0 binary64 (checked bit for bit against Go on every run: float_ops_checked)",
                                                 "amd64 float->integer conversions are transcribed from observed behaviour"],
        "evaluations": len(recs), "distinct_nontrivial": len(groups),
        "rule": "groups = (constraint kind, constraint literal, exclusive, mathematical value); each group runs the value through every "
                "carrier that represents it exactly (10 integer kinds, float32, float64, json.Number) and through the helper, "
                "parameter/header validators (number / integer / float / double) and schema validation; verdict compared with "
                "exact rational arithmetic and with the model; non-trivial = group inside the property's range; distinct by group",
        "samples": [cases[0], cases[len(cases) // 2], cases[-1]],
        "judged_in_range": judged, "verdict_split": dist, "groups_with_carrier_dependent_verdict": split,
        "known_finding_cases": known, "tie_mismatches": len(tie), "float_ops_checked": len(frecs), "float_ops_mismatches": len(fbad),
    })
    chk.assumptions = ["the mathematical value of a carrier is the decimal literal it was built from (only exactly representable values are generated)"]


def run(chk):
    pf_ok, pf = C.proof_obligations("C13")
    binp = C.build_harness("verif")
    cases = gen_groups(chk.seed, GROUPS[chk.tier])
    run_cases(chk, binp, cases, pf_ok, pf, FLOATS[chk.tier])


def replay(chk, path):
    payload = json.load(open(path))
    pf_ok, pf = C.proof_obligations("C13")
    binp = C.build_harness("verif")
    if "case" not in payload:
        return run(chk)
    c = dict(payload["case"], id=0, group=0)
    run_cases(chk, binp, [c], pf_ok, pf, 100)
