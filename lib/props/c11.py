"""C11 - A panic during one validation does not corrupt later validations."""
import json
import random

from .. import common as C
from .. import poolrun as P

LEVEL = "proof"
EXTRA = {"quick": 250, "thorough": 3000}


def run_cases(chk, binp, cases, pf_ok, pf):
    out = P.run_histories(binp, cases)
    byid = {c["id"]: c for c in cases}
    for r in [r for r in out if r.get("crash")][:2]:
        chk.violation("a validation after a recovered panic took the whole process down (%s)" % r["crash"], {"case": byid[r["id"]], "detail": r.get("detail", "")[-600:]})
    bad = [r for r in out if r["double_redeems"] or r["diffs"]]
    panicked = sum(1 for r in out if r["first_panicked"])
    for r in bad[:3]:
        c = byid[r["id"]]
        what = "after a recovered panic an object was redeemed twice" if r["double_redeems"] else \
            "a validation after a recovered panic differs from its outcome in a fresh process"
        chk.violation(what, {"case": c, "double_redeems": r["double_redeems"], "diffs": (r["diffs"] or [])[:3]})
    if not pf_ok and not bad:
        chk.violation("proof obligations of C11 no longer check", {"theorem_or_correspondence": pf["failed"]}, no_input=True)
    chk.coverage.update({
        "obligations": pf["obligations"], "discharged": pf["discharged"], "theorems": pf["theorems"],
        "checker_cmd": "make -C coq && coqc -Q theories Verif theories/Properties/C11.v",
        "trusted_base": C.TRUSTED_BASE_COMMON + ["axioms: " + (", ".join(pf["axioms"]) or "none"),
                                                 "Go's defer / recover unwinding order is the model's step semantics",
                                                 "redeem notification hook of /repo (build tag verif)"],
        "evaluations": len(out), "distinct_nontrivial": panicked,
        "rule": "fault enumeration: for each workload (fixed format-heavy schemas and random schemas with format-constrained "
                "strings) the number n of checker invocations is measured, then for every k <= n the first call runs with a registry "
                "whose checker panics at its k-th invocation, the panic is recovered, and a battery of follow-up validations "
                "(needing two live objects of each pooled kind) runs in tenure mode and with poisoning on polluted pools; a double "
                "redeem or a follow-up outcome different from its fresh-process outcome is a violation; non-trivial = the injected "
                "panic was actually raised; distinct by (workload, k)",
        "samples": [cases[min(1, len(cases) - 1)]],
        "abort_points_reached": panicked, "cases_with_findings": len(bad),
    })
    chk.assumptions = ["panics are injected at format-checker invocations; the documented invalid-schema panic happens during construction, before any borrow of children is handed to a parent"]


def workloads(binp, seed, n):
    rng = random.Random(seed)
    wl = list(P.FORMAT_WORKLOADS)
    sc, _ = P.call_pool(binp, seed, 20000 if n <= 250 else 200000, 1)
    fmt = [c for c in sc if '"format"' in json.dumps(c["schema"]) and not c.get("noformats") and not c.get("usenumber")]
    rng.shuffle(fmt)
    return wl + fmt[:n]


def gen(binp, seed, n):
    cases = []
    wls = workloads(binp, seed, n)
    # measure the number of checker invocations of each workload
    probe = [{"calls": [{"kind": "oneshot", "schema": w}], "panic_at": 0} for w in wls]
    res = P.run_histories(binp, probe)
    rng = random.Random(seed)
    for w, r in zip(wls, res):
        for k in range(1, r["invocations"] + 1):
            follow = rng.sample(P.FOLLOW_UPS, 3)
            if rng.random() < 0.5:
                follow = follow + follow      # the same follow-ups twice: the second round borrows what the first gave back
            kind = rng.choice(["oneshot", "validator"])
            cases.append({"calls": [{"kind": kind, "schema": w}] + follow, "panic_at": k})
            if '"default"' in json.dumps(w["schema"]):
                # what an object validator notes about members filled from defaults is looked for right after the abort (member
                # order is Go's map order: several runs)
                for _ in range(6):
                    cases.append({"calls": [{"kind": kind, "schema": w}, P.FOLLOW_UPS[0]] + follow[:1], "panic_at": k})
    return cases


def run(chk):
    pf_ok, pf = C.proof_obligations("C11")
    binp = C.build_harness("verif")
    cases = gen(binp, chk.seed + 11, EXTRA[chk.tier])
    for i, c in enumerate(cases):
        c["id"] = i
    run_cases(chk, binp, cases, pf_ok, pf)


def replay(chk, path):
    payload = json.load(open(path))
    pf_ok, pf = C.proof_obligations("C11")
    binp = C.build_harness("verif")
    if "case" not in payload:
        return run(chk)
    run_cases(chk, binp, [dict(payload["case"], id=0)], pf_ok, pf)
