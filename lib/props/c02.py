"""C02 - An accepted Swagger document always satisfies the Swagger 2.0 JSON schema."""
import json
import os

from .. import common as C
from .. import schemarun as R
from .. import specrun as X

LEVEL = "proof"
N = {"quick": (15, 90), "thorough": (150, 1000)}


def regen_swagger20(binp):
    text = C.harness(binp, "sw20", "gen")
    path = os.path.join(C.COQ, "theories", "Gen", "Swagger20.v")
    with C.Lock("coq"):
        old = open(path).read() if os.path.exists(path) else None
        if old != text:
            open(path, "w").write(text)
    return path


def run_cases(chk, binp, cases, pf_ok, pf):
    J = X.observe(binp, cases, with_model=True)
    tie, viol, known, accepted, judged = [], [], 0, 0, 0
    dist = {"accepted": 0, "rejected": 0, "unloadable": 0, "panic": 0}
    for j in J:
        runs = j["runs"]
        stop, cont = runs.get("cont=false,strict=true"), runs.get("cont=true,strict=true")
        if stop is None or stop["outcome"] != "ok" or cont["outcome"] != "ok":
            dist["panic" if (stop and stop["outcome"] == "panic") or (cont and cont["outcome"] == "panic") else "unloadable"] += 1
            continue
        acc = stop["valid"] and cont["valid"]
        dist["accepted" if acc else "rejected"] += 1
        fp, m = j["first_pass"], j["model"]
        if fp is not None and m is not None and m.get("outcome") != "decode-error":
            if R.S.diff(fp, m):
                tie.append(j)
        if j["d4"] is None:
            continue
        judged += 1
        if acc:
            accepted += 1
        if (stop["valid"] or cont["valid"]) and j["d4"] is False:
            cls = [R.CLASS_NAMES[k] for k in j["classes"] if k in (1, 2, 3, 4, 5, 6) and R.CLASS_NAMES[k] in chk.known]
            if cls:
                chk.known_hit.setdefault(cls[0], "accepted document violating the Swagger 2.0 schema: %s" % json.dumps(j["case"].get("file") or j["case"].get("edits") or j["case"].get("origin"))[:200])
                known += 1
            else:
                viol.append(j)
    for j in viol[:3]:
        chk.violation("a document accepted by spec validation violates the Swagger 2.0 JSON schema (draft 4) outside every recorded class",
                      {"case": j["case"], "classes": [R.CLASS_NAMES.get(k, k) for k in j["classes"]],
                       "first_pass_errors": (j["first_pass"] or {}).get("errors")})
    if not viol:
        for j in tie[:2]:
            chk.violation("correspondence broken: the first pass of Go and the L1 model over the Swagger 2.0 schema disagree",
                          {"theorem_or_correspondence": "first-pass projection (verdict, (code,name) set, MatchCount)", "case": j["case"],
                           "go": {k: j["first_pass"].get(k) for k in ("outcome", "valid", "errors", "mc")},
                           "model": {k: j["model"].get(k) for k in ("outcome", "valid", "errors", "mc")}}, no_input=True)
    if not pf_ok and not viol and not tie:
        chk.violation("proof obligations of C02 no longer check (theorems, or the facts about the regenerated Swagger 2.0 schema)",
                      {"theorem_or_correspondence": pf["failed"]}, no_input=True)
    origins = {}
    for j in J:
        o = j["case"].get("origin", "?")
        o = "fixture" if o.startswith("fixtures/") else o
        origins[o] = origins.get(o, 0) + 1
    chk.coverage.update({
        "obligations": pf["obligations"], "discharged": pf["discharged"], "theorems": pf["theorems"],
        "checker_cmd": "vharness sw20 gen > coq/theories/Gen/Swagger20.v && make -C coq && coqc -Q theories Verif theories/Properties/C02.v",
        "trusted_base": C.TRUSTED_BASE_COMMON + ["axioms: " + (", ".join(pf["axioms"]) or "none"),
                                                 "printer of the decoded Swagger 2.0 schema (vharness sw20 gen; same encoder as every schema case)",
                                                 "go-openapi/loads, analysis and spec (loading, $ref expansion) are not modelled"],
        "evaluations": len(J), "distinct_nontrivial": judged,
        "rule": "every specification fixture of /repo (JSON and YAML), grammar documents, and 0..3 structural edits (delete / retype to every "
                "JSON kind incl. null / rename / transplant) of them; each validated in both continue-on-errors modes; the raw document "
                "is judged by the L0 draft-4 function against the Swagger 2.0 schema regenerated from the code, and the first pass of Go is "
                "compared with the L1 model; non-trivial = the document loads and the oracle judged it; distinct by document",
        "samples": [{k: v for k, v in J[0]["case"].items() if k != "doc"}, {k: v for k, v in J[-1]["case"].items() if k != "doc"}],
        "verdict_split": dist, "documents_by_origin": origins, "accepted_and_judged": accepted, "known_finding_cases": known, "tie_mismatches": len(tie),
    })
    chk.assumptions = ["the L0 oracle judges the raw JSON of the document (doc.Raw()), as the first pass does"]


def run(chk):
    binp = C.build_harness("verif")
    sw = regen_swagger20(binp)
    pf_ok, pf = C.proof_obligations("C02", extra_files=[sw, os.path.join(C.COQ, "theories", "Spec", "Swagger20Facts.v")])
    ng, ne = N[chk.tier]
    cases = X.corpus(chk.seed + 2, ng, ne, names=False)
    if chk.tier == "quick":      # a rotating third of the fixtures per seed
        fixtures = [c for c in cases if "file" in c]
        keep = set(c["file"] for i, c in enumerate(fixtures) if (i + chk.seed) % 3 == 0 or "petstore" in c["file"] or "example-property" in c["file"])
        cases = [c for c in cases if "file" not in c or c["file"] in keep]
    # one added member in an otherwise valid document: the only possible offender is the object that received it
    import random
    from .. import specgen as G
    rng = random.Random(chk.seed + 202)
    sg = G.SpecGen(rng)
    for i in range(60 if chk.tier == "quick" else 600):
        d, e = G.single_added_member(sg.spec(), rng)
        cases.append({"doc": d, "origin": "edited", "edits": [e]})
        if i % 2 == 0:
            d, e = G.single_blank_string(sg.spec(), rng)
            if e != "none":
                cases.append({"doc": d, "origin": "edited", "edits": [e]})
    extra = []
    cdir = os.path.join(C.VERIF, "corpus", "C02")
    if os.path.isdir(cdir):
        for f in sorted(os.listdir(cdir)):
            extra += C.jsonl(open(os.path.join(cdir, f)).read())
    run_cases(chk, binp, extra + cases, pf_ok, pf)


def replay(chk, path):
    payload = json.load(open(path))
    binp = C.build_harness("verif")
    sw = regen_swagger20(binp)
    pf_ok, pf = C.proof_obligations("C02", extra_files=[sw, os.path.join(C.COQ, "theories", "Spec", "Swagger20Facts.v")])
    if "case" not in payload:
        return run(chk)
    run_cases(chk, binp, [payload["case"]], pf_ok, pf)
