"""C05 - Concurrent validations are race-free and independent of each other."""
import json

from .. import common as C
from .. import concrun as K

LEVEL = "proof"
N = {"quick": 24, "thorough": 250}


def run_cases(chk, binr, cases, pf_ok, pf):
    recs, races = K.run_race(binr, "conc", cases)
    byid = {c["id"]: c for c in cases}
    bad = [r for r in recs if r["diffs"]]
    ncalls = sum(r["ncalls"] for r in recs)
    for r in bad[:3]:
        chk.violation("a call returned something else than when run alone",
                      {"case": byid[r["id"]], "diffs": r["diffs"][:3]})
    for f in K.FATAL[:2]:
        chk.violation("concurrent validations took the process down (%s)" % f["message"], {"case": f["case"], "fatal": f["message"]})
    for rep in races[:3]:
        chk.violation("data race reported by the race detector", {"race_report": rep, "cases": "conc stream, seed %d" % chk.seed})
    if not pf_ok and not bad and not races and not K.FATAL:
        chk.violation("proof obligations of C05 no longer check", {"theorem_or_correspondence": pf["failed"]}, no_input=True)
    g = [len(c["threads"]) for c in cases]
    chk.coverage.update({
        "obligations": pf["obligations"], "discharged": pf["discharged"], "theorems": pf["theorems"],
        "checker_cmd": "make -C coq && coqc -Q theories Verif theories/Properties/C05.v",
        "trusted_base": C.TRUSTED_BASE_COMMON + ["axioms: " + (", ".join(pf["axioms"]) or "none"),
                                                 "partial: the Go memory model, the code generated for the accesses and the goroutine scheduler are not modelled",
                                                 "Go race detector (harness built with -race), redeem hook with poisoning"],
        "evaluations": ncalls, "distinct_nontrivial": len(recs),
        "rule": "2..64 goroutines, each a seeded program of 2..6 calls: AgainstSchema on private instances over ref-free schemas, calls on "
                "two shared long-lived (non recycling) validators, recycling parameter/header validators, whole-spec validation of "
                "fixture documents in both continue-on-errors modes, validate.Pattern, and SetContinueOnErrors + NewSpecValidator; "
                "GOMAXPROCS 2 or 16, Gosched injected; poisoning on; every outcome compared with the same call alone on fresh pools; "
                "the whole run under the race detector; non-trivial = every run; distinct by run",
        "samples": [{"threads": len(cases[0]["threads"]), "first_program": cases[0]["threads"][0][:2]}],
        "runs": len(recs), "goroutines_min_max": [min(g), max(g)], "race_reports": len(races), "runs_with_outcome_differences": len(bad),
    })
    chk.assumptions = ["schemas shared between goroutines contain no unexpanded $ref (as the property states)"]


def run(chk):
    pf_ok, pf = C.proof_obligations("C05")
    binp = C.build_harness("verif")
    binr = C.build_harness("verif", race=True)
    cases = K.conc_cases(binp, chk.seed + 5, N[chk.tier])
    run_cases(chk, binr, cases, pf_ok, pf)


def replay(chk, path):
    payload = json.load(open(path))
    pf_ok, pf = C.proof_obligations("C05")
    binr = C.build_harness("verif", race=True)
    if "case" not in payload or not isinstance(payload["case"], dict):
        return run(chk)
    run_cases(chk, binr, [dict(payload["case"], id=0)], pf_ok, pf)
