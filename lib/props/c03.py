"""C03 - Spec validation enforces exactly the documented extra rules."""
import copy
import json
import random
import re

from .. import common as C
from .. import specgen as G

LEVEL = "proof"
N = {"quick": 170, "thorough": 2500}

# message template -> rule code of Spec/Rules.v
TEMPLATES = [
    (1, re.compile(r"^spec has no valid path defined$")),
    (2, re.compile(r"^\".*\" contains an empty path parameter$")),
    (3, re.compile(r"^\".*\" is defined \d+ times$")),
    (4, re.compile(r"^duplicate parameter name \".*\" for \".*\" in operation \".*\"$")),
    (5, re.compile(r"^operation \".*\" has both formData and body parameters")),
    (6, re.compile(r"^operation \".*\" has more than 1 body param: ")),
    (7, re.compile(r"^in operation \".*\",path param \".*\" must be declared as required$")),
    (8, re.compile(r"^params in path \".*\" must be unique: ")),
    (9, re.compile(r"^path param \".*\" has no parameter definition$")),
    (10, re.compile(r"^path param \".*\" is not present in path \".*\"$")),
    (11, re.compile(r"is present in required but not defined as property in definition")),
    (12, re.compile(r"^path .* overlaps with .*$")),
    (13, re.compile(r"^pattern \".*\" is invalid in ")),
]
RULE_NAMES = {1: "paths present", 2: "no empty placeholder", 3: "unique operation ids", 4: "unique name and location", 5: "body xor formData",
              6: "at most one body", 7: "path parameters required", 8: "placeholders unique", 9: "placeholder has a parameter",
              10: "path parameter in template", 11: "required properties defined", 12: "no overlapping paths", 13: "patterns valid"}
CONFIGS = ["cont=false,strict=true", "cont=false,strict=false", "cont=true,strict=true", "cont=true,strict=false"]


def codes_of(msgs):
    out = {}
    for m in msgs:
        for code, rx in TEMPLATES:
            if rx.search(m):
                out[code] = out.get(code, 0) + 1
                break
    return out


def gen(seed, n):
    rng = random.Random(seed)
    sg = G.SpecGen(rng)
    cases = []
    for i in range(n):
        d = sg.spec()
        c = {"doc": d, "origin": "grammar", "expect": "valid", "rule": None, "edit": None, "strict_only": False}
        for k in rng.sample(G.HARMLESS, rng.randint(0, 2)):
            k(d, rng)
        if rng.random() < 0.7:
            rule, fn, strict_only = G.BREAKING[G.next_variant("family", len(G.BREAKING))]
            d2 = copy.deepcopy(d)
            what = fn(d2, rng)
            if what is not None:
                c = {"doc": d2, "origin": "grammar + rule-breaking edit", "expect": "invalid", "rule": rule, "edit": what, "strict_only": strict_only}
        cases.append(c)
    for i, c in enumerate(cases):
        c["id"] = i
    return cases


def run_cases(chk, binp, cases, pf_ok, pf):
    recs = C.harness_parallel(binp, "rules", [{k: v for k, v in c.items() if k in ("id", "doc", "file")} for c in cases], shards=14)
    byid = {c["id"]: c for c in cases}
    have = [r for r in recs if "sx" in r]
    outs = C.run_model("rules", [r["sx"] for r in have])
    model = {r["id"]: C.parse_sx(o) for r, o in zip(have, outs)}
    tie, viol = [], []
    fired, per_rule = {}, {}
    for r in recs:
        c = byid[r["id"]]
        runs = r.get("runs")
        if not runs or any(runs[k]["outcome"] != "ok" for k in CONFIGS):
            if runs and any(runs[k]["outcome"] == "panic" for k in CONFIGS):
                viol.append((c, "validation panicked", {k: runs[k].get("panic") for k in CONFIGS}))
            continue
        # property oracle: the rules hold -> no error in any configuration; a rule is broken -> an error as soon as it is broken
        if c["expect"] == "valid":
            for k in CONFIGS:
                if not runs[k]["valid"]:
                    viol.append((c, "every documented rule holds but an error is reported (%s)" % k, runs[k]["errors"][:5]))
                    break
        elif c["expect"] == "invalid":
            per_rule[c["rule"]] = per_rule.get(c["rule"], 0) + 1
            for k in CONFIGS:
                if c["strict_only"] and "strict=false" in k:
                    if not runs[k]["valid"]:
                        viol.append((c, "paths overlap only up to parameter names, path uniqueness is off, but an error is reported (%s)" % k, runs[k]["errors"][:5]))
                    continue
                if runs[k]["valid"]:
                    viol.append((c, "the rule '%s' is broken (%s) but no error is reported (%s)" % (c["rule"], c["edit"], k), []))
                    break
        # tie with the model of the rules: which modelled rules fire, and how often, with continue-on-errors
        m = model.get(r["id"])
        if m is None or m == [-1] or r.get("expansion_failed"):
            continue
        for idx, k in enumerate(CONFIGS):
            if "cont=false" in k and not r.get("first_pass_valid"):
                continue  # validation stopped at the schema pass
            go_codes = codes_of(runs[k]["errors"])
            if "cont=false" in k and sum(go_codes.values()) != len(runs[k]["errors"]):
                continue  # a rule outside the model reported too: where validation stopped is not the model's to say
            mo_codes = {}
            for e in {json.dumps(e) for e in m[idx]}:      # a Result keeps one copy of identical messages
                e = json.loads(e)
                mo_codes[e[0]] = mo_codes.get(e[0], 0) + 1
            for code in mo_codes:
                fired[code] = fired.get(code, 0) + 1
            # overlap messages name the pair in iteration order: compare firing only
            g = {c2: (1 if c2 == 12 else n) for c2, n in go_codes.items()}
            mm = {c2: (1 if c2 == 12 else n) for c2, n in mo_codes.items()}
            if g != mm:
                tie.append((c, k, go_codes, mo_codes, runs[k]["errors"][:8]))
                break
    for c, what, detail in viol[:3]:
        chk.violation(what, {"case": {k: v for k, v in c.items() if k != "id"}, "detail": detail})
    if not viol:
        for c, k, g, m, errs in tie[:2]:
            chk.violation("correspondence broken: the rules Go fires differ from the model of the rules",
                          {"theorem_or_correspondence": "fired-rule projection of the C03 tie (%s)" % k, "case": {kk: v for kk, v in c.items() if kk != "id"},
                           "go_rules": {RULE_NAMES[x]: n for x, n in g.items()}, "model_rules": {RULE_NAMES[x]: n for x, n in m.items()}, "go_errors": errs},
                          no_input=True)
    if not pf_ok and not viol and not tie:
        chk.violation("proof obligations of C03 no longer check", {"theorem_or_correspondence": pf["failed"]}, no_input=True)
    chk.coverage.update({
        "obligations": pf["obligations"], "discharged": pf["discharged"], "theorems": pf["theorems"],
        "checker_cmd": "make -C coq && coqc -Q theories Verif theories/Properties/C03.v",
        "trusted_base": C.TRUSTED_BASE_COMMON + ["axioms: " + (", ".join(pf["axioms"]) or "none"),
                                                 "go-openapi/loads, analysis and spec hand the rule code its inputs (expansion, operations, merged parameters): observed, not modelled"],
        "evaluations": 4 * len(recs), "distinct_nontrivial": len(recs),
        "rule": "specifications from a grammar of paths (0..2 placeholders, two in one segment), operations, parameters of every location "
                "(inline and through #/parameters), responses with headers, definitions with allOf inheritance and $ref; 0..2 harmless edits "
                "(required satisfied through additionalProperties / patternProperties, same name in two locations) and, for 70%, one "
                "rule-breaking edit from a catalogue of 17; all four (continue-on-errors, path-uniqueness) configurations; non-trivial = "
                "every document; distinct by document",
        "samples": [{k: v for k, v in cases[0].items() if k != "doc"}, {k: v for k, v in cases[-1].items() if k != "doc"}],
        "documents_per_broken_rule": per_rule, "model_rules_fired": {RULE_NAMES[k]: v for k, v in sorted(fired.items())},
        "expected_valid": sum(1 for c in cases if c["expect"] == "valid"), "tie_mismatches": len(tie),
    })
    chk.assumptions = ["'assembled from well-formed parts': the grammar documents pass the Swagger 2.0 schema pass and carry valid defaults"]


def run(chk):
    pf_ok, pf = C.proof_obligations("C03")
    binp = C.build_harness("verif")
    run_cases(chk, binp, gen(chk.seed + 3, N[chk.tier]), pf_ok, pf)


def replay(chk, path):
    payload = json.load(open(path))
    pf_ok, pf = C.proof_obligations("C03")
    binp = C.build_harness("verif")
    if "case" not in payload:
        return run(chk)
    run_cases(chk, binp, [dict(payload["case"], id=0)], pf_ok, pf)
