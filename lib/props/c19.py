"""C19 - Pruning removes exactly the members no schema describes."""
import json

from .. import common as C
from .. import postrun as P
from . import c18

LEVEL = "proof"
N = {"quick": 16000, "thorough": 200000}


def uses_alternatives(s):
    return any(k in json.dumps(s) for k in ('"anyOf"', '"oneOf"'))


def judge(j, problems):
    c, g = j["case"], j["go"]
    root = c["schema"]
    P.only_removes(c["data"], g["pruned_json"], "", problems)
    # validating and pruning the pruned data again removes nothing more (when no anyOf / oneOf is involved)
    if not uses_alternatives(root) and g.get("pruned_twice_json") is not None and g["pruned_twice_json"] != g["pruned_json"]:
        problems.append(("", "pruning the pruned data again removed more"))
    if P.in_exact_class(root):
        P.check_prune(P.flatten(root, root), c["data"], g["pruned_json"], root, "", problems)
        return True
    return False


def run(chk):
    pf_ok, pf = C.proof_obligations("C19")
    binp = C.build_harness("verif")
    c18.run_cases(chk, binp, P.generate(binp, chk.seed + 19, N[chk.tier]), pf_ok, pf, pid="C19", which="pruned", judge_fn=judge)


def replay(chk, path):
    payload = json.load(open(path))
    pf_ok, pf = C.proof_obligations("C19")
    binp = C.build_harness("verif")
    if "case" not in payload:
        return run(chk)
    c18.run_cases(chk, binp, [payload["case"]], pf_ok, pf, pid="C19", which="pruned", judge_fn=judge)
