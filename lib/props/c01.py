"""C01 - Schema validation verdicts agree with JSON Schema draft 4."""
import json

from .. import common as C
from .. import schemarun as R

LEVEL = "proof"
N = {"quick": 24000, "thorough": 150000}
NF = {"quick": 14000, "thorough": 80000}      # single-fault cases (lib/focusgen.py)
FINDING_CLASSES = (1, 2, 3, 4, 5, 6)


def verdict(v):
    return None if v is None or v["outcome"] != "ok" else v["valid"]


def precheck_may_fire(d):
    if isinstance(d, dict):
        return "items" in d or d.get("type") == "array" or any(precheck_may_fire(v) for v in d.values())
    if isinstance(d, list):
        return any(precheck_may_fire(v) for v in d)
    return False


def judge(chk, j, stats):
    """property-level oracle on one joined record; returns True when a failure (known or not) was recorded"""
    c = j["case"]
    go = verdict(j["go"])
    failed = False
    # the one-shot entry point and a validator object give the same verdict
    one = j["oneshot"]
    # (AgainstSchema validates at the root path "": with the Swagger-mode options the object validator looks at the path, so a
    # validator built for another root path is another call)
    same_call = not (c.get("swagger") and c.get("root"))
    if same_call and j["go"]["outcome"] == "ok" and one["outcome"] == "ok" and one["nil"] != go:
        chk.violation("AgainstSchema and NewSchemaValidator(...).Validate disagree on the verdict",
                      {"case": c, "validator_valid": go, "oneshot_nil": one["nil"]})
        failed = True
    if c.get("usenumber") or j["d4"] is None or go is None:
        return failed
    if c.get("swagger") and precheck_may_fire(c.get("data")):
        # the Swagger-mode options add two checks of their own on objects that look like schemas (a member "items", or
        # "type": "array"): by design not draft 4; the L1 tie still compares such cases
        stats["swagger_mode_precheck"] = stats.get("swagger_mode_precheck", 0) + 1
        return failed
    cls = j["classes"]
    if any(k >= 100 for k in cls):
        stats["unsupported"] += 1
        return failed
    stats["judged"] += 1
    expect = c.get("expect")
    if expect is not None and expect != j["d4"]:
        # the L0 specification disagrees with the labelled suite: a defect of the machinery, never of the code
        chk.notes.append("L0 differs from the suite label on %s" % c.get("origin"))
    if go != j["d4"] or (expect is not None and go != expect):
        known = [k for k in cls if k in FINDING_CLASSES and R.CLASS_NAMES[k] in chk.known]
        what = "Go verdict %s but draft 4 says %s: schema=%s data=%s" % (
            go, j["d4"], json.dumps(c["schema"])[:300], json.dumps(c["data"])[:120])
        if known:
            chk.known_hit.setdefault(R.CLASS_NAMES[known[0]], what)
            stats["known"] += 1
        else:
            stats["violations"].append(j)
        failed = True
    return failed


def run_cases(chk, binp, cases, pf_ok, pf):
    J = R.observe(binp, cases)
    stats = {"judged": 0, "unsupported": 0, "known": 0, "violations": [], "tie": []}
    dist = {"valid": 0, "invalid": 0, "panic": 0, "other": 0}
    distinct = set()
    for j in J:
        g = j["go"]
        if g["outcome"] == "ok":
            dist["valid" if g["valid"] else "invalid"] += 1
        elif g["outcome"] == "panic":
            dist["panic"] += 1
        else:
            dist["other"] += 1
        failed = judge(chk, j, stats)
        m = j["model"]
        if j.get("in_fragment"):
            stats["in_fragment"] = stats.get("in_fragment", 0) + 1
            # inside the proved fragment the model's verdict is the draft-4 verdict over the same arithmetic (theorem): a
            # difference here means the decision procedure or the extraction is wrong, not the code
            if m is not None and m.get("outcome") == "ok" and j.get("d4f") is not None and m.get("valid") != j["d4f"]:
                chk.violation("the extracted model contradicts the agreement theorem inside its fragment",
                              {"theorem_or_correspondence": "C01_agreement_on_the_clean_fragment_partial vs run_schema", "case": j["case"]}, no_input=True)
        if m is not None and m["outcome"] != "decode-error":
            tie_ok = (m["outcome"] == g["outcome"] or (m["outcome"] == "panic" and g["outcome"] == "panic")) and \
                (g["outcome"] != "ok" or m.get("valid") == g.get("valid"))
            if not tie_ok and not failed:
                stats["tie"].append(j)
        if R.schema_nontrivial(j["case"]) and m is not None and m.get("outcome") == "ok":
            distinct.add(json.dumps([j["case"]["schema"], j["case"]["data"]], sort_keys=True))

    def still_fails(case):
        jj = R.observe(binp, [dict(case)])[0]
        gv = verdict(jj["go"])
        if jj["d4"] is None or gv is None or any(k >= 100 for k in jj["classes"]):
            return False
        if case.get("swagger") and precheck_may_fire(case.get("data")):
            return False
        if any(k in FINDING_CLASSES and R.CLASS_NAMES[k] in chk.known for k in jj["classes"]):
            return False
        return gv != jj["d4"]

    for j in stats["violations"][:3]:
        small = R.shrink_case(j["case"], still_fails)
        jj = R.observe(binp, [dict(small)])[0]
        chk.violation("verdict differs from draft 4 outside every recorded finding class",
                      {"case": small, "go_valid": verdict(jj["go"]), "draft4_valid": jj["d4"],
                       "model_valid": verdict(jj["model"]), "classes": [R.CLASS_NAMES.get(k, k) for k in jj["classes"]]})
    if not stats["violations"]:
        for j in stats["tie"][:2]:
            chk.violation("correspondence broken: Go and the L1 model disagree on the verdict projection",
                          {"theorem_or_correspondence": "verdict projection of the schema pipeline tie",
                           "case": j["case"], "go": j["go"], "model": {k: v for k, v in j["model"].items() if k in ("outcome", "valid", "errors", "mc", "site")},
                           "draft4_valid": j["d4"]}, no_input=True)
        if not pf_ok and not stats["tie"]:
            chk.violation("proof obligations of C01 no longer check", {"theorem_or_correspondence": pf["failed"]}, no_input=True)
    chk.coverage.update({
        "obligations": pf["obligations"], "discharged": pf["discharged"], "theorems": pf["theorems"],
        "checker_cmd": "make -C coq && coqc -Q theories Verif theories/Properties/C01.v",
        "trusted_base": C.TRUSTED_BASE_COMMON + [
            "axioms: " + (", ".join(pf["axioms"]) or "none"),
            "oracles computed by the harness with Go's regexp, utf8 and strfmt.Default, independently of the code under test",
            "definitions environment obtained with spec.ExpandSchema (go-openapi/spec is not modelled)"],
        "evaluations": len(J), "distinct_nontrivial": len(distinct),
        "rule": "corpus + the labelled draft-4 suite instances shipped with /repo + single-fault cases per keyword family (an instance built to "
                "satisfy the schema, one fault planted at a random place; lib/focusgen.py) + random schemas (1..3 keyword groups per level, "
                "depth 1..3, definitions with references under properties/items) with instances derived from the schema (70%) or "
                "random; every case judged by Go, by the L1 model and by the L0 draft-4 function in exact decimal arithmetic; "
                "non-trivial = schema with >= 2 keywords or a nested sub-schema, and the model ran it; distinct by (schema, instance)",
        "samples": [J[i]["case"] for i in (0, len(J) // 2, len(J) - 1)],
        "verdict_split": dist, "judged_against_draft4": stats["judged"], "outside_supported_class": stats["unsupported"],
        "known_finding_cases": stats["known"], "tie_mismatches": len(stats["tie"]),
        "cases_inside_the_proved_fragment": stats.get("in_fragment", 0),
        "keyword_histogram": R.keyword_histogram([j["case"] for j in J]),
    })
    chk.assumptions = ["numbers: the L0 oracle uses exact decimal arithmetic on the literals; the L1 model uses Flocq binary64",
                       "format assertions are delegated to strfmt.Default as the property states"]


def run(chk):
    pf_ok, pf = C.proof_obligations("C01")
    binp = C.build_harness("verif")
    from .. import focusgen as F
    cases = R.corpus_cases("C01") + R.suite_cases() + F.cases(chk.seed + 101, NF[chk.tier]) + R.generate(binp, chk.seed, N[chk.tier], chk.tier)
    run_cases(chk, binp, cases, pf_ok, pf)


def replay(chk, path):
    payload = json.load(open(path))
    pf_ok, pf = C.proof_obligations("C01")
    binp = C.build_harness("verif")
    if "case" not in payload:
        return run(chk)
    run_cases(chk, binp, [payload["case"]], pf_ok, pf)
