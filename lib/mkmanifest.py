#!/usr/bin/env python3
"""Regenerates MANIFEST.json from the table below (kept in one place so that it is always valid)."""
import json
import os

VERIF = os.path.dirname(os.path.dirname(os.path.abspath(__file__)))
props = [json.loads(l) for l in open(os.path.join(VERIF, "properties.jsonl"))]

TB = ("Trusted: Coq 8.16.1 kernel, extraction with ExtrOcamlBasic only, the OCaml driver, the Go harness and python comparison; "
      "the model is hand-written and tied to /repo by the correspondence run (sampled), see DESIGN.md section 7. ")

CLAIMED = {
    "C20": dict(
        text="Coq theorems: the transcription of result.go's AddErrors/AddWarnings/Merge*/Inc/queries refines an ordered-set "
             "specification for every history, with the NoDup invariant, additive MatchCount and the frame property for operands; "
             "tie: extracted model vs Go on random histories, every variable compared after every step.",
        note=TB + "No axioms. The model has value semantics; pointer aliasing between results is looked for by the tie only.",
        tech="Rocq proof (refinement to ordered sets by induction over histories) + extracted-model correspondence",
        ref="DESIGN.md 5/C20"),
    "C01": dict(
        text="Coq: L1 model of the whole schema pipeline (schema.go, type.go, schema_props.go, object/slice validators, values, formats) "
             "and L0 draft-4 function; proved: the agreement theorem L1 verdict = L0 verdict on a decidable fragment (type, enum, numeric, "
             "string keywords, formats next to a numeric type or a type list accepting strings, items / tuple / additionalItems, min/maxItems, "
             "uniqueItems, properties (defaults only on members that are not required) / required / additionalProperties / min/maxProperties, "
             "patternProperties, dependencies, allOf, anyOf, oneOf, not, chains of references and guarded recursive definitions, at every depth; JSON data, with null admitted when the schema has no "
             "allOf/anyOf/oneOf/not and arrays admitted when formats sit next to type lists accepting arrays) for every oracle, environment and "
             "numeric implementation whose order is total and equality symmetric on the numbers involved - by induction on the nesting depth "
             "through every keyword group - and instantiated for the Flocq binary64 instance the tie runs; no IMPORTANT!-tagged error is ever "
             "produced on data without 'headers' members (needed by oneOf); the decision procedure is proved sound and evaluated on every case "
             "(about 76% of the quick run lies inside); the one-shot wrapper = validator verdict; validity of merged results; one refutation "
             "witness per recorded finding class (the unrestricted statement is false of the faithful model). Outside the proved fragment "
             "(formats without or against the type list, patterns that do not compile, null under composition, typed carriers) "
             "agreement is decided per case by the L0 function evaluated in exact arithmetic (partial). Tie: L1 vs Go on verdicts (and all richer observables), and "
             "Go vs L0 in exact decimal arithmetic on every case, classified against the recorded finding classes.",
        note=TB + "Axioms: the agreement theorems are axiom-free; their binary64 instance and the refutation witnesses use Flocq and inherit the stdlib real-number axioms, classic and "
             "functional extensionality (named in DESIGN.md 7). go-openapi/spec's ExpandSchema and the format registry are oracles.",
        tech="Rocq proof (agreement theorem on the clean fragment, wrapper, merge laws, refutation witnesses) + L1/L0 differential correspondence",
        ref="DESIGN.md 5/C01"),
    "C06": dict(
        text="Coq theorem over the L1 pipeline: for every schema, value (JSON, typed, json.Number), options, oracle answers and numeric "
             "implementation, at every fuel, the only panic is the documented unresolvable-reference panic; termination, recursive "
             "definitions included: whenever a rank exists that strictly decreases along the edges that apply a schema to the same value "
             "($ref, allOf, anyOf, oneOf, not, schema dependencies; cycles through items / properties / additional* descend into the value and "
             "are allowed) a verdict is returned once the fuel exceeds depth(value) x (R+1) + rank, by lexicographic induction through every "
             "keyword group; the hypothesis is decided by a procedure proved sound and evaluated on every case (99.9% of the quick run lies "
             "inside, the rest are documented-panic cases); the unguarded composition cycle has no rank and is proved to exhaust every fuel "
             "(recorded finding). Tie: returned/panicked compared on random, malformed, deep and extreme cases through both entry points; "
             "inside the decided class Go must return; the cycle witness is replayed in a child process.",
        note=TB + "No axioms. Termination is proved for every schema with a rank (decided per case) and refuted for the composition cycle: nothing lies between on the model; Go stack/heap exhaustion is not modelled.",
        tech="Rocq proof (panic-freedom by induction on fuel over all keyword groups) + outcome correspondence",
        ref="DESIGN.md 5/C06"),
    "C17": dict(
        text="Coq theorems: valid iff no error; the one-shot wrapper returns nil or exactly the result's errors; message-keyed "
             "de-duplication keeps NoDup and loses nothing; merge validity; every error name is empty or extends the validator's path, "
             "through every keyword group, for every schema, value and fuel (names_extend_the_path); every error designates its place - its name is the path followed by a walk into the value (members the object has, or the missing member required reports; indices the array has) - on every set of schemas closed under sub-schemas and reference targets without single-schema items and schema dependencies (errors_designate_their_place; the class is decided per case, 76% of the quick run inside). Tie: the set of (code, name), MatchCount and error count "
             "of every result compared with the L1 model, whose names reproduce each concatenation site; oracle on Go output: names "
             "extend the root and designate a member (or a missing required one) on the claimed class.",
        note=TB + "No axioms. That a name designates an existing member (or a missing required one) is checked by the oracle on Go output, not proved.",
        tech="Rocq proof (result laws) + error-projection correspondence + location oracle",
        ref="DESIGN.md 5/C17"),
    "C02": dict(
        text="Partial. Coq: the Swagger 2.0 schema the code embeds is regenerated on every run as a term of the model (vharness sw20 gen -> "
             "Gen/Swagger20.v); it decodes, all its references resolve in its environment (vm_compute, re-run every time); the first pass is "
             "the first stage of the orchestration and its errors are never dropped, in both modes: accepted => the first pass (the L1 "
             "pipeline on that schema) reported nothing. The last link (first pass valid => draft-4 valid) is the soundness half of C01, "
             "proved only outside the recorded classes so far, and checked on every document by the L0 oracle. Tie: first pass of Go vs L1 "
             "over the whole Swagger schema (verdict, (code,name) set, MatchCount) on fixtures, grammar documents and structural edits.",
        note=TB + "No axioms in the C02 theorems. go-openapi/loads / analysis / spec are not modelled. Known findings inherited from C01 "
             "(id/$schema exemption, null under composition, numeric tolerance).",
        tech="Rocq proof (regenerated-term lemmas + orchestration monotonicity) + first-pass correspondence + L0 draft-4 oracle on raw documents",
        ref="DESIGN.md 5/C02"),
    "C03": dict(
        text="Coq theorems over a model of the extra rules that consumes the analysed specification (operations, merged parameters, "
             "operation ids, definitions) exactly as spec.go does: the rules report no error iff the documented condition of every "
             "modelled rule holds - unique operation ids, unique name+location, path parameters required, at most one body and never "
             "with form data, placeholders unique and matching the declared path parameters one-to-one, no overlap up to parameter "
             "names when path uniqueness is on, every required name defined (properties, valid patterns, additionalProperties), paths "
             "present without '{}' - for both continue-on-errors settings; the early stop only drops errors; placeholder extraction "
             "finds exactly the well-formed placeholders (two in one segment included) and the stripped form ignores names. Tie: per "
             "document and configuration, the multiset of fired rules of Go (messages mapped to rule codes) equals the model's. The "
             "rules outside the model (arrays declare items, references resolve, inherited duplicates, circular ancestry, parameter "
             "patterns) are decided by the document oracle only: grammar documents must validate, one rule-breaking edit must be reported.",
        note=TB + "No axioms. go-openapi/loads, analysis and spec (expansion, operation enumeration, parameter merging) produce the "
             "model's input and are not modelled; five of the documented rules are outside the model (oracle only).",
        tech="Rocq proof (exactness of each rule and of their conjunction, early-stop inclusion) + fired-rule correspondence + rule-breaking-edit oracle",
        ref="DESIGN.md 5/C03"),
    "C04": dict(
        text="Coq theorems: (generic) a pool client whose fresh run is disciplined - no tenure redeemed twice, no access after the redeem, "
             "every field written before it is read - issues the same commands, reads and outputs the same values on a real pool, for "
             "every initial pool content, every borrow oracle and every length, and the pool never holds an object twice nor a borrowed "
             "one (simulation by induction over steps); the discipline is necessary (witness); (protocol) in the validators' redeem "
             "protocol every validator object of every tree is redeemed exactly once and untouched between use and redeem; (static) the "
             "table of struct fields vs constructor assignments regenerated from /repo by go/ast is complete. Tie: histories of calls "
             "through the recycling entry points in tenure mode (double redeems seen by the hook) and with poisoning on polluted "
             "pools, every outcome compared with the same call alone with recycling off.",
        note=TB + "No axioms. That the Go validators are a disciplined client is established per sampled history (hook) and by the "
             "protocol model, not by a line-by-line proof; the GC emptying sync.Pool is covered by the arbitrary borrow oracle.",
        tech="Rocq proof (pool non-interference by simulation; redeem protocol by induction on trees; regenerated static lemma) + instrumented history correspondence",
        ref="DESIGN.md 5/C04"),
    "C09": dict(
        text="Partial. Coq theorems over a model of the traversal of the default / example validators with its 'already visited' heuristic "
             "(byte-for-byte): only places whose value their schema rejects are reported (no report for an accepted value or a place that "
             "does not exist); every rejected value is reported at every depth when the heuristic is silent on the group's paths and no path "
             "is built twice; the heuristic fires exactly when a dotted tail of the path repeats the end of what precedes it; the unrestricted "
             "statement is refuted on the faithful model (property a of definition a: recorded finding). Tie: the harness enumerates every "
             "place of the document (definitions, body parameters, responses at any depth; simple parameters, headers, their items; response "
             "examples), judges each value with the validator of its own schema, and compares, message by message, what Go's spec validation "
             "reports with what the model reports; converse check: no error / example warning without a rejected value.",
        note=TB + "No axioms. The enumeration of places and path names is the harness's transcription of the walkers (checked by the tie); "
             "the verdict of a schema on a value is the validators' own (C01/C16 cover them).",
        tech="Rocq proof (soundness and conditional completeness of the traversal, heuristic characterisation, refutation witness) + place-by-place correspondence",
        ref="DESIGN.md 5/C09"),
    "C05": dict(
        text="Coq theorems (partial by design): exclusive ownership - two live tenures never share a physical pooled object, for every "
             "client, in particular any merge of the command streams of any number of goroutines; what a disciplined client reads "
             "and outputs is independent of the pool; every access to the package default options happens with the mutex held and "
             "at most one goroutine holds it; a validator's private copy of the options is a value that was set; the regexp cache has "
             "one writer at a time. Tie: 2..64 goroutines with seeded programs (one-shot validation, shared long-lived validators, "
             "parameter validators, whole-spec validation, Pattern, SetContinueOnErrors) under the Go race detector with poisoning "
             "on; zero race reports, and every outcome equal to the same call alone.",
        note=TB + "No axioms. Partial: the Go memory model, the accesses generated by the compiler and the scheduler are not modelled; "
             "'no data race' is proved for the model's access events (atomic pool / mutex / atomic.Value steps) and observed by the race "
             "detector on the sampled schedules.",
        tech="Rocq proof (ownership invariant of the pool simulation; mutex discipline of the shared options and cache, over all interleavings) + race-detector correspondence",
        ref="DESIGN.md 5/C05"),
    "C07": dict(
        text="Partial, by design. Coq theorems over a byte-level transcription of the visited-path heuristic and of the sites that "
             "consume the schema walk's result: the (repaired) parameter site tolerates the nil result; the remaining unguarded site "
             "(response schemas, path = status code or 'default') cannot receive nil because a path without dots is never taken for a "
             "visited one; before the repair a body parameter named a.a dereferenced nil (witness). Tie: every fixture, grammar "
             "documents and structural edits (dotted / empty names, null members, dangling or sibling-carrying references, retyped "
             "members) validated in both modes under recover; the heuristic itself is compared with its model on random paths.",
        note=TB + "No axioms. Panics inside go-openapi/loads, analysis and spec are outside the model; the run exercises them.",
        tech="Rocq proof (nil-result sites of the default/example validators over a byte-level visited-path model) + outcome correspondence on edited documents",
        ref="DESIGN.md 5/C07"),
    "C10": dict(
        text="Coq theorems over the orchestration of SpecValidator.Validate (stage merges with the three stop-early checkpoints, final "
             "warnings bookkeeping, required-definitions loop): errors(stop-early) is a subset of errors(continue) for any stage results; "
             "the bookkeeping leaves errors alone and validity is the absence of errors; returned warnings = attached warnings; with "
             "continue-on-errors the required-definitions messages are the same for every permutation of the definitions; in stop-early "
             "mode the report depends on the order (witness) - the repaired code fixes the order. Tie: each document validated in both "
             "modes, repeated in-process (fresh map orders) and as member-order variants; all five clauses checked on the Go output.",
        note=TB + "No axioms. The stage results themselves are inputs of the orchestration model (the stages are modelled under C03/C09/C02).",
        tech="Rocq proof (orchestration over ordered-set results; permutation invariance) + repetition / variant correspondence",
        ref="DESIGN.md 5/C10"),
    "C08": dict(
        text="Coq theorems: a validator object built without recycling is unchanged by any history of validations and its n-th call "
             "returns what a freshly built validator returns on that value; repetition gives the same; with recycling the object is "
             "single use (the mechanism); message sets and verdicts are independent of the order in which messages were added (map "
             "iteration order). Tie: histories of 4..18 values on schema / parameter / header validators, every call compared with a "
             "fresh validator and with its repetition (verdict + sorted messages), and with the L1 model's verdict and error count.",
        note=TB + "No axioms. Order independence is proved for the message-set operation the validators use, not yet for every loop of the "
             "pipeline (the harness observes different map orders by itself).",
        tech="Rocq proof (state machine of the validator object; permutation invariance of the message set) + history correspondence",
        ref="DESIGN.md 5/C08"),
    "C12": dict(
        text="Partial, by design: a write-effect abstraction. Coq: the model of validation returns a result and no instance data (only "
             "post-processing produces data, and keeps present members); a schema without references is resolved to itself at every "
             "fuel, so the only in-place write of validation (reference expansion) never happens on it. Tie: deep snapshots of the "
             "instance, typed values and reference-free schemas before and after every call, through validator objects and AgainstSchema; "
             "document level: doc.Raw() bytes and the JSON form of doc.Spec() before and after SpecValidator.Validate on fixtures and "
             "grammar documents (accepted, not self-referential: must be unchanged; recorded finding: $ref nodes of definitions expanded "
             "in place by the default / example validators).",
        note=TB + "No axioms. A Go statement writing through an alias the model does not represent is caught only by the snapshots.",
        tech="Rocq proof (effect abstraction: reference-free schemas are never expanded) + before/after snapshot correspondence",
        ref="DESIGN.md 5/C12"),
    "C11": dict(
        text="Coq theorem over the redeem protocol with Go's unwinding semantics: for every validator tree and every abort point k (the "
             "k-th invocation of caller-supplied code panics, deferred functions run innermost first) every validator object is "
             "redeemed exactly once; with the generic pool theorem, later validations are unaffected. Tie: fault enumeration - for "
             "every workload and every k up to the measured number of checker invocations, a panic is injected, recovered, and "
             "follow-up validations are compared with their fresh-process outcomes, in tenure mode and with poisoning.",
        note=TB + "No axioms. The protocol model abstracts each validator to its slots and deferred redeems (schema.go, validator.go, "
             "schema_props.go); results may leak on an abort (allowed), validators may not be pooled twice.",
        tech="Rocq proof (redeem-exactly-once under abort, by mutual induction on validator trees) + fault enumeration over all abort points",
        ref="DESIGN.md 5/C11"),
    "C13": dict(
        text="Coq theorems (Numeric.v): for every numops implementation exact on the values involved, MaximumNativeType / "
             "MinimumNativeType (as transcribed) report an error exactly when the carried rational exceeds / reaches the bound, for all "
             "ten integer kinds and both float widths, hence the verdict is independent of the carrier; MultipleOf with an integral factor "
             "on an integer carrier is integer divisibility; the Flocq binary64 instance is proved to satisfy the exactness interface "
             "(Base/F64Exact.v: order = order of the values, integer value, exact conversion of integers within +-2^53), so the theorems "
             "are also stated of the model that is run against Go. Tie: every (value, constraint) group is run through every exact carrier and "
             "every entry point (helper, parameter, header, schema, json.Number), compared with the Flocq-instantiated model and with "
             "exact rational arithmetic; the Flocq float model is compared with Go bit for bit on 20 000 operations per run.",
        note=TB + "No axioms in the parametric theorems; the binary64 instance theorems inherit the stdlib real-number axioms, classic and "
             "functional extensionality through Flocq. Fractional multipleOf and the integer test are the recorded class numeric-inexact (swag dependency).",
        tech="Rocq proof (carrier independence over an exactness interface) + multi-carrier correspondence + bit-exact float model test",
        ref="DESIGN.md 5/C13"),
    "C14": dict(
        text="Coq theorems: the byte-level transcription of utf8.RuneCountInString counts exactly the code points of every valid UTF-8 "
             "string (all scalar values, any length); Pattern, Required, ReadOnly, FormatOf, MinItems/MaxItems meet their textbook "
             "statements; the UniqueItems scan reports exactly a later element deep-equal to an earlier one; the full statement for "
             "UniqueItems (numerically equal numbers of different types) is refuted by a witness (recorded finding). Tie: 13 helpers on "
             "random arguments incl. invalid UTF-8, typed/untyped nils, all numeric kinds, nested slices, with purity (call twice) and "
             "argument snapshots; model and textbook answers both compared with Go.",
        note=TB + "Axioms: only the refutation witness computes with Flocq (stdlib real-number axioms, classic, funext). reflect's Convert "
             "and DeepEqual are transcribed for the kinds the harness generates (no structs, channels, funcs).",
        tech="Rocq proof (UTF-8 rune counting by case analysis over the encoding, helper specifications) + helper correspondence",
        ref="DESIGN.md 5/C14"),
    "C15": dict(
        text="Coq theorems over a small-step interleaving semantics of compileRegexp / cacheRegexp (atomic load, compile, lock, "
             "re-load, copy + insert keyed by the expression's source text, store, unlock) with any number of threads: in every "
             "reachable state a cache entry is the compilation of its key; every completed call returns the compilation (or the "
             "error) of the very pattern it was asked for; invalid patterns are never cached; entries are never lost or replaced; "
             "one writer at a time. regexp.Compile and String() are parameters with the single assumption source(compile p) = p. "
             "Tie: sequential histories compare every answer with a private regexp.Compile and the cache key set after every "
             "operation; concurrent histories on 1..64 goroutines under the race detector.",
        note=TB + "No axioms. Partial as C05: atomicity of atomic.Value and sync.Mutex operations is the step granularity of the model.",
        tech="Rocq proof (invariant over all interleavings of the cache protocol) + cache-content correspondence + race detector",
        ref="DESIGN.md 5/C15"),
    "C16": dict(
        text="Coq: model of ParamValidator / HeaderValidator / itemsValidator and a declarative reading of the Swagger simple schema "
             "(at every level the draft-4 semantics of its keywords, the declared numeric type and format bounding the value, the "
             "required-and-empty rule); proved: the agreement theorem - the validators' verdict is the reading's verdict, for the "
             "parameter / header and for the items validator at every depth, on a decidable class (no x-nullable, JSON enum values, "
             "compiling pattern, bounds and factor inside the declared type and format, level formats known together with the "
             "parameter's, format next to a numeric type or a value that is not a string/array of another type; decoded JSON values), "
             "for every oracle and numeric implementation with a total order and symmetric equality, instantiated for Flocq binary64; "
             "the decision procedure is proved sound and evaluated on every case (about 40% of the quick run inside); typed values "
             "(int8..uint64 strictly inside +-2^53, float32, typed slices, []interface{} of such) are proved to be judged like the JSON "
             "value they carry, for every numeric implementation exact on the numbers involved (exact_iface of C13 + carrier_iface), "
             "on a decidable class (another 40% of the quick run); the Flocq binary64 instance is proved to satisfy both interfaces "
             "(Base/F64Exact.v, Schema/NumericFlocq.v), so the typed-value agreement holds of the model run against Go, except where an "
             "integer carrier meets a positive integral multipleOf factor that does not divide it (mult_iface assumed; 2.6% of the cases, "
             "counted apart); nil is not validated, every other value is; the first-error exit of the six-validator chain is sound. "
             "Tie: result projection (verdict, (code,name) set, MatchCount, error count) on typed Go values built by reflection, plain "
             "and recycling; inside the class Go's verdict must equal the reading's; outside, failing-input search against an exact "
             "simple-schema oracle with recorded finding classes.",
        note=TB + "The agreement theorems are axiom-free; the binary64 instance inherits the stdlib real-number axioms, classic and functional extensionality through Flocq. "
             "exact_iface and carrier_iface are proved of the Flocq instance; only mult_iface (MultipleOf rejects a non-divisor within +-2^26) is assumed, inside the class. "
             "Outside the classes (x-nullable, uniqueItems / enum over typed elements, the recorded finding classes) the verdict is judged per case by the exact oracle (partial).",
        tech="Rocq proof (agreement with the declarative reading on a decidable class, chain soundness, nil handling) + typed-value correspondence + exact oracle",
        ref="DESIGN.md 12/C16"),
    "C18": dict(
        text="Coq theorems over the model of post.ApplyDefaults on the schemata bookkeeping of a result: a member is added exactly when it "
             "is absent and a schema recorded for (object, member) declares a default, the value is the first such default, it is added "
             "once, present members keep key and value, nothing else appears; the (object, member) records survive every merge variant; the same at "
             "every nesting level with no bound on depth (Schema/PostTree.v: recursion equations, fuel immaterial; the instance is the result with "
             "appended members taken away). "
             "Tie: data after Validate + ApplyDefaults compared with the model on generated object schemas/instances; declarative oracle "
             "(properties / items / allOf / additionalProperties reading of the schema) on valid cases without alternatives.",
        note=TB + "No axioms. That the records equal the declaratively applicable schemas through every keyword is checked by the oracle "
             "and the tie, not yet proved end to end. Object identity = position in the instance tree.",
        tech="Rocq proof (post-processing exactness over the result bookkeeping) + data correspondence + declarative oracle",
        ref="DESIGN.md 5/C18"),
    "C19": dict(
        text="Coq theorems over the model of post.Prune: after pruning, the members of an object are exactly those with a recorded schema, "
             "in order; a member remains iff it was present and described; records are created by mergeForField and survive merges; at every "
             "nesting level (Schema/PostTree.v): pruning only removes members, never deepens a value, and is idempotent for a given result. "
             "Tie: data after Validate + Prune compared with the model; oracle: pruning only removes, removes exactly the undescribed "
             "members on the class without alternatives, and pruning the pruned data again removes nothing (no anyOf/oneOf).",
        note=TB + "No axioms. Idempotence across a second validation is checked on the implementation, not proved.",
        tech="Rocq proof (prune exactness over the result bookkeeping) + data correspondence + declarative oracle",
        ref="DESIGN.md 5/C19"),
}

checks = []
for pid, c in CLAIMED.items():
    checks.append({
        "property_id": pid,
        "quick_cmd": "bin/check %s --tier quick" % pid,
        "thorough_cmd": "bin/check %s --tier thorough" % pid,
        "evidence_file": "/verif/evidence/%s.json" % pid,
        "replay_cmd_template": "bin/check %s --replay {path}" % pid,
        "engine": "coq-model+correspondence",
        "level_claimed": {"category": "proof", "text": c["text"], "design_ref": c["ref"]},
        "level_note": c["note"],
        "technique": c["tech"],
    })
na = [{"property_id": p["id"],
       "reason": "machinery for this property is not built yet in this round (claimed in DESIGN.md; moves to checks when its model, theorems and tie exist)"}
      for p in props if p["id"] not in CLAIMED]
m = {
    "version": 1,
    "setup_cmd": "sh bin/setup",
    "hooks": {"guard": "verif", "enable": "go build -tags verif (and -tags verif,validatedebug for pool checks)",
              "baseline_off_cmd": "cd /repo && go test -vet=off -count=1 -timeout 25m ./...",
              "source_commits": ["6c69608", "41f4605", "712e326", "a91175c"], "add_only": True},
    "engines": [{"name": "coq-model+correspondence", "path": "/verif/coq, /verif/ocaml, /verif/go, /verif/bin/check",
                 "serves_properties": sorted(CLAIMED),
                 "kind_free_text": "Coq 8.16.1 proofs about hand-written Gallina models; models extracted to OCaml and run against the Go implementation on generated cases"}],
    "checks": checks,
    "not_applicable": na,
    "notes": "See DESIGN.md. Every check: make + recompile coq/theories/Properties/<id>.v with Print Assumptions, rebuild the Go harness "
             "from /repo's working tree, run model and implementation on the same cases. KNOWN_FINDINGS lists recorded defects and fixes.",
}
json.dump(m, open(os.path.join(VERIF, "MANIFEST.json"), "w"), indent=1)
print("claimed:", sorted(CLAIMED))
