"""Generators of Swagger 2.0 documents: a grammar of well-formed specifications, rule-breaking edits (C03) and
structural edits (C02 C07), plus the fixture documents shipped with /repo."""
import copy
import glob
import json
import os
import random

from . import common as C

KEY_POOL = ["a", "s", "ns", "a.a", "items", "default", "definitions", "id", "x.y.x", "pet", "Pet", "tag", "é", ""]


def fixture_files():
    out = []
    for pat in ("fixtures/validation/*.json", "fixtures/validation/*.yaml", "fixtures/validation/default/*.json",
                "fixtures/validation/example/*.json", "fixtures/petstore/*.json", "fixtures/bugs/*/*.json", "fixtures/bugs/*/*.yaml",
                "fixtures/bugs/*/*.yml", "fixtures/go-swagger/*.yml", "fixtures/go-swagger/*.json", "fixtures/go-swagger/*/*.yml"):
        out += glob.glob(os.path.join(C.REPO, pat))
    return sorted(set(os.path.relpath(f, C.REPO) for f in out))


def load_json_fixtures(limit_bytes=60000):
    docs = []
    for f in fixture_files():
        if not f.endswith(".json"):
            continue
        p = os.path.join(C.REPO, f)
        if os.path.getsize(p) > limit_bytes:
            continue
        try:
            d = json.load(open(p))
        except Exception:
            continue
        if isinstance(d, dict) and d.get("swagger") == "2.0":
            docs.append((f, d))
    return docs


# ------------------------------------------------------------------ grammar of well-formed specifications

class SpecGen:
    def __init__(self, rng):
        self.rng = rng
        self.opids = 0

    def pick(self, l):
        return self.rng.choice(l)

    def simple_type(self):
        t = self.pick(["string", "integer", "number", "boolean"])
        d = {"type": t}
        if t == "integer" and self.rng.random() < 0.3:
            d["format"] = self.pick(["int32", "int64"])
        if t == "string" and self.rng.random() < 0.3:
            d["format"] = self.pick(["date", "email", "uuid"])
        return d

    def schema(self, depth, defs):
        r = self.rng.random()
        if defs and r < 0.25:
            return {"$ref": "#/definitions/" + self.pick(defs)}
        if depth <= 0 or r < 0.5:
            s = self.simple_type()
            return s
        if r < 0.7:
            return {"type": "array", "items": self.schema(depth - 1, defs)}
        props = {}
        for _ in range(self.rng.randint(1, 3)):
            props[self.pick(["id", "name", "tag", "a", "count"])] = self.schema(depth - 1, defs)
        s = {"type": "object", "properties": props}
        if self.rng.random() < 0.4:
            s["required"] = [self.pick(sorted(props))]
        if self.rng.random() < 0.15:
            s["additionalProperties"] = self.schema(depth - 1, defs)
        return s

    def param(self, loc, name, defs):
        if loc == "body":
            return {"name": name, "in": "body", "schema": self.schema(2, defs)}
        p = {"name": name, "in": loc}
        if self.rng.random() < 0.2:
            p.update({"type": "array", "items": self.simple_type()})
        else:
            p.update(self.simple_type())
        if loc == "path":
            p["required"] = True
        elif self.rng.random() < 0.3:
            p["required"] = True
        return p

    def operation(self, placeholders, shared_params, defs):
        self.opids += 1
        op = {"operationId": "op%d" % self.opids, "responses": {}}
        params = [self.param("path", ph, defs) for ph in placeholders]
        locs = ["query", "header"]
        kind = self.rng.random()
        if kind < 0.3:
            params.append(self.param("body", "body", defs))
        elif kind < 0.5:
            params.append(self.param("formData", "f1", defs))
            op["consumes"] = ["application/x-www-form-urlencoded"]
        for i in range(self.rng.randint(0, 2)):
            params.append(self.param(self.pick(locs), "q%d" % i, defs))
        if shared_params and self.rng.random() < 0.4:
            params.append({"$ref": "#/parameters/" + self.pick(shared_params)})
        self.rng.shuffle(params)
        if params:
            op["parameters"] = params
        for code in self.rng.sample(["200", "201", "404", "default"], self.rng.randint(1, 2)):
            resp = {"description": "r"}
            if self.rng.random() < 0.6:
                resp["schema"] = self.schema(2, defs)
            if self.rng.random() < 0.3:
                resp["headers"] = {"X-Rate": dict(self.simple_type())}
            op["responses"][code] = resp
        return op

    def spec(self):
        self.opids = 0
        defs = {}
        names = self.rng.sample(["Pet", "Tag", "Err", "Base", "Cat"], self.rng.randint(0, 4))
        for i, n in enumerate(names):
            defs[n] = None
        for i, n in enumerate(names):
            earlier = names[:i]
            if earlier and self.rng.random() < 0.4:
                own = {"type": "object", "properties": {"own%d" % i: self.simple_type()}}
                defs[n] = {"allOf": [{"$ref": "#/definitions/" + self.pick(earlier)}, own]}
            else:
                s = self.schema(2, earlier)
                if "$ref" in s:
                    s = {"type": "object", "properties": {"p%d" % i: s}}
                defs[n] = s
        shared = {}
        if self.rng.random() < 0.4:
            shared["limit"] = self.param("query", "limit", [])
        paths = {}
        templates = ["/pets", "/pets/{id}", "/pets/{id}/tags/{tag}", "/files/{a}.{b}", "/v1/{shelf}/books", "/status", "/a/b/c"]
        for t in self.rng.sample(templates, self.rng.randint(1, 4)):
            placeholders = []
            i = 0
            while True:
                j = t.find("{", i)
                if j < 0:
                    break
                k = t.find("}", j)
                placeholders.append(t[j + 1:k])
                i = k + 1
            item = {}
            for m in self.rng.sample(["get", "post", "put", "delete"], self.rng.randint(1, 2)):
                item[m] = self.operation(placeholders, sorted(shared), sorted(defs))
            paths[t] = item
        doc = {"swagger": "2.0", "info": {"title": "t", "version": "1"}, "paths": paths}
        if defs:
            doc["definitions"] = defs
        if shared:
            doc["parameters"] = shared
        return doc


# ------------------------------------------------------------------ structural edits (C02 C07)

def all_paths(doc, prefix=()):
    """every node of a JSON document as a path (tuple of keys / indices)"""
    out = [prefix]
    if isinstance(doc, dict):
        for k, v in doc.items():
            out += all_paths(v, prefix + (k,))
    elif isinstance(doc, list):
        for i, v in enumerate(doc):
            out += all_paths(v, prefix + (i,))
    return out


def get_at(doc, path):
    for k in path:
        doc = doc[k]
    return doc


def set_at(doc, path, value):
    parent = get_at(doc, path[:-1])
    parent[path[-1]] = value


def del_at(doc, path):
    parent = get_at(doc, path[:-1])
    del parent[path[-1]]


RETYPE_VALUES = [None, True, 0, 1.5, "", "x", [], {}, [None], {"$ref": "#/definitions/Nowhere"}, {"$ref": "#/nowhere/x", "description": "sibling"}]


def structural_edit(doc, rng):
    """one random structural edit; returns (doc', description)"""
    d = copy.deepcopy(doc)
    paths = [p for p in all_paths(d) if p]
    if not paths:
        return d, "none"
    p = rng.choice(paths)
    kind = rng.choice(["delete", "retype", "rename", "transplant", "null", "add member", "add member"])
    try:
        if kind == "add member":
            # a member the object does not declare: a vendor extension, an unknown name, a well-known name out of place
            objs = [q for q in [()] + paths if isinstance(get_at(d, q), dict)]
            refs = [q for q in objs if "$ref" in get_at(d, q)]
            q = rng.choice(refs) if refs and rng.random() < 0.4 else rng.choice(objs)
            name = rng.choice(["x-note", "x-", "X-upper", "bogus", "description", "type", "required", "items", "schema", "in", "name", "default"])
            get_at(d, q)[name] = copy.deepcopy(rng.choice(RETYPE_VALUES))
            p = tuple(q) + (name,)
        elif kind == "delete":
            del_at(d, p)
        elif kind == "retype":
            set_at(d, p, copy.deepcopy(rng.choice(RETYPE_VALUES)))
        elif kind == "null":
            set_at(d, p, None)
        elif kind == "rename":
            parent = get_at(d, p[:-1])
            if isinstance(parent, dict):
                v = parent.pop(p[-1])
                parent[rng.choice(KEY_POOL + ["x-" + str(p[-1]), str(p[-1]) + "2"])] = v
            else:
                kind = "retype"
                set_at(d, p, copy.deepcopy(rng.choice(RETYPE_VALUES)))
        else:
            q = rng.choice(paths)
            set_at(d, p, copy.deepcopy(get_at(d, q)))
    except Exception:
        return copy.deepcopy(doc), "none"
    return d, "%s at /%s" % (kind, "/".join(str(x) for x in p))


ADD_NAMES = ["x-note", "x-", "X-upper", "bogus", "description", "type", "required", "items", "schema", "in", "name", "default", "$ref", "id"]


def single_added_member(doc, rng):
    """a valid document with exactly one member added somewhere: names and hosts (reference objects first) taken in turn"""
    d = copy.deepcopy(doc)
    objs = [q for q in [()] + [p for p in all_paths(d) if p] if isinstance(get_at(d, q), dict)]
    refs = [q for q in objs if "$ref" in get_at(d, q)]
    q = rng.choice(refs) if refs and next_variant("added_host", 2) == 0 else rng.choice(objs)
    name = ADD_NAMES[next_variant("added_name", len(ADD_NAMES))]
    host = get_at(d, q)
    if name in host:
        name = "x-other"
    host[name] = copy.deepcopy(rng.choice(["internal", 1, True, None, {"a": 1}, ["x"]]))
    return d, "add member %s at /%s" % (name, "/".join(str(x) for x in q))


WALK_WORDS = ["default", "200", "404", "items", "example", "examples", "properties", "schema", "headers", "allOf", "additionalProperties"]


def collide_names(doc, rng):
    """a body parameter named after a response of its own operation (or after a word the default / example walkers
    append to their paths), both carrying schemas with defaults and examples: the walkers' visited-path bookkeeping
    must keep them apart"""
    d = copy.deepcopy(doc)
    ops = [op for item in d.get("paths", {}).values() if isinstance(item, dict)
           for op in item.values() if isinstance(op, dict) and isinstance(op.get("responses"), dict) and op["responses"]]
    if not ops:
        return d, "none"
    op = rng.choice(ops)
    code = rng.choice(sorted(op["responses"]))
    resp = op["responses"][code]
    if not isinstance(resp, dict) or "$ref" in resp:
        return d, "none"
    sch = {"type": "object", "properties": {"a": {"type": "string", "default": "x", "example": "y"}}}
    if not isinstance(resp.get("schema"), dict):
        resp["schema"] = copy.deepcopy(sch)
    name = code if rng.random() < 0.7 else rng.choice(WALK_WORDS)
    params = op.setdefault("parameters", [])
    if not isinstance(params, list):
        return d, "none"
    body = [p for p in params if isinstance(p, dict) and p.get("in") == "body"]
    if body:
        body[0]["name"] = name
        if not isinstance(body[0].get("schema"), dict):
            body[0]["schema"] = copy.deepcopy(sch)
    else:
        params.append({"name": name, "in": "body", "schema": copy.deepcopy(sch)})
    return d, "body parameter named %r beside the response %r (both with schemas)" % (name, code)


BLANK_FIRST = [("host",), ("basePath",), ("swagger",), ("info", "version"), ("info", "title")]


def single_blank_string(doc, rng):
    """a valid document in which exactly one string leaf is replaced by the empty string (or a blank): keywords such as
    pattern, enum, format and minLength of the Swagger 2.0 schema apply to the empty string too. The fields the schema
    constrains by a pattern come first, in turn; then any string leaf"""
    d = copy.deepcopy(doc)
    d.setdefault("host", "api.example.com")
    d.setdefault("basePath", "/v1")
    k = next_variant("blank_string", len(BLANK_FIRST) + 3)
    if k < len(BLANK_FIRST):
        p = BLANK_FIRST[k]
    else:
        leaves = [q for q in all_paths(d) if q and isinstance(get_at(d, q), str)]
        if not leaves:
            return d, "none"
        p = rng.choice(leaves)
    try:
        if not isinstance(get_at(d, p), str):
            return d, "none"
        new = "" if rng.random() < 0.7 else " "
        set_at(d, p, new)
    except Exception:
        return copy.deepcopy(doc), "none"
    return d, "string at /%s replaced by %r" % ("/".join(str(x) for x in p), new)


def rename_names(doc, rng):
    """rename a parameter / definition / property to a name from the collision-prone pool (dots, empty, ...)"""
    d = copy.deepcopy(doc)
    new = rng.choice(KEY_POOL)
    choice = rng.random()
    try:
        if choice < 0.5:
            ops = [op for item in d.get("paths", {}).values() if isinstance(item, dict) for op in item.values() if isinstance(op, dict)]
            params = [p for op in ops for p in op.get("parameters", []) if isinstance(p, dict) and "name" in p]
            if params:
                rng.choice(params)["name"] = new
                return d, "parameter renamed to %r" % new
        defs = d.get("definitions")
        if isinstance(defs, dict) and defs:
            k = rng.choice(sorted(defs))
            defs[new] = defs.pop(k)
            return d, "definition %s renamed to %r (references left dangling)" % (k, new)
    except Exception:
        pass
    return d, "none"


# ------------------------------------------------------------------ rule-breaking edits (C03)

def _ops(doc):
    out = []
    for path, item in doc.get("paths", {}).items():
        for m, op in item.items():
            if isinstance(op, dict) and "responses" in op:
                out.append((path, m, op))
    return out


def _placeholders(path):
    out, i = [], 0
    while True:
        j = path.find("{", i)
        if j < 0:
            return out
        k = path.find("}", j)
        if k < 0:
            return out
        out.append(path[j + 1:k])
        i = k + 1


_VARIANT = {}


def next_variant(name, n):
    """sub-variants of an edit are taken in turn, so that a short run meets every one of them"""
    _VARIANT[name] = _VARIANT.get(name, -1) + 1
    return _VARIANT[name] % n


def edit_dup_opid(d, rng):
    ops = _ops(d)
    if len(ops) < 2:
        return None
    a, b = rng.sample(ops, 2)
    b[2]["operationId"] = a[2]["operationId"]
    return "operation id %s used twice" % a[2]["operationId"]


def edit_missing_path_param(d, rng):
    cands = [(p, m, op) for p, m, op in _ops(d) if _placeholders(p)]
    if not cands:
        return None
    p, m, op = rng.choice(cands)
    ph = rng.choice(_placeholders(p))
    op["parameters"] = [x for x in op.get("parameters", []) if not (x.get("in") == "path" and x.get("name") == ph)]
    return "placeholder {%s} of %s has no path parameter in %s" % (ph, p, m)


def edit_extra_path_param(d, rng):
    p, m, op = rng.choice(_ops(d))
    op.setdefault("parameters", []).append({"name": "ghost", "in": "path", "required": True, "type": "string"})
    return "path parameter ghost is not in the template %s" % p


def edit_path_param_not_required(d, rng):
    cands = [x for p, m, op in _ops(d) for x in op.get("parameters", []) if x.get("in") == "path"]
    if not cands:
        return None
    x = rng.choice(cands)
    x["required"] = False
    return "path parameter %s is not required" % x["name"]


def edit_dup_placeholder(d, rng):
    d["paths"]["/dup/{id}/x/{id}"] = {"get": {"operationId": "dupPlaceholder", "responses": {"200": {"description": "r"}},
                                              "parameters": [{"name": "id", "in": "path", "required": True, "type": "string"}]}}
    return "placeholder {id} appears twice in one template"


def edit_dup_param(d, rng):
    cands = [(p, m, op) for p, m, op in _ops(d) if [x for x in op.get("parameters", []) if "name" in x]]
    if not cands:
        return None
    p, m, op = rng.choice(cands)
    x = rng.choice([x for x in op["parameters"] if "name" in x])
    y = copy.deepcopy(x)
    y["description"] = "declared again"          # not an identical copy: uniqueItems of the schema pass does not see it
    op["parameters"].append(y)
    return "parameter %s in %s declared twice" % (x["name"], x["in"])


def edit_two_bodies(d, rng):
    p, m, op = rng.choice(_ops(d))
    ps = [x for x in op.get("parameters", []) if x.get("in") not in ("body", "formData")]
    ps += [{"name": "b1", "in": "body", "schema": {"type": "object"}}, {"name": "b2", "in": "body", "schema": {"type": "string"}}]
    op["parameters"] = ps
    return "two body parameters"


def edit_body_and_form(d, rng):
    p, m, op = rng.choice(_ops(d))
    ps = [x for x in op.get("parameters", []) if x.get("in") not in ("body", "formData")]
    ps += [{"name": "b1", "in": "body", "schema": {"type": "object"}}, {"name": "f1", "in": "formData", "type": "string"}]
    op["parameters"] = ps
    return "body and formData parameters together"


def edit_array_no_items(d, rng):
    p, m, op = rng.choice(_ops(d))
    if next_variant("array_no_items", 2) == 0:
        op.setdefault("parameters", []).append({"name": "arr", "in": "query", "type": "array"})
        return "array parameter without items"
    code = rng.choice(sorted(op["responses"]))
    op["responses"][code]["schema"] = {"type": "array"}
    return "array response schema without items"


def edit_required_undefined(d, rng):
    defs = d.setdefault("definitions", {})
    d0 = {"type": "object", "required": ["nope"], "properties": {"there": {"type": "string"}}}
    k = next_variant("required_undefined", 5)
    if k == 1:
        d0["additionalProperties"] = False
    elif k == 2:
        d0["additionalProperties"] = {"type": "object", "properties": {"other": {"type": "string"}}}
    elif k == 3:
        d0["additionalProperties"] = {"type": "object", "additionalProperties": False}
    elif k == 4:
        d0["required"] = ["there", "nope"]
    defs["Req"] = d0
    return "required property nope is not defined (variant %d)" % k


def edit_dangling_ref(d, rng):
    p, m, op = rng.choice(_ops(d))
    code = rng.choice(sorted(op["responses"]))
    op["responses"][code]["schema"] = {"$ref": "#/definitions/Nowhere"}
    return "reference to an undefined definition"


def edit_dup_inherited(d, rng):
    defs = d.setdefault("definitions", {})
    defs["ParentX"] = {"type": "object", "properties": {"shared": {"type": "string"}}}
    # the ancestor is named directly, through a definition that is only a reference to it, through two of them, or is the
    # ancestor of the ancestor
    v = next_variant("dup_inherited", 4)
    target = "#/definitions/ParentX"
    if v == 1:
        defs["AliasX"] = {"$ref": "#/definitions/ParentX"}
        target = "#/definitions/AliasX"
    elif v == 2:
        defs["AliasX"] = {"$ref": "#/definitions/ParentX"}
        defs["AliasY"] = {"$ref": "#/definitions/AliasX"}
        target = "#/definitions/AliasY"
    elif v == 3:
        defs["MiddleX"] = {"allOf": [{"$ref": "#/definitions/ParentX"}, {"type": "object", "properties": {"other": {"type": "string"}}}]}
        target = "#/definitions/MiddleX"
    defs["ChildX"] = {"allOf": [{"$ref": target}, {"type": "object", "properties": {"shared": {"type": "string"}}}]}
    return "child redeclares the property shared of its ancestor (%s)" % ["direct", "through an alias", "through two aliases", "grandparent"][v]


def edit_circular(d, rng):
    defs = d.setdefault("definitions", {})
    defs["CycA"] = {"allOf": [{"$ref": "#/definitions/CycB"}]}
    defs["CycB"] = {"allOf": [{"$ref": "#/definitions/CycA"}]}
    return "circular ancestry"


def edit_bad_pattern(d, rng):
    p, m, op = rng.choice(_ops(d))
    bad = rng.choice(["(", ")<-- bad", "[a-", "a{2,1}", "(?P<n>"])
    k = next_variant("bad_pattern", 4)
    if k == 0:
        op.setdefault("parameters", []).append({"name": "pat", "in": "query", "type": "string", "pattern": bad})
        return "string parameter with an invalid pattern"
    if k == 1:
        op.setdefault("parameters", []).append({"name": "patn", "in": rng.choice(["query", "header"]), "type": rng.choice(["integer", "number", "boolean"]), "pattern": bad})
        return "non-string parameter with an invalid pattern"
    if k == 2:
        code = rng.choice(sorted(op["responses"]))
        op["responses"][code].setdefault("headers", {})["X-Pat"] = {"type": rng.choice(["string", "integer"]), "pattern": bad}
        return "response header with an invalid pattern"
    op.setdefault("parameters", []).append({"name": "pata", "in": "query", "type": "array", "items": {"type": rng.choice(["string", "integer"]), "pattern": bad}})
    return "items of a parameter with an invalid pattern"


def edit_empty_placeholder(d, rng):
    d["paths"]["/empty/{}"] = {"get": {"operationId": "emptyPlaceholder", "responses": {"200": {"description": "r"}}}}
    return "empty placeholder in a path"


def edit_overlap(d, rng):
    # the placeholder alone in its segment, after a literal prefix, before a literal suffix, two in one segment
    shapes = [("/ov/{%s}", 1), ("/ov/v{%s}/meta", 1), ("/ov/id-{%s}", 1), ("/ov/{%s}.json", 1), ("/ov/{%s}-{%s}", 2), ("/ov/x{%s}y/{%s}", 2)]
    shape, n = shapes[next_variant("overlap", len(shapes))]
    made = []
    for names in (("a", "c"), ("b", "e")):
        path = shape % names[:n]
        d["paths"][path] = {"get": {"operationId": "ov" + names[0].upper(), "responses": {"200": {"description": "r"}},
                                    "parameters": [{"name": x, "in": "path", "required": True, "type": "string"} for x in names[:n]]}}
        made.append(path)
    return "overlapping paths %s and %s" % tuple(made)


def edit_body_via_shared(d, rng):
    d.setdefault("parameters", {})["sharedBody"] = {"name": "sb", "in": "body", "schema": {"type": "object"}}
    p, m, op = rng.choice(_ops(d))
    ps = [x for x in op.get("parameters", []) if x.get("in") not in ("body", "formData")]
    ps += [{"$ref": "#/parameters/sharedBody"}, {"name": "inlineBody", "in": "body", "schema": {"type": "object"}}]
    op["parameters"] = ps
    return "a body parameter through #/parameters plus an inline one"


# harmless edits: the rules still hold
def keep_required_via_additional(d, rng):
    d.setdefault("definitions", {})["ViaAdditional"] = {"type": "object", "required": ["anything"], "additionalProperties": True}
    return "required property satisfied through additionalProperties"


def keep_required_via_pattern(d, rng):
    d.setdefault("definitions", {})["ViaPattern"] = {"type": "object", "required": ["x-thing"], "patternProperties": {"^x-": {"type": "string"}}}
    return "required property satisfied through patternProperties"


def keep_required_via_nested_additional(d, rng):
    inner = {"type": "string"}
    v = next_variant("via_nested", 3)
    if v == 1:
        inner["readOnly"] = True      # required and readOnly: a warning, which must not count as "not defined"
    d.setdefault("definitions", {})["ViaNested"] = {"type": "object", "required": ["inner"],
                                                   "additionalProperties": {"type": "object", "properties": {"inner": inner}}}
    if v == 2:
        d["definitions"]["ViaNested"]["additionalProperties"]["readOnly"] = True
    return "required property defined inside the additionalProperties schema" + ["", " (readOnly there)", " (the additionalProperties schema is readOnly)"][v]


def keep_two_placeholders_one_segment(d, rng):
    d["paths"]["/two/{a}-{b}"] = {"get": {"operationId": "twoInOne", "responses": {"200": {"description": "r"}},
                                          "parameters": [{"name": "a", "in": "path", "required": True, "type": "string"},
                                                         {"name": "b", "in": "path", "required": True, "type": "string"}]}}
    return "two placeholders in one path segment"


def keep_near_overlap(d, rng):
    # two paths that differ once the placeholders are replaced - but only just: two placeholders against one in the same
    # segment, adjacent placeholders, a literal around the placeholder, the same template under different literals
    shapes = [(("/near/{a}-{b}", "ab"), ("/near/{c}", "c")), (("/near/{a}{b}", "ab"), ("/near/{c}", "c")),
              (("/near/x{a}", "a"), ("/near/{c}", "c")), (("/near/{a}/x", "a"), ("/near/{c}/y", "c")),
              (("/near/{a}.{b}", "ab"), ("/near/{c}.json", "c")), (("/near/{a}-{b}/z", "ab"), ("/near/{c}/z", "c")),
              (("/near/{a}", "a"), ("/near/{c}/", "c"))]
    for path, names in shapes[next_variant("near_overlap", len(shapes))]:
        d["paths"][path] = {"get": {"operationId": "near" + names.upper(), "responses": {"200": {"description": "r"}},
                                    "parameters": [{"name": x, "in": "path", "required": True, "type": "string"} for x in names]}}
    return "paths that differ after the placeholders are replaced, but only just"


def keep_same_name_other_location(d, rng):
    p, m, op = rng.choice(_ops(d))
    op.setdefault("parameters", []).extend([{"name": "same", "in": "query", "type": "string"}, {"name": "same", "in": "header", "type": "string"}])
    return "same parameter name in two locations"


def edit_bad_items_pattern(d, rng):
    p, m, op = rng.choice(_ops(d))
    code = rng.choice(sorted(op["responses"]))
    op["responses"][code]["schema"] = {"type": "array", "items": {"type": "string", "pattern": "^(unclosed%d$" % rng.randrange(99)}}
    return "items of a response schema with an invalid pattern"


def edit_header_array_no_items(d, rng):
    p, m, op = rng.choice(_ops(d))
    code = rng.choice(sorted(op["responses"]))
    if next_variant("header_no_items", 2) == 0:
        op["responses"][code].setdefault("headers", {})["X-List"] = {"type": "array"}
        return "array header without items"
    op.setdefault("parameters", []).append({"name": "nested", "in": "query", "type": "array", "items": {"type": "array"}})
    return "items of a parameter that are an array without items"


def edit_schema_array_no_items(d, rng):
    p, m, op = rng.choice(_ops(d))
    code = rng.choice(sorted(op["responses"]))
    op["responses"][code]["schema"] = {"type": "array"}
    return "array response schema without items"


def keep_case_variant_names(d, rng):
    p, m, op = rng.choice(_ops(d))
    loc = rng.choice(["query", "header"])
    op.setdefault("parameters", []).extend([{"name": "cursor", "in": loc, "type": "string"}, {"name": "Cursor", "in": loc, "type": "string"}])
    return "two parameters of one location whose names differ in case only"


def keep_same_opid_other_case(d, rng):
    ops = _ops(d)
    if len(ops) < 2:
        return None
    a, b = rng.sample(ops, 2)
    a[2]["operationId"], b[2]["operationId"] = "listThings", "ListThings"
    return "operation ids that differ in case only"


BREAKING = [("unique operation ids", edit_dup_opid, False), ("path parameters match the template", edit_missing_path_param, False),
            ("path parameters match the template", edit_extra_path_param, False), ("path parameters are required", edit_path_param_not_required, False),
            ("placeholders are unique", edit_dup_placeholder, False), ("unique name and location", edit_dup_param, False),
            ("at most one body parameter", edit_two_bodies, False), ("body and formData are exclusive", edit_body_and_form, False),
            ("arrays declare items", edit_array_no_items, False), ("required properties are defined", edit_required_undefined, False),
            ("references resolve", edit_dangling_ref, False), ("no duplicate inherited properties", edit_dup_inherited, False),
            ("no circular ancestry", edit_circular, False), ("patterns are valid", edit_bad_pattern, False),
            ("no empty placeholder", edit_empty_placeholder, False), ("no overlapping paths", edit_overlap, True),
            ("at most one body parameter", edit_body_via_shared, False), ("patterns are valid", edit_bad_items_pattern, False),
            ("arrays declare items", edit_schema_array_no_items, False), ("arrays declare items", edit_header_array_no_items, False)]
HARMLESS = [keep_required_via_additional, keep_required_via_nested_additional, keep_case_variant_names, keep_same_opid_other_case, keep_two_placeholders_one_segment, keep_same_name_other_location, keep_near_overlap]


def ancestry_doc(rng):
    """definitions related by allOf: chains, diamonds and cycles of ancestors, the $ref sometimes wrapped in inline allOf members"""
    n = rng.randint(2, 5)
    names = ["Anc%d" % i for i in range(n)]
    cyclic = rng.random() < 0.5

    def member(target, depth):
        m = {"$ref": "#/definitions/" + target}
        for _ in range(depth):
            m = {"allOf": [m] + ([{"type": "object", "properties": {"w%d" % rng.randrange(99): {"type": "string"}}}] if rng.random() < 0.3 else [])}
        return m
    defs = {}
    for i, nm in enumerate(names):
        members = []
        targets = [names[j] for j in range(i + 1, n) if rng.random() < 0.6]
        if cyclic and i == n - 1:
            targets.append(names[rng.randrange(n)])
        for t in targets:
            members.append(member(t, rng.choice([0, 0, 1, 2])))
        members.append({"type": "object", "properties": {"p%d" % i: {"type": "string"}}})
        rng.shuffle(members)
        defs[nm] = {"allOf": members}
    if rng.random() < 0.3:
        # aliases: definitions that are nothing but a reference, possibly to each other
        k = rng.randint(1, 3)
        alias = ["Alias%d" % i for i in range(k)]
        for i, a in enumerate(alias):
            if rng.random() < 0.25:
                tgt = alias[(i + 1) % k]             # a ring of aliases (or an alias of itself)
            else:
                tgt = rng.choice(names)
            defs[a] = {"$ref": "#/definitions/" + tgt}
        defs[rng.choice(names)]["allOf"].append({"$ref": "#/definitions/" + rng.choice(alias)})
    doc = {"swagger": "2.0", "info": {"title": "ancestry", "version": "1"},
           "paths": {"/p": {"get": {"operationId": "o", "responses": {"200": {"description": "ok", "schema": {"$ref": "#/definitions/" + names[0]}}}}}},
           "definitions": defs}
    return doc, cyclic
