"""Defaults and examples for specifications (C09): values likely inside / outside a schema, at every place that can carry one."""
import copy

NAMES = ["a", "b", "ab", "a.b", "items", "default", "example", "x", "tag", "additionalProperties", "b.a"]


def good_value(s, rng, defs, depth=0):
    """a value meant to be accepted (the harness judges, this only aims)"""
    if "$ref" in s and defs is not None and depth < 4:
        nm = s["$ref"].rsplit("/", 1)[-1]
        if nm in defs:
            return good_value(defs[nm], rng, defs, depth + 1)
        return {}
    if "enum" in s:
        return s["enum"][0]
    t = s.get("type")
    if t == "string":
        f = s.get("format")
        return {"date": "2020-01-02", "email": "a@b.co", "uuid": "a8098c1a-f86e-11da-bd1a-00112444be1e", "date-time": "2020-01-02T03:04:05Z"}.get(f, "abc")
    if t == "integer":
        return 3
    if t == "number":
        return 1.5
    if t == "boolean":
        return True
    if t == "array":
        it = s.get("items")
        if isinstance(it, dict):
            return [good_value(it, rng, defs, depth + 1)]
        if isinstance(it, list):
            return [good_value(x, rng, defs, depth + 1) for x in it]
        return []
    if t == "object" or "properties" in s or "allOf" in s:
        out = {}
        for a in s.get("allOf", []):
            v = good_value(a, rng, defs, depth + 1)
            if isinstance(v, dict):
                out.update(v)
        for k in s.get("required", []):
            if k in s.get("properties", {}):
                out[k] = good_value(s["properties"][k], rng, defs, depth + 1)
            else:
                out[k] = "x"
        return out
    return "anything"


def bad_value(s, rng):
    """a value meant to be rejected: of another type, or the zero value of the right type where a constraint excludes it"""
    t = s.get("type")
    if rng.random() < 0.6:
        if t in ("integer", "number") and (s.get("minimum", 0) > 0 or s.get("exclusiveMinimum")):
            return 0
        if t == "string" and s.get("minLength", 0) > 0:
            return ""
        if t == "boolean" and s.get("enum") == [True]:
            return False
        if t == "array" and s.get("minItems", 0) > 0:
            return []
        if t == "object" and s.get("minProperties", 0) > 0:
            return {}
    if t == "string":
        return 12
    if t in ("integer", "number"):
        return "not a number"
    if t == "boolean":
        return "maybe"
    if t == "array":
        return "not an array"
    if t == "object" or "properties" in s:
        return 7
    if "enum" in s:
        return "not in the enumeration"
    return None


BAD_SHARE = [0.5]
BESIDE_REF = [True]


def value_for(s, rng, defs):
    """(value, aimed) with aimed in good/bad; None when nothing sensible"""
    if rng.random() < BAD_SHARE[0]:
        v = bad_value(s, rng)
        if v is not None:
            return v, "bad"
    return good_value(s, rng, defs), "good"


def schema_places(s, defs, out, depth=0):
    """all sub-schemas of s that are not bare references (a value beside $ref is ignored)"""
    if not isinstance(s, dict) or depth > 12:
        return
    if "$ref" not in s or (BESIDE_REF[0] and id(s) % 4 == 0):
        out.append(s)            # now and then a value next to a $ref as well (the loader keeps it)
    it = s.get("items")
    if isinstance(it, dict):
        schema_places(it, defs, out, depth + 1)
    elif isinstance(it, list):
        for x in it:
            schema_places(x, defs, out, depth + 1)
    if isinstance(s.get("additionalItems"), dict):
        schema_places(s["additionalItems"], defs, out, depth + 1)
    for k, v in (s.get("properties") or {}).items():
        schema_places(v, defs, out, depth + 1)
    ap = s.get("additionalProperties")
    if isinstance(ap, dict):
        schema_places(ap, defs, out, depth + 1)
    for a in s.get("allOf", []) or []:
        schema_places(a, defs, out, depth + 1)


def shaped_schema(rng, depth, members=True):
    """schemas whose walk builds paths with repeated names, nested arrays, maps of maps, allOf in allOf, tuples"""
    r = rng.random()
    if not members and r >= 0.68:
        r = rng.random() * 0.68      # the later members of an allOf declare no properties (no duplicate inherited property)
    if depth <= 0 or r < 0.25:
        if rng.random() < 0.3:      # leaves whose zero value is rejected
            return dict(rng.choice([{"type": "integer", "minimum": 1}, {"type": "string", "minLength": 1}, {"type": "boolean", "enum": [True]},
                                    {"type": "number", "minimum": 0, "exclusiveMinimum": True}, {"type": "array", "minItems": 1, "items": {"type": "string"}},
                                    {"type": "object", "minProperties": 1}]))
        return {"type": rng.choice(["string", "integer", "boolean", "number"])}
    if r < 0.40:
        return {"type": "array", "items": shaped_schema(rng, depth - 1, members)}
    if r < 0.48:
        t = {"type": "array", "items": [shaped_schema(rng, depth - 1, members) for _ in range(rng.randint(1, 2))]}
        if rng.random() < 0.2:
            t["additionalItems"] = shaped_schema(rng, depth - 1, members)     # not Swagger 2.0, but the walkers descend into it
        return t
    if r < 0.58:
        return {"type": "object", "additionalProperties": shaped_schema(rng, depth - 1, members)}
    if r < 0.68:
        return {"allOf": [shaped_schema(rng, depth - 1, members=(i == 0 and members)) for i in range(rng.randint(1, 2))]}
    props = {}
    for _ in range(rng.randint(1, 3)):
        props[rng.choice(NAMES)] = shaped_schema(rng, depth - 1)
    return {"type": "object", "properties": props}


def simple_places(doc):
    """simple parameters, headers and their items chains: (object, container kind)"""
    out = []

    def chain(o, kind):
        out.append((o, kind))
        it = o.get("items")
        while isinstance(it, dict):
            out.append((it, kind + " items"))
            it = it.get("items")
    for p in (doc.get("parameters") or {}).values():
        if p.get("in") != "body" and "type" in p:
            chain(p, "shared simple parameter")
    for item in doc.get("paths", {}).values():
        for m, op in item.items():
            if m == "parameters":
                for p in op:
                    if isinstance(p, dict) and p.get("in") not in (None, "body") and "type" in p:
                        chain(p, "path-level simple parameter")
                continue
            if not isinstance(op, dict):
                continue
            for p in op.get("parameters", []):
                if p.get("in") not in (None, "body") and "type" in p:
                    chain(p, "simple parameter")
            for r in (op.get("responses") or {}).values():
                for h in (r.get("headers") or {}).values():
                    chain(h, "header")
    return out


def body_and_response_schemas(doc):
    out = []
    for p in (doc.get("parameters") or {}).values():
        if p.get("in") == "body" and "schema" in p:
            out.append(p["schema"])
    for r in (doc.get("responses") or {}).values():
        if "schema" in r:
            out.append(r["schema"])
    for item in doc.get("paths", {}).values():
        for m, op in item.items():
            if not isinstance(op, dict):
                continue
            for p in op.get("parameters", []):
                if p.get("in") == "body" and "schema" in p:
                    out.append(p["schema"])
            for r in (op.get("responses") or {}).values():
                if "schema" in r:
                    out.append(r["schema"])
    return out


def decorate(doc, rng, density=0.45, simple_examples=False, bad_share=0.5):
    """adds shaped definitions / bodies / responses, then defaults and examples at every kind of place; returns statistics"""
    BAD_SHARE[0] = bad_share
    defs = doc.setdefault("definitions", {})
    stats = {"default": 0, "example": 0, "aimed_bad": 0, "response_examples": 0}
    for _ in range(rng.randint(1, 3)):
        # (a definition called "items" trips the items-must-be-an-array precheck of the schema pass: not a name used here)
        defs[rng.choice([n for n in NAMES if n != "items"]) if rng.random() < 0.7 else "D%d" % rng.randrange(9)] = shaped_schema(rng, 3)
    ops = [op for item in doc.get("paths", {}).values() for m, op in item.items() if isinstance(op, dict) and "responses" in op]
    for op in ops:
        if rng.random() < 0.35:
            ps = [p for p in op.get("parameters", []) if p.get("in") not in ("body", "formData")]
            nm = rng.choice(NAMES + ["body"])
            ps.append({"name": nm, "in": "body", "schema": shaped_schema(rng, 3)})
            op["parameters"] = ps
            op.pop("consumes", None)
        for code, r in op["responses"].items():
            if rng.random() < 0.3:
                r["schema"] = shaped_schema(rng, 3)
            if rng.random() < 0.25:
                r.setdefault("headers", {})[rng.choice(["X-A", "X-B", "a.a"])] = rng.choice([
                    {"type": "array", "items": {"type": "integer"}},
                    {"type": "array", "items": {"type": "array", "items": {"type": "string"}}},
                    {"type": "string"}])
        if rng.random() < 0.3:
            op.setdefault("parameters", []).append({"name": rng.choice(["arr", "a.a", "q9"]), "in": "query", "type": "array",
                                                    "items": rng.choice([{"type": "integer"}, {"type": "array", "items": {"type": "boolean"}}])})
    places = []
    for d in defs.values():
        schema_places(d, defs, places)
    for s in body_and_response_schemas(doc):
        schema_places(s, defs, places)
    for s in places:
        for kind in ("default", "example"):
            if rng.random() < density:
                v, aimed = value_for(s, rng, defs)
                s[kind] = v
                stats[kind] += 1
                stats["aimed_bad"] += aimed == "bad"
    for o, kind in simple_places(doc):
        for k in ("default", "example"):
            if k == "example" and not simple_examples:
                continue     # the Swagger 2.0 schema forbids example beside a simple parameter or header
            if k == "default" and o.get("required") and o.get("in") == "path":
                continue
            if rng.random() < density:
                v, aimed = value_for(o, rng, None)
                o[k] = v
                stats[k] += 1
                stats["aimed_bad"] += aimed == "bad"
    for op in ops:
        for code, r in op["responses"].items():
            if "schema" in r and rng.random() < 0.3:
                v, aimed = value_for(r["schema"], rng, defs)
                mt = "application/json" if rng.random() < 0.85 else "text/plain"
                r["examples"] = {mt: v}
                stats["response_examples"] += 1
                stats["aimed_bad"] += aimed == "bad"
    return stats
