"""Runner for whole-specification validation cases."""
import json
import random
import re

from . import common as C
from . import schemacmp as S
from . import schemarun as R
from . import specgen as G


def observe(binp, cases, with_model=False, shards=14):
    for i, c in enumerate(cases):
        c["id"] = i
    # a shard that gives no answer within 15 minutes is re-run case by case (60 s each): a validation that never returns is found
    recs = C.harness_parallel(binp, "spec", cases, shards=shards, timeout=900, crash_timeout=60)
    byid = {r["id"]: r for r in recs}
    out = []
    have = [r for r in recs if "sx" in r] if with_model else []
    outs = C.run_model("schema", [r["sx"] for r in have]) if have else []
    mv = {}
    for r, o in zip(have, outs):
        x = C.parse_sx(o)
        if x == [-1]:
            continue
        classes = list(x[3])
        if x[1] != x[2]:
            classes.append(5)
        mv[r["id"]] = {"model": S.model_view(C.show_sx(x[0]), r["strings"]), "d4": {1: True, 0: False}.get(x[1]), "classes": classes}
    for c in cases:
        r = byid.get(c["id"])
        if r is None:
            continue
        j = {"case": c, "rec": r, "runs": r.get("runs", {}), "first_pass": S.go_view(r["first_pass"]) if r.get("first_pass") else None}
        j.update(mv.get(c["id"], {"model": None, "d4": None, "classes": []}))
        out.append(j)
    return out


def corpus(seed, n_grammar, n_edits, edits_per_doc=(0, 3), names=True):
    """fixture documents, grammar documents, and structurally edited versions of both"""
    rng = random.Random(seed)
    cases = [{"file": f, "origin": f} for f in G.fixture_files()]
    base = [d for _, d in G.load_json_fixtures()]
    gen = G.SpecGen(rng)
    grammar = [gen.spec() for _ in range(n_grammar)]
    for d in grammar:
        cases.append({"doc": d, "origin": "grammar"})
    pool = base + grammar
    for _ in range(n_edits):
        d = rng.choice(pool)
        edits = []
        for _ in range(rng.randint(*edits_per_doc)):
            if names and rng.random() < 0.3:
                d, e = G.rename_names(d, rng)
            else:
                d, e = G.structural_edit(d, rng)
            edits.append(e)
        if isinstance(d, dict):
            cases.append({"doc": d, "origin": "edited", "edits": edits})
    return cases


CYCLE_RE = re.compile(r"definition \S+ has circular ancestry: .*")


def normalise(msgs):
    """message sets up to which member of a cycle a circular-ancestry message names"""
    return sorted(set(CYCLE_RE.sub("definition <cycle member> has circular ancestry", m) for m in msgs))
