"""Single-fault cases for the schema pipeline (C01 and the properties that share its harness): for each keyword family a
schema, an instance built to satisfy it, and - for most cases - exactly one fault planted at a random place (a boundary
crossed by one, one element of the wrong type, one member missing / null / unknown).  The judgement is not made here:
the L0 draft-4 function of the model is the oracle."""
import copy
import random

TYPES = ["string", "integer", "number", "boolean", "array", "object", "null"]
LEAVES = ["string", "integer", "number", "boolean"]


def val(t, rng, k=0):
    """a value of JSON type t"""
    if t == "string":
        return rng.choice(["a", "bc", "héé", "x-y", "日本", ""]) + ("%d" % k if k else "")
    if t == "integer":
        return rng.choice([0, 1, -3, 7, 42, 1000]) + k
    if t == "number":
        return rng.choice([0.5, -1.25, 3.75, 100.5]) + k
    if t == "boolean":
        return rng.random() < 0.5
    if t == "array":
        return [k, "e"]
    if t == "object":
        return {"k": k}
    return None


def other(t, rng):
    """a value that is not of type t"""
    c = [x for x in TYPES if x != t and not (t == "number" and x == "integer")]
    return val(rng.choice(c), rng)


def leaf(rng):
    return {"type": rng.choice(LEAVES)}


def tuple_case(rng):
    k = rng.randint(0, 3)
    items = [leaf(rng) for _ in range(k)]
    s = {"items": items}
    extra_t = None
    r = rng.random()
    if r < 0.45:
        extra = leaf(rng)
        s["additionalItems"] = extra
        extra_t = extra["type"]
    elif r < 0.65:
        s["additionalItems"] = False
    elif r < 0.8:
        s["additionalItems"] = True
    n = rng.randint(max(0, k - 1), k + 3)
    data = []
    for i in range(n):
        t = items[i]["type"] if i < k else (extra_t or rng.choice(LEAVES))
        data.append(val(t, rng, i))
    if data and rng.random() < 0.7:
        i = rng.randrange(len(data))
        t = items[i]["type"] if i < k else (extra_t or "string")
        data[i] = other(t, rng)
    return s, data, "tuple items / additionalItems"


def items_case(rng):
    t = rng.choice(LEAVES)
    s = {"type": "array", "items": {"type": t}}
    if rng.random() < 0.4:
        s["items"] = {"type": "array", "items": {"type": t}}
        data = [[val(t, rng, i + j) for j in range(rng.randint(0, 3))] for i in range(rng.randint(0, 4))]
        if data and rng.random() < 0.7:
            i = rng.randrange(len(data))
            if data[i] and rng.random() < 0.7:
                data[i][rng.randrange(len(data[i]))] = other(t, rng)
            else:
                data[i] = other("array", rng)
        return s, data, "items (nested)"
    data = [val(t, rng, i) for i in range(rng.randint(0, 5))]
    if data and rng.random() < 0.7:
        data[rng.randrange(len(data))] = other(t, rng)
    return s, data, "items"


def object_case(rng):
    names = rng.sample(["a", "b", "c", "id", "x-1", "né"], rng.randint(1, 4))
    props = {n: leaf(rng) for n in names}
    s = {"properties": props}
    if rng.random() < 0.5:
        s["type"] = "object"
    req = [n for n in names if rng.random() < 0.5]
    if req or rng.random() < 0.2:
        s["required"] = req + (["zz"] if rng.random() < 0.15 else [])
    ap = rng.random()
    ap_t = None
    if ap < 0.3:
        s["additionalProperties"] = False
    elif ap < 0.55:
        e = leaf(rng)
        s["additionalProperties"] = e
        ap_t = e["type"]
    elif ap < 0.65:
        s["additionalProperties"] = True
    pat_t = None
    if rng.random() < 0.35:
        e = leaf(rng)
        s["patternProperties"] = {"^p-": e}
        pat_t = e["type"]
    data = {n: val(props[n]["type"], rng) for n in names if n in req or rng.random() < 0.7}
    if pat_t and rng.random() < 0.7:
        data["p-1"] = val(pat_t, rng)
    if ap_t and rng.random() < 0.6:
        data["extra"] = val(ap_t, rng)
    fault = rng.random()
    if fault < 0.12 and req:
        data.pop(rng.choice(req), None)
    elif fault < 0.24 and data:
        n = rng.choice(sorted(data))
        data[n] = None
    elif fault < 0.36:
        data["unknown"] = val(rng.choice(LEAVES), rng)
    elif fault < 0.48 and names:
        n = rng.choice(names)
        data[n] = other(props[n]["type"], rng)
    elif fault < 0.58 and pat_t:
        data["p-2"] = other(pat_t, rng)
    elif fault < 0.68 and ap_t:
        data["extra2"] = other(ap_t, rng)
    elif fault < 0.74:
        data["$schema"] = 1
    return s, data, "properties / required / additionalProperties / patternProperties"


def dependencies_case(rng):
    s = {"dependencies": {}}
    triggers = rng.sample(["a", "c", "e", "g"], rng.randint(1, 4))
    for t in triggers:
        if rng.random() < 0.5:
            s["dependencies"][t] = rng.sample(["b", "d", "f"], rng.randint(1, 2))
        else:
            s["dependencies"][t] = {"required": [rng.choice(["b", "d", "f"])], "properties": {"b": leaf(rng)}}
    data = {}
    for n in ("a", "b", "c", "d", "e", "f", "g"):
        r = rng.random()
        if n in triggers and r < 0.85:
            data[n] = val(rng.choice(LEAVES), rng)
        elif r < 0.55:
            data[n] = val(rng.choice(LEAVES), rng)
        elif r < 0.65:
            data[n] = None
    if rng.random() < 0.08:
        data = rng.choice([[], "a", 3])
    return s, data, "dependencies"


def bounds_case(rng):
    integer = rng.random() < 0.5
    b = rng.choice([0, 1, -5, 10, 2.5, -0.5, 100, 1e3]) if not integer else rng.choice([0, 1, -5, 10, 100])
    s = {}
    if rng.random() < 0.6:
        s["type"] = "integer" if integer else "number"
    kw = rng.choice(["maximum", "minimum"])
    s[kw] = b
    if rng.random() < 0.4:
        s["exclusive" + kw[0].upper() + kw[1:]] = rng.random() < 0.7
    if rng.random() < 0.3:
        s["minimum" if kw == "maximum" else "maximum"] = b + rng.choice([-1, 0, 1, 0.5]) * (1 if kw == "minimum" else -1)
    d = b + rng.choice([-1, -0.5, 0, 0, 0.5, 1, -1e-9, 1e-9])
    if integer and rng.random() < 0.7:
        d = int(b) + rng.choice([-1, 0, 1])
    return s, d, "maximum / minimum"


def multiple_case(rng):
    m = rng.choice([1, 2, 3, 5, 0.5, 0.25, 0.1, 0.01, 1.5, 7])
    k = rng.choice([0, 1, 2, 3, -4, 10, 33, 1000])
    d = k * m
    if rng.random() < 0.45:
        d = d + rng.choice([m / 2, 1, -1, 0.1, m / 4]) if m != 1 else d + 0.5
    s = {"multipleOf": m}
    if rng.random() < 0.4:
        s["type"] = rng.choice(["integer", "number"])
    return s, d, "multipleOf"


def string_case(rng):
    base = rng.choice(["abc", "héllo", "日本語", "a", "", "x-y-z", "😀😀"])
    n = len(base)
    s = {}
    r = rng.random()
    if r < 0.35:
        s["maxLength"] = n + rng.choice([-1, 0, 0, 1])
    elif r < 0.7:
        s["minLength"] = n + rng.choice([-1, 0, 0, 1])
    else:
        s["pattern"] = rng.choice(["^a", "c$", "^[a-z]+$", "é", "^$", "^.{3}$", "x-"])
    if "maxLength" in s and s["maxLength"] < 0:
        s["maxLength"] = 0
    if "minLength" in s and s["minLength"] < 0:
        s["minLength"] = 0
    if rng.random() < 0.4:
        s["type"] = "string"
    d = base if rng.random() < 0.9 else rng.choice([3, None, [base]])
    return s, d, "maxLength / minLength / pattern"


def enum_case(rng):
    pool = [1, 1.0, 2, "1", "a", True, False, None, [1], [1.0], [1, 2], {"a": 1}, {"a": 1, "b": 2}, {"b": 2, "a": 1}, 0, 0.0, "", [], {}]
    en = rng.sample(pool, rng.randint(1, 4))
    s = {"enum": en}
    d = copy.deepcopy(rng.choice(en)) if rng.random() < 0.5 else copy.deepcopy(rng.choice(pool))
    if rng.random() < 0.2:
        s["type"] = rng.choice(TYPES)
    return s, d, "enum"


def unique_case(rng):
    pool = [1, 2, 3, 1.0, "1", "a", "b", True, None, [1], [1.0], [2], {"a": 1}, {"a": 1, "b": 2}, {"b": 2, "a": 1}, {"a": 2}]
    n = rng.randint(0, 5)
    data = [copy.deepcopy(x) for x in rng.sample(pool, min(n, len(pool)))]
    if len(data) >= 1 and rng.random() < 0.5:
        i = rng.randrange(len(data))
        data.insert(rng.randrange(len(data) + 1), copy.deepcopy(data[i]))
    s = {"uniqueItems": rng.random() < 0.9}
    return s, data, "uniqueItems"


def size_case(rng):
    n = rng.randint(0, 4)
    if rng.random() < 0.5:
        kw = rng.choice(["minItems", "maxItems"])
        d = [i for i in range(n)]
    else:
        kw = rng.choice(["minProperties", "maxProperties"])
        d = {"k%d" % i: i for i in range(n)}
    s = {kw: max(0, n + rng.choice([-1, 0, 0, 1]))}
    return s, d, "minItems / maxItems / minProperties / maxProperties"


def composition_case(rng):
    kw = rng.choice(["allOf", "anyOf", "oneOf", "not"])
    pool = [{"type": "integer"}, {"type": "number"}, {"type": "string"}, {"minimum": 2}, {"maximum": 5}, {"multipleOf": 2},
            {"minLength": 2}, {"enum": [1, 2, "ab"]}, {"type": "object", "required": ["a"]}, {"type": "array", "minItems": 1}, {}]
    if kw == "not":
        s = {"not": copy.deepcopy(rng.choice(pool))}
    else:
        s = {kw: [copy.deepcopy(x) for x in rng.sample(pool, rng.randint(1, 4))]}
    if rng.random() < 0.25:
        s["type"] = rng.choice(["integer", "string", "number"])
    d = rng.choice([1, 2, 3, 4, 6, 7, 2.5, "a", "ab", "abc", None, {"a": 1}, {}, [], [1]])
    return s, d, kw


def null_case(rng):
    s = rng.choice([{"type": "null"}, {"type": ["string", "null"]}, {"properties": {"a": {"type": "null"}}}, {"items": {"type": ["null", "integer"]}},
                    {"enum": [None, 1]}, {"required": ["a"]}, {"properties": {"a": {"type": "string"}}}, {"additionalProperties": {"type": "string"}},
                    {"type": "object", "properties": {"a": {"enum": [None]}}}])
    d = rng.choice([None, {"a": None}, [None], [None, 1], {"a": "x"}, {"b": None}, 1, "x"])
    return copy.deepcopy(s), d, "null"


FAMILIES = [tuple_case, items_case, object_case, dependencies_case, bounds_case, multiple_case, string_case, enum_case, unique_case,
            size_case, composition_case, null_case]


def wrap(s, rng):
    """the same schema behind a reference, under a member, or inside an array"""
    r = rng.random()
    if r < 0.12:
        return {"definitions": {"d": s}, "$ref": "#/definitions/d"}, None
    if r < 0.22:
        return {"definitions": {"d": s}, "properties": {"m": {"$ref": "#/definitions/d"}}}, "member"
    if r < 0.30:
        return {"type": "object", "properties": {"m": s}}, "member"
    if r < 0.36:
        return {"items": s}, "element"
    if r < 0.40:
        return {"allOf": [s]}, None
    return s, None


def cases(seed, n):
    rng = random.Random(seed)
    out = []
    for i in range(n):
        fam = FAMILIES[i % len(FAMILIES)]
        s, d, name = fam(rng)
        s, how = wrap(s, rng)
        if how == "member":
            d = {"m": d} if rng.random() < 0.9 else {"other": d}
        elif how == "element":
            d = [d] * rng.randint(0, 2) + [d]
        out.append({"schema": s, "data": d, "origin": "single-fault: " + name})
    return out
