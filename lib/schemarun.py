"""Shared runner for the schema-level properties (C01 C06 C17 ...): cases -> Go observations,
L1 model outputs, draft-4 (L0) verdicts and finding classes."""
import glob
import json
import os

from . import common as C
from . import schemacmp as S

CLASS_NAMES = {1: "nil-under-composition", 2: "schema-id-exempt", 3: "required-by-default", 4: "type-format-shortcut",
               5: "numeric-inexact", 6: "empty-tuple",
               101: "unsupported:format-without-type", 102: "unsupported:invalid-pattern", 103: "unsupported:nullable",
               104: "unsupported:non-json-carrier"}


def corpus_cases(pid):
    out = []
    for f in sorted(glob.glob(os.path.join(C.VERIF, "corpus", pid, "*.jsonl"))):
        out += C.jsonl(open(f).read())
    return out


def suite_cases():
    """the labelled instances of the JSON-Schema-Test-Suite draft-4 files shipped with /repo (local references only)"""
    out = []
    d = os.path.join(C.REPO, "fixtures", "jsonschema_suite")
    for f in sorted(glob.glob(os.path.join(d, "*.json"))):
        name = os.path.basename(f)
        if name in ("refRemote.json", "definitions.json"):
            continue
        try:
            groups = json.load(open(f))
        except Exception:
            continue
        for g in groups:
            raw = json.dumps(g["schema"])
            if "http://" in raw or "https://" in raw:
                continue
            for t in g["tests"]:
                out.append({"schema": g["schema"], "data": t["data"], "root": "", "expect": t["valid"],
                            "origin": "%s: %s / %s" % (name, g.get("description"), t.get("description"))})
    return out


def generate(binp, seed, n, tier="quick"):
    return C.jsonl(C.harness(binp, "schema", "gen", ["-seed", str(seed), "-n", str(n), "-tier", tier]))


def observe(binp, cases):
    """run Go and the model on the cases; returns one joined record per case"""
    for i, c in enumerate(cases):
        c["id"] = i
    text = "".join(json.dumps(c) + "\n" for c in cases)
    recs = C.jsonl(C.harness(binp, "schema", "run", input=text))
    if len(recs) != len(cases):
        raise RuntimeError("harness returned %d records for %d cases" % (len(recs), len(cases)))
    have = [r for r in recs if "sx" in r]
    outs = C.run_model("schema", [r["sx"] for r in have]) if have else []
    byid = {}
    for r, o in zip(have, outs):
        x = C.parse_sx(o)
        if x == [-1]:
            byid[r["id"]] = {"model": {"outcome": "decode-error"}, "d4": None, "d4f": None, "classes": []}
            continue
        mv = S.model_view(C.show_sx(x[0]), r["strings"])
        classes = list(x[3])
        if x[1] != x[2]:
            classes.append(5)
        byid[r["id"]] = {"model": mv, "d4": {1: True, 0: False}.get(x[1]), "d4f": {1: True, 0: False}.get(x[2]),
                         "classes": classes, "in_fragment": len(x) > 4 and x[4] == 1,
                         "termination_proved": len(x) > 5 and x[5] == 1, "located_class": len(x) > 6 and x[6] == 1}
    joined = []
    for c, r in zip(cases, recs):
        j = {"case": c, "go": S.go_view(r["go"]), "go_raw": r["go"], "oneshot": r["oneshot"], "skip": r.get("skip")}
        j.update(byid.get(r["id"], {"model": None, "d4": None, "d4f": None, "classes": []}))
        joined.append(j)
    return joined


def keyword_histogram(cases):
    h = {}

    def walk(s):
        if isinstance(s, dict):
            for k, v in s.items():
                h[k] = h.get(k, 0) + 1
                if k in ("properties", "patternProperties", "definitions", "dependencies"):
                    if isinstance(v, dict):
                        for vv in v.values():
                            walk(vv)
                elif k in ("allOf", "anyOf", "oneOf"):
                    for vv in v if isinstance(v, list) else []:
                        walk(vv)
                elif k == "items":
                    if isinstance(v, list):
                        for vv in v:
                            walk(vv)
                    else:
                        walk(v)
                elif k in ("not", "additionalItems", "additionalProperties"):
                    walk(v)
    for c in cases:
        walk(c["schema"])
    return h


def schema_nontrivial(c):
    """non-trivial: the schema has at least two keywords or nests a sub-schema"""
    s = c["schema"]
    if not isinstance(s, dict):
        return False
    kws = [k for k in s if k != "definitions"]
    nested = any(isinstance(s.get(k), (dict, list)) and k not in ("enum", "default", "required", "type") for k in kws)
    return len(kws) >= 2 or nested


def shrink_case(case, still_fails, budget=120):
    """greedy structural shrinking of schema and data (delete members / elements) while still_fails(case)"""
    def candidates(v):
        if isinstance(v, dict):
            for k in list(v.keys()):
                c = dict(v)
                del c[k]
                yield c
            for k in list(v.keys()):
                for sub in candidates(v[k]):
                    c = dict(v)
                    c[k] = sub
                    yield c
        elif isinstance(v, list):
            for i in range(len(v)):
                yield v[:i] + v[i + 1:]
            for i in range(len(v)):
                for sub in candidates(v[i]):
                    yield v[:i] + [sub] + v[i + 1:]

    cur = dict(case)
    changed = True
    while changed and budget > 0:
        changed = False
        for field in ("schema", "data"):
            for cand in candidates(cur[field]):
                budget -= 1
                if budget <= 0:
                    break
                trial = dict(cur)
                trial[field] = cand
                try:
                    if still_fails(trial):
                        cur, changed = trial, True
                        break
                except Exception:
                    pass
            if changed:
                break
    return cur
