"""Comparison of Go observations with the schema pipeline model's output."""
from . import common as C


def render_path(segs, strings):
    out = []
    for tag, k in segs:
        if tag == 0:
            out.append(strings[k])
        elif tag == 1:
            out.append("." + strings[k])
        elif tag == 2:
            out.append(strings[k])
        else:
            out.append(".%d" % k)
    return "".join(out)


def model_view(out_sx, strings):
    """-> dict(outcome, panic_site, valid, errors=set((code,name)), mc, nerr)"""
    x = C.parse_sx(out_sx)
    if x[0] == 1:
        return {"outcome": "panic", "site": x[1]}
    if x[0] == 2:
        return {"outcome": "outoffuel"}
    if x[0] == -1:
        return {"outcome": "decode-error"}
    errs = [(m[0], render_path(m[1], strings)) for m in x[1]]
    return {"outcome": "ok", "valid": len(errs) == 0, "errors": sorted(set(errs)), "mc": x[2], "nerr": len(errs),
            "root": x[3], "fields": x[4], "items": x[5]}


def go_view(g):
    if g["outcome"] != "ok":
        return {"outcome": g["outcome"], "panic": g.get("panic", "")}
    errs = sorted(set((e["code"], e["name"]) for e in g["errors"]))
    return {"outcome": "ok", "valid": g["valid"], "errors": errs, "mc": g["mc"], "nerr": len(g["errors"])}


PANIC_SITES = {1: "index", 2: "assertion", 3: "invalid-schema"}


def diff(gv, mv, fields=("outcome", "valid", "errors", "mc")):
    """list of field names on which Go and the model differ"""
    d = []
    if gv["outcome"] != mv["outcome"]:
        return ["outcome"]
    if gv["outcome"] == "panic":
        cls = gv["panic"].split(":")[0]
        if PANIC_SITES.get(mv["site"]) != cls:
            d.append("panic-class")
        return d
    if gv["outcome"] != "ok":
        return d
    for f in fields:
        if f == "outcome":
            continue
        if gv[f] != mv[f]:
            d.append(f)
    return d
