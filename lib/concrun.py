"""Concurrency runs (C05 C15): the harness built with -race; race reports are parsed from stderr."""
import json
import random
import subprocess

from . import common as C
from . import schemarun as R
from . import simplerun as Q

PATTERNS = ["a", "a+", "^a$", "(a)", "(", "[", "^[a-z]+$", "\\d+", "日", "", "b$", "a|b", "^x-", "(?i)A", "a{2}", "*",
            "^[z-a]+$", "a{2,1}", "(?P<n>a)(?P<n>b)", "[[:foo:]]", "^id-[9-0]*$", "x**", "a\\8"]
# invalid patterns and the part of them the parser names in its error: other (mostly valid) expressions
FRAGMENTS = {"^[z-a]+$": ["z-a"], "a{2,1}": ["{2,1}"], "(?P<n>a)(?P<n>b)": ["n"], "[[:foo:]]": ["[:foo:]"], "^id-[9-0]*$": ["9-0"],
             "x**": ["**"], "a\\8": ["\\8"], "(": ["("], "[": ["["], "*": ["*"]}
STRINGS = ["", "a", "aa", "ab", "b", "7", "日本", "x", "x-1", "A", "a ", " a", "a\t", "b ", "x- ", "aa ", "B", "X-1", "AB"]
SPECS = ["fixtures/validation/valid-ref.json", "fixtures/validation/fixture-161-good.json", "fixtures/validation/fixture-43.json", "fixtures/validation/duplicateprops.json", "fixtures/validation/fixture-1243-5.json"]


FATAL = []          # fatal Go runtime errors of the last run_race call: [{"message", "case"}]


def run_race(binr, prop, cases, timeout=3000):
    """returns (records, race_reports); a fatal runtime error of the harness process (concurrent map writes, stack overflow:
    Go cannot recover from them) is kept in FATAL together with the case that was running, and the remaining cases are run
    in a new process"""
    del FATAL[:]
    recs, races = [], []
    todo = list(cases)
    for attempt in range(6):
        if not todo:
            break
        p = subprocess.run([binr, prop, "run"], input="".join(json.dumps(c) + "\n" for c in todo), capture_output=True,
                           text=True, timeout=timeout)
        got = []
        for line in p.stdout.splitlines():
            try:
                got.append(json.loads(line))
            except ValueError:
                break                      # the line being written when the process died
        recs += got
        if "DATA RACE" in p.stderr:
            for blk in p.stderr.split("==================")[1:]:
                if "DATA RACE" in blk:
                    races.append(blk.strip()[:3000])
        if "fatal error:" in p.stderr and len(got) < len(todo):
            msg = p.stderr[p.stderr.index("fatal error:"):].splitlines()[0]
            FATAL.append({"message": msg, "case": todo[len(got)]})
            todo = todo[len(got) + 1:]
            continue
        if p.returncode not in (0, 66) and not races:
            raise RuntimeError("harness %s run failed (%d): %s" % (prop, p.returncode, p.stderr[-2000:]))
        break
    return recs, races


def rexp_cases(seed, n, concurrent):
    rng = random.Random(seed)
    out = []
    for i in range(n):
        npat = rng.randint(2, 6)
        pats = rng.sample(PATTERNS, npat)
        # near-duplicates of the chosen patterns: the same text with blanks around it, in another case, doubled, or
        # extended - different expressions that a lookup under a normalised key would confuse
        for p0 in list(pats):
            if rng.random() < 0.5:
                pats.append(rng.choice([p0 + " ", " " + p0, p0 + "\t", p0.upper(), p0.lower(), p0 + p0, p0 + "$", "^" + p0]))
        # parts of the chosen patterns (what a parser error quotes, or any other slice of the text): expressions of their own
        for p0 in list(pats):
            for f in FRAGMENTS.get(p0, []):
                if rng.random() < 0.7:
                    pats.append(f)
            if len(p0) > 2 and rng.random() < 0.3:
                a = rng.randrange(len(p0) - 1)
                pats.append(p0[a:rng.randint(a + 1, len(p0))])
        ops = [{"via": rng.choice(["Pattern", "Pattern", "schema", "patprops", "closed"]), "p": rng.choice(pats), "s": rng.choice(STRINGS)}
               for _ in range(rng.randint(5, 60))]
        for op in ops:
            if op["via"] == "closed":      # two patternProperties side by side in a closed object
                op["p2"] = rng.choice(pats)
        c = {"id": i, "ops": ops}
        if concurrent:
            c["goroutines"] = rng.choice([1, 2, 4, 16, 64])
            c["procs"] = rng.choice([2, 16])
        out.append(c)
    return out


def conc_cases(binp, seed, n):
    rng = random.Random(seed)
    sc = [c for c in R.generate(binp, seed, 600) if "$ref" not in json.dumps(c["schema"]) and not c.get("usenumber")]
    qc = Q.generate(binp, seed, 150)
    for c in sc + qc:
        c.pop("id", None)
    out = []
    for i in range(n):
        shared = [rng.choice(sc) for _ in range(2)]
        threads = []
        for g in range(rng.choice([2, 2, 4, 4, 8, 16, 64])):
            prog = []
            for _ in range(rng.randint(2, 6)):
                k = rng.random()
                if k < 0.40:
                    prog.append({"kind": "oneshot", "schema": rng.choice(sc)})
                    if rng.random() < 0.08:
                        prog[-1]["nil_schema"] = True       # AgainstSchema(nil, ...): accepted by the API, everything is valid
                elif k < 0.58:
                    prog.append({"kind": "shared", "shared": rng.randrange(2), "value": rng.choice(sc)["data"]})
                elif k < 0.68:
                    prog.append({"kind": "param", "simple": rng.choice(qc)})
                elif k < 0.71:
                    prog.append({"kind": "spec", "spec": rng.choice(SPECS), "flag": rng.random() < 0.5})
                elif k < 0.86:
                    prog.append({"kind": "setopt", "flag": rng.random() < 0.5})
                elif rng.random() < 0.5:
                    prog.append({"kind": "pattern", "rexp": {"via": "Pattern", "p": rng.choice(PATTERNS), "s": rng.choice(STRINGS)}})
                else:
                    # a pattern no one has compiled yet: the cache is written while other goroutines read it
                    fresh = "^run%d-g%d-%d-[a-z0-9]*$" % (i, g, len(prog))
                    prog.append({"kind": "pattern", "rexp": {"via": "Pattern", "p": fresh, "fresh": True, "s": rng.choice(["run%d-g%d-%d-abc" % (i, g, len(prog)), "x", rng.choice(STRINGS)])}})
            threads.append(prog)
        out.append({"id": i, "shared": shared, "threads": threads, "procs": rng.choice([2, 16])})
    return out
