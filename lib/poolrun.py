"""Shared machinery for the pool properties (C04 C11): histories of calls through the recycling entry points."""
import json
import os
import random

from . import common as C
from . import schemarun as R
from . import simplerun as Q


def regen_ctor_facts(binp):
    """regenerate coq/theories/Gen/CtorFacts.v from /repo's sources (go/ast); returns the path"""
    text = C.harness(binp, "ctor", "gen", env=dict(os.environ, VERIF_REPO=C.REPO))
    path = os.path.join(C.COQ, "theories", "Gen", "CtorFacts.v")
    with C.Lock("coq"):
        old = open(path).read() if os.path.exists(path) else None
        if old != text:
            open(path, "w").write(text)
    return path


def call_pool(binp, seed, n_schema, n_simple):
    sc = [c for c in R.generate(binp, seed, n_schema) if not c.get("usenumber") or True]
    qc = Q.generate(binp, seed, n_simple)
    for c in sc + qc:
        c.pop("id", None)
    return sc, qc


def make_call(rng, sc, qc):
    if rng.random() < 0.7:
        c = {"kind": rng.choice(["oneshot", "oneshot", "validator"]), "schema": rng.choice(sc)}
        if rng.random() < 0.06:
            c["nil_schema"] = True          # validate.AgainstSchema(nil, ...) / NewSchemaValidator(nil, ...): accepted by the API
        return c
    c = rng.choice(qc)
    return {"kind": "header" if c.get("header") else "param", "simple": c}


def run_histories(binp, cases):
    for i, c in enumerate(cases):
        c["id"] = i
    # sharded, and a history that takes the process down (a fatal Go error cannot be recovered) comes back as a crash record
    out = C.harness_parallel(binp, "pool", cases, shards=8, crash_timeout=60)
    for r in out:
        if r.get("crash"):
            r.setdefault("double_redeems", [])
            r.setdefault("diffs", [])
            r.setdefault("first_panicked", True)
            r.setdefault("ncalls", 0)
            r.setdefault("stats", [])
            r.setdefault("invocations", 0)
    return out


FORMAT_WORKLOADS = [
    # members filled from defaults next to format-checked members: what the object validator notes about defaulted members
    # is per call
    {"schema": {"type": "object", "properties": {"a": {"default": 1}, "b": {"default": "x"}, "c": {"default": [1]}, "id": {"default": 0},
                                                   "f": {"type": "string", "format": "date"}, "g": {"type": "string", "format": "email"},
                                                   "h": {"type": "string", "format": "uuid"}},
                "required": ["a", "f"]},
     "data": {"f": "2020-01-01", "g": "q@r.s", "h": "not-a-uuid"}, "root": ""},
    {"schema": {"type": "object", "properties": {"a": {"type": "string", "format": "date"},
                                                   "b": {"type": "array", "items": {"type": "string", "format": "email"}},
                                                   "c": {"allOf": [{"type": "string", "format": "uuid"}]}}},
     "data": {"a": "2020-01-01", "b": ["x@y.z", "q@r.s"], "c": "not-a-uuid"}, "root": ""},
    {"schema": {"anyOf": [{"type": "string", "format": "date"}, {"type": "string", "format": "email"}],
                "oneOf": [{"type": "string", "format": "uuid"}, {"type": "string", "maxLength": 40}]},
     "data": "user@example.com", "root": ""},
    {"schema": {"items": [{"type": "string", "format": "date"}, {"properties": {"x": {"type": "string", "format": "date-time"}}}],
                "additionalItems": {"type": "string", "format": "email"}},
     "data": ["2020-01-01", {"x": "2020-01-01T00:00:00Z"}, "a@b.c", "d@e.f"], "root": "r"},
    {"schema": {"patternProperties": {"^x-": {"type": "string", "format": "uuid"}},
                "additionalProperties": {"type": "string", "format": "date"},
                "dependencies": {"k": {"properties": {"k": {"type": "string", "format": "email"}}}}},
     "data": {"x-1": "0", "k": "a@b.c", "z": "2020-01-01"}, "root": ""},
    {"schema": {"not": {"type": "string", "format": "date"}, "allOf": [{"anyOf": [{"type": "string", "format": "email"}]}]},
     "data": "a@b.c", "root": ""},
]

# follow-ups that need two live objects of each pooled kind at once
FOLLOW_UPS = [
    # required members missing at three levels of nesting: each level runs on another borrowed object validator
    {"kind": "oneshot", "schema": {"schema": {"type": "object", "required": ["a", "b", "c", "id", "x-1"], "properties": {
        "a": {"type": "integer"}, "b": {},
        "child": {"type": "object", "required": ["a", "b", "c", "id"], "properties": {
            "child": {"type": "object", "required": ["a", "b", "c", "id", "f"], "properties": {"a": {}}}}}}},
                                   "data": {"z": 1, "child": {"child": {}}}, "root": ""}},
    {"kind": "oneshot", "schema": {"schema": {"allOf": [{"type": "string", "format": "date"}, {"anyOf": [{"maxLength": 3}, {"minLength": 1}]}]},
                                   "data": "2020-01-01", "root": ""}},
    {"kind": "oneshot", "schema": {"schema": {"properties": {"x": {"type": "integer", "maximum": 3}, "y": {"type": "string", "format": "email", "pattern": "^a"}},
                                              "required": ["z"]}, "data": {"x": 5, "y": "a@b.c"}, "root": ""}},
    {"kind": "validator", "schema": {"schema": {"items": {"type": "array", "items": {"type": "number", "minimum": 2, "multipleOf": 2}}},
                                     "data": [[2, 4], [3], []], "root": "root"}},
    {"kind": "oneshot", "schema": {"schema": {"oneOf": [{"type": "string", "format": "uuid"}, {"type": "string", "format": "date"}],
                                              "not": {"enum": ["x"]}}, "data": "2020-01-01", "root": ""}},
]
