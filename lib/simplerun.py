"""Runner and exact oracle (L0, exact rational arithmetic) for parameter / header validators (C13 C16)."""
import json
import struct
from fractions import Fraction

from . import common as C
from . import schemacmp as S

INT_RANGES = {"int8": (-2**7, 2**7 - 1), "int16": (-2**15, 2**15 - 1), "int32": (-2**31, 2**31 - 1), "int64": (-2**63, 2**63 - 1),
              "int": (-2**63, 2**63 - 1), "uint8": (0, 2**8 - 1), "uint16": (0, 2**16 - 1), "uint32": (0, 2**32 - 1),
              "uint64": (0, 2**64 - 1), "uint": (0, 2**64 - 1)}
MAX_F32 = Fraction(340282346638528859811704183484516925440)


def generate(binp, seed, n, tier="quick"):
    return C.jsonl(C.harness(binp, "simple", "gen", ["-seed", str(seed), "-n", str(n), "-tier", tier]))


def model_view(o, strings):
    x = C.parse_sx(o)
    if x[0] == 1:
        return {"outcome": "panic", "site": x[1]}
    if x[0] != 0:
        return {"outcome": "other"}
    if not x[1]:
        return {"outcome": "ok", "nil": True}
    v = S.model_view(C.show_sx(x[1][0]), strings)
    v["nil"] = False
    return v


def go_view(g):
    if g["outcome"] != "ok":
        return {"outcome": g["outcome"], "panic": g.get("panic", "")}
    if g["nil"]:
        return {"outcome": "ok", "nil": True}
    return {"outcome": "ok", "nil": False, "valid": g["valid"], "mc": g["mc"], "nerr": len(g["errors"]),
            "errors": sorted(set((e["code"], e["name"]) for e in g["errors"]))}


def observe(binp, cases):
    for i, c in enumerate(cases):
        c["id"] = i
    recs = C.jsonl(C.harness(binp, "simple", "run", input="".join(json.dumps(c) + "\n" for c in cases)))
    have = [r for r in recs if "sx" in r]
    outs = C.run_model("simple", [r["sx"] for r in have]) if have else []
    mv = {r["id"]: model_view(o, r["strings"]) for r, o in zip(have, outs)}
    # the declarative reading of Schema/SimpleAgree.v on the same cases: (inside the proved class?, its verdict)
    frag = {}
    if have:
        for r, o in zip(have, C.run_model("simplefrag", [r["sx"] for r in have])):
            x = C.parse_sx(o)
            if len(x) >= 2:
                # (inside a proved class, verdict of the reading, inside only under the unproved divisibility clause of the numeric
                #  interface, inside through the typed-value theorem proved of the binary64 model)
                frag[r["id"]] = (x[0] == 1, x[1] == 1, len(x) > 2 and x[2] == 1, len(x) > 3 and x[3] == 1)
    out = []
    for c, r in zip(cases, recs):
        out.append({"case": c, "skip": r.get("skip"), "go": go_view(r["go"]) if "go" in r else None,
                    "go_raw": r.get("go"), "go_recycled": go_view(r["go_recycled"]) if "go_recycled" in r else None,
                    "model": mv.get(r["id"]), "orc": r.get("orc", {}), "frag": frag.get(r["id"])})
    return out


def tie_diff(g, m):
    if g is None or m is None:
        return []
    if g["outcome"] != m["outcome"]:
        return ["outcome"]
    if g["outcome"] != "ok":
        return []
    if g["nil"] or m["nil"]:
        return [] if g["nil"] == m["nil"] else ["nil"]
    d = [f for f in ("valid", "mc", "nerr") if g[f] != m[f]]
    if [tuple(x) for x in g["errors"]] != [tuple(x) for x in m["errors"]]:
        d.append("errors")
    return d


# ------------------------------------------------------------------ exact oracle

def f32(lit):
    return struct.unpack("f", struct.pack("f", float(lit)))[0]


def math_value(tv):
    """the mathematical value carried by a typed numeric value: exact rational"""
    k = tv["k"]
    if k in INT_RANGES:
        return Fraction(int(tv.get("v", "")))
    if k == "float64":
        return Fraction(float(tv.get("v", "")))
    if k == "float32":
        return Fraction(f32(tv.get("v", "")))
    return None


def dec(x):
    """a JSON number of a definition, as the decimal it was written as"""
    return Fraction(str(x)) if not isinstance(x, float) else Fraction(repr(x))


def json_equal(tv, ev):
    """deep value equality between a typed value and a JSON enum value, numbers compared by value"""
    k = tv["k"]
    if k == "nil":
        return ev is None
    if k == "bool":
        return isinstance(ev, bool) and ev == (tv.get("v", "") == "true")
    if k == "string":
        return isinstance(ev, str) and ev == tv.get("v", "")
    if k == "slice":
        return isinstance(ev, list) and len(ev) == len(tv.get("l", [])) and all(json_equal(a, b) for a, b in zip(tv.get("l", []), ev))
    mv = math_value(tv)
    if mv is not None:
        return isinstance(ev, (int, float)) and not isinstance(ev, bool) and dec(ev) == mv
    return False


def tv_equal(a, b):
    if a["k"] == "slice" or b["k"] == "slice":
        return a["k"] == b["k"] and len(a.get("l", [])) == len(b.get("l", [])) and all(tv_equal(x, y) for x, y in zip(a.get("l", []), b.get("l", [])))
    ma, mb = math_value(a), math_value(b)
    if ma is not None or mb is not None:
        return ma == mb
    return a["k"] == b["k"] and a.get("v", "") == b.get("v", "")


def simple_ok(d, tv, orc, top=True, required=False, allow_empty=False):
    """L0: the value has the declared type and meets every declared constraint, recursively through items.
    Returns (ok, reasons)"""
    t = d.get("type", "")
    fmt = d.get("format", "")
    k = tv["k"]
    mv = math_value(tv)
    why = []
    # type
    if t == "string":
        if k != "string":
            why.append("type")
    elif t == "boolean":
        if k != "bool":
            why.append("type")
    elif t == "integer":
        if mv is None or mv.denominator != 1:
            why.append("type")
    elif t == "number":
        if mv is None:
            why.append("type")
    elif t == "array":
        if k != "slice":
            why.append("type")
    if why:
        return False, why
    # format belonging to the declared type
    if mv is not None and fmt:
        if fmt == "int32" and not (-2**31 <= mv <= 2**31 - 1):
            why.append("format-range")
        if fmt == "int64" and not (-2**63 <= mv <= 2**63 - 1):
            why.append("format-range")
        if fmt == "float" and abs(mv) > MAX_F32:
            why.append("format-range")
    if k == "string" and fmt and orc.get("fmt_known", {}).get(fmt):
        if tv.get("v", "") not in orc.get("fmt_ok", {}).get(fmt, []):
            why.append("format")
    # numeric constraints, exact
    if mv is not None:
        if "maximum" in d:
            m = dec(d["maximum"])
            if mv > m or (d.get("exclusiveMaximum") and mv == m):
                why.append("maximum")
        if "minimum" in d:
            m = dec(d["minimum"])
            if mv < m or (d.get("exclusiveMinimum") and mv == m):
                why.append("minimum")
        if "multipleOf" in d:
            m = dec(d["multipleOf"])
            # decimal reading of a float carrier written as a short decimal literal
            val = mv
            if k in ("float64",):
                val = Fraction(tv.get("v", ""))
            if m <= 0 or (val / m).denominator != 1:
                why.append("multipleOf")
    if k == "string":
        n = orc.get("runes", {}).get(tv.get("v", ""), len(tv.get("v", "")))
        if top and required and not allow_empty and d.get("default") in (None, "") and tv.get("v", "") == "":
            why.append("required")
        if "maxLength" in d and n > d["maxLength"]:
            why.append("maxLength")
        if "minLength" in d and n < d["minLength"]:
            why.append("minLength")
        if d.get("pattern"):
            if not orc.get("re_ok", {}).get(d["pattern"], False) or tv.get("v", "") not in orc.get("re_match", {}).get(d["pattern"], []):
                why.append("pattern")
    if k == "slice":
        l = tv.get("l", [])
        if "maxItems" in d and len(l) > d["maxItems"]:
            why.append("maxItems")
        if "minItems" in d and len(l) < d["minItems"]:
            why.append("minItems")
        if d.get("uniqueItems") and any(tv_equal(l[i], l[j]) for i in range(len(l)) for j in range(i)):
            why.append("uniqueItems")
        if isinstance(d.get("items"), dict):
            for el in l:
                ok, w = simple_ok(d["items"], el, orc, top=False)
                if not ok:
                    why.append("items:" + ",".join(w))
                    break
    if d.get("enum"):
        if not any(json_equal(tv, ev) for ev in d["enum"]):
            why.append("enum")
    return not why, why
