"""Shared machinery of /verif/bin/check: builds, proof obligations, model driver,
evidence, verdict protocol (DESIGN.md section 1.1)."""
import fcntl
import hashlib
import json
import os
import re
import subprocess
import sys
import time

VERIF = os.path.dirname(os.path.dirname(os.path.abspath(__file__)))
REPO = os.environ.get("VERIF_REPO", "/repo")
WORK = os.path.join(VERIF, ".work")
COQ = os.path.join(VERIF, "coq")
OCAML = os.path.join(VERIF, "ocaml")
GO = os.path.join(VERIF, "go")

GOENV = dict(os.environ, GOFLAGS="-mod=mod", GOPROXY="off", GOSUMDB="off", GOTOOLCHAIN="local",
             CGO_ENABLED=os.environ.get("CGO_ENABLED", "0"))

# axioms declared by the Coq standard library that theorems may depend on (DESIGN.md section 7)
ALLOWED_AXIOMS = {
    "ClassicalDedekindReals.sig_not_dec",
    "ClassicalDedekindReals.sig_forall_dec",
    "FunctionalExtensionality.functional_extensionality_dep",
    "functional_extensionality_dep",
    "Classical_Prop.classic",
    "classic",
    "sig_not_dec",
    "sig_forall_dec",
    "JMeq.JMeq_eq", "JMeq_eq",
    "Eqdep.Eq_rect_eq.eq_rect_eq", "eq_rect_eq",
    "ProofIrrelevance.proof_irrelevance", "proof_irrelevance",
}

FORBIDDEN = re.compile(
    r"\b(Admitted|admit|Axiom|Axioms|Parameter|Parameters|Conjecture|Conjectures|Admit Obligations|"
    r"Unset Guard Checking|Unset Positivity Checking|Unset Universe Checking|bypass_check|"
    r"Local Unset Guard|type-in-type|impredicative-set)\b")


def log(*a):
    print(*a, file=sys.stderr, flush=True)


def run(cmd, timeout=1200, cwd=None, env=None, input=None, check=False):
    p = subprocess.run(cmd, cwd=cwd, env=env, input=input, capture_output=True, text=True, timeout=timeout)
    if check and p.returncode != 0:
        raise RuntimeError("command failed: %s\n%s\n%s" % (cmd, p.stdout[-4000:], p.stderr[-4000:]))
    return p


class Lock:
    def __init__(self, name):
        os.makedirs(WORK, exist_ok=True)
        self.path = os.path.join(WORK, name + ".lock")

    def __enter__(self):
        self.f = open(self.path, "w")
        fcntl.flock(self.f, fcntl.LOCK_EX)
        return self

    def __exit__(self, *a):
        fcntl.flock(self.f, fcntl.LOCK_UN)
        self.f.close()


# --------------------------------------------------------------------------- Coq

def coq_sources():
    out = []
    for root, _, files in os.walk(os.path.join(COQ, "theories")):
        for f in files:
            if f.endswith(".v"):
                out.append(os.path.join(root, f))
    return sorted(out)


def strip_comments(src):
    res, depth, i = [], 0, 0
    while i < len(src):
        if src.startswith("(*", i):
            depth += 1
            i += 2
        elif src.startswith("*)", i) and depth > 0:
            depth -= 1
            i += 2
        else:
            if depth == 0:
                res.append(src[i])
            i += 1
    return "".join(res)


def forbidden_vernacular():
    """grep the whole development (comments stripped) for anything that would declare an axiom or
    switch a kernel check off"""
    hits = []
    for f in coq_sources():
        body = strip_comments(open(f).read())
        for m in FORBIDDEN.finditer(body):
            hits.append("%s: %s" % (os.path.relpath(f, VERIF), m.group(0)))
    proj = open(os.path.join(COQ, "_CoqProject")).read()
    for bad in ("-type-in-type", "-impredicative-set", "-noinit"):
        if bad in proj:
            hits.append("_CoqProject: " + bad)
    return hits


# modules that depend on the data files regenerated from /repo (theories/Gen): when one of them no longer compiles, that is
# a finding of the property that owns it and of no other property
GEN_OWNED = {"theories/Gen/CtorFacts.vo": "C04", "theories/Life/CtorCheck.vo": "C04", "theories/Properties/C04.vo": "C04",
             "theories/Gen/Swagger20.vo": "C02", "theories/Spec/Swagger20Facts.vo": "C02", "theories/Properties/C02.vo": "C02"}


def coq_make(timeout=3000, pid=None):
    """full .vo build (never -vos/-vok); no-op when up to date. make -k: a module that fails does not stop the others.
    ok = everything built, or everything that failed belongs (GEN_OWNED) to another property than pid - the modules pid
    needs are then compiled from fresh dependencies all the same (a stale .vo is refused by coqc as inconsistent)."""
    with Lock("coq"):
        if not os.path.exists(os.path.join(COQ, "Makefile")):
            run(["coq_makefile", "-f", "_CoqProject", "-o", "Makefile"], cwd=COQ, check=True)
        p = run(["make", "-k", "-j16"], cwd=COQ, timeout=timeout)
        log = (p.stdout + p.stderr)[-6000:]
        if p.returncode == 0:
            return True, log
        failed = set(re.findall(r"\*\*\* \[[^\]]*?:\s*(theories/[\w/]+\.vo)\]", p.stdout + p.stderr))
        if failed and all(f in GEN_OWNED and GEN_OWNED[f] != pid for f in failed):
            return True, log
        return False, log


def check_property_file(pid, extra_files=(), timeout=1200):
    """Compile coq/theories/Properties/<pid>.v again (its theorems are `exact lemma`), collect the
    Print Assumptions output. Returns dict(obligations, discharged, axioms, failed, log)."""
    path = os.path.join(COQ, "theories", "Properties", pid + ".v")
    src = strip_comments(open(path).read())
    theorems = re.findall(r"\b(?:Theorem|Corollary)\s+(\w+)", src)
    printed = re.findall(r"Print Assumptions\s+(\w+)\s*\.", src)
    res = {"theorems": theorems, "obligations": len(theorems), "discharged": 0, "axioms": [], "failed": [],
           "log": ""}
    missing = [t for t in theorems if t not in printed]
    if missing:
        res["failed"].append("theorems without Print Assumptions: %s" % missing)
    with Lock("coq"):
        for f in list(extra_files) + [path]:
            p = run(["coqc", "-Q", "theories", "Verif", os.path.relpath(f, COQ)], cwd=COQ, timeout=timeout)
            res["log"] += p.stdout[-20000:] + p.stderr[-4000:]
            if p.returncode != 0:
                res["failed"].append("coqc failed on %s: %s" % (os.path.relpath(f, COQ), p.stderr[-1500:]))
                return res
    out = p.stdout
    # split the Print Assumptions outputs: one block per printed theorem, in order
    blocks = re.split(r"(?m)^(?=Closed under the global context|Axioms:)", out)
    blocks = [b for b in blocks if b.startswith("Closed under") or b.startswith("Axioms:")]
    axioms = set()
    for b in blocks:
        if b.startswith("Axioms:"):
            for m in re.finditer(r"(?m)^([A-Za-z_][\w.']*)\s*:", b[len("Axioms:"):]):
                axioms.add(m.group(1))
    res["axioms"] = sorted(axioms)
    bad = [a for a in axioms if a not in ALLOWED_AXIOMS and a.split(".")[-1] not in ALLOWED_AXIOMS]
    if bad:
        res["failed"].append("axioms outside the allow-list: %s" % bad)
    if len(blocks) != len(printed):
        res["failed"].append("expected %d Print Assumptions outputs, got %d" % (len(printed), len(blocks)))
    if not res["failed"]:
        res["discharged"] = len(theorems)
    return res


def proof_obligations(pid, extra_files=()):
    """make + forbidden grep + property file. Returns (ok, info)"""
    info = {"property_file": "coq/theories/Properties/%s.v" % pid}
    hits = forbidden_vernacular()
    ok_make, mlog = coq_make(pid=pid)
    if not ok_make:
        info.update(obligations=1, discharged=0, failed=["make failed: " + mlog[-1500:]], axioms=[], theorems=[])
        return False, info
    r = check_property_file(pid, extra_files)
    if hits:
        r["failed"].append("forbidden vernacular: %s" % hits)
        r["discharged"] = 0
    info.update({k: r[k] for k in ("theorems", "obligations", "discharged", "axioms", "failed")})
    return not r["failed"], info


# --------------------------------------------------------------------------- model driver and harness

def build_driver(force=False):
    with Lock("ocaml"):
        drv = os.path.join(OCAML, "driver")
        srcs = [os.path.join(OCAML, f) for f in ("driver.ml", "entries.ml", "build.sh")] + coq_sources()
        if force or not os.path.exists(drv) or any(os.path.getmtime(s) > os.path.getmtime(drv) for s in srcs):
            ok, mlog = coq_make(pid="driver")
            if not ok:
                raise RuntimeError("coq make failed:\n" + mlog)
            run(["sh", os.path.join(OCAML, "build.sh")], check=True, timeout=1200)
        return drv


SELFTEST = {}          # entry -> [(input, output)]: a few cases per run re-evaluated inside Coq (extraction_selftest)
ENTRY_FN = {"c20": "run_c20", "schema": "run_schema", "f64": "run_f64", "simple": "run_simple", "simplefrag": "run_simple_frag",
            "helper": "run_helper", "h14": "run_h14", "post": "run_post", "visited": "run_visited", "rules": "run_rules", "walk": "run_walk"}


def _remember_for_selftest(entry, inputs, outs, k=4, maxlen=6000):
    have = SELFTEST.setdefault(entry, [])
    if len(have) >= k:
        return
    small = [i for i in range(len(inputs)) if len(inputs[i]) + len(outs[i]) <= maxlen]
    if not small:
        return
    step = max(1, len(small) // k)
    for i in small[::step][:k - len(have)]:
        have.append((inputs[i], outs[i]))


def sx_to_coq(x):
    if isinstance(x, int):
        return "A (%d)" % x
    return "L [" + "; ".join(sx_to_coq(e) for e in x) + "]"


def extraction_selftest(timeout=600):
    """the extracted OCaml program against the Coq definitions it was extracted from: the remembered cases are evaluated
    by vm_compute inside Coq and must give the driver's outputs. Returns (ok, n_cases, detail)."""
    cases = [(e, i, o) for e, l in sorted(SELFTEST.items()) for i, o in l if e in ENTRY_FN]
    if not cases:
        return True, 0, ""
    d = os.path.join(WORK, "selftest")
    os.makedirs(d, exist_ok=True)
    name = "Selftest_%d" % os.getpid()
    path = os.path.join(d, name + ".v")
    with open(path, "w") as f:
        f.write("From Coq Require Import List ZArith.\nFrom Verif Require Import Base.Sx Result.ResultModel Schema.Run.\n"
                "Import ListNotations.\nOpen Scope Z_scope.\n")
        for n, (e, i, o) in enumerate(cases):
            f.write("Example t%d : %s (%s) = (%s).\nProof. vm_compute. reflexivity. Qed.\n" % (
                n, ENTRY_FN[e], sx_to_coq(parse_sx(i)), sx_to_coq(parse_sx(o))))
    try:
        p = run(["coqc", "-Q", os.path.join(COQ, "theories"), "Verif", path], timeout=timeout)
        ok, detail = p.returncode == 0, (p.stdout + p.stderr)[-1500:]
    except subprocess.TimeoutExpired:
        ok, detail = False, "coqc timed out"
    for ext in (".v", ".vo", ".vok", ".vos", ".glob"):
        try:
            os.remove(os.path.join(d, name + ext))
        except OSError:
            pass
    return ok, len(cases), detail


COQCHK_ALLOWED_AXIOMS = ["Coq.Logic.FunctionalExtensionality.functional_extensionality_dep", "Coq.Reals.ClassicalDedekindReals.sig_not_dec",
                         "Coq.Reals.ClassicalDedekindReals.sig_forall_dec", "Coq.Logic.Classical_Prop.classic"]


def coqchk_once(pid, timeout=3600):
    """thorough tier: the compiled property module of this check and all it depends on (standard library and Flocq included)
    are re-checked by Coq's independent checker, once per state of the sources. One module per check: the modules of other
    properties may depend on data files regenerated from /repo (theories/Gen) and be stale or broken for reasons that are not
    this property's. Returns a dict for the evidence."""
    import hashlib
    h = hashlib.sha256()
    root = os.path.join(COQ, "theories")
    owns_gen = pid in GEN_OWNED.values()
    for dp, dn, fn in sorted(os.walk(root)):
        if os.path.basename(dp) == "Gen" and not owns_gen:
            continue
        for f in sorted(fn):
            if f.endswith(".v"):
                h.update(f.encode())
                h.update(open(os.path.join(dp, f), "rb").read())
    key = pid + "-" + h.hexdigest()[:20]
    d = os.path.join(WORK, "coqchk")
    os.makedirs(d, exist_ok=True)
    stamp = os.path.join(d, key + ".json")
    with Lock("coqchk"):
        if os.path.exists(stamp):
            return dict(json.load(open(stamp)), reused=True)
        mods = ["Verif.Properties." + pid]
        t0 = time.time()
        try:
            with Lock("coq"):
                p = run(["coqchk", "-silent", "-o", "-Q", "theories", "Verif"] + mods, cwd=COQ, timeout=timeout)
            out = p.stdout + p.stderr
            rc = p.returncode
        except subprocess.TimeoutExpired:
            out, rc = "coqchk timed out", -1
        axioms = []
        if "* Axioms:" in out:
            blk = out.split("* Axioms:")[1].split("* Constants")[0]
            axioms = [l.strip() for l in blk.splitlines() if l.strip() and l.strip() != "<none>"]
        clean = all(("* " + k) in out and "<none>" in out.split("* " + k)[1].split("*")[0]
                    for k in ("Constants/Inductives relying on type-in-type:", "Constants/Inductives relying on unsafe (co)fixpoints:",
                              "Inductives whose positivity is assumed:")) if rc == 0 else False
        info = {"ok": rc == 0 and clean and all(a in COQCHK_ALLOWED_AXIOMS for a in axioms), "exit": rc, "axioms": axioms, "modules": mods,
                "seconds": round(time.time() - t0, 1), "sources_key": key, "detail": "" if rc == 0 else out[-1500:]}
        if rc != -1:
            json.dump(info, open(stamp, "w"))
        return info


def run_model(entry, inputs, timeout=1200, shards=12):
    """inputs: list of s-expression strings; returns list of output strings (several driver processes for large batches)"""
    outs = _run_model(entry, inputs, timeout, shards)
    _remember_for_selftest(entry, inputs, outs)
    return outs


def _run_model(entry, inputs, timeout=1200, shards=12):
    drv = build_driver()
    if not inputs:
        return []

    def one(chunk):
        p = run([drv, entry], input="\n".join(chunk) + "\n", timeout=timeout)
        if p.returncode != 0:
            raise RuntimeError("driver failed: " + p.stderr[-2000:])
        out = p.stdout.splitlines()
        if len(out) != len(chunk):
            raise RuntimeError("driver returned %d lines for %d inputs" % (len(out), len(chunk)))
        return out
    total = sum(len(x) for x in inputs)
    if len(inputs) < 64 or total < 2000000:
        return one(inputs)
    import concurrent.futures
    n = min(shards, len(inputs))
    size = (len(inputs) + n - 1) // n
    chunks = [inputs[i:i + size] for i in range(0, len(inputs), size)]
    with concurrent.futures.ThreadPoolExecutor(max_workers=n) as ex:
        outs = list(ex.map(one, chunks))
    return [o for chunk in outs for o in chunk]


def build_harness(tags="verif", race=False, name=None):
    """go build the harness against /repo's current working tree"""
    os.makedirs(os.path.join(WORK, "bin"), exist_ok=True)
    name = name or ("vharness-" + tags.replace(",", "-") + ("-race" if race else ""))
    outp = os.path.join(WORK, "bin", name)
    env = dict(GOENV)
    cmd = ["go", "build", "-tags", tags, "-o", outp]
    if os.environ.get("VERIF_COVER"):       # statement coverage of the library under the harness (bin/coverage)
        cmd[2:2] = ["-cover", "-coverpkg=github.com/go-openapi/validate,github.com/go-openapi/validate/post,verifharness/..."]
    if race:
        env["CGO_ENABLED"] = "1"
        cmd.insert(2, "-race")
    cmd.append("./cmd/vharness")
    with Lock("go-" + name):
        gosum = os.path.join(GO, "go.sum")
        src = open(os.path.join(REPO, "go.sum")).read()
        if not os.path.exists(gosum) or open(gosum).read() != src:
            open(gosum, "w").write(src)
        p = run(cmd, cwd=GO, env=env, timeout=1800)
        if p.returncode != 0:
            raise RuntimeError("go build failed (tags=%s):\n%s" % (tags, (p.stdout + p.stderr)[-4000:]))
    return outp


def harness(binpath, prop, mode, args=(), input=None, timeout=1800, env=None):
    p = run([binpath, prop, mode] + list(args), input=input, timeout=timeout, env=env)
    if p.returncode != 0:
        raise RuntimeError("harness %s %s failed (%d): %s ... %s" % (prop, mode, p.returncode, p.stderr[:700], p.stderr[-2300:]))
    return p.stdout


def harness_parallel(binpath, prop, cases, shards=12, timeout=3000, env=None, crash_timeout=120):
    """run `<bin> <prop> run` over the cases split into shards, in parallel processes; returns the records in case order"""
    import concurrent.futures
    shards = max(1, min(shards, len(cases)))
    parts = [cases[i::shards] for i in range(shards)]

    def one(part):
        data = "".join(json.dumps(c) + "\n" for c in part)
        try:
            return jsonl(harness(binpath, prop, "run", input=data, timeout=timeout, env=env))
        except (RuntimeError, subprocess.TimeoutExpired):
            # the harness process died (a fatal Go error cannot be recovered) or hung: find the case by running them one by one
            out = []
            for c in part:
                try:
                    out += jsonl(harness(binpath, prop, "run", input=json.dumps(c) + "\n", timeout=crash_timeout, env=env))
                except subprocess.TimeoutExpired:
                    out.append({"id": c["id"], "crash": "no answer within %d s" % crash_timeout})
                except RuntimeError as e:
                    msg = str(e)
                    kind = "fatal error: stack overflow" if "stack overflow" in msg or "goroutine stack exceeds" in msg else \
                           ("fatal error: out of memory" if "out of memory" in msg else "the process died")
                    out.append({"id": c["id"], "crash": kind, "detail": msg[-600:]})
            return out
    with concurrent.futures.ThreadPoolExecutor(max_workers=shards) as ex:
        outs = list(ex.map(one, parts))
    byid = {}
    for o in outs:
        for r in o:
            byid[r["id"]] = r
    return [byid[c["id"]] for c in cases if c["id"] in byid]


def jsonl(text):
    return [json.loads(l) for l in text.splitlines() if l.strip()]


# --------------------------------------------------------------------------- s-expressions (python side)

def parse_sx(s):
    """'(1 (2 3))' -> [1, [2, 3]]"""
    stack, cur, i, n = [], [], 0, len(s)
    while i < n:
        c = s[i]
        if c == "(":
            stack.append(cur)
            cur = []
            i += 1
        elif c == ")":
            top = stack.pop()
            top.append(cur)
            cur = top
            i += 1
        elif c in " \t\r\n":
            i += 1
        else:
            j = i
            while j < n and s[j] not in " ()\t\r\n":
                j += 1
            cur.append(int(s[i:j]))
            i = j
    if stack or len(cur) != 1:
        raise ValueError("bad s-expression: %r" % s[:200])
    return cur[0]


def show_sx(x):
    if isinstance(x, bool):
        return "1" if x else "0"
    if isinstance(x, int):
        return str(x)
    return "(" + " ".join(show_sx(e) for e in x) + ")"


# --------------------------------------------------------------------------- findings, evidence, verdict

def known_findings(pid):
    """lines 'finding: property=Cxx class=<id> ...' of /verif/KNOWN_FINDINGS -> {class: text}"""
    out = {}
    path = os.path.join(VERIF, "KNOWN_FINDINGS")
    if os.path.exists(path):
        for line in open(path):
            line = line.strip()
            m = re.match(r"finding:\s+property=(\w+)\s+class=(\S+)\s*(.*)", line)
            if m and m.group(1) == pid:
                out[m.group(2)] = m.group(3)
    return out


def write_replay(pid, payload):
    os.makedirs(os.path.join(VERIF, "replay"), exist_ok=True)
    blob = json.dumps(payload, sort_keys=True, indent=1)
    h = hashlib.sha1(blob.encode()).hexdigest()[:12]
    path = os.path.join(VERIF, "replay", "%s-%s.json" % (pid, h))
    open(path, "w").write(blob + "\n")
    return path


class Check:
    """One run of one property's check. Collects violations / known findings, writes evidence."""

    def __init__(self, pid, tier, seed):
        self.pid, self.tier, self.seed = pid, tier, seed
        self.t0 = time.time()
        self.violations = []          # (replay payload, no_failing_input_found)
        self.known_hit = {}           # class -> example text
        self.known = known_findings(pid)
        self.coverage = {}
        self.assumptions = []
        self.notes = []

    def violation(self, what, payload, no_input=False):
        payload = dict(payload, property=self.pid, what=what, seed=self.seed, tier=self.tier)
        self.violations.append((payload, no_input))

    def finding_or_violation(self, cls, what, payload):
        """a property-level failure: known class -> KNOWN-FINDING, otherwise VIOLATION"""
        if cls is not None and cls in self.known:
            self.known_hit.setdefault(cls, what)
        else:
            self.violation(what, dict(payload, finding_class=cls))

    def finish(self, level="proof"):
        # the extraction is part of the trusted base: a few cases of this run are re-evaluated inside Coq
        ok, n, detail = extraction_selftest()
        if n:
            self.coverage["extraction_selftest_cases"] = n
        if not ok:
            self.violation("the extracted model differs from the Coq definitions on a case of this run (vm_compute inside Coq)",
                           {"theorem_or_correspondence": "extraction self-test", "detail": detail}, no_input=True)
        if self.tier == "thorough":
            info = coqchk_once(self.pid)
            self.coverage["coqchk"] = {k: v for k, v in info.items() if k != "detail"}
            if not info["ok"]:
                self.violation("the independent checker coqchk does not accept the compiled development (or reports an axiom outside the allow-list)",
                               {"theorem_or_correspondence": "coqchk -o of the property module and all it depends on", "coqchk": info}, no_input=True)
        wall = time.time() - self.t0
        for cls, what in sorted(self.known_hit.items()):
            print("KNOWN-FINDING: property=%s class=%s %s" % (self.pid, cls, self.known[cls] or what))
        # report at most 5 violations, property-level ones first
        self.violations.sort(key=lambda v: v[1])
        lines = []
        for payload, no_input in self.violations[:5]:
            path = write_replay(self.pid, payload)
            lines.append("VIOLATION property=%s replay=%s%s" % (self.pid, path, " no-failing-input-found" if no_input else ""))
        ev = {
            "property_id": self.pid, "tier": self.tier, "seed": self.seed, "level": level,
            "coverage": self.coverage, "assumptions": self.assumptions, "wall_s": round(wall, 2),
            "violations": len(self.violations),
        }
        if self.notes:
            ev["coverage"]["notes"] = self.notes
        if self.known_hit:
            ev["coverage"]["known_findings_met"] = sorted(self.known_hit)
        os.makedirs(os.path.join(VERIF, "evidence"), exist_ok=True)
        with open(os.path.join(VERIF, "evidence", self.pid + ".json"), "w") as f:
            json.dump(ev, f, indent=1, sort_keys=True)
            f.write("\n")
        for l in lines:
            print(l)
        sys.stdout.flush()
        return 1 if self.violations else 0


TRUSTED_BASE_COMMON = [
    "Coq 8.16.1 kernel (coqc); vm_compute used for concrete examples and regenerated-term lemmas; no native_compute",
    "extraction to OCaml with ExtrOcamlBasic only (no Extract Constant / Extract Inductive of our own); OCaml 4.13.1; /verif/ocaml/driver.ml (s-expression reader/printer over zarith); a few cases of every run are re-evaluated by vm_compute inside Coq and must give the driver's output (extraction self-test)",
    "hand-written Gallina model tied to /repo by the correspondence run of /verif/go/cmd/vharness (Go harness, generators, canonicalisers) and /verif/lib (python comparison)",
]
