"""Runner and declarative oracles for post.ApplyDefaults / post.Prune (C18 C19)."""
import json
import re

from . import common as C


def generate(binp, seed, n):
    return C.jsonl(C.harness(binp, "post", "gen", ["-seed", str(seed), "-n", str(n)]))


def canon(x):
    t = x[0]
    if t == 6:
        return ("arr", [canon(e) for e in x[2]])
    if t == 7:
        return ("obj", sorted((k, canon(v)) for k, v in x[2]))
    return tuple(x)


def observe(binp, cases):
    for i, c in enumerate(cases):
        c["id"] = i
    recs = C.jsonl(C.harness(binp, "post", "run", input="".join(json.dumps(c) + "\n" for c in cases)))
    have = [r for r in recs if "sx" in r]
    outs = C.run_model("post", [r["sx"] for r in have]) if have else []
    mv = {}
    for r, o in zip(have, outs):
        x = C.parse_sx(o)
        if x[0] != 0:
            mv[r["id"]] = {"outcome": {1: "panic", 2: "outoffuel"}.get(x[0], "decode-error")}
        else:
            mv[r["id"]] = {"outcome": "ok", "valid": x[1] == 1, "defaulted": canon(x[2]), "pruned": canon(x[3])}
    out = []
    for c, r in zip(cases, recs):
        g = r.get("go")
        gv = None
        if g is not None:
            gv = dict(g)
            if g["outcome"] == "ok":
                gv["defaulted_c"] = canon(C.parse_sx(g["defaulted"]))
                gv["pruned_c"] = canon(C.parse_sx(g["pruned"]))
        out.append({"case": c, "go": gv, "model": mv.get(r["id"]), "skip": r.get("skip")})
    return out


# ------------------------------------------------------------------ declarative readings

EXACT_KEYWORDS = {"type", "properties", "items", "allOf", "additionalProperties", "default", "required", "enum", "definitions",
                  "$ref", "minLength", "maxLength", "minimum", "maximum", "minItems", "maxItems"}


def in_exact_class(s):
    """schemas built from properties / items / allOf / additionalProperties only: the applicable schemas of every member
    are determined without selecting an anyOf/oneOf alternative"""
    if isinstance(s, dict):
        for k, v in s.items():
            if k not in EXACT_KEYWORDS:
                return False
            if k in ("properties", "definitions"):
                if not all(in_exact_class(x) for x in v.values()):
                    return False
            elif k in ("items", "additionalProperties", "allOf"):
                if not in_exact_class(v):
                    return False
        return True
    if isinstance(s, list):
        return all(in_exact_class(x) for x in s)
    return True


def flatten(s, root, depth=0):
    """a schema together with its allOf members (references resolved)"""
    if depth > 20 or not isinstance(s, dict):
        return []
    if "$ref" in s:
        t = root.get("definitions", {}).get(s["$ref"].split("/")[-1])
        return flatten(t, root, depth + 1) if t is not None else []
    out = [s]
    for m in s.get("allOf", []) or []:
        out += flatten(m, root, depth + 1)
    return out


def member_schemas(S, k, root):
    """schemas applicable to member k of an object governed by the schemas S; None in the list = described by nothing"""
    out = []
    for s in S:
        props = s.get("properties") or {}
        hit = False
        if k in props:
            out += flatten(props[k], root)
            hit = True
        for p, ps in (s.get("patternProperties") or {}).items():
            try:
                if re.search(p, k):
                    out += flatten(ps, root)
                    hit = True
            except re.error:
                pass
        ap = s.get("additionalProperties")
        if not hit and isinstance(ap, dict):
            out += flatten(ap, root)
    return out


def item_schemas(S, i, root):
    out = []
    for s in S:
        it = s.get("items")
        if isinstance(it, dict):
            out += flatten(it, root)
        elif isinstance(it, list):
            if i < len(it):
                out += flatten(it[i], root)
            elif isinstance(s.get("additionalItems"), dict):
                out += flatten(s["additionalItems"], root)
    return out


def check_defaults(S, before, after, root, path, problems):
    if isinstance(before, dict):
        if not isinstance(after, dict):
            problems.append((path, "object replaced"))
            return
        cands = {}
        for s in S:
            for k, ps in (s.get("properties") or {}).items():
                for f in flatten(ps, root)[:1]:
                    if f.get("default") is not None:
                        cands.setdefault(k, []).append(f["default"])
        for k, v in after.items():
            if k in before:
                check_defaults(member_schemas(S, k, root), before[k], v, root, path + "." + k, problems)
            elif not any(v == d for d in cands.get(k, [])):
                problems.append((path + "." + k, "member appeared without a declared default" if k not in cands else "value is not a declared default"))
        for k in before:
            if k not in after:
                problems.append((path + "." + k, "present member disappeared"))
        for k in cands:
            if k not in before and k not in after:
                problems.append((path + "." + k, "absent member with a default was not filled"))
    elif isinstance(before, list):
        if not isinstance(after, list) or len(after) != len(before):
            problems.append((path, "array changed"))
            return
        for i, (b, a) in enumerate(zip(before, after)):
            check_defaults(item_schemas(S, i, root), b, a, root, "%s.%d" % (path, i), problems)
    elif before != after:
        problems.append((path, "present value changed"))


def check_must_fill(S, before, after, root, path, problems):
    """lower bound for schemas with alternatives: whatever anyOf / oneOf select, the schema itself and its allOf members
    apply; an absent member for which one of them declares a default must be present afterwards"""
    if isinstance(before, dict) and isinstance(after, dict):
        for s in S:
            for k, ps in (s.get("properties") or {}).items():
                f = flatten(ps, root)[:1]
                if f and f[0].get("default") is not None and k not in before and k not in after:
                    problems.append((path + "." + k, "absent member with a default (declared by the schema itself or an allOf member) was not filled"))
        for k, v in after.items():
            if k in before:
                check_must_fill(member_schemas(S, k, root), before[k], v, root, path + "." + k, problems)
    elif isinstance(before, list) and isinstance(after, list) and len(after) == len(before):
        for i, (b, a) in enumerate(zip(before, after)):
            check_must_fill(item_schemas(S, i, root), b, a, root, "%s.%d" % (path, i), problems)


def described(S, k):
    for s in S:
        if k in (s.get("properties") or {}):
            return True
        for p in (s.get("patternProperties") or {}):
            try:
                if re.search(p, k):
                    return True
            except re.error:
                pass
        if isinstance(s.get("additionalProperties"), dict):
            return True
    return False


def check_prune(S, before, after, root, path, problems):
    if isinstance(before, dict):
        if not isinstance(after, dict):
            problems.append((path, "object replaced"))
            return
        for k in before:
            d = described(S, k)
            if d and k not in after:
                problems.append((path + "." + k, "described member removed"))
            if not d and k in after:
                problems.append((path + "." + k, "undescribed member kept"))
            if k in after:
                check_prune(member_schemas(S, k, root), before[k], after[k], root, path + "." + k, problems)
        for k in after:
            if k not in before:
                problems.append((path + "." + k, "member appeared"))
    elif isinstance(before, list):
        if not isinstance(after, list) or len(after) != len(before):
            problems.append((path, "array changed"))
            return
        for i, (b, a) in enumerate(zip(before, after)):
            check_prune(item_schemas(S, i, root), b, a, root, "%s.%d" % (path, i), problems)
    elif before != after:
        problems.append((path, "kept value changed"))


def only_removes(before, after, path, problems):
    """universal part: pruning never adds or alters anything"""
    if isinstance(before, dict) and isinstance(after, dict):
        for k, v in after.items():
            if k not in before:
                problems.append((path + "." + k, "member appeared"))
            else:
                only_removes(before[k], v, path + "." + k, problems)
    elif isinstance(before, list) and isinstance(after, list) and len(before) == len(after):
        for i, (b, a) in enumerate(zip(before, after)):
            only_removes(b, a, "%s.%d" % (path, i), problems)
    elif before != after:
        problems.append((path, "value changed"))


def only_adds(before, after, path, problems):
    """universal part: defaults never remove or alter anything that was present"""
    if isinstance(before, dict) and isinstance(after, dict):
        for k, v in before.items():
            if k not in after:
                problems.append((path + "." + k, "present member disappeared"))
            else:
                only_adds(v, after[k], path + "." + k, problems)
    elif isinstance(before, list) and isinstance(after, list) and len(before) == len(after):
        for i, (b, a) in enumerate(zip(before, after)):
            only_adds(b, a, "%s.%d" % (path, i), problems)
    elif before != after:
        problems.append((path, "value changed"))
