(* every constructor overwrites every field of a borrowed validator (static form, checked on the table
   regenerated from /repo's sources on every run) *)
From Coq Require Import List String Bool.
From Verif Require Import Gen.CtorFacts.
Import ListNotations.
Open Scope string_scope.

Definition mem_s (x : string) (l : list string) : bool := existsb (String.eqb x) l.

Definition covers (e : string * list string * list string) : bool :=
  let '(_, fields, assigned) := e in
  negb (Nat.eqb (List.length fields) 0) && forallb (fun f => mem_s f assigned) fields.

Definition uncovered : list (string * list string) :=
  flat_map (fun e => let '(n, fields, assigned) := e in
                     match filter (fun f => negb (mem_s f assigned)) fields with
                     | [] => if Nat.eqb (List.length fields) 0 then [(n, ["<type not found>"])] else []
                     | l => [(n, l)]
                     end) ctor_table.

Lemma ctor_writes_all_fields : forallb covers ctor_table = true.
Proof. vm_compute. reflexivity. Qed.

Lemma ctor_table_complete : List.length ctor_table = 14%nat.
Proof. reflexivity. Qed.
