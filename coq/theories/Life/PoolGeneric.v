(* Recycling is transparent for a disciplined client (C04, generic part; no reference to validators).

   A client of the pools is any deterministic strategy: given the values its reads have returned so far it
   issues the next command (borrow, redeem, write a field, read a field, output a value, stop); its control
   flow may depend on everything it has read.  [run_fresh] executes it with a brand-new zeroed object for every
   borrow.  [run_pooled] executes it on a real pool: physical objects with arbitrary initial contents (whatever
   came before), a borrow returning either a fresh object or ANY pooled one (an arbitrary oracle, sync.Pool may
   also drop objects), a redeem putting the object back (twice, if the client redeems twice).

   Theorem: if the fresh run is disciplined - no tenure redeemed twice, no access after the redeem, every read of
   a field preceded by a write of that field in the same tenure - then the pooled run issues the same commands,
   reads the same values and outputs the same values, for every initial pool and every borrow oracle, and the
   pool never holds an object twice nor an object that is still borrowed. *)
From Coq Require Import List Arith ZArith Bool Lia.
Import ListNotations.

Definition tid := nat.      (* tenure: the n-th borrow *)
Definition fld := nat.
Definition pid := nat.      (* physical object *)

Inductive cmd : Type :=
| CNew
| CRedeem (t : tid)
| CWrite (t : tid) (f : fld) (v : Z)
| CRead (t : tid) (f : fld)
| COut (v : Z)
| CStop.

Definition client := nat -> list Z -> cmd.     (* commands issued so far, values read so far *)

Definition upd2 {A} (m : nat -> nat -> A) (a b : nat) (v : A) : nat -> nat -> A :=
  fun x y => if Nat.eqb x a && Nat.eqb y b then v else m x y.

(* ------------------------------------------------------------------ fresh semantics *)

Record fstate : Type := {
  f_reads : list Z;                 (* what the reads returned, oldest first *)
  f_outs : list Z;
  f_next : tid;                     (* number of borrows so far *)
  f_heap : tid -> fld -> Z;         (* every tenure has its own object; fresh objects are zeroed *)
  f_trace : list cmd;               (* commands issued, oldest first *)
  f_halted : bool;
}.

Definition f_init : fstate :=
  {| f_reads := []; f_outs := []; f_next := 0; f_heap := fun _ _ => 0%Z; f_trace := []; f_halted := false |}.

Definition f_step (P : client) (s : fstate) : fstate :=
  if f_halted s then s else
  let c := P (length (f_trace s)) (f_reads s) in
  let tr := f_trace s ++ [c] in
  match c with
  | CNew => {| f_reads := f_reads s; f_outs := f_outs s; f_next := S (f_next s); f_heap := f_heap s; f_trace := tr; f_halted := false |}
  | CRedeem _ => {| f_reads := f_reads s; f_outs := f_outs s; f_next := f_next s; f_heap := f_heap s; f_trace := tr; f_halted := false |}
  | CWrite t f v => {| f_reads := f_reads s; f_outs := f_outs s; f_next := f_next s; f_heap := upd2 (f_heap s) t f v; f_trace := tr; f_halted := false |}
  | CRead t f => {| f_reads := f_reads s ++ [f_heap s t f]; f_outs := f_outs s; f_next := f_next s; f_heap := f_heap s; f_trace := tr; f_halted := false |}
  | COut v => {| f_reads := f_reads s; f_outs := f_outs s ++ [v]; f_next := f_next s; f_heap := f_heap s; f_trace := tr; f_halted := false |}
  | CStop => {| f_reads := f_reads s; f_outs := f_outs s; f_next := f_next s; f_heap := f_heap s; f_trace := tr; f_halted := true |}
  end.

Fixpoint f_run (P : client) (n : nat) : fstate :=
  match n with O => f_init | S k => f_step P (f_run P k) end.

(* ------------------------------------------------------------------ discipline of a command sequence *)

Record dstate : Type := {
  d_created : nat;
  d_redeemed : list tid;
  d_written : list (tid * fld);
}.

Definition d_init : dstate := {| d_created := 0; d_redeemed := []; d_written := [] |}.

Definition mem_nat (x : nat) (l : list nat) : bool := existsb (Nat.eqb x) l.
Definition mem_tf (t : tid) (f : fld) (l : list (tid * fld)) : bool :=
  existsb (fun p => Nat.eqb (fst p) t && Nat.eqb (snd p) f) l.

Definition live (d : dstate) (t : tid) : bool := Nat.ltb t (d_created d) && negb (mem_nat t (d_redeemed d)).

Definition d_ok (d : dstate) (c : cmd) : bool :=
  match c with
  | CNew | COut _ | CStop => true
  | CRedeem t => live d t                          (* not redeemed twice, and it exists *)
  | CWrite t _ _ => live d t                       (* no write after the redeem *)
  | CRead t f => live d t && mem_tf t f (d_written d)   (* no read after the redeem; written before it is read *)
  end.

Definition d_step (d : dstate) (c : cmd) : dstate :=
  match c with
  | CNew => {| d_created := S (d_created d); d_redeemed := d_redeemed d; d_written := d_written d |}
  | CRedeem t => {| d_created := d_created d; d_redeemed := t :: d_redeemed d; d_written := d_written d |}
  | CWrite t f _ => {| d_created := d_created d; d_redeemed := d_redeemed d; d_written := (t, f) :: d_written d |}
  | _ => d
  end.

Fixpoint disciplined_from (d : dstate) (tr : list cmd) : bool :=
  match tr with
  | [] => true
  | c :: t => d_ok d c && disciplined_from (d_step d c) t
  end.

Definition disciplined (tr : list cmd) : bool := disciplined_from d_init tr.

(* ------------------------------------------------------------------ pooled semantics *)

Record pstate : Type := {
  p_reads : list Z;
  p_outs : list Z;
  p_next : tid;
  p_owner : tid -> pid;             (* physical object of each tenure *)
  p_heap : pid -> fld -> Z;
  p_pool : list pid;
  p_fresh : pid;                    (* next never-used physical object *)
  p_trace : list cmd;
  p_halted : bool;
}.

Fixpoint remove_nth {A} (n : nat) (l : list A) : list A :=
  match l, n with
  | [], _ => []
  | _ :: t, O => t
  | x :: t, S k => x :: remove_nth k t
  end.

(* the borrow oracle: at the k-th borrow, None = allocate, Some i = hand out the i-th pooled object (if any) *)
Definition oracle := nat -> option nat.

Definition p_step (P : client) (ch : oracle) (s : pstate) : pstate :=
  if p_halted s then s else
  let c := P (length (p_trace s)) (p_reads s) in
  let tr := p_trace s ++ [c] in
  match c with
  | CNew =>
      match (match ch (p_next s) with Some i => nth_error (p_pool s) i | None => None end) with
      | Some p =>     (* a recycled object, with whatever it contains *)
          {| p_reads := p_reads s; p_outs := p_outs s; p_next := S (p_next s);
             p_owner := fun t => if Nat.eqb t (p_next s) then p else p_owner s t;
             p_heap := p_heap s;
             p_pool := remove_nth (match ch (p_next s) with Some i => i | None => 0 end) (p_pool s);
             p_fresh := p_fresh s; p_trace := tr; p_halted := false |}
      | None =>       (* sync.Pool's New: a zeroed object *)
          {| p_reads := p_reads s; p_outs := p_outs s; p_next := S (p_next s);
             p_owner := fun t => if Nat.eqb t (p_next s) then p_fresh s else p_owner s t;
             p_heap := fun q f => if Nat.eqb q (p_fresh s) then 0%Z else p_heap s q f;
             p_pool := p_pool s; p_fresh := S (p_fresh s); p_trace := tr; p_halted := false |}
      end
  | CRedeem t =>
      {| p_reads := p_reads s; p_outs := p_outs s; p_next := p_next s; p_owner := p_owner s; p_heap := p_heap s;
         p_pool := p_owner s t :: p_pool s; p_fresh := p_fresh s; p_trace := tr; p_halted := false |}
  | CWrite t f v =>
      {| p_reads := p_reads s; p_outs := p_outs s; p_next := p_next s; p_owner := p_owner s;
         p_heap := upd2 (p_heap s) (p_owner s t) f v;
         p_pool := p_pool s; p_fresh := p_fresh s; p_trace := tr; p_halted := false |}
  | CRead t f =>
      {| p_reads := p_reads s ++ [p_heap s (p_owner s t) f]; p_outs := p_outs s; p_next := p_next s; p_owner := p_owner s;
         p_heap := p_heap s; p_pool := p_pool s; p_fresh := p_fresh s; p_trace := tr; p_halted := false |}
  | COut v =>
      {| p_reads := p_reads s; p_outs := p_outs s ++ [v]; p_next := p_next s; p_owner := p_owner s; p_heap := p_heap s;
         p_pool := p_pool s; p_fresh := p_fresh s; p_trace := tr; p_halted := false |}
  | CStop =>
      {| p_reads := p_reads s; p_outs := p_outs s; p_next := p_next s; p_owner := p_owner s; p_heap := p_heap s;
         p_pool := p_pool s; p_fresh := p_fresh s; p_trace := tr; p_halted := true |}
  end.

(* an arbitrary starting pool: objects 0 .. n0-1 with arbitrary contents, all of them pooled once *)
Definition p_init (n0 : nat) (garbage : pid -> fld -> Z) : pstate :=
  {| p_reads := []; p_outs := []; p_next := 0; p_owner := fun _ => 0; p_heap := garbage; p_pool := seq 0 n0;
     p_fresh := n0; p_trace := []; p_halted := false |}.

Fixpoint p_run (P : client) (ch : oracle) (n0 : nat) (garbage : pid -> fld -> Z) (n : nat) : pstate :=
  match n with O => p_init n0 garbage | S k => p_step P ch (p_run P ch n0 garbage k) end.

(* ------------------------------------------------------------------ the simulation invariant *)

Fixpoint d_of (tr : list cmd) (d : dstate) : dstate :=
  match tr with [] => d | c :: t => d_of t (d_step d c) end.

Record inv (fs : fstate) (ps : pstate) (d : dstate) : Prop := {
  i_reads : p_reads ps = f_reads fs;
  i_outs : p_outs ps = f_outs fs;
  i_next : p_next ps = f_next fs;
  i_trace : p_trace ps = f_trace fs;
  i_halted : p_halted ps = f_halted fs;
  i_created : d_created d = f_next fs;
  i_bound : forall t, live d t = true -> p_owner ps t < p_fresh ps;
  i_pool_bound : forall p, In p (p_pool ps) -> p < p_fresh ps;
  i_inj : forall t u, live d t = true -> live d u = true -> p_owner ps t = p_owner ps u -> t = u;
  i_notpooled : forall t, live d t = true -> ~ In (p_owner ps t) (p_pool ps);
  i_nodup : NoDup (p_pool ps);
  i_agree : forall t f, live d t = true -> mem_tf t f (d_written d) = true -> p_heap ps (p_owner ps t) f = f_heap fs t f;
  i_written : forall t f, mem_tf t f (d_written d) = true -> t < d_created d;
}.

Lemma mem_nat_In x l : mem_nat x l = true <-> In x l.
Proof.
  unfold mem_nat. rewrite existsb_exists. split.
  - intros [y [H E]]. apply Nat.eqb_eq in E. subst. assumption.
  - intros H. exists x. split; [assumption|apply Nat.eqb_refl].
Qed.

Lemma live_created d t : live d t = true -> t < d_created d.
Proof. unfold live. rewrite andb_true_iff, Nat.ltb_lt. tauto. Qed.

Lemma remove_nth_In {A} (l : list A) : forall n x, In x (remove_nth n l) -> In x l.
Proof.
  induction l as [|y t IH]; intros n x H; [destruct n; simpl in H; contradiction|].
  destruct n; simpl in *; [right; assumption|]. destruct H as [->|H]; [left; reflexivity|right; eapply IH; eassumption].
Qed.

Lemma remove_nth_NoDup {A} (l : list A) : forall n, NoDup l -> NoDup (remove_nth n l).
Proof.
  induction l as [|y t IH]; intros n H; [destruct n; simpl; constructor|].
  inversion H as [|? ? Hy Ht]; subst. destruct n; simpl; [assumption|].
  constructor; [|apply IH; assumption]. intros Hin. apply Hy. eapply remove_nth_In; eassumption.
Qed.

Lemma remove_nth_removed {A} (l : list A) : forall n x, NoDup l -> nth_error l n = Some x -> ~ In x (remove_nth n l).
Proof.
  induction l as [|y t IH]; intros n x Hn E; [destruct n; discriminate|].
  inversion Hn as [|? ? Hy Ht]; subst. destruct n; simpl in *.
  - injection E as ->. assumption.
  - intros [->|Hin].
    + apply Hy. eapply nth_error_In; eassumption.
    + eapply IH; eassumption.
Qed.

Lemma upd2_same {A} (m : nat -> nat -> A) a b v : upd2 m a b v a b = v.
Proof. unfold upd2. now rewrite !Nat.eqb_refl. Qed.

Lemma upd2_other {A} (m : nat -> nat -> A) a b v x y : (x <> a \/ y <> b) -> upd2 m a b v x y = m x y.
Proof.
  unfold upd2. intros H. destruct (Nat.eqb_spec x a), (Nat.eqb_spec y b); simpl; try reflexivity. subst. destruct H; congruence.
Qed.


Lemma mem_tf_cons t f a b l : mem_tf t f ((a, b) :: l) = (Nat.eqb a t && Nat.eqb b f) || mem_tf t f l.
Proof. reflexivity. Qed.

Lemma live_new d u :
  live {| d_created := S (d_created d); d_redeemed := d_redeemed d; d_written := d_written d |} u = true ->
  u = d_created d \/ live d u = true.
Proof.
  unfold live. simpl. rewrite !andb_true_iff, !Nat.ltb_lt. intros [H1 H2].
  destruct (Nat.eq_dec u (d_created d)); [left; assumption|right]. split; [lia|assumption].
Qed.

Lemma live_redeem d t u :
  live {| d_created := d_created d; d_redeemed := t :: d_redeemed d; d_written := d_written d |} u = true ->
  live d u = true /\ u <> t.
Proof.
  unfold live, mem_nat. simpl. rewrite !andb_true_iff, negb_true_iff, orb_false_iff, negb_true_iff. intros [H1 [H2 H3]].
  split; [split; assumption|]. apply Nat.eqb_neq in H2. assumption.
Qed.

Lemma not_live_uncreated d : live d (d_created d) = false.
Proof. unfold live. now rewrite Nat.ltb_irrefl. Qed.

(* one step preserves the invariant when the command is allowed by the discipline *)
Lemma step_inv P ch fs ps d :
  inv fs ps d -> f_halted fs = false -> d_ok d (P (length (f_trace fs)) (f_reads fs)) = true ->
  inv (f_step P fs) (p_step P ch ps) (d_step d (P (length (f_trace fs)) (f_reads fs))).
Proof.
  intros I Hh Hok. destruct I as [Ir Io Inx It Ihl Ic Ib Ipb Iinj Inp Ind Iag Iw].
  unfold f_step, p_step. rewrite Ihl, Hh, Ir, It. destruct (P (length (f_trace fs)) (f_reads fs)) as [|t|t f v|t f|v|] eqn:Ec; simpl in Hok.
  - (* CNew *)
    destruct (match ch (p_next ps) with Some i => nth_error (p_pool ps) i | None => None end) as [p|] eqn:Ech.
    + (* a recycled object *)
      assert (Hp : exists i, ch (p_next ps) = Some i /\ nth_error (p_pool ps) i = Some p).
      { destruct (ch (p_next ps)) as [i|]; [eauto|discriminate]. }
      destruct Hp as [i [Ei En]]. rewrite Ei.
      assert (Hpin : In p (p_pool ps)) by (eapply nth_error_In; eassumption).
      constructor; simpl; try congruence.
      * intros u Hu. apply live_new in Hu as [->|Hu].
        -- rewrite Inx, <- Ic, Nat.eqb_refl. apply Ipb. assumption.
        -- rewrite Inx. destruct (Nat.eqb_spec u (f_next fs)); [apply Ipb; assumption|apply Ib; assumption].
      * intros q Hq. apply Ipb. eapply remove_nth_In; eassumption.
      * intros u w Hu Hw. rewrite Inx.
        apply live_new in Hu as [->|Hu]; apply live_new in Hw as [->|Hw]; rewrite <- ?Ic.
        -- reflexivity.
        -- rewrite Nat.eqb_refl. destruct (Nat.eqb_spec w (d_created d)) as [->|Hne]; [reflexivity|].
           intros E. exfalso. apply (Inp w Hw). rewrite <- E. assumption.
        -- rewrite Nat.eqb_refl. destruct (Nat.eqb_spec u (d_created d)) as [->|Hne]; [reflexivity|].
           intros E. exfalso. apply (Inp u Hu). rewrite E. assumption.
        -- destruct (Nat.eqb_spec u (d_created d)) as [->|Hu']; [rewrite not_live_uncreated in Hu; discriminate|].
           destruct (Nat.eqb_spec w (d_created d)) as [->|Hw']; [rewrite not_live_uncreated in Hw; discriminate|].
           apply Iinj; assumption.
      * intros u Hu. rewrite Inx. apply live_new in Hu as [->|Hu].
        -- rewrite <- Ic, Nat.eqb_refl. eapply remove_nth_removed; eassumption.
        -- destruct (Nat.eqb_spec u (f_next fs)) as [->|Hne].
           ++ rewrite <- Ic, not_live_uncreated in Hu. discriminate.
           ++ intros Hin. apply (Inp u Hu). eapply remove_nth_In; eassumption.
      * apply remove_nth_NoDup. assumption.
      * intros u g Hu Hg. rewrite Inx. pose proof (Iw u g Hg) as Hlt.
        destruct (Nat.eqb_spec u (f_next fs)) as [->|Hne]; [lia|].
        apply live_new in Hu as [->|Hu]; [lia|]. apply Iag; assumption.
      * intros u g Hg. pose proof (Iw u g Hg). lia.
    + (* a fresh, zeroed object *)
      constructor; simpl; try congruence.
      * intros u Hu. rewrite Inx. apply live_new in Hu as [->|Hu].
        -- rewrite <- Ic, Nat.eqb_refl. lia.
        -- destruct (Nat.eqb_spec u (f_next fs)); [lia|]. pose proof (Ib u Hu). lia.
      * intros q Hq. pose proof (Ipb q Hq). lia.
      * intros u w Hu Hw. rewrite Inx.
        apply live_new in Hu as [->|Hu]; apply live_new in Hw as [->|Hw]; rewrite <- ?Ic.
        -- reflexivity.
        -- rewrite Nat.eqb_refl. destruct (Nat.eqb_spec w (d_created d)) as [->|Hne]; [reflexivity|].
           pose proof (Ib w Hw). lia.
        -- rewrite Nat.eqb_refl. destruct (Nat.eqb_spec u (d_created d)) as [->|Hne]; [reflexivity|].
           pose proof (Ib u Hu). lia.
        -- destruct (Nat.eqb_spec u (d_created d)) as [->|Hu']; [rewrite not_live_uncreated in Hu; discriminate|].
           destruct (Nat.eqb_spec w (d_created d)) as [->|Hw']; [rewrite not_live_uncreated in Hw; discriminate|].
           apply Iinj; assumption.
      * intros u Hu. rewrite Inx. apply live_new in Hu as [->|Hu].
        -- rewrite <- Ic, Nat.eqb_refl. intros Hin. pose proof (Ipb _ Hin). lia.
        -- destruct (Nat.eqb_spec u (f_next fs)) as [->|Hne].
           ++ rewrite <- Ic, not_live_uncreated in Hu. discriminate.
           ++ apply Inp. assumption.
      * intros u g Hu Hg. rewrite Inx. pose proof (Iw u g Hg) as Hlt.
        destruct (Nat.eqb_spec u (f_next fs)) as [->|Hne]; [lia|].
        apply live_new in Hu as [->|Hu]; [lia|].
        pose proof (Ib u Hu). destruct (Nat.eqb_spec (p_owner ps u) (p_fresh ps)); [lia|]. apply Iag; assumption.
      * intros u g Hg. pose proof (Iw u g Hg). lia.
  - (* CRedeem t *)
    constructor; simpl; try congruence.
    + intros u Hu. apply live_redeem in Hu as [Hu _]. apply Ib. assumption.
    + intros q [<-|Hq]; [apply Ib; assumption|apply Ipb; assumption].
    + intros u w Hu Hw. apply live_redeem in Hu as [Hu _]. apply live_redeem in Hw as [Hw _]. apply Iinj; assumption.
    + intros u Hu. apply live_redeem in Hu as [Hu Hne]. intros [E|Hin].
      * apply Hne. symmetry. apply Iinj; assumption.
      * apply (Inp u Hu). assumption.
    + constructor; [apply Inp; assumption|assumption].
    + intros u g Hu Hg. apply live_redeem in Hu as [Hu _]. apply Iag; assumption.
    + assumption.
  - (* CWrite t f v *)
    constructor; simpl; try congruence.
    + intros u Hu. change (live d u = true) in Hu. apply Ib; assumption.
    + assumption.
    + intros u w Hu Hw. change (live d u = true) in Hu. change (live d w = true) in Hw. apply Iinj; assumption.
    + intros u Hu. change (live d u = true) in Hu. apply Inp; assumption.
    + intros u g Hu Hg. change (live d u = true) in Hu. try rewrite mem_tf_cons in Hg.
      destruct (Nat.eqb_spec t u) as [<-|Htu].
      * destruct (Nat.eqb_spec f g) as [<-|Hfg].
        -- now rewrite !upd2_same.
        -- simpl in Hg. rewrite !upd2_other by (right; congruence). apply Iag; assumption.
      * simpl in Hg. rewrite (upd2_other (f_heap fs)) by (left; congruence).
        rewrite upd2_other; [apply Iag; assumption|]. left. intros E. apply Htu. symmetry. apply Iinj; assumption.
    + intros u g Hg. try rewrite mem_tf_cons in Hg. apply orb_true_iff in Hg as [Hg|Hg]; [|apply Iw with g; assumption].
      apply andb_true_iff in Hg as [Hg _]. apply Nat.eqb_eq in Hg. subst u. apply live_created. assumption.
  - (* CRead t f *)
    apply andb_true_iff in Hok as [Hl Hwr].
    constructor; simpl; try assumption; try congruence.
    rewrite (Iag t f Hl Hwr). congruence.
  - (* COut *) constructor; simpl; try assumption; try congruence.
  - (* CStop *) constructor; simpl; try assumption; try congruence.
Qed.

Lemma live_init t : live d_init t = false.
Proof. reflexivity. Qed.

Lemma inv_init n0 garbage : inv f_init (p_init n0 garbage) d_init.
Proof.
  constructor; simpl; try reflexivity.
  - intros t H. rewrite live_init in H. discriminate.
  - intros p Hp. apply in_seq in Hp. lia.
  - intros t u H. rewrite live_init in H. discriminate.
  - intros t H. rewrite live_init in H. discriminate.
  - apply seq_NoDup.
  - intros t f H. rewrite live_init in H. discriminate.
  - intros t f H. discriminate.
Qed.

(* the discipline of the fresh trace, step by step *)
Lemma disciplined_from_app d tr c :
  disciplined_from d (tr ++ [c]) = disciplined_from d tr && d_ok (d_of tr d) c.
Proof.
  revert d. induction tr as [|x t IH]; intros d; simpl.
  - now rewrite andb_true_r.
  - rewrite IH. now rewrite andb_assoc.
Qed.

Lemma d_of_app tr c d : d_of (tr ++ [c]) d = d_step (d_of tr d) c.
Proof. revert d. induction tr as [|x t IH]; intros d; simpl; [reflexivity|apply IH]. Qed.

Lemma f_step_trace P s : f_halted s = false -> f_trace (f_step P s) = f_trace s ++ [P (length (f_trace s)) (f_reads s)].
Proof. intros H. unfold f_step. rewrite H. destruct (P (length (f_trace s)) (f_reads s)); reflexivity. Qed.

Lemma f_step_halted P s : f_halted s = true -> f_step P s = s.
Proof. intros H. unfold f_step. now rewrite H. Qed.

Lemma p_step_halted P ch s : p_halted s = true -> p_step P ch s = s.
Proof. intros H. unfold p_step. now rewrite H. Qed.

Lemma f_trace_mono P n : exists ext, f_trace (f_run P (S n)) = f_trace (f_run P n) ++ ext.
Proof.
  simpl. destruct (f_halted (f_run P n)) eqn:E.
  - rewrite f_step_halted by assumption. exists []. now rewrite app_nil_r.
  - rewrite f_step_trace by assumption. eauto.
Qed.

Lemma disciplined_from_prefix d a b : disciplined_from d (a ++ b) = true -> disciplined_from d a = true.
Proof.
  revert d. induction a as [|x t IH]; intros d H; simpl in *; [reflexivity|].
  apply andb_true_iff in H as [H1 H2]. rewrite H1. simpl. eapply IH; eassumption.
Qed.

Theorem simulation P ch n0 garbage n :
  disciplined (f_trace (f_run P n)) = true ->
  inv (f_run P n) (p_run P ch n0 garbage n) (d_of (f_trace (f_run P n)) d_init).
Proof.
  induction n as [|n IH]; intros Hd.
  - simpl. apply inv_init.
  - destruct (f_trace_mono P n) as [ext Hext].
    assert (Hd' : disciplined (f_trace (f_run P n)) = true).
    { unfold disciplined in *. rewrite Hext in Hd. eapply disciplined_from_prefix; eassumption. }
    specialize (IH Hd'). simpl.
    destruct (f_halted (f_run P n)) eqn:Eh.
    + rewrite f_step_halted by assumption. rewrite p_step_halted by (rewrite (i_halted _ _ _ IH); assumption). assumption.
    + assert (Et : f_trace (f_step P (f_run P n)) = f_trace (f_run P n) ++ [P (length (f_trace (f_run P n))) (f_reads (f_run P n))]) by (apply f_step_trace; assumption).
      rewrite Et, d_of_app. apply step_inv; [assumption|assumption|].
      unfold disciplined in Hd. simpl in Hd. rewrite Et, disciplined_from_app in Hd.
      apply andb_true_iff in Hd as [_ Hd]. assumption.
Qed.

(* ------------------------------------------------------------------ the theorem *)

Theorem pool_noninterference P n :
  disciplined (f_trace (f_run P n)) = true ->
  forall ch n0 garbage,
    let ps := p_run P ch n0 garbage n in
    let fs := f_run P n in
    p_trace ps = f_trace fs /\ p_reads ps = f_reads fs /\ p_outs ps = f_outs fs /\
    NoDup (p_pool ps) /\
    (forall t, live (d_of (f_trace fs) d_init) t = true -> ~ In (p_owner ps t) (p_pool ps)).
Proof.
  intros Hd ch n0 garbage ps fs. pose proof (simulation P ch n0 garbage n Hd) as I.
  destruct I. repeat split; assumption.
Qed.

(* exclusive ownership: two live tenures never share a physical object - whoever issued them. The client P is
   arbitrary, in particular the merge of the command streams of any number of goroutines under any scheduler
   (every command is one atomic step of the pool or an access to an object of the issuing goroutine). *)
Theorem exclusive_ownership P n :
  disciplined (f_trace (f_run P n)) = true ->
  forall ch n0 garbage t u,
    let ps := p_run P ch n0 garbage n in
    let d := d_of (f_trace (f_run P n)) d_init in
    live d t = true -> live d u = true -> p_owner ps t = p_owner ps u -> t = u.
Proof.
  intros Hd ch n0 garbage t u ps d. pose proof (simulation P ch n0 garbage n Hd) as I.
  apply (i_inj _ _ _ I).
Qed.

(* without the discipline the conclusion fails: a client that reads a field it never wrote sees what an earlier
   user left in the recycled object (borrow; read field 0; output it; stop) *)
Definition careless : client := fun step reads =>
  match step, reads with
  | 0, _ => CNew
  | 1, _ => CRead 0 0
  | 2, v :: _ => COut v
  | _, _ => CStop
  end.

Example careless_sees_garbage :
  f_outs (f_run careless 4) = [0%Z] /\
  p_outs (p_run careless (fun _ => Some 0) 1 (fun _ _ => 7%Z) 4) = [7%Z] /\
  disciplined (f_trace (f_run careless 4)) = false.
Proof. repeat split; reflexivity. Qed.

(* and a disciplined client: borrow, write field 0, read it back, output, redeem, stop *)
Definition careful : client := fun step reads =>
  match step, reads with
  | 0, _ => CNew
  | 1, _ => CWrite 0 0 5
  | 2, _ => CRead 0 0
  | 3, v :: _ => COut v
  | 4, _ => CRedeem 0
  | _, _ => CStop
  end.

Example careful_is_disciplined : disciplined (f_trace (f_run careful 6)) = true.
Proof. reflexivity. Qed.
