(* The redeem protocol shared by the recycling validators (schema.go:134-139, 210-231, 337-354;
   validator.go:76-129, 355-407, 546-599; schema_props.go:114-121, 153-292, 319-356), with Go's unwinding:

   a validator object owns one slot per child; Validate defers "redeem the children still in their slots, then
   redeem myself"; a child that does not apply is redeemed (with its own children) on the spot and its slot
   cleared; a child that applies has its slot cleared BEFORE its Validate is called and redeems itself in its own
   deferred function.  A panic raised by caller-supplied code (a format checker) unwinds through every active
   Validate, running the deferred functions innermost first.

   Nodes are identified by their path in the validator tree. Theorem: for every tree and every abort point, every
   node is redeemed exactly once, and never used after it was redeemed - so the generic theorem of PoolGeneric
   applies to every later validation. *)
From Coq Require Import List Arith Bool Lia.
Import ListNotations.

Definition path := list nat.

Inductive tree : Type :=
| Node (applies : bool) (calls_user_code : bool) (children : forest)
with forest : Type :=
| FNil
| FCons (t : tree) (f : forest).

Scheme tree_ind2 := Induction for tree Sort Prop
with forest_ind2 := Induction for forest Sort Prop.
Combined Scheme tree_forest_ind from tree_ind2, forest_ind2.

Inductive ev : Type :=
| ENew (p : path)
| EUse (p : path)
| ERedeem (p : path).

(* construction borrows the node, then its children (schema.go:89-112) *)
Fixpoint construct (p : path) (t : tree) : list ev :=
  match t with
  | Node _ _ ch => ENew p :: construct_f p 0 ch
  end
with construct_f (p : path) (i : nat) (f : forest) : list ev :=
  match f with
  | FNil => []
  | FCons t r => construct (p ++ [i]) t ++ construct_f p (S i) r
  end.

(* redeemChildren(); redeem() on a validator that will not run *)
Fixpoint relinquish (p : path) (t : tree) : list ev :=
  match t with
  | Node _ _ ch => relinquish_f p 0 ch ++ [ERedeem p]
  end
with relinquish_f (p : path) (i : nat) (f : forest) : list ev :=
  match f with
  | FNil => []
  | FCons t r => relinquish (p ++ [i]) t ++ relinquish_f p (S i) r
  end.

(* Validate: [k] counts the invocations of caller-supplied code still to happen before the injected panic
   (k = 0: no panic). Returns the events and [None] when the panic was raised and is propagating. *)
Fixpoint run (p : path) (t : tree) (k : nat) : list ev * option nat :=
  match t with
  | Node _ user ch =>
      let '(e0, k0) := if user then
                         match k with
                         | 1 => ([EUse p], None)               (* the checker panics *)
                         | 0 => ([EUse p], Some 0)
                         | S k' => ([EUse p], Some k')
                         end
                       else ([EUse p], Some k) in
      match k0 with
      | None => (e0 ++ relinquish_f p 0 ch ++ [ERedeem p], None)   (* deferred: redeemChildren; redeem *)
      | Some k1 =>
          let '(e1, k2) := run_f p 0 ch k1 in
          (e0 ++ e1 ++ [ERedeem p], k2)                          (* all slots are empty: only redeem() is left *)
      end
  end
with run_f (p : path) (i : nat) (f : forest) (k : nat) : list ev * option nat :=
  match f with
  | FNil => ([], Some k)
  | FCons (Node applies user ch as t) r =>
      if applies then
        (* slot cleared, then child.Validate *)
        let '(e, k') := run (p ++ [i]) t k in
        match k' with
        | None => (e ++ relinquish_f p (S i) r, None)            (* unwinding: the remaining slots are redeemed *)
        | Some k'' => let '(e2, k3) := run_f p (S i) r k'' in (e ++ e2, k3)
        end
      else
        let '(e2, k3) := run_f p (S i) r k in (relinquish (p ++ [i]) t ++ e2, k3)
  end.

Definition lifecycle (t : tree) (k : nat) : list ev := construct [] t ++ fst (run [] t k).

(* ------------------------------------------------------------------ counting *)

Definition path_eqb (a b : path) : bool :=
  (fix go (a b : list nat) : bool :=
     match a, b with
     | [], [] => true
     | x :: a', y :: b' => Nat.eqb x y && go a' b'
     | _, _ => false
     end) a b.

Lemma path_eqb_spec a b : path_eqb a b = true <-> a = b.
Proof.
  unfold path_eqb. revert b. induction a as [|x a IH]; intros [|y b]; simpl; try (split; congruence).
  rewrite andb_true_iff, Nat.eqb_eq, IH. split; [intros [-> ->]; reflexivity|intros E; injection E; auto].
Qed.

Definition is_redeem (q : path) (e : ev) : bool := match e with ERedeem p => path_eqb p q | _ => false end.
Definition is_new (q : path) (e : ev) : bool := match e with ENew p => path_eqb p q | _ => false end.

Definition count (f : ev -> bool) (l : list ev) : nat := length (filter f l).

Lemma count_app f a b : count f (a ++ b) = count f a + count f b.
Proof. unfold count. now rewrite filter_app, app_length. Qed.

(* the nodes of a tree rooted at p *)
Fixpoint nodes (p : path) (t : tree) : list path :=
  match t with Node _ _ ch => p :: nodes_f p 0 ch end
with nodes_f (p : path) (i : nat) (f : forest) : list path :=
  match f with
  | FNil => []
  | FCons t r => nodes (p ++ [i]) t ++ nodes_f p (S i) r
  end.

Definition is_prefix (p q : path) : Prop := exists s, q = p ++ s.

(* every node of the subtree at p extends p; children at index >= i extend p ++ [j] with j >= i *)
Lemma nodes_prefix :
  (forall t p q, In q (nodes p t) -> is_prefix p q) /\
  (forall f p i q, In q (nodes_f p i f) -> exists j s, i <= j /\ q = p ++ j :: s).
Proof.
  apply tree_forest_ind.
  - intros a u ch IH p q [<-|H]; [exists []; now rewrite app_nil_r|].
    destruct (IH p 0 q H) as (j & s & _ & ->). exists (j :: s). reflexivity.
  - intros p i q H. destruct H.
  - intros t IHt r IHr p i q H. simpl in H. apply in_app_iff in H as [H|H].
    + destruct (IHt _ _ H) as [s ->]. exists i, s. split; [lia|]. now rewrite <- app_assoc.
    + destruct (IHr p (S i) q H) as (j & s & Hj & ->). exists j, s. split; [lia|reflexivity].
Qed.

Lemma app_cons_inj_idx (p : path) i j s s' : p ++ i :: s = p ++ j :: s' -> i = j.
Proof. intros H. apply app_inv_head in H. congruence. Qed.

(* q is not a node of the subtree at p' when p' does not prefix it: then no event of that subtree mentions q *)
Definition mentions (q : path) (e : ev) : bool :=
  match e with ENew p | EUse p | ERedeem p => path_eqb p q end.

Lemma events_in_subtree :
  (forall t p k e, In e (construct p t) \/ In e (relinquish p t) \/ In e (fst (run p t k)) ->
                   exists q, mentions q e = true /\ In q (nodes p t)) /\
  (forall f p i k e, In e (construct_f p i f) \/ In e (relinquish_f p i f) \/ In e (fst (run_f p i f k)) ->
                     exists q, mentions q e = true /\ In q (nodes_f p i f)).
Proof.
  assert (R : forall p, path_eqb p p = true) by (intros; apply path_eqb_spec; reflexivity).
  apply tree_forest_ind.
  - intros a u ch IH p k e H. simpl nodes.
    assert (Hf : forall e, In e (construct_f p 0 ch) \/ In e (relinquish_f p 0 ch) \/ (exists k', In e (fst (run_f p 0 ch k'))) ->
                           exists q, mentions q e = true /\ In q (p :: nodes_f p 0 ch)).
    { intros e' [H'|[H'|[k' H']]]; [destruct (IH p 0 0 e') as [q [Hq Hin]]; [auto|]
                                  |destruct (IH p 0 0 e') as [q [Hq Hin]]; [auto|]
                                  |destruct (IH p 0 k' e') as [q [Hq Hin]]; [auto|]]; exists q; split; auto; right; assumption. }
    assert (Hself : forall e, e = ENew p \/ e = EUse p \/ e = ERedeem p -> exists q, mentions q e = true /\ In q (p :: nodes_f p 0 ch)).
    { intros e' [-> | [-> | ->]]; exists p; simpl; rewrite R; auto. }
    destruct H as [H|[H|H]].
    + simpl in H. destruct H as [<-|H]; [apply Hself; auto|apply Hf; auto].
    + simpl in H. apply in_app_iff in H as [H|[<-|F]]; [apply Hf; auto|apply Hself; auto|destruct F].
    + simpl in H.
      destruct u.
      * destruct k as [|[|k']]; simpl in H.
        -- destruct (run_f p 0 ch 0) as [e1 k2] eqn:E. simpl in H.
           destruct H as [<-|H]; [apply Hself; auto|]. apply in_app_iff in H as [H|[<-|F]]; [|apply Hself; auto|destruct F].
           apply Hf. right. right. exists 0. rewrite E. assumption.
        -- destruct H as [<-|H]; [apply Hself; auto|]. apply in_app_iff in H as [H|[<-|F]]; [apply Hf; auto|apply Hself; auto|destruct F].
        -- destruct (run_f p 0 ch (S k')) as [e1 k2] eqn:E. simpl in H.
           destruct H as [<-|H]; [apply Hself; auto|]. apply in_app_iff in H as [H|[<-|F]]; [|apply Hself; auto|destruct F].
           apply Hf. right. right. exists (S k'). rewrite E. assumption.
      * destruct (run_f p 0 ch k) as [e1 k2] eqn:E. simpl in H.
        destruct H as [<-|H]; [apply Hself; auto|]. apply in_app_iff in H as [H|[<-|F]]; [|apply Hself; auto|destruct F].
        apply Hf. right. right. exists k. rewrite E. assumption.
  - intros p i k e H. destruct H as [H|[H|H]]; destruct H.
  - intros t IHt r IHr p i k e H. simpl nodes_f.
    assert (Ht : forall e, In e (construct (p ++ [i]) t) \/ In e (relinquish (p ++ [i]) t) \/ (exists k', In e (fst (run (p ++ [i]) t k'))) ->
                           exists q, mentions q e = true /\ In q (nodes (p ++ [i]) t ++ nodes_f p (S i) r)).
    { intros e' [H'|[H'|[k' H']]]; [destruct (IHt (p ++ [i]) 0 e') as [q [Hq Hin]]; [auto|]
                                  |destruct (IHt (p ++ [i]) 0 e') as [q [Hq Hin]]; [auto|]
                                  |destruct (IHt (p ++ [i]) k' e') as [q [Hq Hin]]; [auto|]]; exists q; split; auto; apply in_or_app; left; assumption. }
    assert (Hr : forall e, In e (construct_f p (S i) r) \/ In e (relinquish_f p (S i) r) \/ (exists k', In e (fst (run_f p (S i) r k'))) ->
                           exists q, mentions q e = true /\ In q (nodes (p ++ [i]) t ++ nodes_f p (S i) r)).
    { intros e' [H'|[H'|[k' H']]]; [destruct (IHr p (S i) 0 e') as [q [Hq Hin]]; [auto|]
                                  |destruct (IHr p (S i) 0 e') as [q [Hq Hin]]; [auto|]
                                  |destruct (IHr p (S i) k' e') as [q [Hq Hin]]; [auto|]]; exists q; split; auto; apply in_or_app; right; assumption. }
    destruct H as [H|[H|H]].
    + simpl in H. apply in_app_iff in H as [H|H]; [apply Ht; auto|apply Hr; auto].
    + simpl in H. apply in_app_iff in H as [H|H]; [apply Ht; auto|apply Hr; auto].
    + destruct t as [a u ch]. cbn [run_f] in H. destruct a.
      * destruct (run (p ++ [i]) (Node true u ch) k) as [e1 k'] eqn:E1. destruct k' as [k''|].
        -- destruct (run_f p (S i) r k'') as [e2 k3] eqn:E2. simpl in H. apply in_app_iff in H as [H|H].
           ++ apply Ht. right. right. exists k. rewrite E1. assumption.
           ++ apply Hr. right. right. exists k''. rewrite E2. assumption.
        -- simpl in H. apply in_app_iff in H as [H|H].
           ++ apply Ht. right. right. exists k. rewrite E1. assumption.
           ++ apply Hr. auto.
      * destruct (run_f p (S i) r k) as [e2 k3] eqn:E2. simpl in H. apply in_app_iff in H as [H|H].
        -- apply Ht. auto.
        -- apply Hr. right. right. exists k. rewrite E2. assumption.
Qed.

(* ------------------------------------------------------------------ every node is redeemed exactly once *)

Lemma path_eqb_refl p : path_eqb p p = true.
Proof. apply path_eqb_spec. reflexivity. Qed.

Lemma count_zero f l : (forall e, In e l -> f e = false) -> count f l = 0.
Proof.
  unfold count. induction l as [|x t IH]; intros H; simpl; [reflexivity|].
  rewrite (H x) by (left; reflexivity). apply IH. intros e He. apply H. right. assumption.
Qed.

Lemma redeem_mentions q e : is_redeem q e = true -> forall q', mentions q' e = true -> q' = q.
Proof.
  destruct e; simpl; try discriminate. intros H q' H'.
  apply path_eqb_spec in H. apply path_eqb_spec in H'. congruence.
Qed.

Lemma not_node_no_redeem_t t p k q : ~ In q (nodes p t) ->
  count (is_redeem q) (relinquish p t) = 0 /\ count (is_redeem q) (fst (run p t k)) = 0.
Proof.
  intros Hn. split; apply count_zero; intros e He; destruct (is_redeem q e) eqn:E; try reflexivity; exfalso;
    (destruct (proj1 events_in_subtree t p k e) as [q' [Hm Hin]]; [auto|]);
    rewrite (redeem_mentions q e E q' Hm) in Hin; contradiction.
Qed.

Lemma not_node_no_redeem_f f p i k q : ~ In q (nodes_f p i f) ->
  count (is_redeem q) (relinquish_f p i f) = 0 /\ count (is_redeem q) (fst (run_f p i f k)) = 0.
Proof.
  intros Hn. split; apply count_zero; intros e He; destruct (is_redeem q e) eqn:E; try reflexivity; exfalso;
    (destruct (proj2 events_in_subtree f p i k e) as [q' [Hm Hin]]; [auto|]);
    rewrite (redeem_mentions q e E q' Hm) in Hin; contradiction.
Qed.

Lemma self_not_in_children p i f : ~ In p (nodes_f p i f).
Proof.
  intros H. destruct (proj2 nodes_prefix f p i p H) as (j & s & _ & E).
  assert (L : length p = length (p ++ j :: s)) by (rewrite <- E; reflexivity).
  rewrite app_length in L. simpl in L. lia.
Qed.

Lemma child_not_in_later_siblings t p i r q : In q (nodes (p ++ [i]) t) -> ~ In q (nodes_f p (S i) r).
Proof.
  intros H1 H2. destruct (proj1 nodes_prefix t _ q H1) as [s ->].
  destruct (proj2 nodes_prefix r p (S i) _ H2) as (j & s' & Hj & E).
  rewrite <- app_assoc in E. simpl in E. apply app_cons_inj_idx in E. lia.
Qed.

Lemma later_sibling_not_in_child t p i r q : In q (nodes_f p (S i) r) -> ~ In q (nodes (p ++ [i]) t).
Proof. intros H1 H2. eapply child_not_in_later_siblings; eassumption. Qed.

Lemma count_single q : count (is_redeem q) [ERedeem q] = 1.
Proof. unfold count. simpl. now rewrite path_eqb_refl. Qed.

Lemma count_use q p : count (is_redeem q) [EUse p] = 0.
Proof. reflexivity. Qed.

Lemma count_other q p : q <> p -> count (is_redeem q) [ERedeem p] = 0.
Proof.
  intros H. unfold count. simpl. destruct (path_eqb p q) eqn:E; [|reflexivity].
  apply path_eqb_spec in E. congruence.
Qed.

Theorem redeemed_exactly_once :
  (forall t p k q, In q (nodes p t) ->
     count (is_redeem q) (relinquish p t) = 1 /\ count (is_redeem q) (fst (run p t k)) = 1) /\
  (forall f p i k q, In q (nodes_f p i f) ->
     count (is_redeem q) (relinquish_f p i f) = 1 /\ count (is_redeem q) (fst (run_f p i f k)) = 1).
Proof.
  apply tree_forest_ind.
  - (* a node *)
    intros a u ch IH p k q Hq. simpl in Hq.
    assert (Hrun : forall e0 k0, count (is_redeem q) e0 = 0 ->
              count (is_redeem q)
                (fst (match k0 with
                      | None => (e0 ++ relinquish_f p 0 ch ++ [ERedeem p], None)
                      | Some k1 => let '(e1, k2) := run_f p 0 ch k1 in (e0 ++ e1 ++ [ERedeem p], k2)
                      end)) = 1).
    { intros e0 k0 H0. destruct Hq as [<-|Hq].
      - pose proof (self_not_in_children p 0 ch) as Hs.
        destruct k0 as [k1|].
        + destruct (run_f p 0 ch k1) as [e1 k2] eqn:E. simpl. rewrite !count_app, H0, count_single.
          pose proof (proj2 (not_node_no_redeem_f ch p 0 k1 p Hs)) as Z. rewrite E in Z. simpl in Z. lia.
        + simpl. rewrite !count_app, H0, count_single.
          pose proof (proj1 (not_node_no_redeem_f ch p 0 0 p Hs)). lia.
      - assert (Hne : q <> p) by (intros ->; eapply self_not_in_children; eassumption).
        destruct k0 as [k1|].
        + destruct (run_f p 0 ch k1) as [e1 k2] eqn:E. simpl. rewrite !count_app, H0, (count_other q p Hne).
          pose proof (proj2 (IH p 0 k1 q Hq)) as Z. rewrite E in Z. simpl in Z. lia.
        + simpl. rewrite !count_app, H0, (count_other q p Hne).
          pose proof (proj1 (IH p 0 0 q Hq)). lia. }
    split.
    + simpl. rewrite count_app. destruct Hq as [<-|Hq].
      * rewrite count_single. pose proof (proj1 (not_node_no_redeem_f ch p 0 0 p (self_not_in_children p 0 ch))). lia.
      * assert (Hne : q <> p) by (intros ->; eapply self_not_in_children; eassumption).
        rewrite (count_other q p Hne). pose proof (proj1 (IH p 0 0 q Hq)). lia.
    + cbn [run]. destruct u.
      * destruct k as [|[|k']]; [apply (Hrun [EUse p] (Some 0))|apply (Hrun [EUse p] None)|apply (Hrun [EUse p] (Some (S k')))]; reflexivity.
      * apply (Hrun [EUse p] (Some k)). reflexivity.
  - intros p i k q H. destruct H.
  - (* a forest *)
    intros t IHt r IHr p i k q Hq. simpl in Hq. apply in_app_iff in Hq.
    split.
    + simpl. rewrite count_app. destruct Hq as [Hq|Hq].
      * pose proof (proj1 (IHt (p ++ [i]) 0 q Hq)).
        pose proof (proj1 (not_node_no_redeem_f r p (S i) 0 q (child_not_in_later_siblings t p i r q Hq))). lia.
      * pose proof (proj1 (IHr p (S i) 0 q Hq)).
        pose proof (proj1 (not_node_no_redeem_t t (p ++ [i]) 0 q (later_sibling_not_in_child t p i r q Hq))). lia.
    + destruct t as [a u ch]. cbn [run_f]. destruct a.
      * destruct (run (p ++ [i]) (Node true u ch) k) as [e1 k'] eqn:E1. destruct k' as [k''|].
        -- destruct (run_f p (S i) r k'') as [e2 k3] eqn:E2. simpl. rewrite count_app.
           destruct Hq as [Hq|Hq].
           ++ pose proof (proj2 (IHt (p ++ [i]) k q Hq)) as Z1. rewrite E1 in Z1. simpl in Z1.
              pose proof (proj2 (not_node_no_redeem_f r p (S i) k'' q (child_not_in_later_siblings (Node true u ch) p i r q Hq))) as Z2.
              rewrite E2 in Z2. simpl in Z2. lia.
           ++ pose proof (proj2 (IHr p (S i) k'' q Hq)) as Z2. rewrite E2 in Z2. simpl in Z2.
              pose proof (proj2 (not_node_no_redeem_t (Node true u ch) (p ++ [i]) k q (later_sibling_not_in_child (Node true u ch) p i r q Hq))) as Z1.
              rewrite E1 in Z1. simpl in Z1. lia.
        -- simpl. rewrite count_app. destruct Hq as [Hq|Hq].
           ++ pose proof (proj2 (IHt (p ++ [i]) k q Hq)) as Z1. rewrite E1 in Z1. simpl in Z1.
              pose proof (proj1 (not_node_no_redeem_f r p (S i) 0 q (child_not_in_later_siblings (Node true u ch) p i r q Hq))). lia.
           ++ pose proof (proj1 (IHr p (S i) 0 q Hq)).
              pose proof (proj2 (not_node_no_redeem_t (Node true u ch) (p ++ [i]) k q (later_sibling_not_in_child (Node true u ch) p i r q Hq))) as Z1.
              rewrite E1 in Z1. simpl in Z1. lia.
      * destruct (run_f p (S i) r k) as [e2 k3] eqn:E2. cbn -[relinquish relinquish_f count run run_f]. rewrite count_app. destruct Hq as [Hq|Hq].
        -- pose proof (proj1 (IHt (p ++ [i]) 0 q Hq)).
           pose proof (proj2 (not_node_no_redeem_f r p (S i) k q (child_not_in_later_siblings (Node false u ch) p i r q Hq))) as Z2.
           rewrite E2 in Z2. simpl in Z2. lia.
        -- pose proof (proj2 (IHr p (S i) k q Hq)) as Z2. rewrite E2 in Z2. simpl in Z2.
           pose proof (proj1 (not_node_no_redeem_t (Node false u ch) (p ++ [i]) 0 q (later_sibling_not_in_child (Node false u ch) p i r q Hq))). lia.
Qed.

(* the corollary used by C04 / C11: whatever the abort point (k = 0: none), each validator object of the tree is
   returned to its pool exactly once *)
Corollary every_validator_redeemed_once t k q : In q (nodes [] t) -> count (is_redeem q) (fst (run [] t k)) = 1.
Proof. intros H. exact (proj2 (proj1 redeemed_exactly_once t [] k q H)). Qed.

(* a validator is used at the start of its Validate and redeemed at its end: nothing in between mentions it *)
Theorem used_before_redeemed a u ch p k :
  exists mid, fst (run p (Node a u ch) k) = EUse p :: mid ++ [ERedeem p] /\
              forall e, In e mid -> mentions p e = false.
Proof.
  assert (Hch : forall e, (In e (relinquish_f p 0 ch) \/ exists k', In e (fst (run_f p 0 ch k'))) -> mentions p e = false).
  { intros e H. destruct (mentions p e) eqn:E; [|reflexivity]. exfalso.
    assert (Hx : exists q, mentions q e = true /\ In q (nodes_f p 0 ch)).
    { destruct H as [H|[k' H]]; [apply (proj2 events_in_subtree ch p 0 0 e); auto|apply (proj2 events_in_subtree ch p 0 k' e); auto]. }
    destruct Hx as [q [Hq Hin]].
    assert (q = p) by (destruct e; simpl in *; apply path_eqb_spec in Hq; apply path_eqb_spec in E; congruence).
    subst q. eapply self_not_in_children; eassumption. }
  simpl. destruct u.
  - destruct k as [|[|k']].
    + destruct (run_f p 0 ch 0) as [e1 k2] eqn:E. simpl. exists e1. split; [reflexivity|].
      intros e He. apply Hch. right. exists 0. rewrite E. assumption.
    + simpl. exists (relinquish_f p 0 ch). split; [reflexivity|]. intros e He. apply Hch. auto.
    + destruct (run_f p 0 ch (S k')) as [e1 k2] eqn:E. simpl. exists e1. split; [reflexivity|].
      intros e He. apply Hch. right. exists (S k'). rewrite E. assumption.
  - destruct (run_f p 0 ch k) as [e1 k2] eqn:E. simpl. exists e1. split; [reflexivity|].
    intros e He. apply Hch. right. exists k. rewrite E. assumption.
Qed.

(* non-vacuity: a tree with a checker-calling leaf under a nested node, aborted at the first checker call *)
Example abort_example :
  let t := Node true false (FCons (Node true false (FCons (Node true true FNil) (FCons (Node true false FNil) FNil)))
                           (FCons (Node false false (FCons (Node true false FNil) FNil)) FNil)) in
  map (fun q => count (is_redeem q) (fst (run [] t 1))) (nodes [] t) = [1; 1; 1; 1; 1; 1] /\ snd (run [] t 1) = None.
Proof. split; reflexivity. Qed.
