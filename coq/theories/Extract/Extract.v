(* Extraction of the executable models to OCaml. ExtrOcamlBasic only:
   bool, option, list, prod, unit, sumbool map to OCaml natives; nat, positive,
   N, Z stay the extracted inductive types. *)
Require Extraction.
Require Import ExtrOcamlBasic.
From Verif Require Import Base.Sx Result.ResultModel Schema.Run.
Extraction Language OCaml.
Extraction "model.ml" run_c20 run_schema run_f64 run_simple run_simple_frag run_helper run_h14 run_post run_visited run_rules run_walk.
