(* The binary64 instance (Base/F64.v) is exact on the integers it holds: the numeric interfaces that the theorems of
   C13 and the typed-value theorems of C16 assume ([exact_iface], [carrier_iface]) hold of [flocq_ops], with the
   mathematical value of a bit pattern as [value] and "finite" as [ok]. *)
From Coq Require Import ZArith Bool QArith Qreals Reals Lia Lra.
From Flocq Require Import Core.Core IEEE754.BinarySingleNaN IEEE754.Binary IEEE754.Bits.
From Verif Require Import Base.GoVal Base.F64.
Open Scope Z_scope.

(* the mathematical value of a bit pattern (0 for infinities and NaN) *)
Definition fvalue (a : Z) : Q :=
  match fb a with
  | B754_finite _ _ s m e _ =>
      let z := cond_Zopp s (Zpos m) in
      if 0 <=? e then inject_Z (z * 2 ^ e) else Qmake z (Z.to_pos (2 ^ (- e)))
  | _ => 0%Q
  end.

Lemma Q2R_inject_Z z : Q2R (inject_Z z) = IZR z.
Proof. unfold Q2R, inject_Z. simpl. field. Qed.

Lemma Q2R_fvalue a : Q2R (fvalue a) = B2R 53 1024 (fb a).
Proof.
  unfold fvalue. destruct (fb a) as [s|s|s pl Hpl|s m e Hb]; try (simpl; unfold Q2R; simpl; lra).
  cbn [B2R]. unfold F2R. cbn [Fnum Fexp].
  destruct (Z.leb_spec 0 e) as [He|He].
  - rewrite Q2R_inject_Z, mult_IZR. f_equal. rewrite <- (IZR_Zpower radix2 e He). reflexivity.
  - unfold Q2R. cbn [Qnum Qden]. f_equal.
    assert (Hp : 0 < 2 ^ (- e)) by (apply Z.pow_pos_nonneg; lia).
    rewrite Z2Pos.id by exact Hp.
    replace e with (- (- e)) at 2 by lia. rewrite bpow_opp. f_equal.
    rewrite <- (IZR_Zpower radix2 (- e)) by lia. reflexivity.
Qed.

Definition fok (a : Z) : Prop := f_finite a = true.

Lemma cmp_correct a b : fok a -> fok b -> f_cmp a b = Some (Rcompare (Q2R (fvalue a)) (Q2R (fvalue b))).
Proof.
  intros Ha Hb. unfold f_cmp, b64_compare. rewrite !Q2R_fvalue. apply Bcompare_correct; assumption.
Qed.

Lemma f_lt_spec a b : fok a -> fok b -> (f_lt a b = true <-> (fvalue a < fvalue b)%Q).
Proof.
  intros Ha Hb. unfold f_lt. rewrite (cmp_correct a b Ha Hb).
  destruct (Rcompare_spec (Q2R (fvalue a)) (Q2R (fvalue b))) as [H|H|H].
  - split; [intros _; apply Rlt_Qlt; exact H | reflexivity].
  - split; [discriminate|]. intros C. apply Qlt_Rlt in C. lra.
  - split; [discriminate|]. intros C. apply Qlt_Rlt in C. lra.
Qed.

Lemma f_le_spec a b : fok a -> fok b -> (f_le a b = true <-> (fvalue a <= fvalue b)%Q).
Proof.
  intros Ha Hb. unfold f_le. rewrite (cmp_correct a b Ha Hb).
  destruct (Rcompare_spec (Q2R (fvalue a)) (Q2R (fvalue b))) as [H|H|H].
  - split; [intros _; apply Rle_Qle; lra | reflexivity].
  - split; [intros _; apply Rle_Qle; lra | reflexivity].
  - split; [discriminate|]. intros C. apply Qle_Rle in C. lra.
Qed.

Lemma f_eq_spec a b : fok a -> fok b -> (f_eq a b = true <-> (fvalue a == fvalue b)%Q).
Proof.
  intros Ha Hb. unfold f_eq. rewrite (cmp_correct a b Ha Hb).
  destruct (Rcompare_spec (Q2R (fvalue a)) (Q2R (fvalue b))) as [H|H|H].
  - split; [discriminate|]. intros C. apply Qeq_eqR in C. lra.
  - split; [intros _; apply eqR_Qeq; exact H | reflexivity].
  - split; [discriminate|]. intros C. apply Qeq_eqR in C. lra.
Qed.

(* the integer value *)
Lemma f_exact_int_spec a z : fok a -> (f_exact_int a = Some z <-> (fvalue a == inject_Z z)%Q).
Proof.
  unfold fok, f_finite, f_exact_int, fvalue. destruct (fb a) as [s|s|s pl Hpl|s m e Hb]; intros Ha; try discriminate Ha.
  - split; [intros H; injection H as <-; reflexivity|]. intros H. unfold Qeq in H. simpl in H. f_equal. lia.
  - assert (Ez : (if s then Z.neg m else Z.pos m) = cond_Zopp s (Z.pos m)) by (destruct s; reflexivity).
    rewrite Ez. set (zz := cond_Zopp s (Z.pos m)).
    destruct (Z.leb_spec 0 e) as [He|He].
    + split; [intros H; injection H as <-; reflexivity|]. intros H. unfold Qeq in H. simpl in H. f_equal. lia.
    + assert (Hp : 0 < 2 ^ (- e)) by (apply Z.pow_pos_nonneg; lia).
      set (p := 2 ^ (- e)) in *.
      assert (Hq : (Qmake zz (Z.to_pos p) == inject_Z z)%Q <-> zz = z * p).
      { unfold Qeq. simpl. rewrite Z2Pos.id by exact Hp. lia. }
      rewrite Hq.
      assert (Hm : (Z.pos m mod p =? 0) = (zz mod p =? 0)).
      { unfold zz. destruct s; simpl; [|reflexivity].
        apply eq_true_iff_eq. rewrite !Z.eqb_eq. rewrite !Z.mod_divide by lia.
        split; intros [c Hc]; exists (- c); lia. }
      rewrite Hm. destruct (Z.eqb_spec (zz mod p) 0) as [Hd|Hd].
      * apply Z.mod_divide in Hd; [|lia]. destruct Hd as [c Hc]. rewrite Hc, Z.div_mul by lia.
        split; [intros H; injection H as <-; reflexivity|]. intros H. f_equal. nia.
      * split; [discriminate|]. intros H. exfalso. apply Hd. rewrite H. apply Z.mod_mul. lia.
Qed.

Lemma fb_bf x : fb (bf x) = x.
Proof. exact (binary_float_of_bits_of_binary_float 52 11 eq_refl eq_refl eq_refl x). Qed.

(* integers within +-2^53 are binary64 numbers *)
Lemma small_format z : - 2 ^ 53 <= z <= 2 ^ 53 -> generic_format radix2 (FLT_exp (3 - 1024 - 53) 53) (IZR z).
Proof.
  intros Hz. apply generic_format_FLT.
  destruct (Z.eq_dec (Z.abs z) (2 ^ 53)) as [E|E].
  - assert (Hc : z = 2 ^ 53 \/ z = - 2 ^ 53) by lia. destruct Hc; subst z.
    + exists (Float radix2 (2 ^ 52) 1); cbn [Fnum Fexp]; [|simpl; lia|lia].
      unfold F2R. cbn [Fnum Fexp]. change (bpow radix2 1) with (IZR 2). rewrite <- mult_IZR. f_equal.
    + exists (Float radix2 (- 2 ^ 52) 1); cbn [Fnum Fexp]; [|simpl; lia|lia].
      unfold F2R. cbn [Fnum Fexp]. change (bpow radix2 1) with (IZR 2). rewrite <- mult_IZR. f_equal.
  - exists (Float radix2 z 0); cbn [Fnum Fexp].
    + unfold F2R. cbn [Fnum Fexp]. simpl. ring.
    + change (Z.abs z < 2 ^ 53). lia.
    + lia.
Qed.

Lemma f_of_Z_exact z : - 2 ^ 53 <= z <= 2 ^ 53 -> fok (f_of_Z z) /\ (fvalue (f_of_Z z) == inject_Z z)%Q.
Proof.
  intros Hz. unfold fok, f_finite, f_of_Z.
  pose proof (binary_normalize_correct 53 1024 eq_refl eq_refl mode_NE z 0 false) as H.
  assert (HF : F2R (Float radix2 z 0) = IZR z) by (unfold F2R; simpl; ring).
  rewrite HF in H. rewrite (round_generic radix2 _ _ (IZR z) (small_format z Hz)) in H.
  assert (Hlt : Rlt_bool (Rabs (IZR z)) (bpow radix2 1024) = true).
  { apply Rlt_bool_true. rewrite <- abs_IZR. change (bpow radix2 1024) with (IZR (2 ^ 1024)). apply IZR_lt.
    assert (Z.abs z <= 2 ^ 53) by lia. assert (2 ^ 53 < 2 ^ 1024) by (apply Z.pow_lt_mono_r; lia). lia. }
  rewrite Hlt in H. destruct H as [HR [HFi _]].
  rewrite fb_bf. split; [exact HFi|].
  apply eqR_Qeq. rewrite Q2R_fvalue, fb_bf, Q2R_inject_Z. exact HR.
Qed.

(* ---- conversions back to integers ---- *)
Lemma f_of_Z_R z : - 2 ^ 53 <= z <= 2 ^ 53 -> B2R 53 1024 (fb (f_of_Z z)) = IZR z.
Proof.
  intros Hz. destruct (f_of_Z_exact z Hz) as [_ Hv]. apply Qeq_eqR in Hv. rewrite Q2R_fvalue, Q2R_inject_Z in Hv. exact Hv.
Qed.

Lemma f_to_int64_of_Z z : - 2 ^ 53 <= z <= 2 ^ 53 -> f_to_int64 (f_of_Z z) = z.
Proof.
  intros Hz. destruct (f_of_Z_exact z Hz) as [Hf _]. unfold f_to_int64. unfold fok in Hf. rewrite Hf.
  assert (Ht : Btrunc 53 1024 (fb (f_of_Z z)) = z).
  { apply eq_IZR. rewrite Btrunc_correct, (f_of_Z_R z Hz).
    apply round_generic; try apply valid_rnd_ZR. apply generic_format_FIX. exists (Float radix2 z 0); [unfold F2R; simpl; ring | reflexivity]. reflexivity. }
  rewrite Ht.
  assert (R : (- two63 <=? z) && (z <? two63) = true) by (unfold two63; apply andb_true_iff; split; [apply Z.leb_le | apply Z.ltb_lt]; lia).
  rewrite R. reflexivity.
Qed.

Lemma two63_const : f_finite (f_of_Z two63) = true /\ fvalue (f_of_Z two63) = inject_Z two63.
Proof. split; vm_compute; reflexivity. Qed.

Lemma f_to_uint64_of_Z z : 0 <= z <= 2 ^ 53 -> f_to_uint64 (f_of_Z z) = z.
Proof.
  intros Hz. assert (Hs : - 2 ^ 53 <= z <= 2 ^ 53) by lia. destruct (f_of_Z_exact z Hs) as [Hf Hv].
  destruct two63_const as [Hf63 Hv63].
  unfold f_to_uint64.
  assert (L : f_lt (f_of_Z z) (f_of_Z two63) = true).
  { apply (f_lt_spec _ _ Hf Hf63). rewrite Hv, Hv63. rewrite <- Zlt_Qlt. unfold two63. lia. }
  rewrite L, (f_to_int64_of_Z z Hs). apply Z.mod_small. unfold two64. lia.
Qed.

(* ---- float32 range ---- *)
Lemma f_abs_exact a : fok a -> fok (f_abs a) /\ Q2R (fvalue (f_abs a)) = Rabs (Q2R (fvalue a)).
Proof.
  intros Ha. unfold fok, f_finite, f_abs in *. rewrite fb_bf. unfold b64_abs. rewrite is_finite_Babs. split; [exact Ha|].
  rewrite !Q2R_fvalue, fb_bf. apply B2R_Babs.
Qed.

Lemma f32_limit_const : f_finite c_f32_limit = true /\ fvalue c_f32_limit = inject_Z 340282356779733661637539395458142568448.
Proof. split; vm_compute; reflexivity. Qed.

Lemma f_fits_f32_of_Z z : - 2 ^ 53 <= z <= 2 ^ 53 -> f_fits_f32 (f_of_Z z) = true.
Proof.
  intros Hz. destruct (f_of_Z_exact z Hz) as [Hf Hv]. destruct (f_abs_exact _ Hf) as [Hfa Hva]. destruct f32_limit_const as [Hfl Hvl].
  unfold f_fits_f32. unfold fok in Hf. rewrite Hf. cbn [andb].
  apply (f_lt_spec _ _ Hfa Hfl). apply Rlt_Qlt. rewrite Hva, Hvl, Q2R_inject_Z.
  apply Qeq_eqR in Hv. rewrite Hv, Q2R_inject_Z, <- abs_IZR. apply IZR_lt. lia.
Qed.

(* ---- the integer test of swag: strictly inside +-2^53 ---- *)
Lemma json_bounds_const : f_finite c_min_json = true /\ fvalue c_min_json = inject_Z (- (2 ^ 53 - 1)) /\
                          f_finite c_max_json = true /\ fvalue c_max_json = inject_Z (2 ^ 53 - 1).
Proof. repeat split; vm_compute; reflexivity. Qed.

Lemma f_eq_refl a : fok a -> f_eq a a = true.
Proof. intros Ha. apply (f_eq_spec a a Ha Ha). reflexivity. Qed.

Lemma f_is_json_int_of_Z z : - 2 ^ 53 < z < 2 ^ 53 -> f_is_json_int (f_of_Z z) = true.
Proof.
  intros Hz. assert (Hs : - 2 ^ 53 <= z <= 2 ^ 53) by lia. destruct (f_of_Z_exact z Hs) as [Hf Hv].
  destruct json_bounds_const as [Hfmin [Hvmin [Hfmax Hvmax]]].
  unfold f_is_json_int. unfold fok in Hf. rewrite Hf. cbn [negb orb].
  assert (L1 : f_lt (f_of_Z z) c_min_json = false).
  { destruct (f_lt (f_of_Z z) c_min_json) eqn:E; [|reflexivity]. apply (f_lt_spec _ _ Hf Hfmin) in E. rewrite Hv, Hvmin, <- Zlt_Qlt in E. lia. }
  assert (L2 : f_lt c_max_json (f_of_Z z) = false).
  { destruct (f_lt c_max_json (f_of_Z z)) eqn:E; [|reflexivity]. apply (f_lt_spec _ _ Hfmax Hf) in E. rewrite Hv, Hvmax, <- Zlt_Qlt in E. lia. }
  rewrite L1, L2. cbn [orb]. cbv zeta.
  destruct (f_eq (f_of_Z z) (f_of_Z (f_to_uint64 (f_of_Z z)))); [reflexivity|].
  rewrite (f_to_int64_of_Z z Hs), (f_eq_refl _ Hf). reflexivity.
Qed.

(* ---- any finite pattern whose value is an integer ---- *)
Lemma value_R a k : (fvalue a == inject_Z k)%Q -> B2R 53 1024 (fb a) = IZR k.
Proof. intros Hv. apply Qeq_eqR in Hv. rewrite Q2R_fvalue, Q2R_inject_Z in Hv. exact Hv. Qed.

Lemma f_to_int64_val a k : fok a -> (fvalue a == inject_Z k)%Q -> - 2 ^ 53 <= k <= 2 ^ 53 -> f_to_int64 a = k.
Proof.
  intros Hf Hv Hk. unfold f_to_int64. unfold fok in Hf. rewrite Hf.
  assert (Ht : Btrunc 53 1024 (fb a) = k).
  { apply eq_IZR. rewrite Btrunc_correct, (value_R a k Hv).
    apply round_generic; try apply valid_rnd_ZR. apply generic_format_FIX. exists (Float radix2 k 0); [unfold F2R; simpl; ring | reflexivity]. reflexivity. }
  rewrite Ht.
  assert (R : (- two63 <=? k) && (k <? two63) = true) by (unfold two63; apply andb_true_iff; split; [apply Z.leb_le | apply Z.ltb_lt]; lia).
  rewrite R. reflexivity.
Qed.

Lemma f_is_json_int_val a k : fok a -> (fvalue a == inject_Z k)%Q -> - 2 ^ 53 < k < 2 ^ 53 -> f_is_json_int a = true.
Proof.
  intros Hf Hv Hz. assert (Hs : - 2 ^ 53 <= k <= 2 ^ 53) by lia.
  destruct json_bounds_const as [Hfmin [Hvmin [Hfmax Hvmax]]].
  unfold f_is_json_int. pose proof Hf as Hf'. unfold fok in Hf'. rewrite Hf'. cbn [negb orb].
  assert (L1 : f_lt a c_min_json = false).
  { destruct (f_lt a c_min_json) eqn:E; [|reflexivity]. apply (f_lt_spec _ _ Hf Hfmin) in E. rewrite Hv, Hvmin, <- Zlt_Qlt in E. lia. }
  assert (L2 : f_lt c_max_json a = false).
  { destruct (f_lt c_max_json a) eqn:E; [|reflexivity]. apply (f_lt_spec _ _ Hfmax Hf) in E. rewrite Hv, Hvmax, <- Zlt_Qlt in E. lia. }
  rewrite L1, L2. cbn [orb]. cbv zeta.
  destruct (f_eq a (f_of_Z (f_to_uint64 a))); [reflexivity|].
  rewrite (f_to_int64_val a k Hf Hv Hs).
  destruct (f_of_Z_exact k Hs) as [Hfk Hvk].
  assert (E : f_eq a (f_of_Z k) = true) by (apply (f_eq_spec _ _ Hf Hfk); rewrite Hv, Hvk; reflexivity).
  rewrite E. reflexivity.
Qed.

(* ---- an exact division ---- *)
Lemma f_div_exact a b k g : fok a -> fok b -> (fvalue a == inject_Z (k * g))%Q -> (fvalue b == inject_Z g)%Q -> g <> 0 ->
  - 2 ^ 53 <= k <= 2 ^ 53 -> fok (f_div a b) /\ (fvalue (f_div a b) == inject_Z k)%Q.
Proof.
  intros Ha Hb Hva Hvb Hg Hk.
  unfold fok, f_finite, f_div. rewrite fb_bf.
  pose proof (Bdiv_correct 53 1024 eq_refl eq_refl binop_nan_pl64 mode_NE (fb a) (fb b)) as H.
  rewrite (value_R a _ Hva), (value_R b g Hvb) in H.
  assert (Hq : (IZR (k * g) / IZR g)%R = IZR k).
  { rewrite mult_IZR. field. apply not_0_IZR. exact Hg. }
  rewrite Hq in H. rewrite (round_generic radix2 _ _ (IZR k) (small_format k Hk)) in H.
  assert (Hlt : Rlt_bool (Rabs (IZR k)) (bpow radix2 1024) = true).
  { apply Rlt_bool_true. rewrite <- abs_IZR. change (bpow radix2 1024) with (IZR (2 ^ 1024)). apply IZR_lt.
    assert (Z.abs k <= 2 ^ 53) by lia. assert (2 ^ 53 < 2 ^ 1024) by (apply Z.pow_lt_mono_r; lia). lia. }
  rewrite Hlt in H. destruct H as [HR [HFi _]]; [apply not_0_IZR; exact Hg|].
  unfold b64_div. split.
  - rewrite HFi. exact Ha.
  - apply eqR_Qeq. rewrite Q2R_fvalue, fb_bf, Q2R_inject_Z. exact HR.
Qed.

Lemma zero_one_const : f_finite c_zero = true /\ fvalue c_zero = inject_Z 0 /\ f_finite c_one = true /\ (fvalue c_one == inject_Z 1)%Q.
Proof. repeat split; vm_compute; reflexivity. Qed.

(* validate.MultipleOf on an integer and an integral factor: a factor <= 0 is reported, a divisor is accepted *)
Lemma f_mult_of_div z g f : - 2 ^ 53 < z < 2 ^ 53 -> fok f -> (fvalue f == inject_Z g)%Q ->
  (g <= 0 -> f_mult_of (f_of_Z z) f = MNotPositive) /\ (0 < g -> z mod g = 0 -> f_mult_of (f_of_Z z) f = MOk).
Proof.
  intros Hz Hf Hv. assert (Hs : - 2 ^ 53 <= z <= 2 ^ 53) by lia.
  destruct zero_one_const as [Hf0 [Hv0 [Hf1 Hv1]]]. destruct (f_of_Z_exact z Hs) as [Hfz Hvz].
  unfold f_mult_of. split.
  - intros Hg. assert (E : f_le f c_zero = true) by (apply (f_le_spec _ _ Hf Hf0); rewrite Hv, Hv0, <- Zle_Qle; exact Hg).
    rewrite E. reflexivity.
  - intros Hg Hd.
    assert (E0 : f_le f c_zero = false).
    { destruct (f_le f c_zero) eqn:E; [|reflexivity]. apply (f_le_spec _ _ Hf Hf0) in E. rewrite Hv, Hv0, <- Zle_Qle in E. lia. }
    assert (E1 : f_lt f c_one = false).
    { destruct (f_lt f c_one) eqn:E; [|reflexivity]. apply (f_lt_spec _ _ Hf Hf1) in E. rewrite Hv, Hv1, <- Zlt_Qlt in E. lia. }
    rewrite E0, E1.
    apply Z.mod_divide in Hd; [|lia]. destruct Hd as [k Hk].
    assert (Hkb : - 2 ^ 53 < k < 2 ^ 53) by nia.
    assert (Hva : (fvalue (f_of_Z z) == inject_Z (k * g))%Q) by (rewrite Hvz, Hk; reflexivity).
    destruct (f_div_exact (f_of_Z z) f k g Hfz Hf Hva Hv) as [Hfd Hvd]; [lia | lia |].
    rewrite (f_is_json_int_val _ k Hfd Hvd Hkb). reflexivity.
Qed.
