(* numops instance: IEEE-754 binary64 through Flocq, bit-exact with Go's float64 on amd64.
   Values are carried as bit patterns (Z). Transcribes swag.IsFloat64AJSONInteger (swag/convert.go:31-52),
   validate.MultipleOf (values.go:258-273) and Go's float->integer conversions as compiled for amd64. *)
From Coq Require Import ZArith Bool.
From Flocq Require Import IEEE754.BinarySingleNaN IEEE754.Binary IEEE754.Bits.
From Verif Require Import Base.GoVal.
Open Scope Z_scope.

Definition fb (z : Z) : binary64 := b64_of_bits z.
Definition bf (x : binary64) : Z := bits_of_b64 x.

Definition f_cmp (a b : Z) : option comparison := b64_compare (fb a) (fb b).
Definition f_lt (a b : Z) : bool := match f_cmp a b with Some Lt => true | _ => false end.
Definition f_le (a b : Z) : bool := match f_cmp a b with Some Lt | Some Eq => true | _ => false end.
Definition f_eq (a b : Z) : bool := match f_cmp a b with Some Eq => true | _ => false end.

Definition f_of_Z (z : Z) : Z := bf (Binary.binary_normalize 53 1024 eq_refl eq_refl mode_NE z 0 false).
Definition f_div (a b : Z) : Z := bf (b64_div mode_NE (fb a) (fb b)).
Definition f_mul (a b : Z) : Z := bf (b64_mult mode_NE (fb a) (fb b)).
Definition f_add (a b : Z) : Z := bf (b64_plus mode_NE (fb a) (fb b)).
Definition f_sub (a b : Z) : Z := bf (b64_minus mode_NE (fb a) (fb b)).
Definition f_abs (a : Z) : Z := bf (b64_abs (fb a)).
Definition f_finite (a : Z) : bool := Binary.is_finite 53 1024 (fb a).

Definition two63 : Z := 9223372036854775808.
Definition two64 : Z := 18446744073709551616.

(* CVTTSD2SQ: truncation; NaN and out-of-range give the "integer indefinite" value -2^63 *)
Definition f_to_int64 (a : Z) : Z :=
  if f_finite a then
    let t := Binary.Btrunc 53 1024 (fb a) in
    if (- two63 <=? t) && (t <? two63) then t else - two63
  else - two63.

(* Go on amd64: x < 2^63 ? uint64(int64(x)) : uint64(int64(x - 2^63)) | (1 << 63)   (observed: uint64(1e30) = 2^63) *)
Definition f_to_uint64 (a : Z) : Z :=
  if f_lt a (f_of_Z two63) then (f_to_int64 a) mod two64
  else let y := (f_to_int64 (f_sub a (f_of_Z two63))) mod two64 in
       if y <? two63 then y + two63 else y.

Definition c_max_json : Z := 0x433FFFFFFFFFFFFF.      (* float64(1<<53 - 1) *)
Definition c_min_json : Z := 0xC33FFFFFFFFFFFFF.
Definition c_epsilon : Z := 0x3E112E0BE826D695.       (* 1e-9 *)
Definition c_max_float : Z := 0x7FEFFFFFFFFFFFFF.     (* math.MaxFloat64 *)
Definition c_smallest : Z := 1.                       (* math.SmallestNonzeroFloat64 *)
Definition c_zero : Z := 0.
Definition c_one : Z := 0x3FF0000000000000.

Definition f_min (a b : Z) : Z := if f_lt b a then b else a.

(* swag.IsFloat64AJSONInteger *)
Definition f_is_json_int (f : Z) : bool :=
  if negb (f_finite f) || f_lt f c_min_json || f_lt c_max_json f then false
  else
    let fa := f_abs f in
    let g := f_of_Z (f_to_uint64 f) in
    let ga := f_abs g in
    let diff := f_abs (f_sub f g) in
    if f_eq f g then true
    else if f_eq f (f_of_Z (f_to_int64 f)) || f_eq f (f_of_Z (f_to_uint64 f)) then true
    else if f_eq f c_zero || f_eq g c_zero || f_lt diff c_smallest
    then f_lt diff (f_mul c_epsilon c_smallest)
    else f_lt (f_div diff (f_min (f_add fa ga) c_max_float)) c_epsilon.

(* validate.MultipleOf *)
Definition f_mult_of (data factor : Z) : mres :=
  if f_le factor c_zero then MNotPositive
  else
    let mult := if f_lt factor c_one then f_mul (f_div c_one factor) data else f_div data factor in
    if f_is_json_int mult then MOk else MNotMultiple.

(* the exact value of a finite binary64, when it is an integer *)
Definition f_exact_int (a : Z) : option Z :=
  match fb a with
  | Binary.B754_zero _ _ _ => Some 0
  | Binary.B754_finite _ _ s m e _ =>
      let z := if s then Z.neg m else Z.pos m in
      if 0 <=? e then Some (z * 2 ^ e)
      else if Z.eqb ((Z.pos m) mod 2 ^ (- e)) 0 then Some (z / 2 ^ (- e)) else None
  | _ => None
  end.

(* rounding to float32 overflows from 2^128 - 2^103 on (half an ulp above MaxFloat32, ties to even -> infinity) *)
Definition c_f32_limit : Z := 0x47EFFFFFF0000000.
Definition f_fits_f32 (a : Z) : bool := f_finite a && f_lt (f_abs a) c_f32_limit.

(* float64(float32(f)): round to binary32 (nearest even), widen back *)
Definition f_round32 (a : Z) : Z :=
  match fb a with
  | Binary.B754_finite _ _ s m e _ =>
      match Binary.binary_normalize 24 128 eq_refl eq_refl mode_NE (if s then Z.neg m else Z.pos m) e s with
      | Binary.B754_finite _ _ s' m' e' _ =>
          bf (Binary.binary_normalize 53 1024 eq_refl eq_refl mode_NE (if s' then Z.neg m' else Z.pos m') e' s')
      | Binary.B754_zero _ _ s' => if s' then 0x8000000000000000 else 0
      | Binary.B754_infinity _ _ s' => if s' then 0xFFF0000000000000 else 0x7FF0000000000000
      | Binary.B754_nan _ _ _ _ _ => 0x7FF8000000000001
      end
  | _ => a
  end.

Definition flocq_ops : numops :=
  {| n_le := f_le; n_lt := f_lt; n_eq := f_eq; n_is_int := f_is_json_int; n_mult_of := f_mult_of;
     n_of_int := f_of_Z; n_to_int64 := f_to_int64; n_to_uint64 := f_to_uint64;
     n_exact_int := f_exact_int; n_fits_f32 := f_fits_f32 |}.
