(* Go values as seen by the validators, interned strings, oracles and numeric operations. *)
From Coq Require Import List ZArith Bool.
From Verif Require Import Base.Sx.
Import ListNotations.
Open Scope Z_scope.

(* Strings are interned by the harness: equal ids <-> equal Go strings. Id 0 is the empty string. *)
Definition str := Z.

(* float64 values are carried as their IEEE-754 bit pattern; everything the code does with them goes
   through [numops], so that non-numeric theorems hold for every implementation of the operations. *)
Definition f64 := Z.

(* reflect.Kind of the integer carriers *)
Inductive ikind := KInt | KInt8 | KInt16 | KInt32 | KInt64 | KUint | KUint8 | KUint16 | KUint32 | KUint64.

Definition ikind_signed (k : ikind) : bool :=
  match k with KInt | KInt8 | KInt16 | KInt32 | KInt64 => true | _ => false end.

Inductive goval : Type :=
| VNil
| VBool (b : bool)
| VStr (s : str)
| VFlt (is32 : bool) (f : f64)                 (* float64, or float32 widened by reflect's Float() *)
| VInt (k : ikind) (z : Z)                     (* typed integers: the mathematical value *)
| VJnum (lit : str) (asint : option Z) (asflt : option f64)   (* json.Number: text, Int64(), Float64() *)
| VArr (id : Z) (l : list goval)               (* []interface{}; id = identity of the slice *)
| VSlice (et : Z) (l : list goval)             (* typed slice []T; et = code of T (harness table); elements are T values *)
| VObj (id : Z) (m : list (str * goval)).      (* map[string]interface{} in the iteration order of this call *)

(* outcome of validate.MultipleOf and friends *)
Inductive mres := MOk | MNotMultiple | MNotPositive.

Record numops : Type := {
  n_le : f64 -> f64 -> bool;          (* a <= b *)
  n_lt : f64 -> f64 -> bool;          (* a <  b *)
  n_eq : f64 -> f64 -> bool;          (* a == b (Go ==, as used by reflect.DeepEqual) *)
  n_is_int : f64 -> bool;             (* swag.IsFloat64AJSONInteger *)
  n_mult_of : f64 -> f64 -> mres;     (* validate.MultipleOf data factor *)
  n_of_int : Z -> f64;                (* float64(int64 / uint64 value) *)
  n_to_int64 : f64 -> Z;              (* int64(f), amd64 *)
  n_to_uint64 : f64 -> Z;             (* uint64(f), amd64 *)
  n_exact_int : f64 -> option Z;      (* Some z when f is finite and its exact value is the integer z *)
  n_fits_f32 : f64 -> bool;           (* strconv.ParseFloat(FormatFloat(f,'f',-1,64), 32) does not overflow *)
}.

(* What the code asks the Go standard library and the caller's registry about strings. *)
Record oracles : Type := {
  o_rune_len : str -> Z;              (* utf8.RuneCountInString *)
  o_re_ok : str -> bool;              (* regexp.Compile succeeds *)
  o_re_match : str -> str -> bool;    (* regexp.MustCompile(p).MatchString(s) *)
  o_fmt_known : str -> bool;          (* registry.ContainsName *)
  o_fmt_check : str -> str -> bool;   (* registry.Validates format data *)
}.

(* well-known string ids, fixed by the harness's interner *)
Definition k_empty : str := 0.
Definition k_null : str := 1.
Definition k_boolean : str := 2.
Definition k_string : str := 3.
Definition k_number : str := 4.
Definition k_integer : str := 5.
Definition k_array : str := 6.
Definition k_object : str := 7.
Definition k_int32 : str := 8.
Definition k_int64 : str := 9.
Definition k_float32 : str := 10.
Definition k_float64 : str := 11.
Definition k_dollar_schema : str := 12.   (* "$schema" *)
Definition k_id : str := 13.              (* "id" *)
Definition k_headers : str := 14.
Definition k_dollar_ref : str := 15.      (* "$ref" *)
Definition k_type : str := 16.
Definition k_items : str := 17.
Definition k_properties : str := 18.
Definition k_default : str := 19.
Definition k_example : str := 20.
Definition k_examples : str := 21.
Definition k_file : str := 22.
Definition k_byte : str := 23.
Definition first_free_id : str := 32.

(* ---- lookup tables for oracles shipped with a case ---- *)

Fixpoint assocZ {T} (k : Z) (l : list (Z * T)) : option T :=
  match l with
  | [] => None
  | (k', v) :: t => if Z.eqb k k' then Some v else assocZ k t
  end.

Fixpoint assocZZ {T} (a b : Z) (l : list (Z * Z * T)) : option T :=
  match l with
  | [] => None
  | (a', b', v) :: t => if Z.eqb a a' && Z.eqb b b' then Some v else assocZZ a b t
  end.

Fixpoint memZ (x : Z) (l : list Z) : bool :=
  match l with [] => false | y :: t => Z.eqb x y || memZ x t end.

(* ---- codecs ---- *)

Definition get_ikind (z : Z) : option ikind :=
  match z with
  | 0 => Some KInt | 1 => Some KInt8 | 2 => Some KInt16 | 3 => Some KInt32 | 4 => Some KInt64
  | 5 => Some KUint | 6 => Some KUint8 | 7 => Some KUint16 | 8 => Some KUint32 | 9 => Some KUint64
  | _ => None
  end.

Fixpoint get_goval_fuel (fuel : nat) (s : sx) : option goval :=
  match fuel with
  | O => None
  | S f =>
      let getv := get_goval_fuel f in
      match s with
      | L [A 0] => Some VNil
      | L [A 1; b] => match getBool b with Some b => Some (VBool b) | None => None end
      | L [A 2; A s] => Some (VStr s)
      | L [A 3; b; A x] => match getBool b with Some b => Some (VFlt b x) | None => None end
      | L [A 4; A k; A z] => match get_ikind k with Some k => Some (VInt k z) | None => None end
      | L [A 5; A lit; i; x] =>
          match getOpt getZ i, getOpt getZ x with
          | Some i, Some x => Some (VJnum lit i x)
          | _, _ => None
          end
      | L [A 6; A id; L l] =>
          match mapM getv l with Some l => Some (VArr id l) | None => None end
      | L [A 8; A et; L l] =>
          match mapM getv l with Some l => Some (VSlice et l) | None => None end
      | L [A 7; A id; L m] =>
          match mapM (fun e => match e with
                               | L [A k; v] => match getv v with Some v => Some (k, v) | None => None end
                               | _ => None
                               end) m with
          | Some m => Some (VObj id m)
          | None => None
          end
      | _ => None
      end
  end.

Fixpoint sx_depth (s : sx) : nat :=
  match s with
  | A _ => 1
  | L l => S (fold_left (fun acc e => Nat.max acc (sx_depth e)) l O)
  end.

Definition get_goval (s : sx) : option goval := get_goval_fuel (S (sx_depth s)) s.

Definition get_oracles (s : sx) : option oracles :=
  match s with
  | L [runes; reok; rematch; fknown; fcheck] =>
      match getList (getPair getZ getZ) runes, getZs reok,
            getList (getPair getZ getZ) rematch, getZs fknown,
            getList (getPair getZ getZ) fcheck with
      | Some runes, Some reok, Some rematch, Some fknown, Some fcheck =>
          Some {| o_rune_len := fun s => match assocZ s runes with Some n => n | None => 0 end;
                  o_re_ok := fun p => memZ p reok;
                  o_re_match := fun p s => existsb (fun e => Z.eqb (fst e) p && Z.eqb (snd e) s) rematch;
                  o_fmt_known := fun f => memZ f fknown;
                  o_fmt_check := fun f s => existsb (fun e => Z.eqb (fst e) f && Z.eqb (snd e) s) fcheck |}
      | _, _, _, _, _ => None
      end
  | _ => None
  end.
