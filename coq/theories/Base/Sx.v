(* Generic exchange tree between the harness and the model.
   The Go harness prints cases as s-expressions made of integers and lists;
   the OCaml driver (and cases.v files evaluated with vm_compute) turn them into
   [sx] terms; every model entry point is a function [sx -> sx].  All decoding
   of cases into model data types is therefore written in Gallina and is shared
   by the extracted and the in-Coq evaluation paths. *)
From Coq Require Import List ZArith Bool.
Import ListNotations.
Open Scope Z_scope.

Inductive sx : Type :=
| A (z : Z)
| L (l : list sx).

Definition sx_err : sx := L [A (-1)].

Definition getZ (s : sx) : option Z :=
  match s with A z => Some z | L _ => None end.

Definition getL (s : sx) : option (list sx) :=
  match s with L l => Some l | A _ => None end.

Definition getBool (s : sx) : option bool :=
  match s with A 0 => Some false | A 1 => Some true | _ => None end.

Definition ofBool (b : bool) : sx := A (if b then 1 else 0).

(* option codec: L [] = None, L [x] = Some x *)
Definition getOpt {T} (f : sx -> option T) (s : sx) : option (option T) :=
  match s with
  | L [] => Some None
  | L [x] => match f x with Some v => Some (Some v) | None => None end
  | _ => None
  end.

Fixpoint mapM {T U} (f : T -> option U) (l : list T) : option (list U) :=
  match l with
  | [] => Some []
  | x :: xs =>
      match f x with
      | None => None
      | Some y => match mapM f xs with None => None | Some ys => Some (y :: ys) end
      end
  end.

Definition getList {T} (f : sx -> option T) (s : sx) : option (list T) :=
  match s with L l => mapM f l | A _ => None end.

Definition getZs := getList getZ.

Definition ofZs (l : list Z) : sx := L (map A l).

Definition getNat (s : sx) : option nat :=
  match s with A z => if z <? 0 then None else Some (Z.to_nat z) | _ => None end.

Definition ofNat (n : nat) : sx := A (Z.of_nat n).

Definition getPair {T U} (f : sx -> option T) (g : sx -> option U) (s : sx) : option (T * U) :=
  match s with
  | L [a; b] => match f a, g b with Some x, Some y => Some (x, y) | _, _ => None end
  | _ => None
  end.
