(* GENERATED from /repo by `vharness ctor gen` on every run - do not edit. *)
From Coq Require Import List String Bool.
Import ListNotations.
Open Scope string_scope.
(* (pooled type, fields of the struct, fields assigned by its constructor / cleared()) *)
Definition ctor_table : list (string * list string * list string) := [
  ("HeaderValidator", ["name"; "header"; "validators"; "KnownFormats"; "Options"], ["KnownFormats"; "Options"; "header"; "name"; "validators"]);
  ("ParamValidator", ["param"; "validators"; "KnownFormats"; "Options"], ["KnownFormats"; "Options"; "param"; "validators"]);
  ("Result", ["Errors"; "Warnings"; "MatchCount"; "data"; "rootObjectSchemata"; "fieldSchemata"; "itemSchemata"; "cachedFieldSchemata"; "cachedItemSchemata"; "wantsRedeemOnMerge"], ["Errors"; "MatchCount"; "Warnings"; "cachedFieldSchemata"; "cachedItemSchemata"; "data"; "fieldSchemata"; "itemSchemata"; "rootObjectSchemata"; "wantsRedeemOnMerge"]);
  ("SchemaValidator", ["Path"; "in"; "Schema"; "validators"; "Root"; "KnownFormats"; "Options"], ["KnownFormats"; "Options"; "Path"; "Root"; "Schema"; "in"; "validators"]);
  ("basicCommonValidator", ["Path"; "In"; "Default"; "Enum"; "Options"], ["Default"; "Enum"; "In"; "Options"; "Path"]);
  ("basicSliceValidator", ["Path"; "In"; "Default"; "MaxItems"; "MinItems"; "UniqueItems"; "Items"; "Source"; "KnownFormats"; "Options"], ["Default"; "In"; "Items"; "KnownFormats"; "MaxItems"; "MinItems"; "Options"; "Path"; "Source"; "UniqueItems"]);
  ("formatValidator", ["Path"; "In"; "Format"; "KnownFormats"; "Options"], ["Format"; "In"; "KnownFormats"; "Options"; "Path"]);
  ("itemsValidator", ["items"; "root"; "path"; "in"; "validators"; "KnownFormats"; "Options"], ["KnownFormats"; "Options"; "in"; "items"; "path"; "root"; "validators"]);
  ("numberValidator", ["Path"; "In"; "Default"; "MultipleOf"; "Maximum"; "ExclusiveMaximum"; "Minimum"; "ExclusiveMinimum"; "Type"; "Format"; "Options"], ["Default"; "ExclusiveMaximum"; "ExclusiveMinimum"; "Format"; "In"; "Maximum"; "Minimum"; "MultipleOf"; "Options"; "Path"; "Type"]);
  ("objectValidator", ["Path"; "In"; "MaxProperties"; "MinProperties"; "Required"; "Properties"; "AdditionalProperties"; "PatternProperties"; "Root"; "KnownFormats"; "Options"; "splitPath"], ["AdditionalProperties"; "In"; "KnownFormats"; "MaxProperties"; "MinProperties"; "Options"; "Path"; "PatternProperties"; "Properties"; "Required"; "Root"; "splitPath"]);
  ("schemaPropsValidator", ["Path"; "In"; "AllOf"; "OneOf"; "AnyOf"; "Not"; "Dependencies"; "anyOfValidators"; "allOfValidators"; "oneOfValidators"; "notValidator"; "Root"; "KnownFormats"; "Options"], ["AllOf"; "AnyOf"; "Dependencies"; "In"; "KnownFormats"; "Not"; "OneOf"; "Options"; "Path"; "Root"; "allOfValidators"; "anyOfValidators"; "notValidator"; "oneOfValidators"]);
  ("schemaSliceValidator", ["Path"; "In"; "MaxItems"; "MinItems"; "UniqueItems"; "AdditionalItems"; "Items"; "Root"; "KnownFormats"; "Options"], ["AdditionalItems"; "In"; "Items"; "KnownFormats"; "MaxItems"; "MinItems"; "Options"; "Path"; "Root"; "UniqueItems"]);
  ("stringValidator", ["Path"; "In"; "Default"; "Required"; "AllowEmptyValue"; "MaxLength"; "MinLength"; "Pattern"; "Options"], ["AllowEmptyValue"; "Default"; "In"; "MaxLength"; "MinLength"; "Options"; "Path"; "Pattern"; "Required"]);
  ("typeValidator", ["Path"; "In"; "Type"; "Nullable"; "Format"; "Options"], ["Format"; "In"; "Nullable"; "Options"; "Path"; "Type"])
].
