(* The agreement theorem of Agreement.v extended to references: a schema node may be a chain of at most K references
   ending in a node of the fragment, at every level.  Recursive definitions have no finite level and stay outside. *)
From Coq Require Import List ZArith Bool Lia.
From Verif Require Import Base.Sx Base.GoVal Schema.Ast Schema.Build Schema.Pipeline Schema.Draft4 Schema.PipelineFacts
  Schema.PipelineTerm Schema.PipelineTermRec Schema.PipelineQuiet Schema.AgreementData Schema.Agreement.
Import ListNotations.
Open Scope Z_scope.

Section Ref.
Variable fin : f64 -> Prop.
Variable allow_null : bool.
(* arrays in the data are admitted only together with schemas whose formats sit next to a type list that accepts arrays (see [local_clean]) *)
Variable allow_arr : bool.
Variable OR : oracles.
Variable N : numops.
Variable opt : options.
Variable defs : env.
Variable K : nat.                                   (* bound on the length of a chain of references *)
Hypothesis Hopt_items : opt_array_must_have_items opt = false.
Hypothesis Hopt_array : opt_obj_array_type_check opt = false.
Hypothesis Hord : forall a b, fin a -> fin b -> n_lt N a b = negb (n_le N b a).
Hypothesis Heq_sym : forall a b, fin a -> fin b -> n_eq N a b = n_eq N b a.

(* s reaches t through k references *)
Inductive chain : nat -> schema -> schema -> Prop :=
| chain_here s : s_ref s = None -> chain 0 s s
| chain_hop k s r u t : s_ref s = Some r -> lookup_def defs r = Some u -> chain k u t -> chain (S k) s t.

Lemma chain_end k s t : chain k s t -> s_ref t = None.
Proof. induction 1; assumption. Qed.

Lemma resolve_chain k s t : chain k s t -> forall f, (k <= f)%nat -> resolve defs f s = Ok t.
Proof.
  induction 1 as [s Hs | k s r u t Hs Hl Hc IH]; intros f Hf.
  - apply resolve_ref_free. exact Hs.
  - destruct f as [|f]; [lia|]. cbn [resolve]. rewrite Hs, Hl. apply IH. lia.
Qed.

Lemma d4_chain d k s t : chain k s t -> forall f, d4 OR N defs (k + f) s d = d4 OR N defs f t d.
Proof.
  induction 1 as [s Hs | k s r u t Hs Hl Hc IH]; intros f; [reflexivity|].
  cbn [Nat.add d4]. rewrite Hs, Hl. apply IH.
Qed.

Fixpoint cleanr (n : nat) (s : schema) {struct n} : Prop :=
  match n with
  | O => False
  | S m => exists k t, chain k s t /\ (k <= K)%nat /\ local_clean fin allow_null allow_arr OR t /\ kids (cleanr m) t
  end.

(* the eager construction of the composition validators succeeds *)
Lemma eager_cleanr : forall n f s, cleanr n s -> (n + K <= f)%nat -> eager defs f s = Ok tt.
Proof.
  induction n as [|n IH]; intros f s Hc Hf; [destruct Hc|]. destruct Hc as [k [t [Hch [Hk [Hl Kd]]]]].
  destruct f as [|f]; [lia|]. cbn [eager]. rewrite (resolve_chain k s t Hch f); [|lia]. cbn [bind].
  destruct Kd as [_ [_ [_ [_ [_ [_ [Hall [Hany [Hone [Hnot _]]]]]]]]]].
  assert (HF : Forall (cleanr n) (s_any_of t ++ s_all_of t ++ s_one_of t ++ match s_not t with Some c => [c] | None => [] end)).
  { repeat (apply Forall_app; split); try assumption. destruct (s_not t) eqn:E; [constructor; [apply Hnot; reflexivity | constructor] | constructor]. }
  induction HF as [|c l Hc Hl' IHl]; [reflexivity|]. rewrite (IH f c Hc); [|lia]. cbn [bind]. exact IHl.
Qed.

Theorem agreement_with_references : forall n f1 f2 s, cleanr n s -> (n + K < f1)%nat -> (n * S K <= f2)%nat ->
  forall p q d, jd fin allow_null allow_arr d ->
  exists r, sv_validate OR N opt defs f1 s p q d = Ok r /\ d4 OR N defs f2 s d = Some (r_valid r).
Proof.
  induction n as [|n IH]; intros f1 f2 s Hc Hf1 Hf2 p q d Hd; [destruct Hc|].
  pose proof Hc as Hc0. destruct Hc as [k [t [Hch [Hk [Hl Kd]]]]].
  destruct f1 as [|g1]; [lia|]. cbn [sv_validate].
  rewrite (eager_cleanr (S n) g1 s Hc0); [|lia]. cbn [bind].
  rewrite (resolve_chain k s t Hch g1); [|lia]. cbn [bind].
  assert (Hf2' : exists g2, f2 = (k + S g2)%nat /\ (n * S K <= g2)%nat).
  { exists (f2 - k - 1)%nat. cbn [Nat.mul] in Hf2. split; lia. }
  destruct Hf2' as [g2 [-> Hg2]]. rewrite (d4_chain d k s t Hch (S g2)). cbn [d4]. rewrite (chain_end k s t Hch).
  apply (body_agree fin allow_null allow_arr OR N opt Hopt_items Hopt_array Hord Heq_sym (sv_validate OR N opt defs g1) (d4 OR N defs g2)
           (fun c p' q' d' Hd' => no_important_error OR N opt defs g1 c p' q' d' (jd_nohdr fin allow_null allow_arr d' Hd'))
           (fun _ _ => True) (fun _ _ => True) t p q d (proj1 Hl) (fmt_clean_fits fin allow_null allow_arr t d (proj2 Hl) Hd)); [|exact Hd| |].
  - apply (proj1 (kids_kids2 _ t)). eapply kids_impl; [|exact Kd]. intros c Hcc p' q' d' Hd' _. apply IH; [exact Hcc | lia | exact Hg2 | exact Hd'].
  - intros c _. exact I.
  - intros c v _. exact I.
Qed.

End Ref.
