(* Termination with a verdict for recursive definitions (C06): when every cycle of references passes through a keyword
   that descends into the value (items, properties, patternProperties, additionalItems, additionalProperties), the pipeline returns a result -
   no panic, no exhaustion - as soon as the fuel exceeds depth(value) * (R + 1) + rank(schema), where [rank] is any
   measure that strictly decreases along the edges that do NOT descend into the value ($ref, allOf, anyOf, oneOf, not,
   schema dependencies) and R bounds it. The unguarded composition cycle of the finding has no such rank. *)
From Coq Require Import List ZArith Bool Lia.
From Verif Require Import Base.Sx Base.GoVal Schema.Ast Schema.Build Schema.Pipeline Schema.PipelineTerm.
Import ListNotations.
Open Scope Z_scope.

(* immediate sub-schemas: those applied to parts of the value satisfy Pg, those applied to the value itself Pu *)
Definition kids2 (Pg Pu : schema -> Prop) (s : schema) : Prop :=
  (forall c, s_items_one s = Some c -> Pg c) /\
  (forall cs, s_items_tuple s = Some cs -> Forall Pg cs) /\
  (forall a c, s_add_items s = Some (a, Some c) -> Pg c) /\
  Forall (fun kc => Pg (snd kc)) (s_props s) /\
  Forall (fun kc => Pg (snd kc)) (s_pat_props s) /\
  (forall a c, s_add_props s = Some (a, Some c) -> Pg c) /\
  Forall Pu (s_all_of s) /\ Forall Pu (s_any_of s) /\ Forall Pu (s_one_of s) /\
  (forall c, s_not s = Some c -> Pu c) /\
  Forall (fun kd => forall c, fst (snd kd) = Some c -> Pu c) (s_deps s).

Lemma kids2_impl (Pg Pu Qg Qu : schema -> Prop) (s : schema) :
  (forall c, Pg c -> Qg c) -> (forall c, Pu c -> Qu c) -> kids2 Pg Pu s -> kids2 Qg Qu s.
Proof.
  intros Hg Hu [H1 [H2 [H3 [H4 [H5 [H6 [H7 [H8 [H9 [H10 H11]]]]]]]]]].
  split; [intros c E; apply Hg, (H1 c E)|].
  split; [intros cs E; eapply Forall_impl; [|apply (H2 cs E)]; exact Hg|].
  split; [intros a c E; apply Hg, (H3 a c E)|].
  split; [eapply Forall_impl; [|exact H4]; intros a; apply Hg|].
  split; [eapply Forall_impl; [|exact H5]; intros a; apply Hg|].
  split; [intros a c E; apply Hg, (H6 a c E)|].
  split; [eapply Forall_impl; [|exact H7]; exact Hu|].
  split; [eapply Forall_impl; [|exact H8]; exact Hu|].
  split; [eapply Forall_impl; [|exact H9]; exact Hu|].
  split; [intros c E; apply Hu, (H10 c E)|].
  eapply Forall_impl; [|exact H11]. intros a Ha c E. apply Hu, Ha, E.
Qed.

Lemma kids_kids2 (P : schema -> Prop) (s : schema) : kids P s <-> kids2 P P s.
Proof. split; intros H; exact H. Qed.

Lemma Forall_skipn' {A} (P : A -> Prop) n l : Forall P l -> Forall P (skipn n l).
Proof. revert l; induction n as [|n IH]; intros l H; [exact H|]. destruct l; [constructor|]. inversion H; subst. apply IH. assumption. Qed.

Section Groups.
Variable OR : oracles.
Variable N : numops.
Variable opt : options.
Variable rec_sp : schema -> path -> path -> goval -> outcome res.
(* [sub]: the values strictly inside the current one; [le]: the current one and what it converts to *)
Variable sub le : goval -> Prop.

Definition gsub (c : schema) : Prop := forall p q v, sub v -> tot (rec_sp c p q v).
Definition gle (c : schema) : Prop := forall p q v, le v -> tot (rec_sp c p q v).
Definition subm (m : list (str * goval)) : Prop := Forall (fun kv => sub (snd kv)) m.

Lemma t2_slice_items_one s1 p sl l : gsub s1 -> Forall sub l -> forall i r, tot (slice_items_one rec_sp s1 p sl l i r).
Proof. intros H HF. induction HF as [|v t Hv Ht IH]; intros i r; simpl; tot_step; [apply H; exact Hv | apply IH]. Qed.

Lemma t2_slice_items_tuple ss p sl : Forall gsub ss -> forall l, Forall sub l -> forall i r, tot (slice_items_tuple rec_sp ss p sl l i r).
Proof.
  induction ss as [|s1 st IH]; intros HF l HL i r; [destruct l; apply tot_ok|].
  destruct l as [|v t]; [apply tot_ok|]. inversion HF as [|x xs Hx Hxs]; subst. inversion HL as [|y ys Hy Hys]; subst.
  simpl. apply tot_bind; [unfold rec; apply Hx; exact Hy | intros x; apply IH; assumption].
Qed.

Lemma t2_slice_additional sa p sl rest : gsub sa -> Forall sub rest -> forall i r, tot (slice_additional rec_sp sa p sl rest i r).
Proof. intros H HF. induction HF as [|v t Hv Ht IH]; intros i r; simpl; tot_step; [apply H; exact Hv | apply IH]. Qed.

Lemma t2_slice_validate p s d : kids2 gsub gle s -> (forall sl l, d = VArr sl l -> Forall sub l) -> tot (slice_validate N rec_sp p s d).
Proof.
  intros [H1 [H2 [H3 _]]] Hd. unfold slice_validate. destruct d; try apply tot_ok.
  pose proof (Hd _ _ eq_refl) as HL.
  apply tot_bind; [destruct (s_items_one s) eqn:E; [apply t2_slice_items_one; [apply H1; reflexivity | exact HL] | apply tot_ok] | intros r1].
  apply tot_bind; [apply t2_slice_items_tuple; [destruct (s_items_tuple s) eqn:E; [apply H2; reflexivity | constructor] | exact HL] | intros r2].
  apply tot_bind; [|intros r3; apply tot_ok].
  destruct (s_add_items s) as [[allows [sa|]]|] eqn:E; tot_step. apply t2_slice_additional; [apply (H3 _ _ eq_refl) | apply Forall_skipn'; exact HL].
Qed.

Lemma t2_pattern_property pps p key value : sub value ->
  Forall (fun kc => gsub (snd kc)) pps -> forall r m pats, tot (pattern_property OR rec_sp pps p key value r m pats).
Proof.
  intros Hv. induction pps as [|[k ps] t IH]; intros HF r m pats; simpl; [apply tot_ok|]. inversion HF as [|x xs Hx Hxs]; subst.
  tot_step; try (apply IH; assumption). apply Hx. exact Hv.
Qed.

Lemma t2_validate_pattern_property s p key value r : sub value ->
  kids2 gsub gle s -> tot (validate_pattern_property OR rec_sp s p key value r).
Proof.
  intros Hv [_ [_ [_ [_ [H _]]]]]. unfold validate_pattern_property. destruct (s_pat_props s) eqn:E; [apply tot_ok|].
  apply t2_pattern_property; [exact Hv | exact H].
Qed.

Lemma t2_additional_properties s p obj m : kids2 gsub gle s -> subm m -> forall r, tot (additional_properties OR rec_sp s p obj m r).
Proof.
  intros K HM. pose proof K as [_ [_ [_ [_ [_ [Ha _]]]]]].
  induction HM as [|[key value] t Hv Ht IH]; intros r; simpl; [apply tot_ok|]. cbn [snd] in Hv.
  destruct (has_prop s key); [apply IH|].
  apply tot_bind; [apply t2_validate_pattern_property; [exact Hv | exact K] | intros [[matched pats] r1]].
  destruct matched; [apply IH|].
  destruct (s_add_props s) as [[a [sa|]]|] eqn:E; try apply IH.
  apply tot_bind; [unfold rec; apply (Ha _ _ eq_refl); exact Hv | intros x; apply IH].
Qed.

Lemma lookup_val_sub m k v : subm m -> lookup_val m k = Some v -> sub v.
Proof.
  intros HM. induction HM as [|[key value] t Hv Ht IH]; simpl; intros H; [discriminate|].
  match type of H with (if ?b then _ else _) = _ => destruct b end; [inversion H; subst; exact Hv | apply IH; exact H].
Qed.

Lemma t2_properties_schema props p obj m : subm m ->
  Forall (fun kc => gsub (snd kc)) props -> forall r created, tot (properties_schema opt rec_sp props p obj m r created).
Proof.
  intros HM. induction props as [|[pname ps] t IH]; intros HF r created; simpl; [apply tot_ok|]. inversion HF as [|x xs Hx Hxs]; subst.
  destruct (lookup_val m pname) eqn:E.
  - apply tot_bind; [unfold rec; apply Hx; apply (lookup_val_sub m pname _ HM E) | intros y; apply IH; assumption].
  - destruct (s_default ps); apply IH; assumption.
Qed.

Lemma t2_merge_patterns pats s p obj key value : sub value -> kids2 gsub gle s -> forall r, tot (merge_patterns rec_sp pats s p obj key value r).
Proof.
  intros Hv [_ [_ [_ [_ [H _]]]]]. induction pats as [|[pn x] t IH]; intros r; simpl; [apply tot_ok|].
  destruct (lookup_schema (s_pat_props s) pn) eqn:E; [|apply IH].
  apply tot_bind; [unfold rec; apply (lookup_schema_forall gsub _ _ _ H E); exact Hv | intros y; apply IH].
Qed.

Lemma t2_pattern_loop s p obj m : kids2 gsub gle s -> subm m -> forall r, tot (pattern_loop OR rec_sp s p obj m r).
Proof.
  intros K HM. induction HM as [|[key value] t Hv Ht IH]; intros r; simpl; [apply tot_ok|]. cbn [snd] in Hv.
  apply tot_bind; [apply t2_validate_pattern_property; [exact Hv | exact K] | intros [[matched pats] r1]].
  destruct (has_prop s key || negb matched); [apply IH|].
  apply tot_bind; [apply t2_merge_patterns; [exact Hv | exact K] | intros r2; apply IH].
Qed.

Lemma t2_object_validate p s d : kids2 gsub gle s -> (forall id m, d = VObj id m -> subm m) -> tot (object_validate OR opt rec_sp p s d).
Proof.
  intros K Hd. pose proof K as [_ [_ [_ [Hp _]]]]. unfold object_validate. destruct d; try apply tot_ok.
  pose proof (Hd _ _ eq_refl) as HM.
  cbv zeta.
  destruct (match s_min_props s with Some mn => _ | None => false end); [apply tot_ok|].
  destruct (match s_max_props s with Some mx => _ | None => false end); [apply tot_ok|].
  apply tot_bind.
  - destruct (s_add_props s) as [[[|] o]|]; try apply tot_ok; apply t2_additional_properties; assumption.
  - intros r1. apply tot_bind; [apply t2_properties_schema; assumption | intros [r2 created]].
    apply t2_pattern_loop; assumption.
Qed.

Lemma t2_any_of vs p d : le d -> Forall gle vs -> forall main keep best, tot (any_of rec_sp vs p d main keep best).
Proof.
  intros Hd. induction vs as [|s1 t IH]; intros HF main keep best; simpl; [apply tot_ok|]. inversion HF as [|x xs Hx Hxs]; subst.
  apply tot_bind; [unfold rec; apply Hx; exact Hd | intros y]. tot_step; apply IH; assumption.
Qed.

Lemma t2_one_of vs p d : le d -> Forall gle vs -> forall keep first best validated, tot (one_of rec_sp vs p d keep first best validated).
Proof.
  intros Hd. induction vs as [|s1 t IH]; intros HF keep first best validated; simpl; [apply tot_ok|]. inversion HF as [|x xs Hx Hxs]; subst.
  apply tot_bind; [unfold rec; apply Hx; exact Hd | intros y]. destruct (r_valid y); [apply IH; assumption|].
  match goal with |- tot (if ?b then _ else _) => destruct b end; apply IH; assumption.
Qed.

Lemma t2_all_of vs p d : le d -> Forall gle vs -> forall main keep validated, tot (all_of rec_sp vs p d main keep validated).
Proof.
  intros Hd. induction vs as [|s1 t IH]; intros HF main keep validated; simpl; [apply tot_ok|]. inversion HF as [|x xs Hx Hxs]; subst.
  apply tot_bind; [unfold rec; apply Hx; exact Hd | intros y; apply IH; assumption].
Qed.

Lemma find_dep_gle (l : list (str * (option schema * list str))) (key : str) (ds : schema) (props : list str) :
  Forall (fun kd => forall c, fst (snd kd) = Some c -> gle c) l ->
  (fix find (l : list (str * (option schema * list str))) :=
     match l with
     | [] => None
     | (k, dep) :: l' => if Z.eqb k key then Some dep else find l'
     end) l = Some (Some ds, props) -> gle ds.
Proof.
  induction l as [|[k dep] t IH]; intros HF H; [discriminate|]. inversion HF as [|x xs Hx Hxs]; subst.
  destruct (Z.eqb k key); [inversion H; subst; apply Hx; reflexivity | apply IH; assumption].
Qed.

Lemma t2_dependencies s p d m all : le d -> kids2 gsub gle s -> forall main, tot (dependencies rec_sp s p d m all main).
Proof.
  intros Hd [_ [_ [_ [_ [_ [_ [_ [_ [_ [_ H]]]]]]]]]]. induction m as [|[key v] t IH]; intros main; simpl; [apply tot_ok|].
  match goal with |- tot (match ?f with _ => _ end) => destruct f as [[[ds|] props]|] eqn:E end; try apply IH.
  apply tot_bind; [unfold rec; apply (find_dep_gle _ _ _ _ H E); exact Hd | intros x; apply IH].
Qed.

Lemma t2_props_validate p s d : le d -> kids2 gsub gle s -> tot (props_validate rec_sp p s d).
Proof.
  intros Hd K. pose proof K as [_ [_ [_ [_ [_ [_ [Hall [Hany [Hone [Hnot _]]]]]]]]]]. unfold props_validate. cbv zeta.
  apply tot_bind.
  { destruct (s_any_of s) eqn:E; [apply tot_ok|]. apply tot_bind; [apply t2_any_of; assumption | intros; apply tot_ok]. }
  intros [main1 keep_any]. apply tot_bind.
  { destruct (s_one_of s) eqn:E; [apply tot_ok|]. apply tot_bind; [apply t2_one_of; assumption | intros [[[first best] validated] keep]; apply tot_ok]. }
  intros [main2 keep_one]. apply tot_bind.
  { destruct (s_all_of s) eqn:E; [apply tot_ok|]. apply tot_bind; [apply t2_all_of; assumption | intros [[main' keep] validated]; apply tot_ok]. }
  intros [main3 keep_all]. apply tot_bind.
  { destruct (s_not s) eqn:E; [|apply tot_ok]. apply tot_bind; [unfold rec; apply (Hnot _ eq_refl); exact Hd | intros; apply tot_ok]. }
  intros main4. apply tot_bind; [|intros; apply tot_ok].
  destruct (s_deps s); [apply tot_ok|]. destruct d; try apply tot_ok. apply t2_dependencies; assumption.
Qed.

(* the value that the groups see is the given one or, for a json.Number, a typed integer or float *)
Lemma t2_sv_body s p q data : kids2 gsub gle s -> le data ->
  (forall k z, le (VInt k z)) -> (forall b f, le (VFlt b f)) ->
  (forall sl l, data = VArr sl l -> Forall sub l) -> (forall id m, data = VObj id m -> subm m) ->
  tot (sv_body OR N opt rec_sp s p q data).
Proof.
  intros K Hd Hint Hflt Harr Hobj. unfold sv_body.
  assert (Hnoarr : forall d, (forall sl l, d <> VArr sl l) -> forall sl l, d = VArr sl l -> Forall sub l) by (intros d H sl l E; destruct (H sl l E)).
  assert (Hnoobj : forall d, (forall id m, d <> VObj id m) -> forall id m, d = VObj id m -> subm m) by (intros d H id m E; destruct (H id m E)).
  assert (Hgen : forall d, le d -> (forall sl l, d = VArr sl l -> Forall sub l) -> (forall id m, d = VObj id m -> subm m) ->
          forall r1,
          tot (do x2 <- props_validate rec_sp p s d;
               let r2 := r_inc (merge r1 (Some x2)) in
               let r3 := if is_string_kind d then r_inc (merge r2 (string_validate OR p s d)) else r2 in
               do r4 <- (if format_applies OR s d
                         then do x <- format_validate OR p s d; Ok (r_inc (merge r3 (Some x)))
                         else Ok r3);
               let r5 := if is_number_kind d then r_inc (merge r4 (Some (number_validate N p s d))) else r4 in
               do r6 <- (if is_slice_kind d
                         then do x <- slice_validate N rec_sp p s d; Ok (r_inc (merge r5 (Some x)))
                         else Ok r5);
               let r7 := r_inc (merge r6 (common_validate N p s d)) in
               do r8 <- (if is_map_kind d
                         then do x <- object_validate OR opt rec_sp p s d; Ok (r_inc (merge r7 (Some x)))
                         else Ok r7);
               Ok (r_inc r8))).
  { intros d Hle Ha Ho r1. cbv zeta.
    apply tot_bind; [apply t2_props_validate; assumption | intros x2].
    apply tot_bind; [match goal with |- tot (if ?b then _ else _) => destruct b; [|apply tot_ok] end;
                     apply tot_bind; [apply tot_format_validate | intros; apply tot_ok] | intros r4].
    apply tot_bind; [match goal with |- tot (if ?b then _ else _) => destruct b; [|apply tot_ok] end;
                     apply tot_bind; [apply t2_slice_validate; assumption | intros; apply tot_ok] | intros r6].
    apply tot_bind; [match goal with |- tot (if ?b then _ else _) => destruct b; [|apply tot_ok] end;
                     apply tot_bind; [apply t2_object_validate; assumption | intros; apply tot_ok] | intros r8; apply tot_ok]. }
  destruct data; cbv beta iota zeta; try apply tot_ok;
    try (apply Hgen; [exact Hd | first [exact Harr | apply Hnoarr; intros; discriminate] | first [exact Hobj | apply Hnoobj; intros; discriminate]]).
  (* json.Number *)
  match goal with
  | |- tot (match ?c with _ => _ end) => destruct c as [[dd|]|] eqn:Ec; try apply tot_ok
  end.
  - assert (Hdd : (exists k z, dd = VInt k z) \/ (exists b f, dd = VFlt b f)).
    { destruct (types_numeric s); [|discriminate]. destruct (contains k_integer (s_types s)).
      - destruct asint; inversion Ec; subst. left; eauto.
      - destruct asflt; inversion Ec; subst. right; eauto. }
    apply Hgen.
    + destruct Hdd as [[k [z ->]] | [b [f ->]]]; [apply Hint | apply Hflt].
    + apply Hnoarr. intros sl l E. destruct Hdd as [[k [z ->]] | [b [f ->]]]; discriminate.
    + apply Hnoobj. intros id m E. destruct Hdd as [[k [z ->]] | [b [f ->]]]; discriminate.
  - apply Hgen; [exact Hd | apply Hnoarr; intros; discriminate | apply Hnoobj; intros; discriminate].
Qed.

End Groups.

(* ------------------------------------------------------------------ depth of values *)

Lemma fold_max_ge {A} (f : A -> nat) (l : list A) : forall acc, (acc <= fold_left (fun a e => Nat.max a (f e)) l acc)%nat.
Proof. induction l as [|x t IH]; intros acc; simpl; [lia|]. specialize (IH (Nat.max acc (f x))). lia. Qed.

Lemma fold_max_in {A} (f : A -> nat) (l : list A) x : In x l -> forall acc, (f x <= fold_left (fun a e => Nat.max a (f e)) l acc)%nat.
Proof.
  induction l as [|y t IH]; intros Hin acc; [destruct Hin|]. simpl. destruct Hin as [-> | Hin].
  - pose proof (fold_max_ge f t (Nat.max acc (f x))). lia.
  - apply IH. exact Hin.
Qed.

Lemma depth_pos v : (1 <= goval_depth v)%nat.
Proof. destruct v; simpl; lia. Qed.

Lemma depth_elem sl l v : In v l -> (goval_depth v < goval_depth (VArr sl l))%nat.
Proof. intros H. cbn [goval_depth]. pose proof (fold_max_in goval_depth l v H 0%nat). lia. Qed.

Lemma depth_member id m kv : In kv m -> (goval_depth (snd kv) < goval_depth (VObj id m))%nat.
Proof. intros H. cbn [goval_depth]. pose proof (fold_max_in (fun kv => goval_depth (snd kv)) m kv H 0%nat). cbn beta in H0. lia. Qed.

(* ------------------------------------------------------------------ guarded recursion *)

Section Guarded.
Variable defs : env.
(* [W]: a set of schemas closed under the sub-schema and reference-target relations; [rank] decreases along the edges
   that keep the value *)
Variable W : schema -> Prop.
Variable rank : schema -> nat.
Variable R : nat.

Definition guarded : Prop :=
  (forall s, W s -> (rank s <= R)%nat) /\
  (forall s n, W s -> s_ref s = Some n -> exists t, lookup_def defs n = Some t /\ W t /\ (rank t < rank s)%nat) /\
  (forall s, W s -> s_ref s = None -> kids2 W (fun c => W c /\ (rank c < rank s)%nat) s).

Hypothesis G : guarded.

Lemma resolve_guarded : forall fuel s, W s -> (rank s <= fuel)%nat ->
  exists t, resolve defs fuel s = Ok t /\ W t /\ s_ref t = None /\ (rank t <= rank s)%nat.
Proof.
  destruct G as [_ [Gref _]].
  induction fuel as [|f IH]; intros s Hs Hle.
  - destruct (s_ref s) as [n|] eqn:E.
    + destruct (Gref s n Hs E) as [t [_ [_ Hlt]]]. lia.
    + exists s. cbn [resolve]. rewrite E. repeat split; auto.
  - destruct (s_ref s) as [n|] eqn:E.
    + destruct (Gref s n Hs E) as [t [Ht [Wt Hlt]]]. cbn [resolve]. rewrite E, Ht.
      destruct (IH t Wt) as [t' [H1 [H2 [H3 H4]]]]; [lia|]. exists t'. repeat split; auto. lia.
    + exists s. cbn [resolve]. rewrite E. repeat split; auto.
Qed.

Lemma eager_guarded : forall fuel s, W s -> (rank s < fuel)%nat -> eager defs fuel s = Ok tt.
Proof.
  induction fuel as [|f IH]; intros s Hs Hlt; [lia|]. cbn [eager].
  destruct (resolve_guarded f s Hs) as [t [Ht [Wt [Hnone Hrk]]]]; [lia|]. rewrite Ht. cbn [bind].
  destruct G as [_ [_ Gk]]. destruct (Gk t Wt Hnone) as [_ [_ [_ [_ [_ [_ [Hall [Hany [Hone [Hnot _]]]]]]]]]].
  assert (HF : Forall (fun c => W c /\ (rank c < rank t)%nat)
                 (s_any_of t ++ s_all_of t ++ s_one_of t ++ match s_not t with Some c => [c] | None => [] end)).
  { repeat (apply Forall_app; split); try assumption. destruct (s_not t) eqn:E; [constructor; [apply Hnot; reflexivity | constructor] | constructor]. }
  induction HF as [|c l [Wc Hc] Hl IHl]; [reflexivity|]. rewrite (IH c Wc); [|lia]. cbn [bind]. exact IHl.
Qed.

(* C06 for recursive definitions: a verdict is returned, whatever the value, once the fuel covers the nesting of the
   value times the longest run of value-preserving steps *)
Theorem guarded_schemas_terminate OR N opt : forall fuel s d,
  W s -> (goval_depth d * S R + rank s < fuel)%nat -> forall p q, tot (sv_validate OR N opt defs fuel s p q d).
Proof.
  induction fuel as [|f IH]; intros s d Hs Hlt p q; [lia|]. cbn [sv_validate].
  pose proof (depth_pos d) as Hpos.
  assert (Hmul : (S R <= goval_depth d * S R)%nat) by (destruct (goval_depth d); [lia|]; cbn [Nat.mul]; lia).
  rewrite (eager_guarded f s Hs); [|lia]. cbn [bind].
  destruct (resolve_guarded f s Hs) as [t [Ht [Wt [Hnone Hrk]]]]; [lia|]. rewrite Ht. cbn [bind].
  destruct G as [GR [_ Gk]].
  apply (t2_sv_body OR N opt (sv_validate OR N opt defs f)
           (fun v => (goval_depth v < goval_depth d)%nat) (fun v => (goval_depth v <= goval_depth d)%nat)).
  - eapply kids2_impl; [| |exact (Gk t Wt Hnone)].
    + intros c Wc p' q' v Hv. apply IH; [exact Wc|]. pose proof (GR c Wc) as Hc.
      assert ((goval_depth v * S R + S R <= goval_depth d * S R)%nat).
      { replace (goval_depth v * S R + S R)%nat with (S (goval_depth v) * S R)%nat by (cbn [Nat.mul]; lia).
        apply Nat.mul_le_mono_r. lia. }
      lia.
    + intros c [Wc Hc] p' q' v Hv. apply IH; [exact Wc|].
      assert ((goval_depth v * S R <= goval_depth d * S R)%nat) by (apply Nat.mul_le_mono_r; exact Hv). lia.
  - lia.
  - intros k z. cbn [goval_depth]. exact Hpos.
  - intros b x. cbn [goval_depth]. exact Hpos.
  - intros sl l ->. apply Forall_forall. intros v Hv. apply depth_elem. exact Hv.
  - intros id m ->. apply Forall_forall. intros kv Hkv. apply (depth_member id m kv Hkv).
Qed.

Corollary against_schema_terminates_guarded OR N opt fuel s d :
  W s -> (goval_depth d * S R + rank s < fuel)%nat -> tot (against_schema OR N opt defs fuel s d).
Proof.
  intros Hs Hlt. unfold against_schema. apply tot_bind; [apply guarded_schemas_terminate; assumption | intros r; apply tot_ok].
Qed.

End Guarded.
