(* Facts about the parameter / header / items validator model: nil is not validated, and the
   first-error exit of the six-validator chain does not change the verdict: the result is valid exactly
   when every keyword group that applies accepts the value. *)
From Coq Require Import List ZArith Bool.
From Verif Require Import Base.Sx Base.GoVal Schema.Ast Schema.Pipeline Schema.PipelineFacts Schema.Simple.
Import ListNotations.
Open Scope Z_scope.

Definition step_ok (st : unit -> outcome (option res)) : Prop := exists x, st tt = Ok x.

Definition step_valid (st : unit -> outcome (option res)) : bool :=
  match st tt with
  | Ok None => true
  | Ok (Some e) => r_valid e
  | _ => false
  end.

(* the chain stops at the first group that reports an error; groups after it are not run. The verdict is
   nevertheless the conjunction over ALL groups: a skipped group can only follow a failing one. *)
Lemma chain_verdict inc steps : forall r0 r,
  chain inc steps r0 = Ok r -> r_valid r = r_valid r0 && forallb step_valid steps.
Proof.
  induction steps as [|st t IH]; intros r0 r H.
  - cbn [chain] in H. injection H as <-. cbn [forallb]. now rewrite andb_true_r.
  - cbn [chain forallb] in *. unfold step_valid at 1. destruct (st tt) as [[e|]| |]; cbn [bind] in H; cbv zeta in H; try discriminate.
    + destruct (r_valid e) eqn:Ev.
      * apply IH in H. rewrite H, r_valid_merge, Ev.
        destruct inc; rewrite ?r_valid_inc, ?andb_true_r; reflexivity.
      * assert (H' : merge (if inc then r_inc r0 else r0) (Some e) = r) by congruence.
        rewrite <- H', r_valid_merge, Ev.
        destruct inc; rewrite ?r_valid_inc, !andb_false_r; reflexivity.
    + apply IH in H. rewrite H. reflexivity.
Qed.

(* a chain whose groups all return (no panic) returns *)
Lemma chain_total inc steps : Forall step_ok steps -> forall r0, exists r, chain inc steps r0 = Ok r.
Proof.
  induction 1 as [|st t [x Hx] Ht IH]; intros r0; simpl; [eauto|].
  rewrite Hx. simpl. destruct x as [e|]; [|apply IH].
  destruct (r_valid e); [apply IH|eauto].
Qed.

Section S.
Variable OR : oracles.
Variable N : numops.

Lemma simple_nil sr : simple_validate OR N sr VNil = Ok None.
Proof. reflexivity. Qed.

(* the verdict of a parameter / header validation is the conjunction of its six groups *)
Definition group_verdicts (sr : sroot) (d : goval) : list (unit -> outcome (option res)) :=
  let q := sr_simple sr in
  let p := [SRoot (sr_name sr)] in
  [ (fun _ => Ok (Some (type_validate N p [q_type q] (q_nullable q) (q_format q) d)));
    (fun _ => Ok (if is_string_kind d then string_validate_q OR p q (sr_required sr) (sr_allow_empty sr) d else None));
    (fun _ => Ok (if is_string_kind d && o_fmt_known OR (q_format q) then Some (format_validate_q OR p (q_format q) d) else None));
    (fun _ => Ok (if is_number_kind d then Some (number_validate_tf N p q d) else None));
    (fun _ => if is_slice_kind d then basic_slice_validate OR N (q_format q) q p d else Ok None);
    (fun _ => Ok (common_validate_q N p q d)) ].

Theorem simple_verdict_is_conjunction sr d r :
  d <> VNil -> simple_validate OR N sr d = Ok (Some r) ->
  r_valid r = forallb step_valid (group_verdicts sr d).
Proof.
  intros Hd H. unfold simple_validate in H. destruct d; try congruence;
    (match type of H with bind ?c _ = _ => destruct c as [r'| |] eqn:E end; simpl in H; try discriminate;
     injection H as <-; apply chain_verdict in E; exact E).
Qed.

(* a non-nil value is always validated (never a nil result) when no array element is nil *)
Theorem simple_non_nil_validated sr d o :
  d <> VNil -> simple_validate OR N sr d = Ok o -> o <> None.
Proof.
  intros Hd H. unfold simple_validate in H. destruct d; try congruence;
    (match type of H with bind ?c _ = _ => destruct c as [r'| |] end; simpl in H; try discriminate;
     injection H as <-; discriminate).
Qed.

End S.
