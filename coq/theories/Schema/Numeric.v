(* C13: the native-type numeric checks (values.go MaximumNativeType / MinimumNativeType /
   MultipleOfNativeType, as transcribed in Pipeline.v) decide exactly the comparison of the mathematical
   values, whatever Go type carries the instance - for every numops implementation that is exact on the
   values involved. *)
From Coq Require Import List ZArith Bool Lia QArith Qround.
From Verif Require Import Base.Sx Base.GoVal Schema.Ast Schema.Pipeline.
Import ListNotations.
Open Scope Z_scope.

Section Exact.
Variable N : numops.
Variable value : f64 -> Q.          (* the mathematical value of a float64 bit pattern *)
Variable ok : f64 -> Prop.          (* finite, and inside the range on which N is exact *)

Definition small (z : Z) : Prop := - 2 ^ 53 <= z <= 2 ^ 53.

(* what "exact on the values involved" means *)
Record exact_iface : Prop := {
  ex_lt : forall a b, ok a -> ok b -> (n_lt N a b = true <-> (value a < value b)%Q);
  ex_le : forall a b, ok a -> ok b -> (n_le N a b = true <-> (value a <= value b)%Q);
  ex_int : forall a z, ok a -> (n_exact_int N a = Some z <-> (value a == inject_Z z)%Q);
  ex_of_int : forall z, small z -> ok (n_of_int N z) /\ (value (n_of_int N z) == inject_Z z)%Q;
}.

Hypothesis X : exact_iface.

(* the mathematical value of a numeric carrier *)
Definition carried (d : goval) : option Q :=
  match d with
  | VInt _ z => Some (inject_Z z)
  | VFlt _ f => Some (value f)
  | _ => None
  end.

(* carriers in the property's range *)
Definition carrier_ok (d : goval) : Prop :=
  match d with
  | VInt k z => small z /\ (ikind_signed k = false -> 0 <= z)
  | VFlt _ f => ok f
  | _ => False
  end.

Lemma bool_iff (b : bool) (P : Prop) : (b = true <-> P) -> forall c : bool, (c = true <-> P) -> b = c.
Proof.
  intros H c Hc. destruct b, c; try reflexivity.
  - assert (P) by (apply H; reflexivity). apply Hc in H0. discriminate.
  - assert (P) by (apply Hc; reflexivity). apply H in H0. discriminate.
Qed.

Lemma Zle_Q a b : (a <=? b) = true <-> (inject_Z a <= inject_Z b)%Q.
Proof. rewrite Z.leb_le, Zle_Qle. tauto. Qed.
Lemma Zlt_Q a b : (a <? b) = true <-> (inject_Z a < inject_Z b)%Q.
Proof. rewrite Z.ltb_lt, Zlt_Qlt. tauto. Qed.

Lemma as_int64_exact_spec c b : ok c -> as_int64_exact N c = Some b -> (value c == inject_Z b)%Q.
Proof.
  intros Hc. unfold as_int64_exact. destruct (n_exact_int N c) as [z|] eqn:E; [|discriminate].
  destruct ((- two63 <=? z) && (z <? two63)); [|discriminate]. intros H; injection H as <-.
  apply (ex_int X); assumption.
Qed.

Lemma as_uint64_exact_spec c b : ok c -> as_uint64_exact N c = Some b -> (value c == inject_Z b)%Q.
Proof.
  intros Hc. unfold as_uint64_exact. destruct (n_exact_int N c) as [z|] eqn:E; [|discriminate].
  destruct ((0 <=? z) && (z <? two64)); [|discriminate]. intros H; injection H as <-.
  apply (ex_int X); assumption.
Qed.

Lemma max_float_spec v mx excl : ok v -> ok mx ->
  (max_float N v mx excl = true <-> if excl then (value mx <= value v)%Q else (value mx < value v)%Q).
Proof. intros Hv Hm. unfold max_float. destruct excl; [apply (ex_le X)|apply (ex_lt X)]; assumption. Qed.

Lemma min_float_spec v mn excl : ok v -> ok mn ->
  (min_float N v mn excl = true <-> if excl then (value v <= value mn)%Q else (value v < value mn)%Q).
Proof. intros Hv Hm. unfold min_float. destruct excl; [apply (ex_le X)|apply (ex_lt X)]; assumption. Qed.

(* maximum: an error is reported exactly when the carried number exceeds (or, exclusive, reaches) the bound *)
Theorem max_native_exact d mx excl q :
  carrier_ok d -> ok mx -> carried d = Some q ->
  (max_native N d mx excl = true <-> if excl then (value mx <= q)%Q else (value mx < q)%Q).
Proof.
  intros Hd Hm Hq. destruct d; simpl in Hd, Hq; try contradiction; injection Hq as <-.
  - (* float carriers *) simpl. apply max_float_spec; assumption.
  - (* integer carriers *)
    destruct Hd as [Hs Hu]. destruct (ex_of_int X z Hs) as [Hoz Hvz].
    unfold max_native. destruct (ikind_signed k) eqn:Ek.
    + destruct (as_int64_exact N mx) as [b|] eqn:Eb.
      * apply as_int64_exact_spec in Eb; [|assumption]. destruct excl; rewrite Eb; [apply Zle_Q|apply Zlt_Q].
      * rewrite max_float_spec by assumption. destruct excl; rewrite Hvz; tauto.
    + specialize (Hu eq_refl).
      destruct (ex_of_int X 0) as [Ho0 Hv0]; [unfold small; lia|].
      destruct (n_lt N mx (n_of_int N 0)) eqn:Eneg.
      * apply (ex_lt X) in Eneg; [|assumption|assumption]. rewrite Hv0 in Eneg.
        assert (Hz : (inject_Z 0 <= inject_Z z)%Q) by (rewrite <- Zle_Qle; assumption).
        split; [intros _|reflexivity].
        destruct excl; [apply Qlt_le_weak|]; eapply Qlt_le_trans; eassumption.
      * destruct (as_uint64_exact N mx) as [b|] eqn:Eb.
        -- apply as_uint64_exact_spec in Eb; [|assumption]. destruct excl; rewrite Eb; [apply Zle_Q|apply Zlt_Q].
        -- rewrite max_float_spec by assumption. destruct excl; rewrite Hvz; tauto.
Qed.

Theorem min_native_exact d mn excl q :
  carrier_ok d -> ok mn -> carried d = Some q ->
  (min_native N d mn excl = true <-> if excl then (q <= value mn)%Q else (q < value mn)%Q).
Proof.
  intros Hd Hm Hq. destruct d; simpl in Hd, Hq; try contradiction; injection Hq as <-.
  - simpl. apply min_float_spec; assumption.
  - destruct Hd as [Hs Hu]. destruct (ex_of_int X z Hs) as [Hoz Hvz].
    unfold min_native. destruct (ikind_signed k) eqn:Ek.
    + destruct (as_int64_exact N mn) as [b|] eqn:Eb.
      * apply as_int64_exact_spec in Eb; [|assumption]. destruct excl; rewrite Eb; [apply Zle_Q|apply Zlt_Q].
      * rewrite min_float_spec by assumption. destruct excl; rewrite Hvz; tauto.
    + specialize (Hu eq_refl).
      destruct (ex_of_int X 0) as [Ho0 Hv0]; [unfold small; lia|].
      destruct (n_lt N mn (n_of_int N 0)) eqn:Eneg.
      * apply (ex_lt X) in Eneg; [|assumption|assumption]. rewrite Hv0 in Eneg.
        assert (Hz : (inject_Z 0 <= inject_Z z)%Q) by (rewrite <- Zle_Qle; assumption).
        split; [discriminate|]. intros H. exfalso.
        destruct excl.
        -- apply (Qlt_irrefl (value mn)). eapply Qlt_le_trans; [eassumption|]. eapply Qle_trans; eassumption.
        -- apply (Qlt_irrefl (value mn)). eapply Qlt_trans; [eassumption|]. eapply Qle_lt_trans; eassumption.
      * destruct (as_uint64_exact N mn) as [b|] eqn:Eb.
        -- apply as_uint64_exact_spec in Eb; [|assumption]. destruct excl; rewrite Eb; [apply Zle_Q|apply Zlt_Q].
        -- rewrite min_float_spec by assumption. destruct excl; rewrite Hvz; tauto.
Qed.

(* the verdict depends on the number only: two carriers of the same number get the same answer *)
Corollary max_carrier_independent d1 d2 mx excl q :
  carrier_ok d1 -> carrier_ok d2 -> ok mx -> carried d1 = Some q -> carried d2 = Some q ->
  max_native N d1 mx excl = max_native N d2 mx excl.
Proof.
  intros H1 H2 Hm Q1 Q2. eapply bool_iff; [apply max_native_exact; eassumption|apply max_native_exact; eassumption].
Qed.

Corollary min_carrier_independent d1 d2 mn excl q :
  carrier_ok d1 -> carrier_ok d2 -> ok mn -> carried d1 = Some q -> carried d2 = Some q ->
  min_native N d1 mn excl = min_native N d2 mn excl.
Proof.
  intros H1 H2 Hm Q1 Q2. eapply bool_iff; [apply min_native_exact; eassumption|apply min_native_exact; eassumption].
Qed.

(* multipleOf on integer carriers with an integral factor is exact integer divisibility *)
Lemma wrap_s64_small x : - two63 <= x < two63 -> wrap_s64 x = x.
Proof. intros H. unfold wrap_s64. rewrite Z.mod_small; unfold two63, two64 in *; lia. Qed.

Lemma wrap_u64_small x : 0 <= x < two64 -> wrap_u64 x = x.
Proof. intros H. unfold wrap_u64. apply Z.mod_small; assumption. Qed.

Lemma quot_mul_bound z f : 0 < f -> Z.abs (Z.quot z f * f) <= Z.abs z.
Proof.
  intros Hf. rewrite Z.mul_comm. pose proof (Z.mul_quot_le (Z.abs z) f) as H.
  destruct (Z.le_gt_cases 0 z) as [Hz|Hz].
  - rewrite (Z.abs_eq z) by assumption. rewrite Z.abs_eq.
    + apply Z.mul_quot_le; lia.
    + apply Z.mul_nonneg_nonneg; [lia|apply Z.quot_pos; lia].
  - assert (Hq : f * Z.quot z f = - (f * Z.quot (- z) f)) by (rewrite Z.quot_opp_l by lia; lia).
    rewrite Hq, Z.abs_opp, (Z.abs_neq z) by lia. rewrite Z.abs_eq.
    + apply Z.mul_quot_le; lia.
    + apply Z.mul_nonneg_nonneg; [lia|apply Z.quot_pos; lia].
Qed.

Theorem mult_native_int_exact k z factor f :
  small z -> (ikind_signed k = false -> 0 <= z) -> ok factor -> (value factor == inject_Z f)%Q -> small f ->
  mult_native N (VInt k z) factor =
    if f <=? 0 then MNotPositive else if Z.eqb (z mod f) 0 then MOk else MNotMultiple.
Proof.
  intros Hz Hu Hok Hv Hf.
  assert (E : n_exact_int N factor = Some f) by (apply (ex_int X); assumption).
  assert (Hdiv : 0 < f -> (Z.quot z f * f =? z) = (z mod f =? 0)).
  { intros Hpos. apply eq_true_iff_eq. rewrite !Z.eqb_eq. split.
    - intros H. rewrite <- H. apply Z.mod_mul. lia.
    - intros H. apply Z.mod_divide in H; [|lia]. destruct H as [c ->]. rewrite Z.quot_mul by lia. reflexivity. }
  assert (Hb : 0 < f -> - two63 <= Z.quot z f * f < two63).
  { intros Hpos. pose proof (quot_mul_bound z f Hpos). unfold small, two63 in *. lia. }
  unfold mult_native. destruct (ikind_signed k) eqn:Ek.
  - unfold as_int64_exact. rewrite E.
    assert (R : (- two63 <=? f) && (f <? two63) = true) by (unfold small, two63 in *; apply andb_true_iff; split; [apply Z.leb_le|apply Z.ltb_lt]; lia).
    rewrite R. destruct (f <=? 0) eqn:Ef; [reflexivity|]. apply Z.leb_gt in Ef.
    rewrite wrap_s64_small by (apply Hb; assumption). rewrite Hdiv by assumption. reflexivity.
  - specialize (Hu eq_refl).
    destruct (ex_of_int X 0) as [Ho0 Hv0]; [unfold small; lia|].
    destruct (n_le N factor (n_of_int N 0)) eqn:Ele.
    + apply (ex_le X) in Ele; [|assumption|assumption]. rewrite Hv, Hv0, <- Zle_Qle in Ele.
      apply Z.leb_le in Ele. rewrite Ele. reflexivity.
    + assert (Hpos : 0 < f).
      { destruct (Z.le_gt_cases f 0) as [H|H]; [|assumption]. exfalso.
        assert (n_le N factor (n_of_int N 0) = true); [|congruence].
        apply (ex_le X); [assumption|assumption|]. rewrite Hv, Hv0, <- Zle_Qle. assumption. }
      unfold as_uint64_exact. rewrite E.
      assert (R : (0 <=? f) && (f <? two64) = true) by (unfold small, two64 in *; apply andb_true_iff; split; [apply Z.leb_le|apply Z.ltb_lt]; lia).
      rewrite R. assert (Ef : (f <=? 0) = false) by (apply Z.leb_gt; assumption). rewrite Ef.
      assert (Hq : 0 <= Z.quot z f * f) by (apply Z.mul_nonneg_nonneg; [apply Z.quot_pos; lia|lia]).
      rewrite wrap_u64_small by (specialize (Hb Hpos); unfold two63, two64 in *; lia).
      rewrite Hdiv by assumption. reflexivity.
Qed.

End Exact.
