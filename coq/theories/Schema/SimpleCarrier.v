(* C16 on typed values: generated server code hands the parameter / header / items validators Go values of any numeric
   type (int8 .. uint64, float32), typed slices, []interface{} of such. A typed value is read as the JSON value it
   carries ([as_json]); this file proves that the verdict of the validators on the typed value is the declarative
   reading (Schema/SimpleAgree.v) of that JSON value - for every numops implementation that is exact on the numbers
   involved (the interface of Schema/Numeric.v, C13, plus the conversions and the divisibility test on integers).
   The binary64 instance is tied to Go bit for bit by the correspondence run; its exactness on this range is an
   assumption of the theorem, not a theorem (DESIGN section 7). *)
From Coq Require Import List ZArith Bool Lia QArith Btauto.
From Verif Require Import Base.Sx Base.GoVal Schema.Ast Schema.Pipeline Schema.Draft4 Schema.PipelineFacts
  Schema.Simple Schema.SimpleFacts Schema.Numeric Schema.AgreementData Schema.JsonEq Schema.Agreement Schema.SimpleAgree.
Import ListNotations.
Open Scope Z_scope.

Section Carrier.
Variable OR : oracles.
Variable N : numops.
Variable value : f64 -> Q.
Variable ok : f64 -> Prop.
Hypothesis X : exact_iface N value ok.

Definition small26 (z : Z) : Prop := - 2 ^ 26 <= z <= 2 ^ 26.
(* the integers swag.IsFloat64AJSONInteger accepts: strictly inside +-2^53 *)
Definition jsmall (z : Z) : Prop := - 2 ^ 53 < z < 2 ^ 53.
Lemma jsmall_small z : jsmall z -> small z.
Proof. unfold jsmall, small. lia. Qed.

(* what the integer carriers need beyond the order: equality, the integer test, the conversions back, the float32
   range and the divisibility test, all on integers that binary64 holds exactly *)
Record carrier_iface : Prop := {
  ci_eq : forall a b, ok a -> ok b -> (n_eq N a b = true <-> (value a == value b)%Q);
  ci_is_int : forall z, jsmall z -> n_is_int N (n_of_int N z) = true;
  ci_to_i64 : forall z, small z -> n_to_int64 N (n_of_int N z) = z;
  ci_to_u64 : forall z, small z -> 0 <= z -> n_to_uint64 N (n_of_int N z) = z;
  ci_f32 : forall z, small z -> n_fits_f32 N (n_of_int N z) = true;
  (* validate.MultipleOf on an integer and an integral factor: a factor <= 0 is reported, a divisor is accepted (the
     quotient is exact) *)
  ci_mult_div : forall z g f, jsmall z -> ok f -> (value f == inject_Z g)%Q ->
                  (g <= 0 -> n_mult_of N (n_of_int N z) f = MNotPositive) /\
                  (0 < g -> z mod g = 0 -> n_mult_of N (n_of_int N z) f = MOk);
  (* ... and a factor <= 0 is reported whatever the value *)
  ci_mult_neg : forall a f, ok f -> n_le N f (n_of_int N 0) = true -> n_mult_of N a f = MNotPositive;
}.
Hypothesis Y : carrier_iface.

(* the divisibility test on small integers (validate.MultipleOf divides and asks swag whether the quotient is an integer,
   within a relative tolerance of 1e-9: exact below 2^26). Kept apart: it is the one clause that is not proved of the
   binary64 instance (Schema/NumericFlocq.v proves the others), and only the integral-factor case of multipleOf on an integer
   carrier needs it. *)
Definition mult_iface : Prop :=
  forall z g f, small26 z -> small26 g -> ok f -> (value f == inject_Z g)%Q ->
    n_mult_of N (n_of_int N z) f = if g <=? 0 then MNotPositive else if Z.eqb (z mod g) 0 then MOk else MNotMultiple.

(* the order and equality hypotheses of the agreement theorems follow from exactness *)
Lemma ord_total a b : ok a -> ok b -> n_lt N a b = negb (n_le N b a).
Proof.
  intros Ha Hb. apply eq_true_iff_eq. rewrite negb_true_iff. rewrite (ex_lt _ _ _ X a b Ha Hb).
  split.
  - intros H. destruct (n_le N b a) eqn:E; [|reflexivity]. apply (ex_le _ _ _ X b a Hb Ha) in E. exfalso. apply (Qlt_not_le _ _ H E).
  - intros E. apply Qnot_le_lt. intros H. apply (ex_le _ _ _ X b a Hb Ha) in H. congruence.
Qed.

Lemma eq_symm a b : ok a -> ok b -> n_eq N a b = n_eq N b a.
Proof.
  intros Ha Hb. apply eq_true_iff_eq. rewrite (ci_eq Y a b Ha Hb), (ci_eq Y b a Hb Ha). split; intros H; symmetry; exact H.
Qed.

(* ---- the JSON value a typed value carries ---- *)
Fixpoint as_json (d : goval) : goval :=
  match d with
  | VInt _ z => VFlt false (n_of_int N z)
  | VFlt _ f => VFlt false f
  | VArr id l => VArr id (map as_json l)
  | VSlice _ l => VArr 0 (map as_json l)
  | other => other
  end.

Definition in_kind (k : ikind) (z : Z) : Prop := wrap_kind k z = z.

(* typed values: numbers of any Go numeric type (integers that binary64 holds, inside their kind), slices of any
   element type but byte *)
Fixpoint tj (d : goval) : Prop :=
  match d with
  | VBool _ | VStr _ => True
  | VFlt _ f => ok f
  | VInt k z => jsmall z /\ in_kind k z
  | VArr _ l => (fix all (l : list goval) : Prop := match l with [] => True | x :: t => tj x /\ all t end) l
  | VSlice et l => et <> 6 /\ (fix all (l : list goval) : Prop := match l with [] => True | x :: t => tj x /\ all t end) l
  | _ => False
  end.

Lemma tj_all l : (fix all (l : list goval) : Prop := match l with [] => True | x :: t => tj x /\ all t end) l <-> Forall tj l.
Proof.
  induction l as [|x t IH]; [split; [constructor | intros; exact I]|].
  split; [intros [H1 H2]; constructor; [exact H1 | apply IH; exact H2] | intros H; inversion H; subst; split; [assumption | apply IH; assumption]].
Qed.

Notation jd := (AgreementData.jd ok false true).

Lemma in_kind_unsigned k z : in_kind k z -> ikind_signed k = false -> 0 <= z.
Proof.
  unfold in_kind, wrap_kind. intros H Hs. rewrite Hs in H. rewrite <- H. apply Z.mod_pos_bound.
  destruct k; cbn; lia.
Qed.

(* ---- one level on a number: each group of the validator gives the same verdict on the carrier and on its reading ---- *)
Lemma contains1' x t : contains x [t] = Z.eqb t x.
Proof. rewrite contains_existsb. cbn [existsb]. apply orb_false_r. Qed.

Lemma type_valid_int p t nl fmt k z :
  r_valid (type_validate N p [t] nl fmt (VInt k z)) = Z.eqb t k_integer || Z.eqb t k_number.
Proof.
  unfold type_validate. cbn [info_for_type is_string_kind is_slice_kind negb andb].
  assert (E : exists f', (match k with KInt8 | KInt16 | KInt32 | KUint8 | KUint16 | KUint32 => (k_integer, k_int32) | _ => (k_integer, k_int64) end) = (k_integer, f'))
    by (destruct k; eexists; reflexivity).
  destruct E as [f' ->]. rewrite !contains1'. cbn [andb].
  replace (Z.eqb k_integer k_number) with false by reflexivity. replace (Z.eqb k_integer k_integer) with true by reflexivity. cbn [andb orb].
  destruct (Z.eqb t k_integer), (Z.eqb t k_number), (Z.eqb fmt 0), (Z.eqb f' fmt), (Z.eqb fmt k_int64 && Z.eqb f' k_int32), (Z.eqb fmt k_float64 && Z.eqb f' k_float32);
    cbn [negb andb orb]; reflexivity.
Qed.

Lemma type_valid_flt p t nl fmt b f :
  r_valid (type_validate N p [t] nl fmt (VFlt b f)) = Z.eqb t k_number || (Z.eqb t k_integer && n_is_int N f).
Proof.
  unfold type_validate. cbn [is_string_kind is_slice_kind negb andb].
  assert (E : exists f', info_for_type (VFlt b f) = (k_number, f')) by (destruct b; eexists; reflexivity).
  destruct E as [f' ->]. rewrite !contains1'.
  replace (Z.eqb k_number k_number) with true by reflexivity. replace (Z.eqb k_number k_integer) with false by reflexivity. cbn [andb orb].
  destruct (Z.eqb t k_integer), (Z.eqb t k_number), (n_is_int N f), (Z.eqb fmt 0), (Z.eqb f' fmt), (Z.eqb fmt k_int64 && Z.eqb f' k_int32), (Z.eqb fmt k_float64 && Z.eqb f' k_float32);
    cbn [negb andb orb]; reflexivity.
Qed.

(* ---- the number group ---- *)
Definition max_ok (q : simple) (d : goval) : bool :=
  match q_maximum q with None => true | Some m => negb (max_native N d m (q_excl_max q)) end.
Definition min_ok (q : simple) (d : goval) : bool :=
  match q_minimum q with None => true | Some m => negb (min_native N d m (q_excl_min q)) end.
Definition mult_ok (q : simple) (d : goval) : bool :=
  match q_multiple_of q with None => true | Some f => match mult_native N d f with MOk => true | _ => false end end.

Lemma number_tf_valid p q d :
  (forall m, q_maximum q = Some m -> range_bad N (VFlt false m) (q_type q) (q_format q) = false) ->
  (forall m, q_minimum q = Some m -> range_bad N (VFlt false m) (q_type q) (q_format q) = false) ->
  (forall m, q_multiple_of q = Some m -> range_bad N (VFlt false m) (q_type q) (q_format q) = false) ->
  r_valid (number_validate_tf N p q d) = negb (range_bad N d (q_type q) (q_format q)) && mult_ok q d && min_ok q d && max_ok q d.
Proof.
  intros Hmax Hmin Hmul. unfold number_validate_tf, max_ok, min_ok, mult_ok.
  destruct (q_multiple_of q) as [mf|] eqn:Emf; [rewrite (Hmul mf eq_refl)|];
  (destruct (q_maximum q) as [mx|] eqn:Emx; [rewrite (Hmax mx eq_refl)|]);
  (destruct (q_minimum q) as [mn|] eqn:Emn; [rewrite (Hmin mn eq_refl)|]);
  destruct (range_bad N d (q_type q) (q_format q)); cbn [negb];
  repeat (rewrite r_valid_inc || rewrite r_valid_merge || rewrite r_valid_add); cbn [r_valid new_res r_errs];
  try (destruct (mult_native N d mf)); try (destruct (max_native N d mx (q_excl_max q))); try (destruct (min_native N d mn (q_excl_min q)));
  repeat (rewrite r_valid_merge); cbn [r_valid new_res r_errs s_err negb andb]; reflexivity.
Qed.

Lemma exact_of_int z : small z -> n_exact_int N (n_of_int N z) = Some z.
Proof. intros Hs. destruct (ex_of_int _ _ _ X z Hs) as [Ho Hv]. apply (ex_int _ _ _ X); assumption. Qed.

Lemma range_bad_int k z typ fmt : small z ->
  range_bad N (VInt k z) typ fmt = range_bad N (VFlt false (n_of_int N z)) typ fmt.
Proof.
  intros Hs. unfold range_bad, int_value. rewrite (exact_of_int z Hs).
  destruct (Z.eqb typ k_integer).
  - destruct (Z.eqb fmt k_int32); [reflexivity|]. destruct (Z.eqb fmt k_uint32); [reflexivity|]. destruct (Z.eqb fmt k_uint64); [reflexivity|].
    replace (- two63 <? z) with (- two63 <=? z); [reflexivity|].
    unfold small, two63 in *. destruct (Z.leb_spec (- 9223372036854775808) z), (Z.ltb_spec (- 9223372036854775808) z); try reflexivity; lia.
  - destruct (Z.eqb fmt k_float || Z.eqb fmt k_float32); [|reflexivity]. rewrite (ci_f32 Y z Hs). reflexivity.
Qed.

Lemma max_int_carrier k z m excl : small z -> in_kind k z -> ok m ->
  max_native N (VInt k z) m excl = max_native N (VFlt false (n_of_int N z)) m excl.
Proof.
  intros Hs Hk Hm. destruct (ex_of_int _ _ _ X z Hs) as [Ho Hv].
  eapply bool_iff.
  - apply (max_native_exact N value ok X (VInt k z) m excl (inject_Z z)); [split; [exact Hs | apply (in_kind_unsigned k z Hk)] | exact Hm | reflexivity].
  - rewrite (max_native_exact N value ok X (VFlt false (n_of_int N z)) m excl (value (n_of_int N z))); [|exact Ho | exact Hm | reflexivity].
    destruct excl; rewrite Hv; tauto.
Qed.

Lemma min_int_carrier k z m excl : small z -> in_kind k z -> ok m ->
  min_native N (VInt k z) m excl = min_native N (VFlt false (n_of_int N z)) m excl.
Proof.
  intros Hs Hk Hm. destruct (ex_of_int _ _ _ X z Hs) as [Ho Hv].
  eapply bool_iff.
  - apply (min_native_exact N value ok X (VInt k z) m excl (inject_Z z)); [split; [exact Hs | apply (in_kind_unsigned k z Hk)] | exact Hm | reflexivity].
  - rewrite (min_native_exact N value ok X (VFlt false (n_of_int N z)) m excl (value (n_of_int N z))); [|exact Ho | exact Hm | reflexivity].
    destruct excl; rewrite Hv; tauto.
Qed.

(* the factor of multipleOf against an integer carrier: a fraction (the float path is taken by both), an integral factor that is
   <= 0 or divides the value, or - under [mult_iface] - any small integer *)
Definition tmult (q : simple) (k : ikind) (z : Z) : Prop :=
  match q_multiple_of q with
  | None => True
  | Some f => ok f /\ (n_exact_int N f = None \/
                       (exists g, (value f == inject_Z g)%Q /\ small g /\ jsmall z /\ (g <= 0 \/ z mod g = 0)) \/
                       (mult_iface /\ exists g, (value f == inject_Z g)%Q /\ small26 g /\ small26 z))
  end.

Lemma small26_small z : small26 z -> small z.
Proof. unfold small26, small. intros [H1 H2]. split; [eapply Z.le_trans; [|exact H1] | eapply Z.le_trans; [exact H2|]]; [apply Z.opp_le_mono; rewrite !Z.opp_involutive|]; apply Z.pow_le_mono_r; lia. Qed.

Lemma mult_int_carrier k z f : small z -> in_kind k z -> ok f ->
  (n_exact_int N f = None \/
   (exists g, (value f == inject_Z g)%Q /\ small g /\ jsmall z /\ (g <= 0 \/ z mod g = 0)) \/
   (mult_iface /\ exists g, (value f == inject_Z g)%Q /\ small26 g /\ small26 z)) ->
  mult_native N (VInt k z) f = mult_native N (VFlt false (n_of_int N z)) f.
Proof.
  intros Hs Hk Hf [Hn | [[g [Hv [Hg [Hz Hd]]]] | [HM [g [Hv [Hg Hz]]]]]].
  - (* a fractional factor: the float path on both sides; an unsigned carrier looks at the sign of the factor first *)
    cbn [mult_native as_float64]. destruct (ikind_signed k).
    + unfold as_int64_exact. rewrite Hn. reflexivity.
    + destruct (n_le N f (n_of_int N 0)) eqn:E; [rewrite (ci_mult_neg Y _ f Hf E); reflexivity|].
      unfold as_uint64_exact. rewrite Hn. reflexivity.
  - rewrite (mult_native_int_exact N value ok X k z f g Hs (in_kind_unsigned k z Hk) Hf Hv Hg).
    cbn [mult_native as_float64]. destruct (ci_mult_div Y z g f Hz Hf Hv) as [C1 C2].
    destruct (Z.leb_spec g 0) as [Hle|Hgt]; [rewrite (C1 Hle); reflexivity|].
    destruct Hd as [Hd|Hd]; [lia|]. rewrite Hd, Z.eqb_refl, (C2 Hgt Hd). reflexivity.
  - rewrite (mult_native_int_exact N value ok X k z f g Hs (in_kind_unsigned k z Hk) Hf Hv (small26_small g Hg)).
    cbn [mult_native as_float64]. rewrite (HM z g f Hz Hg Hf Hv). reflexivity.
Qed.

(* ---- the enum group: members are JSON values ---- *)
Notation jde := (AgreementData.jd ok true true).

Lemma enum_int_carrier k z e : small z -> in_kind k z -> jde e ->
  enum_match N (VInt k z) e = enum_match N (VFlt false (n_of_int N z)) e.
Proof.
  intros Hs Hk He. destruct e as [|b|x|e32 y| | |id l| |id m]; try (exfalso; exact He); try reflexivity.
  cbn [AgreementData.jd] in He. destruct He as [-> _]. cbn [enum_match].
  assert (E : wrap_kind k (if ikind_signed k then n_to_int64 N (n_of_int N z) else n_to_uint64 N (n_of_int N z)) = z).
  { destruct (ikind_signed k) eqn:Es.
    - rewrite (ci_to_i64 Y z Hs). exact Hk.
    - rewrite (ci_to_u64 Y z Hs (in_kind_unsigned k z Hk Es)). exact Hk. }
  rewrite E, Z.eqb_refl. reflexivity.
Qed.

Lemma enum_flt_carrier b f e : jde e -> enum_match N (VFlt b f) e = enum_match N (VFlt false f) e.
Proof.
  intros He. destruct e as [|b'|x|e32 y| | |id l| |id m]; try (exfalso; exact He); destruct b; try reflexivity.
  cbn [AgreementData.jd] in He. destruct He as [-> _]. reflexivity.
Qed.

Definition enum_valid (q : simple) (d : goval) : bool :=
  match q_enum q with [] => true | en => existsb (enum_match N d) en end.

Lemma common_valid p q d : (match common_validate_q N p q d with None => true | Some r => r_valid r end) = enum_valid q d.
Proof. unfold common_validate_q, enum_valid. destruct (q_enum q) as [|e0 es]; [reflexivity|]. destruct (existsb (enum_match N d) (e0 :: es)); reflexivity. Qed.

Lemma existsb_ext_in {A} (f g : A -> bool) l : (forall x, In x l -> f x = g x) -> existsb f l = existsb g l.
Proof. induction l as [|x t IH]; intros H; [reflexivity|]. cbn [existsb]. rewrite (H x (or_introl eq_refl)), IH; [reflexivity|]. intros y Hy. apply H. right; exact Hy. Qed.

(* ---- a number at one level: the verdict of the level on the carrier is its verdict on the reading ---- *)
Definition is_num (d : goval) : bool := match d with VInt _ _ | VFlt _ _ => true | _ => false end.

(* the six groups on a number: type, number, enum (the string, format and slice groups do not apply) *)
Definition num_valid (p : path) (q : simple) (d : goval) : bool :=
  r_valid (type_validate N p [q_type q] (q_nullable q) (q_format q) d) && r_valid (number_validate_tf N p q d) && enum_valid q d.

Lemma items_num rf it p i d : is_num d = true ->
  exists r, items_validate OR N rf it p i d = Ok r /\ r_valid r = num_valid (p ++ [SIdx i]) it d.
Proof.
  intros Hn. rewrite items_validate_eq. cbv zeta.
  assert (Hs : is_string_kind d = false) by (destruct d; try discriminate; reflexivity).
  assert (Hl : is_slice_kind d = false) by (destruct d; try discriminate; reflexivity).
  assert (Hk : is_number_kind d = true) by (destruct d; try discriminate; reflexivity).
  rewrite Hs, Hl, Hk. cbn [andb].
  match goal with |- exists r, chain true ?steps new_res = Ok r /\ _ =>
    assert (Hst : Forall step_ok steps) by (repeat constructor; apply step_ok_ok);
    destruct (chain_total true steps Hst new_res) as [r Hr]
  end.
  exists r. split; [exact Hr|]. apply chain_verdict in Hr. rewrite Hr. cbn [forallb r_valid new_res r_errs andb].
  rewrite !step_valid_ok, common_valid. unfold num_valid. btauto.
Qed.

Lemma simple_num sr d : is_num d = true ->
  exists r, simple_validate OR N sr d = Ok (Some r) /\ r_valid r = num_valid [SRoot (sr_name sr)] (sr_simple sr) d.
Proof.
  intros Hn. set (q := sr_simple sr). set (p := [SRoot (sr_name sr)]).
  assert (Hs : is_string_kind d = false) by (destruct d; try discriminate; reflexivity).
  assert (Hl : is_slice_kind d = false) by (destruct d; try discriminate; reflexivity).
  assert (Hk : is_number_kind d = true) by (destruct d; try discriminate; reflexivity).
  assert (Hchain : exists r, chain false
        [ (fun _ => Ok (Some (type_validate N p [q_type q] (q_nullable q) (q_format q) d)));
          (fun _ => Ok (if is_string_kind d then string_validate_q OR p q (sr_required sr) (sr_allow_empty sr) d else None));
          (fun _ => Ok (if is_string_kind d && o_fmt_known OR (q_format q) then Some (format_validate_q OR p (q_format q) d) else None));
          (fun _ => Ok (if is_number_kind d then Some (number_validate_tf N p q d) else None));
          (fun _ => if is_slice_kind d then basic_slice_validate OR N (q_format q) q p d else Ok None);
          (fun _ => Ok (common_validate_q N p q d)) ] new_res = Ok r).
  { apply chain_total. rewrite Hl. repeat constructor; apply step_ok_ok. }
  destruct Hchain as [r Hr]. exists r. split.
  { unfold simple_validate. fold q. fold p. destruct d; try discriminate Hn; rewrite Hr; reflexivity. }
  apply chain_verdict in Hr. rewrite Hr. rewrite Hs, Hl, Hk. cbn [forallb r_valid new_res r_errs andb].
  rewrite !step_valid_ok, common_valid. unfold num_valid. btauto.
Qed.

(* what the level asks of an integer carrier *)
Definition tnum (q : simple) (k : ikind) (z : Z) : Prop := tmult q k z.

Lemma num_valid_int rf p q k z : qlocal OR N ok rf q -> jsmall z -> in_kind k z -> tnum q k z ->
  num_valid p q (VInt k z) = num_valid p q (VFlt false (n_of_int N z)).
Proof.
  intros [Hnull [Henum [_ [Hmax [Hmin [Hmul _]]]]]] Hj Hk Ht. pose proof (jsmall_small z Hj) as Hs. unfold num_valid.
  rewrite type_valid_int, type_valid_flt, (ci_is_int Y z Hj), andb_true_r.
  rewrite !number_tf_valid; try (intros m E; first [apply (Hmax m E) | apply (Hmin m E) | apply (Hmul m E)]).
  rewrite (range_bad_int k z _ _ Hs).
  assert (E1 : max_ok q (VInt k z) = max_ok q (VFlt false (n_of_int N z))).
  { unfold max_ok. destruct (q_maximum q) as [m|] eqn:E; [|reflexivity]. rewrite (max_int_carrier k z m _ Hs Hk (proj1 (Hmax m eq_refl))). reflexivity. }
  assert (E2 : min_ok q (VInt k z) = min_ok q (VFlt false (n_of_int N z))).
  { unfold min_ok. destruct (q_minimum q) as [m|] eqn:E; [|reflexivity]. rewrite (min_int_carrier k z m _ Hs Hk (proj1 (Hmin m eq_refl))). reflexivity. }
  assert (E3 : mult_ok q (VInt k z) = mult_ok q (VFlt false (n_of_int N z))).
  { unfold mult_ok. unfold tnum, tmult in Ht. destruct (q_multiple_of q) as [f|] eqn:E; [|reflexivity].
    destruct Ht as [Hf Ht]. rewrite (mult_int_carrier k z f Hs Hk Hf Ht). reflexivity. }
  assert (E4 : enum_valid q (VInt k z) = enum_valid q (VFlt false (n_of_int N z))).
  { unfold enum_valid. destruct (q_enum q) as [|e0 es]; [reflexivity|]. apply existsb_ext_in. intros e Hin.
    apply (enum_int_carrier k z e Hs Hk). apply (proj1 (Forall_forall _ _) Henum e Hin). }
  rewrite E1, E2, E3, E4, (orb_comm (Z.eqb (q_type q) k_integer)). reflexivity.
Qed.

Lemma num_valid_flt rf p q b f : qlocal OR N ok rf q ->
  num_valid p q (VFlt b f) = num_valid p q (VFlt false f).
Proof.
  intros [_ [Henum _]]. unfold num_valid. rewrite !type_valid_flt.
  assert (E : enum_valid q (VFlt b f) = enum_valid q (VFlt false f)).
  { unfold enum_valid. destruct (q_enum q) as [|e0 es]; [reflexivity|]. apply existsb_ext_in. intros e Hin.
    apply (enum_flt_carrier b f e). apply (proj1 (Forall_forall _ _) Henum e Hin). }
  rewrite E. destruct b; reflexivity.
Qed.

(* ---- typed values against a definition: what the levels ask ---- *)
Fixpoint tfits (q : simple) (d : goval) {struct q} : Prop :=
  match d with
  | VInt k z => tnum q k z
  | VFlt _ f => n_exact_int N f <> Some (- two63)
  | VBool _ | VStr _ => qfits1 N q d
  | VArr _ l | VSlice _ l =>
      (* arrays that hold typed values: no enum and no uniqueItems at this level (reflect.DeepEqual tells the carriers
         apart: finding equality-type-sensitive) *)
      q_enum q = [] /\ q_unique q = false /\ (q_format q = 0 \/ numeric_q q = true \/ q_type q = k_array) /\
      match q_items q with Some it => Forall (tfits it) l | None => True end
  | _ => False
  end.

Lemma tfits_eq q d : tfits q d =
  match d with
  | VInt k z => tnum q k z
  | VFlt _ f => n_exact_int N f <> Some (- two63)
  | VBool _ | VStr _ => qfits1 N q d
  | VArr _ l | VSlice _ l =>
      q_enum q = [] /\ q_unique q = false /\ (q_format q = 0 \/ numeric_q q = true \/ q_type q = k_array) /\
      match q_items q with Some it => Forall (tfits it) l | None => True end
  | _ => False
  end.
Proof. destruct q; reflexivity. Qed.

Lemma tfits_arr q d l : slice_elems d = l -> is_slice_kind d = true -> tfits q d ->
  q_enum q = [] /\ q_unique q = false /\ (q_format q = 0 \/ numeric_q q = true \/ q_type q = k_array) /\
  match q_items q with Some it => Forall (tfits it) l | None => True end.
Proof. intros <- Hk H. destruct q; destruct d; try discriminate Hk; exact H. Qed.

Lemma tj_jd : forall d, tj d -> jd (as_json d).
Proof.
  fix IH 1. intros d. destruct d as [|b|x|b f|k z| |id l|et l|id m]; intros H; try exact H; try (exfalso; exact H).
  - cbn [as_json AgreementData.jd]. split; [reflexivity | exact H].
  - cbn [as_json AgreementData.jd]. destruct H as [Hs _]. split; [reflexivity | apply (ex_of_int _ _ _ X z (jsmall_small z Hs))].
  - cbn [as_json]. apply jd_arr. split; [reflexivity|]. cbn [tj] in H. apply tj_all in H.
    revert l H. fix IHl 1. intros l H. destruct l as [|x t]; [constructor|]. inversion H; subst. cbn [map]. constructor; [apply IH; assumption | apply IHl; assumption].
  - cbn [as_json]. apply jd_arr. split; [reflexivity|]. cbn [tj] in H. destruct H as [_ H]. apply tj_all in H.
    revert l H. fix IHl 1. intros l H. destruct l as [|x t]; [constructor|]. inversion H; subst. cbn [map]. constructor; [apply IH; assumption | apply IHl; assumption].
Qed.

Lemma type_validate_arr p ts nl fmt d l' : is_slice_kind d = true -> fst (info_for_type d) = k_array ->
  type_validate N p ts nl fmt d = type_validate N p ts nl fmt (VArr 0 l').
Proof.
  intros Hk Hi. destruct d as [| | | | | |id l|et l|]; try discriminate Hk.
  - reflexivity.
  - unfold type_validate. cbn [info_for_type fst] in *. destruct (Z.eqb et 6); [discriminate Hi|]. reflexivity.
Qed.

Lemma each_agree_gen rf it' p' (P : goval -> bool) : forall l i,
  (forall v j, In v l -> exists r, items_validate OR N rf it' p' j v = Ok r /\ r_valid r = P v) ->
  exists x, each_items OR N rf it' p' l i = Ok x /\ (match x with None => true | Some e => r_valid e end) = forallb P l.
Proof.
  induction l as [|v t IH]; intros i H; [exists None; split; reflexivity|].
  rewrite each_items_cons. cbn [forallb]. destruct (H v i (or_introl eq_refl)) as [r [Hr Hv]]. rewrite Hr. cbn [bind].
  destruct (r_valid r) eqn:E.
  - destruct (IH (i + 1) (fun v' j Hin => H v' j (or_intror Hin))) as [x [Hx Hvx]]. exists x. rewrite <- Hv. split; [exact Hx | exact Hvx].
  - exists (Some r). rewrite <- Hv, E. split; reflexivity.
Qed.

Lemma forallb_map {A B} (f : A -> B) (g : B -> bool) l : forallb g (map f l) = forallb (fun x => g (f x)) l.
Proof. induction l as [|x t IH]; [reflexivity|]. cbn [map forallb]. rewrite IH. reflexivity. Qed.

(* one array level without uniqueItems: sizes, then the elements (read as JSON) *)
Lemma slice_body_agree_t rf q pp l : q_unique q = false ->
  (forall it', q_items q = Some it' -> forall v j, In v l ->
     exists r, items_validate OR N rf it' pp j v = Ok r /\ r_valid r = q_spec OR N it' (as_json v)) ->
  exists x, slice_body OR N rf q pp l = Ok x /\ (match x with None => true | Some e => r_valid e end) =
    ((match q_max_items q with Some m => Z.of_nat (length (map as_json l)) <=? m | None => true end) &&
     (match q_min_items q with Some m => m <=? Z.of_nat (length (map as_json l)) | None => true end) &&
     (if q_unique q then negb (has_dup N (map as_json l)) else true) &&
     match q_items q with Some it' => forallb (q_spec OR N it') (map as_json l) | None => true end).
Proof.
  intros Hu Hrec. unfold slice_body. cbv zeta. rewrite Hu, map_length. cbn [andb].
  destruct (q_min_items q) as [mn|] eqn:Emn; [destruct (Z.ltb_spec (Z.of_nat (length l)) mn) as [Hlt|Hge]|].
  1: { eexists. split; [reflexivity|]. cbn [r_valid s_err r_errs]. replace (mn <=? Z.of_nat (length l)) with false by (symmetry; apply Z.leb_gt; lia). rewrite andb_false_r. reflexivity. }
  all: (destruct (q_max_items q) as [mx|] eqn:Emx; [destruct (Z.ltb_spec mx (Z.of_nat (length l))) as [Hlt2|Hge2]|]).
  1,4: (eexists; split; [reflexivity|]; cbn [r_valid s_err r_errs]; replace (Z.of_nat (length l) <=? mx) with false by (symmetry; apply Z.leb_gt; lia); reflexivity).
  all: try (replace (mn <=? Z.of_nat (length l)) with true by (symmetry; apply Z.leb_le; lia)).
  all: try (replace (Z.of_nat (length l) <=? mx) with true by (symmetry; apply Z.leb_le; lia)).
  all: cbn [andb].
  all: (destruct (q_items q) as [it'|] eqn:Ei; [|exists None; split; reflexivity]).
  all: rewrite forallb_map; apply each_agree_gen; intros v j Hin; apply (Hrec it' eq_refl v j Hin).
Qed.

Lemma same_result {A} (o : outcome A) a b : o = Ok a -> o = Ok b -> a = b.
Proof. intros H1 H2. rewrite H1 in H2. injection H2 as H. exact H. Qed.

Lemma qfits_scalar q d : (match d with VArr _ _ => False | _ => True end) -> qfits1 N q d -> qfits N q d.
Proof. intros Hd H. rewrite qfits_eq. split; [exact H|]. destruct (q_items q); [|exact I]. destruct d; try exact I. contradiction. Qed.

Lemma qfits1_flt q f : n_exact_int N f <> Some (- two63) -> qfits1 N q (VFlt false f).
Proof.
  intros H. split.
  - right. right. split; intros; discriminate.
  - intros b f' E. injection E as _ <-. exact H.
Qed.

(* the array level, shared by the items validator and the root: groups other than type, slice and enum do not apply *)
Lemma arr_level p q d l' xs :
  is_slice_kind d = true -> fst (info_for_type d) = k_array -> jd (VArr 0 l') -> q_nullable q = false ->
  q_enum q = [] -> (q_format q = 0 \/ numeric_q q = true \/ q_type q = k_array) ->
  r_valid (type_validate N p [q_type q] (q_nullable q) (q_format q) d) && xs = 
  type_ok N (sch_of1 q) (VArr 0 l') && enum_ok N (sch_of1 q) (VArr 0 l') && xs.
Proof.
  intros Hk Hi Hj Hnull He Hf. rewrite (type_validate_arr p _ _ _ d l' Hk Hi).
  rewrite (type_q_agree N ok p q (VArr 0 l') Hj Hnull).
  - unfold enum_ok. cbn [sch_of1 s_enum]. rewrite He. rewrite andb_true_r. reflexivity.
  - split; [|intros; discriminate]. destruct Hf as [F|[F|F]]; [left; exact F | right; left; exact F | right; right; split; [intros; discriminate | intros; exact F]].
Qed.

(* ---- every level of the items validator on typed values ---- *)
Theorem items_agree_t rf : forall it p i d, qclean OR N ok rf it -> tj d -> tfits it d ->
  exists r, items_validate OR N rf it p i d = Ok r /\ r_valid r = q_spec OR N it (as_json d).
Proof.
  fix IH 1. intros it p i d Hc Hd Hfit.
  pose proof Hc as Hc'. rewrite qclean_eq in Hc'. destruct Hc' as [Hl Hci].
  assert (Harr : forall l, slice_elems d = l -> is_slice_kind d = true -> fst (info_for_type d) = k_array -> Forall tj l ->
            exists r, items_validate OR N rf it p i d = Ok r /\ r_valid r = q_spec OR N it (VArr 0 (map as_json l))).
  { intros l El Hk Hi Hl'. destruct (tfits_arr it d l El Hk Hfit) as [He [Hu [Hf Hfi]]].
    pose proof Hl as [Hnull _].
    rewrite items_validate_eq. cbv zeta. set (p' := p ++ [SIdx i]). rewrite Hk, El.
    assert (Hs : is_string_kind d = false) by (destruct d; try discriminate Hk; reflexivity).
    assert (Hn : is_number_kind d = false) by (destruct d; try discriminate Hk; reflexivity).
    rewrite Hs, Hn. cbn [andb].
    pose proof (slice_body_agree_t rf it p' l Hu) as HS. unfold slice_body in HS. cbv zeta in HS.
    match type of HS with _ -> ?C => assert (HS' : C) end.
    { destruct (q_items it) as [it'|].
      - apply HS. intros it'' E v j Hin. injection E as E. subst it''. apply (IH it');
          [exact Hci | apply (proj1 (Forall_forall _ _) Hl' v Hin) | apply (proj1 (Forall_forall _ _) Hfi v Hin)].
      - apply HS. intros it'' E. discriminate E. }
    destruct HS' as [xs [Hxs Hvs]].
    match goal with |- exists r, chain true ?steps new_res = Ok r /\ _ =>
      assert (Hst : Forall step_ok steps) by (repeat constructor; try apply step_ok_ok; exists xs; exact Hxs);
      destruct (chain_total true steps Hst new_res) as [r Hr]
    end.
    exists r. split; [exact Hr|]. apply chain_verdict in Hr. rewrite Hr. cbn [forallb r_valid new_res r_errs andb].
    rewrite !step_valid_ok. unfold step_valid at 1. rewrite Hxs, Hvs. unfold common_validate_q. rewrite He.
    rewrite q_spec_eq. cbn [numeric_ok string_ok range_spec]. rewrite !andb_true_r.
    assert (Hj : jd (VArr 0 (map as_json l))).
    { apply jd_arr. split; [reflexivity|]. apply Forall_forall. intros v Hin. apply in_map_iff in Hin. destruct Hin as [v0 [<- Hin0]].
      apply tj_jd. apply (proj1 (Forall_forall _ _) Hl' v0 Hin0). }
    rewrite (arr_level p' it d (map as_json l) _ Hk Hi Hj Hnull He Hf). reflexivity. }
  rewrite tfits_eq in Hfit.
  destruct d as [|b|x|b f|k z| |id l|et l|id m]; try (exfalso; exact Hd).
  - (* boolean *) apply (items_agree OR N ok ord_total eq_symm rf it p i (VBool b) Hc I). apply qfits_scalar; [exact I | exact Hfit].
  - (* string *) apply (items_agree OR N ok ord_total eq_symm rf it p i (VStr x) Hc I). apply qfits_scalar; [exact I | exact Hfit].
  - (* float32 / float64 *)
    destruct (items_num rf it p i (VFlt b f) eq_refl) as [r [Hr Hv]]. exists r. split; [exact Hr|].
    rewrite Hv, (num_valid_flt rf _ it b f Hl).
    destruct (items_num rf it p i (VFlt false f) eq_refl) as [r1 [Hr1 Hv1]].
    destruct (items_agree OR N ok ord_total eq_symm rf it p i (VFlt false f) Hc (conj eq_refl Hd)) as [r2 [Hr2 Hv2]];
      [apply qfits_scalar; [exact I | apply qfits1_flt; exact Hfit]|].
    rewrite <- Hv1, (same_result _ _ _ Hr1 Hr2). exact Hv2.
  - (* integers *)
    destruct Hd as [Hj Hk]. pose proof (jsmall_small z Hj) as Hs.
    destruct (items_num rf it p i (VInt k z) eq_refl) as [r [Hr Hv]]. exists r. split; [exact Hr|].
    rewrite Hv, (num_valid_int rf _ it k z Hl Hj Hk Hfit).
    destruct (items_num rf it p i (VFlt false (n_of_int N z)) eq_refl) as [r1 [Hr1 Hv1]].
    destruct (items_agree OR N ok ord_total eq_symm rf it p i (VFlt false (n_of_int N z)) Hc (conj eq_refl (proj1 (ex_of_int _ _ _ X z Hs)))) as [r2 [Hr2 Hv2]];
      [apply qfits_scalar; [exact I | apply qfits1_flt; rewrite (exact_of_int z Hs); intros E; injection E as E; unfold small, two63 in *; lia]|].
    rewrite <- Hv1, (same_result _ _ _ Hr1 Hr2). exact Hv2.
  - (* []interface{} *)
    cbn [tj] in Hd. apply tj_all in Hd. destruct (Harr l eq_refl eq_refl eq_refl Hd) as [r [Hr Hv]]. exists r. split; [exact Hr|].
    rewrite Hv. cbn [as_json]. rewrite !q_spec_eq. reflexivity.
  - (* typed slices *)
    cbn [tj] in Hd. destruct Hd as [Het Hd]. apply tj_all in Hd.
    assert (Hi : fst (info_for_type (VSlice et l)) = k_array) by (cbn [info_for_type]; destruct (Z.eqb_spec et 6); [contradiction | reflexivity]).
    apply (Harr l eq_refl eq_refl Hi Hd).
Qed.

(* ---- parameters and headers on typed values ---- *)
Theorem simple_agree_t sr d : qclean OR N ok (q_format (sr_simple sr)) (sr_simple sr) -> tj d -> tfits (sr_simple sr) d ->
  exists r, simple_validate OR N sr d = Ok (Some r) /\ r_valid r = root_spec OR N sr (as_json d).
Proof.
  intros Hc Hd Hfit. set (q := sr_simple sr) in *. set (p := [SRoot (sr_name sr)]).
  pose proof Hc as Hc'. rewrite qclean_eq in Hc'. destruct Hc' as [Hl Hci].
  assert (Harr : forall l, slice_elems d = l -> is_slice_kind d = true -> fst (info_for_type d) = k_array -> Forall tj l ->
            exists r, simple_validate OR N sr d = Ok (Some r) /\ r_valid r = root_spec OR N sr (VArr 0 (map as_json l))).
  { intros l El Hk Hi Hl'. destruct (tfits_arr q d l El Hk Hfit) as [He [Hu [Hf Hfi]]].
    pose proof Hl as [Hnull _].
    assert (Hs : is_string_kind d = false) by (destruct d; try discriminate Hk; reflexivity).
    assert (Hn : is_number_kind d = false) by (destruct d; try discriminate Hk; reflexivity).
    destruct (slice_body_agree_t (q_format q) q p l Hu) as [xs [Hxs Hvs]].
    { intros it' Ei v j Hin. rewrite Ei in Hci, Hfi. apply (items_agree_t (q_format q) it' p j v);
        [exact Hci | apply (proj1 (Forall_forall _ _) Hl' v Hin) | apply (proj1 (Forall_forall _ _) Hfi v Hin)]. }
    assert (Hchain : exists r, chain false
          [ (fun _ => Ok (Some (type_validate N p [q_type q] (q_nullable q) (q_format q) d)));
            (fun _ => Ok (if is_string_kind d then string_validate_q OR p q (sr_required sr) (sr_allow_empty sr) d else None));
            (fun _ => Ok (if is_string_kind d && o_fmt_known OR (q_format q) then Some (format_validate_q OR p (q_format q) d) else None));
            (fun _ => Ok (if is_number_kind d then Some (number_validate_tf N p q d) else None));
            (fun _ => if is_slice_kind d then basic_slice_validate OR N (q_format q) q p d else Ok None);
            (fun _ => Ok (common_validate_q N p q d)) ] new_res = Ok r).
    { apply chain_total. rewrite Hk, basic_slice_eq, El. repeat constructor; try apply step_ok_ok. exists xs. exact Hxs. }
    destruct Hchain as [r Hr]. exists r. split.
    { unfold simple_validate. fold q. fold p. destruct d; try discriminate Hk; rewrite Hr; reflexivity. }
    apply chain_verdict in Hr. rewrite Hr. rewrite Hs, Hn, Hk, basic_slice_eq, El. cbn [forallb r_valid new_res r_errs andb].
    rewrite !step_valid_ok. unfold step_valid at 1. rewrite Hxs, Hvs. unfold common_validate_q. rewrite He.
    unfold root_spec. fold q. rewrite q_spec_eq. cbn [numeric_ok string_ok range_spec negb]. rewrite !andb_true_r.
    assert (Hj : jd (VArr 0 (map as_json l))).
    { apply jd_arr. split; [reflexivity|]. apply Forall_forall. intros v Hin. apply in_map_iff in Hin. destruct Hin as [v0 [<- Hin0]].
      apply tj_jd. apply (proj1 (Forall_forall _ _) Hl' v0 Hin0). }
    rewrite (arr_level p q d (map as_json l) _ Hk Hi Hj Hnull He Hf). reflexivity. }
  rewrite tfits_eq in Hfit.
  destruct d as [|b|x|b f|k z| |id l|et l|id m]; try (exfalso; exact Hd).
  - apply (simple_agree OR N ok ord_total eq_symm sr (VBool b) Hc I). apply qfits_scalar; [exact I | exact Hfit].
  - apply (simple_agree OR N ok ord_total eq_symm sr (VStr x) Hc I). apply qfits_scalar; [exact I | exact Hfit].
  - destruct (simple_num sr (VFlt b f) eq_refl) as [r [Hr Hv]]. exists r. split; [exact Hr|].
    fold q in Hv. rewrite Hv, (num_valid_flt (q_format q) _ q b f Hl).
    destruct (simple_num sr (VFlt false f) eq_refl) as [r1 [Hr1 Hv1]].
    destruct (simple_agree OR N ok ord_total eq_symm sr (VFlt false f) Hc (conj eq_refl Hd)) as [r2 [Hr2 Hv2]];
      [apply qfits_scalar; [exact I | apply qfits1_flt; exact Hfit]|].
    fold q in Hv1. rewrite <- Hv1. assert (E : Some r1 = Some r2) by (apply (same_result _ _ _ Hr1 Hr2)). injection E as ->. exact Hv2.
  - destruct Hd as [Hj Hk]. pose proof (jsmall_small z Hj) as Hs.
    destruct (simple_num sr (VInt k z) eq_refl) as [r [Hr Hv]]. exists r. split; [exact Hr|].
    fold q in Hv. rewrite Hv, (num_valid_int (q_format q) _ q k z Hl Hj Hk Hfit).
    destruct (simple_num sr (VFlt false (n_of_int N z)) eq_refl) as [r1 [Hr1 Hv1]].
    destruct (simple_agree OR N ok ord_total eq_symm sr (VFlt false (n_of_int N z)) Hc (conj eq_refl (proj1 (ex_of_int _ _ _ X z Hs)))) as [r2 [Hr2 Hv2]];
      [apply qfits_scalar; [exact I | apply qfits1_flt; rewrite (exact_of_int z Hs); intros E; injection E as E; unfold small, two63 in *; lia]|].
    fold q in Hv1. rewrite <- Hv1. assert (E : Some r1 = Some r2) by (apply (same_result _ _ _ Hr1 Hr2)). injection E as ->. exact Hv2.
  - cbn [tj] in Hd. apply tj_all in Hd. destruct (Harr l eq_refl eq_refl eq_refl Hd) as [r [Hr Hv]]. exists r. split; [exact Hr|].
    rewrite Hv. cbn [as_json]. unfold root_spec. rewrite !q_spec_eq. reflexivity.
  - cbn [tj] in Hd. destruct Hd as [Het Hd]. apply tj_all in Hd.
    assert (Hi : fst (info_for_type (VSlice et l)) = k_array) by (cbn [info_for_type]; destruct (Z.eqb_spec et 6); [contradiction | reflexivity]).
    apply (Harr l eq_refl eq_refl Hi Hd).
Qed.

End Carrier.
