(* A decision procedure for the hypothesis of Schema/PipelineTermRec.v: the rank is computed as the height of the
   unfolding along value-preserving edges, and every schema below the root and below every definition is checked. *)
From Coq Require Import List ZArith Bool Lia.
From Verif Require Import Base.Sx Base.GoVal Schema.Ast Schema.Build Schema.Pipeline Schema.PipelineTerm Schema.PipelineTermRec.
Import ListNotations.
Open Scope Z_scope.

Definition opt_l {A} (o : option A) : list A := match o with Some x => [x] | None => [] end.
Definition add_l (o : option (bool * option schema)) : list schema := match o with Some (_, Some c) => [c] | _ => [] end.

(* sub-schemas applied to parts of the value *)
Definition gk (s : schema) : list schema :=
  opt_l (s_items_one s) ++ (match s_items_tuple s with Some cs => cs | None => [] end) ++ add_l (s_add_items s) ++
  map snd (s_props s) ++ map snd (s_pat_props s) ++ add_l (s_add_props s).
(* sub-schemas applied to the value itself *)
Definition uk (s : schema) : list schema :=
  s_all_of s ++ s_any_of s ++ s_one_of s ++ opt_l (s_not s) ++ flat_map (fun kd => opt_l (fst (snd kd))) (s_deps s).

Lemma kids2_lists (Pg Pu : schema -> Prop) (s : schema) :
  (forall c, In c (gk s) -> Pg c) -> (forall c, In c (uk s) -> Pu c) -> kids2 Pg Pu s.
Proof.
  intros Hg Hu. unfold kids2.
  split; [intros c E; apply Hg; unfold gk; rewrite E; cbn [opt_l]; rewrite !in_app_iff; left; left; reflexivity|].
  split; [intros cs E; apply Forall_forall; intros c Hc; apply Hg; unfold gk; rewrite E; rewrite !in_app_iff; right; left; exact Hc|].
  split; [intros a c E; apply Hg; unfold gk; rewrite E; cbn [add_l]; rewrite !in_app_iff; right; right; left; left; reflexivity|].
  split; [apply Forall_forall; intros kc Hkc; apply Hg; unfold gk; rewrite !in_app_iff; right; right; right; left; apply in_map; exact Hkc|].
  split; [apply Forall_forall; intros kc Hkc; apply Hg; unfold gk; rewrite !in_app_iff; right; right; right; right; left; apply in_map; exact Hkc|].
  split; [intros a c E; apply Hg; unfold gk; rewrite E; cbn [add_l]; rewrite !in_app_iff; right; right; right; right; right; left; reflexivity|].
  split; [apply Forall_forall; intros c Hc; apply Hu; unfold uk; rewrite !in_app_iff; left; exact Hc|].
  split; [apply Forall_forall; intros c Hc; apply Hu; unfold uk; rewrite !in_app_iff; right; left; exact Hc|].
  split; [apply Forall_forall; intros c Hc; apply Hu; unfold uk; rewrite !in_app_iff; right; right; left; exact Hc|].
  split; [intros c E; apply Hu; unfold uk; rewrite E; cbn [opt_l]; rewrite !in_app_iff; right; right; right; left; left; reflexivity|].
  apply Forall_forall. intros kd Hkd c E. apply Hu. unfold uk. rewrite !in_app_iff. right; right; right; right.
  apply in_flat_map. exists kd. split; [exact Hkd | rewrite E; left; reflexivity].
Qed.

Lemma fold_max_map_le (f : schema -> nat) (b : nat) (l : list schema) :
  (forall c, In c l -> (f c <= b)%nat) -> (fold_right Nat.max O (map f l) <= b)%nat.
Proof.
  induction l as [|x t IH]; intros H; cbn [map fold_right]; [lia|].
  pose proof (H x (or_introl eq_refl)). pose proof (IH (fun c Hc => H c (or_intror Hc))). lia.
Qed.

Lemma fold_max_map_ge (f : schema -> nat) (l : list schema) c : In c l -> (f c <= fold_right Nat.max O (map f l))%nat.
Proof.
  induction l as [|x t IH]; intros H; [destruct H|]. cbn [map fold_right]. destruct H as [-> | H]; [lia|]. pose proof (IH H). lia.
Qed.

Lemma lookup_def_in (defs : env) n t : lookup_def defs n = Some t -> In t (map snd defs).
Proof.
  induction defs as [|[k s] l IH]; cbn [lookup_def map snd]; intros H; [discriminate|].
  destruct (Z.eqb k n); [inversion H; left; reflexivity | right; apply IH; exact H].
Qed.

Section Dec.
Variable defs : env.

(* height of the unfolding along $ref, allOf, anyOf, oneOf, not and schema dependencies, cut at k *)
Fixpoint urank (k : nat) (s : schema) : nat :=
  match k with
  | O => O
  | S k' =>
      match s_ref s with
      | Some n => match lookup_def defs n with Some t => S (urank k' t) | None => O end
      | None => match uk s with [] => O | l => S (fold_right Nat.max O (map (urank k') l)) end
      end
  end.

Lemma urank_le : forall k s, (urank k s <= k)%nat.
Proof.
  induction k as [|k IH]; intros s; cbn [urank]; [lia|].
  destruct (s_ref s) as [n|]; [destruct (lookup_def defs n) as [t|]; [pose proof (IH t)|]; lia|].
  destruct (uk s) as [|c l] eqn:E; [lia|]. pose proof (fold_max_map_le (urank k) k (c :: l) (fun x _ => IH x)). lia.
Qed.

Definition local_b (K R : nat) (s : schema) : bool :=
  (urank K s <=? R)%nat &&
  match s_ref s with
  | Some n => match lookup_def defs n with Some t => (urank K t <? urank K s)%nat | None => false end
  | None => forallb (fun c => (urank K c <? urank K s)%nat) (uk s)
  end.

(* every schema below x passes the local test; the walk fails when its fuel n does not reach the leaves *)
Fixpoint wf_b (K R n : nat) (x : schema) : bool :=
  match n with
  | O => false
  | S m => local_b K R x && forallb (wf_b K R m) (gk x ++ uk x)
  end.

Inductive desc (x : schema) : schema -> Prop :=
| desc_refl : desc x x
| desc_step s c : desc x s -> In c (gk s ++ uk s) -> desc x c.

Lemma wf_b_desc K R x s : desc x s -> forall n, wf_b K R n x = true -> exists m, wf_b K R m s = true.
Proof.
  induction 1 as [|s c Hs IH Hc]; intros n Hn; [exists n; exact Hn|].
  destruct (IH n Hn) as [m Hm]. destruct m as [|m]; [discriminate|]. cbn [wf_b] in Hm.
  apply andb_true_iff in Hm. destruct Hm as [_ Hm]. rewrite forallb_forall in Hm. exists m. apply Hm. exact Hc.
Qed.

Lemma wf_b_local K R n x s : wf_b K R n x = true -> desc x s -> local_b K R s = true.
Proof.
  intros Hn Hd. destruct (wf_b_desc K R x s Hd n Hn) as [m Hm]. destruct m as [|m]; [discriminate|]. cbn [wf_b] in Hm.
  apply andb_true_iff in Hm. destruct Hm as [Hm _]. exact Hm.
Qed.

Definition roots (root : schema) : list schema := root :: map snd defs.
Definition Wd (root : schema) (s : schema) : Prop := exists x, In x (roots root) /\ desc x s.
Definition guarded_b (K R n : nat) (root : schema) : bool := forallb (wf_b K R n) (roots root).

Theorem guarded_b_sound K R n root : guarded_b K R n root = true -> guarded defs (Wd root) (urank K) R.
Proof.
  intros H. unfold guarded_b in H. rewrite forallb_forall in H.
  assert (Hloc : forall s, Wd root s -> local_b K R s = true).
  { intros s [x [Hx Hd]]. apply (wf_b_local K R n x s (H x Hx) Hd). }
  split; [|split].
  - intros s Ws. pose proof (Hloc s Ws) as L. unfold local_b in L. apply andb_true_iff in L. destruct L as [L _].
    apply Nat.leb_le in L. exact L.
  - intros s nm Ws E. pose proof (Hloc s Ws) as L. unfold local_b in L. apply andb_true_iff in L. destruct L as [_ L].
    rewrite E in L. destruct (lookup_def defs nm) as [t|] eqn:Et; [|discriminate]. exists t. split; [reflexivity|]. split.
    + exists t. split; [right; apply (lookup_def_in defs nm t Et) | apply desc_refl].
    + apply Nat.ltb_lt in L. exact L.
  - intros s Ws E. pose proof (Hloc s Ws) as L. unfold local_b in L. apply andb_true_iff in L. destruct L as [_ L].
    rewrite E in L. rewrite forallb_forall in L. destruct Ws as [x [Hx Hd]].
    apply kids2_lists.
    + intros c Hc. exists x. split; [exact Hx|]. apply (desc_step x s c Hd). apply in_or_app. left. exact Hc.
    + intros c Hc. split.
      * exists x. split; [exact Hx|]. apply (desc_step x s c Hd). apply in_or_app. right. exact Hc.
      * apply Nat.ltb_lt. apply L. exact Hc.
Qed.

(* C06: the decided class of (possibly recursive) schemas always gets a verdict *)
Corollary decided_schemas_terminate OR N opt K R n root fuel d :
  guarded_b K R n root = true -> (goval_depth d * S R + urank K root < fuel)%nat ->
  forall p q, tot (sv_validate OR N opt defs fuel root p q d).
Proof.
  intros H Hf p q. apply (guarded_schemas_terminate defs (Wd root) (urank K) R (guarded_b_sound K R n root H)); [|exact Hf].
  exists root. split; [left; reflexivity | apply desc_refl].
Qed.

(* the largest rank met below x (a convenient R) *)
Fixpoint max_rank (K n : nat) (x : schema) : nat :=
  match n with
  | O => O
  | S m => Nat.max (urank K x) (fold_right Nat.max O (map (max_rank K m) (gk x ++ uk x)))
  end.

End Dec.
