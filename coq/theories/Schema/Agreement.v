(* C01, the agreement theorem on a fragment: on schemas of the class [clean] (no references, formats, nullable,
   patternProperties, dependencies, oneOf, property defaults, empty tuples) and JSON data of the class [jd]
   (no null, objects without the members "$schema", "id", "headers"), the verdict of the pipeline model L1 is the
   draft-4 verdict L0, for every oracle and every numeric implementation whose order is total.
   The excluded shapes are exactly where the recorded finding classes live, plus the keywords not proved yet. *)
From Coq Require Import List ZArith Bool Lia.
From Verif Require Import Base.Sx Base.GoVal Schema.Ast Schema.Build Schema.Pipeline Schema.Draft4 Schema.PipelineFacts Schema.PipelineTerm.
Import ListNotations.
Open Scope Z_scope.

(* ------------------------------------------------------------------ JSON data *)

Definition plain_key (k : str) : Prop := k <> k_dollar_schema /\ k <> k_id /\ k <> k_headers.

Fixpoint jd (v : goval) : Prop :=
  match v with
  | VBool _ | VStr _ => True
  | VFlt is32 _ => is32 = false
  | VArr _ l => (fix all (l : list goval) : Prop := match l with [] => True | x :: t => jd x /\ all t end) l
  | VObj _ m =>
      (fix all (m : list (str * goval)) : Prop :=
         match m with [] => True | kv :: t => plain_key (fst kv) /\ jd (snd kv) /\ all t end) m /\
      NoDup (map fst m)
  | _ => False
  end.

Lemma jd_arr id l : jd (VArr id l) <-> Forall jd l.
Proof.
  cbn [jd]. induction l as [|x t IH]; [split; [constructor | intros; exact I]|].
  split; [intros [H1 H2]; constructor; [exact H1 | apply IH; exact H2] | intros H; inversion H; subst; split; [assumption | apply IH; assumption]].
Qed.

Lemma jd_obj id m : jd (VObj id m) <-> Forall (fun kv => plain_key (fst kv) /\ jd (snd kv)) m /\ NoDup (map fst m).
Proof.
  cbn [jd]. assert (E : forall m : list (str * goval),
    (fix all (m : list (str * goval)) : Prop := match m with [] => True | kv :: t => plain_key (fst kv) /\ jd (snd kv) /\ all t end) m
    <-> Forall (fun kv => plain_key (fst kv) /\ jd (snd kv)) m).
  { intros mm. induction mm as [|x t IH]; [split; [constructor | intros; exact I]|].
    split; [intros [H1 [H2 H3]]; constructor; [split; assumption | apply IH; exact H3]
           | intros H; inversion H as [|y ys [Hy1 Hy2] Hys]; subst; split; [assumption | split; [assumption | apply IH; assumption]]]. }
  rewrite E. reflexivity.
Qed.

(* the two depth functions coincide on JSON data *)
Lemma depth_eq : forall v, jd v -> goval_depth v = jdepth v.
Proof.
  fix IH 1. intros v. destruct v as [| | | | | |id l| |id m]; intros H; try reflexivity; try (exfalso; exact H).
  - cbn [goval_depth jdepth]. f_equal. cbn [jd] in H. generalize 0%nat as acc. revert l H.
    fix IHl 1. intros l. destruct l as [|x t]; intros H acc; [reflexivity|]. destruct H as [Hx Ht].
    cbn [fold_left]. rewrite (IH x Hx). apply (IHl t Ht).
  - cbn [goval_depth jdepth]. f_equal. apply jd_obj in H. destruct H as [H _]. generalize 0%nat as acc. revert m H.
    fix IHm 1. intros m. destruct m as [|kv t]; intros H acc; [reflexivity|]. inversion H as [|y ys [_ Hx] Ht]; subst.
    cbn [fold_left]. rewrite (IH (snd kv) Hx). apply (IHm t Ht).
Qed.

Section Agree.
Variable OR : oracles.
Variable N : numops.
Variable opt : options.
Hypothesis Hopt_items : opt_array_must_have_items opt = false.
Hypothesis Hopt_array : opt_obj_array_type_check opt = false.
Hypothesis Hord : forall a b, n_lt N a b = negb (n_le N b a).

Lemma Hord' a b : n_le N a b = negb (n_lt N b a).
Proof. rewrite Hord, negb_involutive. reflexivity. Qed.

(* ------------------------------------------------------------------ equality of JSON values *)

Lemma find_first_nodup (m : list (str * goval)) (k : str) (P : goval -> bool) :
  NoDup (map fst m) ->
  match (fix find (m : list (str * goval)) : option goval :=
           match m with [] => None | (k', v) :: t => if Z.eqb k' k then Some v else find t end) m with
  | Some v2 => P v2
  | None => false
  end = existsb (fun kv2 => Z.eqb k (fst kv2) && P (snd kv2)) m.
Proof.
  induction m as [|[k' v] t IH]; intros Hnd; [reflexivity|]. cbn [existsb fst snd map] in *. inversion Hnd as [|x xs Hx Hxs]; subst.
  rewrite (Z.eqb_sym k k'). destruct (Z.eqb_spec k' k) as [e|ne].
  - subst. cbn [andb]. destruct (P v); [reflexivity|]. cbn [orb]. symmetry. apply not_true_iff_false. intros H.
    apply existsb_exists in H. destruct H as [[k2 v2] [Hin H]]. cbn [fst snd] in H. apply andb_true_iff in H. destruct H as [H _].
    apply Z.eqb_eq in H. subst. apply Hx. apply in_map_iff. exists (k2, v2). split; [reflexivity | exact Hin].
  - cbn [andb orb]. apply IH. exact Hxs.
Qed.

Lemma deq_jeq : forall fuel a b, jd a -> jd b -> deep_eq_fuel N fuel a b = json_eq_fuel N fuel a b.
Proof.
  induction fuel as [|f IH]; intros a b Ha Hb; [reflexivity|].
  destruct a as [| | |a32 fa| | |ida la| |ida ma]; try (exfalso; exact Ha); destruct b as [| | |b32 fb| | |idb lb| |idb mb]; try (exfalso; exact Hb); try reflexivity.
  - cbn [deep_eq_fuel json_eq_fuel]. cbn [jd] in Ha, Hb. subst. reflexivity.
  - cbn [deep_eq_fuel json_eq_fuel]. apply jd_arr in Ha. apply jd_arr in Hb. revert lb Hb.
    induction Ha as [|x t Hx Ht IHl]; intros [|y u] Hb; try reflexivity. inversion Hb; subst.
    rewrite (IH x y); [|assumption|assumption]. f_equal. apply IHl. assumption.
  - cbn [deep_eq_fuel json_eq_fuel]. apply jd_obj in Ha. apply jd_obj in Hb. destruct Ha as [Ha _]. destruct Hb as [Hb Hnd]. f_equal.
    induction Ha as [|kv t [_ Hkv] Ht IHl]; [reflexivity|]. cbn [forallb]. rewrite IHl. f_equal.
    transitivity (existsb (fun kv2 => Z.eqb (fst kv) (fst kv2) && deep_eq_fuel N f (snd kv) (snd kv2)) mb);
      [exact (find_first_nodup mb (fst kv) (fun v2 => deep_eq_fuel N f (snd kv) v2) Hnd)|].
    clear - IH Hkv Hb. induction Hb as [|kv2 u [_ Hkv2] Hu IHu]; [reflexivity|]. cbn [existsb]. rewrite <- IHu.
    f_equal. f_equal. apply IH; assumption.
Qed.

Lemma deep_eq_json_eq a b : jd a -> jd b -> deep_eq N a b = json_eq N a b.
Proof. intros Ha Hb. unfold deep_eq, json_eq. rewrite (depth_eq a Ha). apply deq_jeq; assumption. Qed.

Lemma enum_match_json_eq d e : jd d -> jd e -> enum_match N d e = json_eq N d e.
Proof.
  intros Hd He. pose proof (deep_eq_json_eq d e Hd He) as H.
  destruct d as [| | |d32 fd| | |idd ld| |idd md]; try (exfalso; exact Hd); destruct e as [| | |e32 fe| | |ide le| |ide me]; try (exfalso; exact He);
    try exact H; try reflexivity.
  cbn [jd] in Hd, He. subst. reflexivity.
Qed.

(* ------------------------------------------------------------------ leaf keyword groups *)

Lemma contains_existsb x l : contains x l = existsb (fun t => Z.eqb t x) l.
Proof. induction l as [|y t IH]; [reflexivity|]. cbn [contains existsb]. rewrite IH, (Z.eqb_sym x y). reflexivity. Qed.

Lemma existsb_ext {A} (f g : A -> bool) l : (forall x, f x = g x) -> existsb f l = existsb g l.
Proof. intros H. induction l as [|x t IH]; [reflexivity|]. cbn [existsb]. rewrite H, IH. reflexivity. Qed.

Lemma existsb_or {A} (f g : A -> bool) l : existsb (fun x => f x || g x) l = existsb f l || existsb g l.
Proof.
  induction l as [|x t IH]; [reflexivity|]. cbn [existsb]. rewrite IH.
  destruct (f x), (g x), (existsb f t), (existsb g t); reflexivity.
Qed.

Lemma existsb_and_const {A} (f : A -> bool) (c : bool) l : existsb (fun x => f x && c) l = existsb f l && c.
Proof. induction l as [|x t IH]; [reflexivity|]. cbn [existsb]. rewrite IH. destruct (f x), c, (existsb f t); reflexivity. Qed.

(* 5.5.2: with no format and no nullable, the type validator decides membership of the instance's type *)
Lemma type_agree p types d : jd d ->
  (if type_applies types 0 then r_valid (type_validate N p types false 0 d) else true) =
  (match types with [] => true | ts => existsb (fun t => has_type N t d) ts end).
Proof.
  intros Hd. unfold type_applies. cbn [Z.eqb negb orb]. destruct types as [|t0 ts]; [reflexivity|]. cbn [length Nat.eqb negb].
  set (tys := t0 :: ts).
  assert (Hgen : forall sch_type extra,
    r_valid (if negb (contains sch_type tys || extra) then s_err (invalid_type p tys sch_type) else empty_result)
    = contains sch_type tys || extra).
  { intros st ex. destruct (contains st tys || ex); reflexivity. }
  destruct d as [| | |d32 fd| | |idd ld| |idd md]; try (exfalso; exact Hd); unfold type_validate; cbn [info_for_type is_string_kind is_slice_kind negb andb orb Z.eqb].
  - (* bool *)
    transitivity (contains k_boolean tys); [|rewrite contains_existsb; apply existsb_ext; intros; reflexivity].
    destruct (contains k_number tys), (contains k_integer tys), (contains k_boolean tys); reflexivity.
  - (* string *)
    transitivity (contains k_string tys); [|rewrite contains_existsb; apply existsb_ext; intros; reflexivity].
    destruct (contains k_number tys), (contains k_integer tys), (contains k_string tys); reflexivity.
  - (* number *) cbn [jd] in Hd. subst d32.
    transitivity (contains k_number tys || (n_is_int N fd && contains k_integer tys)).
    { cbn [info_for_type]. destruct (contains k_number tys), (contains k_integer tys), (n_is_int N fd); reflexivity. }
    rewrite !contains_existsb. rewrite (andb_comm (n_is_int N fd)). rewrite <- existsb_and_const, <- existsb_or. reflexivity.
  - (* array *)
    transitivity (contains k_array tys); [|rewrite contains_existsb; apply existsb_ext; intros; reflexivity].
    destruct (contains k_number tys), (contains k_integer tys), (contains k_array tys); reflexivity.
  - (* object *)
    transitivity (contains k_object tys); [|rewrite contains_existsb; apply existsb_ext; intros; reflexivity].
    destruct (contains k_number tys), (contains k_integer tys), (contains k_object tys); reflexivity.
Qed.
End Agree.
