(* C01, the agreement theorem on a fragment: on schemas of the class [clean] (no references, formats, nullable,
   patternProperties, dependencies, oneOf, property defaults, empty tuples) and JSON data of the class [jd]
   (no null, objects without the members "$schema", "id", "headers"), the verdict of the pipeline model L1 is the
   draft-4 verdict L0, for every oracle and every numeric implementation whose order is total.
   The excluded shapes are exactly where the recorded finding classes live, plus the keywords not proved yet. *)
From Coq Require Import List ZArith Bool Lia Btauto.
From Verif Require Import Base.Sx Base.GoVal Schema.Ast Schema.Build Schema.Pipeline Schema.Draft4 Schema.PipelineFacts Schema.PipelineTerm Schema.PipelineTermRec Schema.PipelineTermDec Schema.PipelineQuiet Schema.AgreementData Schema.JsonEq.
Import ListNotations.
Open Scope Z_scope.

(* ------------------------------------------------------------------ JSON data: Schema/AgreementData.v *)

Section Data.
(* the numbers of the data and of the schema are finite (JSON has no other) *)
Variable fin : f64 -> Prop.
(* null in the data is admitted only together with schemas free of allOf / anyOf / not at every level (see [local_clean]) *)
Variable allow_null : bool.
(* arrays in the data are admitted only together with schemas whose formats sit next to a type list that accepts arrays (see [local_clean]) *)
Variable allow_arr : bool.
Notation jd := (AgreementData.jd fin allow_null allow_arr).

(* JSON data of the class has no member named "headers": no IMPORTANT! error is produced on it (Schema/PipelineQuiet.v) *)
Lemma jd_nohdr : forall v, jd v -> nohdr v.
Proof.
  fix IH 1. intros v. destruct v as [| | | | | |id l| |id m]; intros H; try exact I; try (exfalso; exact H).
  - apply nohdr_arr. apply jd_arr in H. destruct H as [_ H]. revert l H. fix IHl 1. intros l H. destruct l as [|x t]; [constructor|].
    inversion H; subst. constructor; [apply IH; assumption | apply IHl; assumption].
  - apply nohdr_obj. apply jd_obj in H. destruct H as [H _]. revert m H. fix IHm 1. intros m H. destruct m as [|kv t]; [constructor|].
    inversion H as [|y ys [Hk Hv] Ht]; subst. destruct Hk as [_ [_ Hk]].
    constructor; [split; [exact Hk | apply IH; exact Hv] | apply IHm; exact Ht].
Qed.

Section Agree.
Variable OR : oracles.
Variable N : numops.
Variable opt : options.
Hypothesis Hopt_items : opt_array_must_have_items opt = false.
Hypothesis Hopt_array : opt_obj_array_type_check opt = false.
Hypothesis Hord : forall a b, fin a -> fin b -> n_lt N a b = negb (n_le N b a).
Hypothesis Heq_sym : forall a b, fin a -> fin b -> n_eq N a b = n_eq N b a.

Lemma Hord' a b : fin a -> fin b -> n_le N a b = negb (n_lt N b a).
Proof. intros Ha Hb. rewrite (Hord b a Hb Ha), negb_involutive. reflexivity. Qed.

(* ------------------------------------------------------------------ leaf keyword groups *)

Lemma contains_existsb x l : contains x l = existsb (fun t => Z.eqb t x) l.
Proof. induction l as [|y t IH]; [reflexivity|]. cbn [contains existsb]. rewrite IH, (Z.eqb_sym x y). reflexivity. Qed.

Lemma forallb_ext_in {A} (f g : A -> bool) l : (forall x, In x l -> f x = g x) -> forallb f l = forallb g l.
Proof. induction l as [|x t IH]; intros H; [reflexivity|]. cbn [forallb]. rewrite (H x (or_introl eq_refl)), IH; [reflexivity|]. intros y Hy. apply H. right; exact Hy. Qed.

Lemma forallb_andb_pointwise {A} (f g : A -> bool) l : forallb (fun x => f x && g x) l = forallb f l && forallb g l.
Proof. induction l as [|x t IH]; [reflexivity|]. cbn [forallb]. rewrite IH. btauto. Qed.

Lemma existsb_ext {A} (f g : A -> bool) l : (forall x, f x = g x) -> existsb f l = existsb g l.
Proof. intros H. induction l as [|x t IH]; [reflexivity|]. cbn [existsb]. rewrite H, IH. reflexivity. Qed.

Lemma existsb_or {A} (f g : A -> bool) l : existsb (fun x => f x || g x) l = existsb f l || existsb g l.
Proof.
  induction l as [|x t IH]; [reflexivity|]. cbn [existsb]. rewrite IH.
  destruct (f x), (g x), (existsb f t), (existsb g t); reflexivity.
Qed.

Lemma existsb_and_const {A} (f : A -> bool) (c : bool) l : existsb (fun x => f x && c) l = existsb f l && c.
Proof. induction l as [|x t IH]; [reflexivity|]. cbn [existsb]. rewrite IH. destruct (f x), c, (existsb f t); reflexivity. Qed.

(* 5.5.2: with no format and no nullable, the type validator decides membership of the instance's type *)
Lemma type_agree p types d : jd d ->
  (if type_applies types 0 then r_valid (type_validate N p types false 0 d) else true) =
  (match types with [] => true | t0 :: ts => existsb (fun t => has_type N t d) (t0 :: ts) end).
Proof.
  intros Hd. unfold type_applies. cbn [Z.eqb negb orb]. destruct types as [|t0 ts]; [reflexivity|]. cbn [length Nat.eqb negb].
  set (tys := t0 :: ts).
  assert (Hgen : forall sch_type extra,
    r_valid (if negb (contains sch_type tys || extra) then s_err (invalid_type p tys sch_type) else empty_result)
    = contains sch_type tys || extra).
  { intros st ex. destruct (contains st tys || ex); reflexivity. }
  destruct d as [| | |d32 fd| | |idd ld| |idd md]; try (exfalso; exact Hd); unfold type_validate; cbn [info_for_type is_string_kind is_slice_kind negb andb orb Z.eqb].
  - (* null *)
    transitivity (contains k_null tys); [|rewrite contains_existsb; apply existsb_ext; intros; reflexivity].
    cbn [length Nat.eqb negb andb]. destruct (contains k_null tys); reflexivity.
  - (* bool *)
    transitivity (contains k_boolean tys); [|rewrite contains_existsb; apply existsb_ext; intros; reflexivity].
    destruct (contains k_number tys), (contains k_integer tys), (contains k_boolean tys); reflexivity.
  - (* string *)
    transitivity (contains k_string tys); [|rewrite contains_existsb; apply existsb_ext; intros; reflexivity].
    destruct (contains k_number tys), (contains k_integer tys), (contains k_string tys); reflexivity.
  - (* number *) cbn [jd] in Hd. destruct Hd as [-> _].
    transitivity (contains k_number tys || (n_is_int N fd && contains k_integer tys)).
    { cbn [info_for_type]. destruct (contains k_number tys), (contains k_integer tys), (n_is_int N fd); reflexivity. }
    rewrite !contains_existsb. rewrite (andb_comm (n_is_int N fd)). rewrite <- existsb_and_const, <- existsb_or. reflexivity.
  - (* array *)
    transitivity (contains k_array tys); [|rewrite contains_existsb; apply existsb_ext; intros; reflexivity].
    destruct (contains k_number tys), (contains k_integer tys), (contains k_array tys); reflexivity.
  - (* object *)
    transitivity (contains k_object tys); [|rewrite contains_existsb; apply existsb_ext; intros; reflexivity].
    destruct (contains k_number tys), (contains k_integer tys), (contains k_object tys); reflexivity.
Qed.

(* the same with a format next to a numeric type (int32, int64, float, double ...): the string / array shortcut of
   type.go:200 needs a type list without number and integer, so it cannot fire *)
Lemma type_agree_numeric p types format d : jd d -> contains k_number types || contains k_integer types = true ->
  r_valid (type_validate N p types false format d) =
  (match types with [] => true | t0 :: ts => existsb (fun t => has_type N t d) (t0 :: ts) end).
Proof.
  intros Hd Hnum. destruct types as [|t0 ts]; [discriminate|]. set (tys := t0 :: ts) in *.
  destruct d as [| | |d32 fd| | |idd ld| |idd md]; try (exfalso; exact Hd); unfold type_validate; cbn [info_for_type is_string_kind is_slice_kind negb andb orb].
  - transitivity (contains k_null tys); [|rewrite contains_existsb; apply existsb_ext; intros; reflexivity].
    cbn [length Nat.eqb negb andb]. destruct (contains k_null tys); reflexivity.
  - transitivity (contains k_boolean tys); [|rewrite contains_existsb; apply existsb_ext; intros; reflexivity].
    destruct (contains k_number tys), (contains k_integer tys), (contains k_boolean tys), (Z.eqb format 0), (Z.eqb 0 format), (Z.eqb format k_int64), (Z.eqb format k_float64);
      try discriminate; reflexivity.
  - transitivity (contains k_string tys); [|rewrite contains_existsb; apply existsb_ext; intros; reflexivity].
    destruct (contains k_number tys), (contains k_integer tys), (contains k_string tys), (Z.eqb format 0), (Z.eqb 0 format), (Z.eqb format k_int64), (Z.eqb format k_float64);
      try discriminate; reflexivity.
  - cbn [jd] in Hd. destruct Hd as [-> _].
    transitivity (contains k_number tys || (n_is_int N fd && contains k_integer tys)).
    { cbn [info_for_type]. destruct (contains k_number tys), (contains k_integer tys), (n_is_int N fd), (Z.eqb format 0), (Z.eqb k_float64 format), (Z.eqb format k_int64), (Z.eqb format k_float64);
        try discriminate; reflexivity. }
    rewrite !contains_existsb. rewrite (andb_comm (n_is_int N fd)). rewrite <- existsb_and_const, <- existsb_or. reflexivity.
  - transitivity (contains k_array tys); [|rewrite contains_existsb; apply existsb_ext; intros; reflexivity].
    destruct (contains k_number tys), (contains k_integer tys), (contains k_array tys), (Z.eqb format 0), (Z.eqb 0 format), (Z.eqb format k_int64), (Z.eqb format k_float64);
      try discriminate; reflexivity.
  - transitivity (contains k_object tys); [|rewrite contains_existsb; apply existsb_ext; intros; reflexivity].
    destruct (contains k_number tys), (contains k_integer tys), (contains k_object tys), (Z.eqb format 0), (Z.eqb 0 format), (Z.eqb format k_int64), (Z.eqb format k_float64);
      try discriminate; reflexivity.
Qed.

(* a format next to a type list without number and integer: the string / array shortcut of type.go:200 accepts every string
   and every array, so the list must accept strings - and arrays, when the data may hold arrays *)
Lemma type_agree_strfmt_gen p types format d : jd d -> contains k_number types || contains k_integer types = false ->
  types <> [] ->
  ((exists x, d = VStr x) -> contains k_string types = true) ->
  ((exists id l, d = VArr id l) -> contains k_array types = true) ->
  r_valid (type_validate N p types false format d) =
  (match types with [] => true | t0 :: ts => existsb (fun t => has_type N t d) (t0 :: ts) end).
Proof.
  intros Hd Hnum Hne Hstr0 Harr0. destruct types as [|t0 ts]; [destruct (Hne eq_refl)|]. set (tys := t0 :: ts) in *.
  assert (Hstr : forall x, d = VStr x -> contains k_string tys = true) by (intros x E; apply Hstr0; exists x; exact E).
  assert (Harr : forall id l, d = VArr id l -> contains k_array tys = true) by (intros id l E; apply Harr0; exists id, l; exact E).
  apply orb_false_iff in Hnum. destruct Hnum as [Hn Hi].
  destruct d as [| | |d32 fd| | |idd ld| |idd md]; try (exfalso; exact Hd); unfold type_validate; cbn [info_for_type is_string_kind is_slice_kind negb andb orb].
  - transitivity (contains k_null tys); [|rewrite contains_existsb; apply existsb_ext; intros; reflexivity].
    cbn [length Nat.eqb negb andb]. destruct (contains k_null tys); reflexivity.
  - transitivity (contains k_boolean tys); [|rewrite contains_existsb; apply existsb_ext; intros; reflexivity].
    rewrite Hn, Hi, (Z.eqb_sym 0 format).
    destruct (contains k_boolean tys), (Z.eqb format 0), (Z.eqb format k_int64), (Z.eqb format k_float64); reflexivity.
  - transitivity (contains k_string tys); [|rewrite contains_existsb; apply existsb_ext; intros; reflexivity].
    rewrite Hn, Hi, (Hstr _ eq_refl). destruct (Z.eqb format 0); reflexivity.
  - cbn [jd] in Hd. destruct Hd as [-> _].
    transitivity (contains k_number tys || (n_is_int N fd && contains k_integer tys)).
    { cbn [info_for_type]. rewrite Hn, Hi, !andb_false_r. cbn [orb].
      destruct (Z.eqb format 0), (Z.eqb k_float64 format), (Z.eqb format k_int64), (Z.eqb format k_float64), (Z.eqb k_number k_number), (Z.eqb k_number k_integer); reflexivity. }
    rewrite !contains_existsb. rewrite (andb_comm (n_is_int N fd)). rewrite <- existsb_and_const, <- existsb_or. reflexivity.
  - transitivity (contains k_array tys); [|rewrite contains_existsb; apply existsb_ext; intros; reflexivity].
    rewrite Hn, Hi, (Harr _ _ eq_refl). destruct (Z.eqb format 0); reflexivity.
  - transitivity (contains k_object tys); [|rewrite contains_existsb; apply existsb_ext; intros; reflexivity].
    rewrite Hn, Hi, (Z.eqb_sym 0 format).
    destruct (contains k_object tys), (Z.eqb format 0), (Z.eqb format k_int64), (Z.eqb format k_float64); reflexivity.
Qed.

Lemma type_agree_strfmt p types format d : jd d -> contains k_number types || contains k_integer types = false ->
  contains k_string types = true -> (allow_arr = true -> contains k_array types = true) ->
  r_valid (type_validate N p types false format d) =
  (match types with [] => true | t0 :: ts => existsb (fun t => has_type N t d) (t0 :: ts) end).
Proof.
  intros Hd Hnum Hstr Harr. apply type_agree_strfmt_gen; try assumption.
  - intros E. rewrite E in Hstr. discriminate.
  - intros _. exact Hstr.
  - intros [id [l E]]. subst d. apply jd_arr in Hd. destruct Hd as [Ha _]. apply Harr. exact Ha.
Qed.

(* 5.5.1 *)
(* the enumerated values are any JSON (null and arrays included, whatever the data class admits for the instance) *)
Notation jde := (AgreementData.jd fin true true).
Lemma enum_agree p s d : jd d -> Forall jde (s_enum s) ->
  (match common_validate N p s d with None => true | Some r => r_valid r end) = enum_ok N s d.
Proof.
  intros Hd0 He. pose proof (jd_mono fin allow_null allow_arr d Hd0) as Hd. unfold common_validate, enum_ok. destruct (s_enum s) as [|e0 es] eqn:E; [reflexivity|].
  assert (X : existsb (enum_match N d) (e0 :: es) = existsb (json_eq N d) (e0 :: es)).
  { clear E. induction He as [|e t Hj Ht IH]; [reflexivity|]. cbn [existsb]. rewrite IH, (@enum_match_json_eq fin true true N d e Hd Hj). reflexivity. }
  rewrite X. destruct (existsb (json_eq N d) (e0 :: es)); reflexivity.
Qed.

(* 5.1: on a JSON number the native dispatch is the float path *)
Definition bounds_fin (s : schema) : Prop :=
  (forall m, s_maximum s = Some m -> fin m) /\ (forall m, s_minimum s = Some m -> fin m).

Lemma number_agree p s is32 f : is32 = false /\ fin f -> bounds_fin s ->
  r_valid (number_validate N p s (VFlt is32 f)) = numeric_ok N s (VFlt is32 f).
Proof.
  intros [-> Hf] [Hbmax Hbmin].
  assert (Fmax : forall m ex e, fin m -> r_valid (if max_native N (VFlt false f) m ex then merge new_res (Some (s_err e)) else new_res)
                             = (if ex then n_lt N f m else n_le N f m)).
  { intros m ex e Hm. unfold max_native, as_float64, max_float. destruct ex.
    - rewrite (Hord f m Hf Hm). destruct (n_le N m f); reflexivity.
    - rewrite (Hord' f m Hf Hm). destruct (n_lt N m f); reflexivity. }
  assert (Fmin : forall m ex e, fin m -> r_valid (if min_native N (VFlt false f) m ex then merge new_res (Some (s_err e)) else new_res)
                             = (if ex then n_lt N m f else n_le N m f)).
  { intros m ex e Hm. unfold min_native, as_float64, min_float. destruct ex.
    - rewrite (Hord m f Hm Hf). destruct (n_le N f m); reflexivity.
    - rewrite (Hord' m f Hm Hf). destruct (n_lt N f m); reflexivity. }
  assert (Fmul : forall m e1 e2, r_valid (match mult_native N (VFlt false f) m with
                                          | MOk => new_res
                                          | MNotMultiple => merge new_res (Some (s_err e1))
                                          | MNotPositive => merge new_res (Some (s_err e2))
                                          end) = match n_mult_of N f m with MOk => true | _ => false end).
  { intros m e1 e2. unfold mult_native, as_float64. destruct (n_mult_of N f m); reflexivity. }
  unfold number_validate, numeric_ok. rewrite r_valid_inc, !r_valid_merge.
  destruct (s_multiple_of s) as [mu|], (s_minimum s) as [mn|], (s_maximum s) as [mx|];
    rewrite ?Fmax, ?Fmin, ?Fmul by (first [apply Hbmax; reflexivity | apply Hbmin; reflexivity]); cbn [r_valid new_res r_errs andb];
    repeat match goal with
           | |- context [if ?b then _ else _] => destruct b
           | |- context [match n_mult_of N ?a ?b with _ => _ end] => destruct (n_mult_of N a b)
           end; cbn [andb]; btauto.
Qed.

(* 5.2 *)
Lemma string_agree p s x : (s_pattern s = 0 \/ o_re_ok OR (s_pattern s) = true) ->
  (match string_validate OR p s (VStr x) with None => true | Some r => r_valid r end) &&
  (if format_applies OR s (VStr x) then match format_validate OR p s (VStr x) with Ok r => r_valid r | _ => true end else true)
  = string_ok OR s (VStr x).
Proof.
  intros Hp. unfold string_validate, string_ok, format_applies, format_validate. cbn [is_string_kind andb].
  assert (A : forall a b : bool, (if a then false else if b then false else true) = negb a && negb b) by (intros [|] [|]; reflexivity).
  assert (Hlen : (match s_max_length s with Some m => o_rune_len OR x <=? m | None => true end) =
                 negb (match s_max_length s with Some m => m <? o_rune_len OR x | None => false end)).
  { destruct (s_max_length s) as [m|]; [|reflexivity]. rewrite Z.ltb_antisym, negb_involutive. reflexivity. }
  assert (Hmin : (match s_min_length s with Some m => m <=? o_rune_len OR x | None => true end) =
                 negb (match s_min_length s with Some m => o_rune_len OR x <? m | None => false end)).
  { destruct (s_min_length s) as [m|]; [|reflexivity]. rewrite Z.ltb_antisym, negb_involutive. reflexivity. }
  rewrite Hlen, Hmin.
  destruct (match s_max_length s with Some m => m <? o_rune_len OR x | None => false end); [reflexivity|].
  destruct (match s_min_length s with Some m => o_rune_len OR x <? m | None => false end); [reflexivity|]. cbn [negb andb].
  assert (Hfmt : (if o_fmt_known OR (s_format s)
                  then match (if o_fmt_check OR (s_format s) x then Ok new_res else Ok (r_add new_res [invalid_type p [s_format s] x])) with
                       | Ok r => r_valid r | _ => true end
                  else true) = (if o_fmt_known OR (s_format s) then o_fmt_check OR (s_format s) x else true)).
  { destruct (o_fmt_known OR (s_format s)); [|reflexivity]. destruct (o_fmt_check OR (s_format s) x); reflexivity. }
  rewrite Hfmt. destruct (Z.eqb_spec (s_pattern s) 0) as [e|ne]; [reflexivity|].
  destruct Hp as [Hp | Hp]; [contradiction|]. rewrite Hp. cbn [negb]. destruct (o_re_match OR (s_pattern s) x); reflexivity.
Qed.

(* ------------------------------------------------------------------ the recursive groups *)

Variable rec_sp : schema -> path -> path -> goval -> outcome res.
Variable recd : schema -> goval -> option bool.
(* no IMPORTANT! error comes back from a sub-validator on this data (discharged by PipelineQuiet.no_important_error) *)
Hypothesis Hquiet : forall c p q d, jd d -> oquiet (rec_sp c p q d).

(* the data on which the sub-validators are known to agree: parts of the current value (Ds) for the sub-schemas that descend
   into it, the current value itself (Du) for those that keep it. With both trivial this is agreement on all data (schemas of
   bounded nesting); with depth bounds it carries the induction for recursive definitions. *)
Variable Ds Du : schema -> goval -> Prop.

(* the two recursions agree on a sub-schema: L1 returns a result, L0 a verdict, and they are the same verdict *)
Definition goodD (D : schema -> goval -> Prop) (c : schema) : Prop :=
  forall p q d, jd d -> D c d -> exists r, rec_sp c p q d = Ok r /\ recd c d = Some (r_valid r).
Notation goods := (goodD Ds).
Notation goodu := (goodD Du).
Definition jds (c : schema) (d : goval) : Prop := jd d /\ Ds c d.

Lemma jds_jd c l : Forall (jds c) l -> Forall jd l.
Proof. intros H. eapply Forall_impl; [|exact H]. intros a [Ha _]. exact Ha. Qed.

Lemma all_opt_some_forallb' {A} (f : A -> option bool) (g : A -> bool) l :
  (forall x, In x l -> f x = Some (g x)) -> all_opt (map f l) = Some (forallb g l).
Proof.
  induction l as [|x t IH]; intros H; [reflexivity|]. cbn [map forallb]. rewrite (H x (or_introl eq_refl)). cbn [all_opt]. rewrite IH; [reflexivity|].
  intros y Hy. apply H. right; exact Hy.
Qed.

Lemma all_opt_cons_some b l : all_opt (Some b :: l) = match all_opt l with Some c => Some (b && c) | None => None end.
Proof. reflexivity. Qed.

(* items: one schema for every element *)
Lemma items_one_agree s1 p sl : goods s1 -> forall l, Forall (jds s1) l -> forall i r,
  exists r' b, slice_items_one rec_sp s1 p sl l i r = Ok r' /\ all_opt (map (recd s1) l) = Some b /\ r_valid r' = r_valid r && b.
Proof.
  intros Hg l Hl. induction Hl as [|v t Hv Ht IH]; intros i r.
  - exists r, true. cbn. rewrite andb_true_r. auto.
  - cbn [slice_items_one map]. destruct (Hg p (p ++ [SIdx i]) v (proj1 Hv) (proj2 Hv)) as [x [Hx Hd]]. rewrite Hx. cbn [bind].
    destruct (IH (i + 1) (merge_for_slice r sl i x)) as [r' [b [H1 [H2 H3]]]].
    exists r', (r_valid x && b). split; [exact H1|]. split.
    + rewrite Hd, all_opt_cons_some, H2. reflexivity.
    + rewrite H3, r_valid_merge_for_slice, andb_assoc. reflexivity.
Qed.

(* items: positional schemas *)
Lemma items_tuple_agree p sl : forall ss, Forall goods ss -> forall l, Forall (fun sv => jds (fst sv) (snd sv)) (combine ss l) -> forall i r,
  exists r' b, slice_items_tuple rec_sp ss p sl l i r = Ok r' /\
               all_opt (map (fun sv => recd (fst sv) (snd sv)) (combine ss l)) = Some b /\ r_valid r' = r_valid r && b.
Proof.
  induction ss as [|s1 st IH]; intros Hs l Hl i r.
  - exists r, true. destruct l; cbn; rewrite andb_true_r; auto.
  - destruct l as [|v t]; [exists r, true; cbn; rewrite andb_true_r; auto|].
    inversion Hs as [|x xs Hg Hgs]; subst. cbn [combine] in Hl. inversion Hl as [|y ys Hv Ht]; subst. cbn [fst snd] in Hv.
    cbn [slice_items_tuple combine map fst snd]. unfold rec. destruct (Hg (p ++ [SIdx i]) (p ++ [SIdx i]) v (proj1 Hv) (proj2 Hv)) as [x [Hx Hd]]. rewrite Hx. cbn [bind].
    destruct (IH Hgs t Ht (i + 1) (merge_for_slice r sl i x)) as [r' [b [H1 [H2 H3]]]].
    exists r', (r_valid x && b). split; [exact H1|]. split.
    + rewrite Hd, all_opt_cons_some, H2. reflexivity.
    + rewrite H3, r_valid_merge_for_slice, andb_assoc. reflexivity.
Qed.

(* additionalItems as a schema *)
Lemma items_additional_agree sa p sl : goods sa -> forall rest, Forall (jds sa) rest -> forall i r,
  exists r' b, slice_additional rec_sp sa p sl rest i r = Ok r' /\ all_opt (map (recd sa) rest) = Some b /\ r_valid r' = r_valid r && b.
Proof.
  intros Hg rest Hl. induction Hl as [|v t Hv Ht IH]; intros i r.
  - exists r, true. cbn. rewrite andb_true_r. auto.
  - cbn [slice_additional map]. unfold rec. destruct (Hg (p ++ [SIdx i]) (p ++ [SIdx i]) v (proj1 Hv) (proj2 Hv)) as [x [Hx Hd]]. rewrite Hx. cbn [bind].
    destruct (IH (i + 1) (merge_for_slice r sl i x)) as [r' [b [H1 [H2 H3]]]].
    exists r', (r_valid x && b). split; [exact H1|]. split.
    + rewrite Hd, all_opt_cons_some, H2. reflexivity.
    + rewrite H3, r_valid_merge_for_slice, andb_assoc. reflexivity.
Qed.

(* the shapes of the array keywords on which the two sides are compared *)
Definition array_clean (s : schema) : Prop :=
  (s_items_one s = None \/ s_items_tuple s = None) /\
  s_items_tuple s <> Some [] /\
  (forall sa, s_add_items s <> Some (false, Some sa)).

Lemma Forall_skipn {A} (P : A -> Prop) n l : Forall P l -> Forall P (skipn n l).
Proof. revert l; induction n as [|n IH]; intros l H; [exact H|]. destruct l; [constructor|]. inversion H; subst. apply IH. assumption. Qed.

Lemma slice_agree p s id l : kids2 goods goodu s -> array_clean s -> Forall jd l ->
  (forall s1, s_items_one s = Some s1 -> Forall (Ds s1) l) ->
  (forall ss, s_items_tuple s = Some ss -> Forall (fun sv => Ds (fst sv) (snd sv)) (combine ss l)) ->
  (forall a sa ss, s_add_items s = Some (a, Some sa) -> s_items_tuple s = Some ss -> Forall (Ds sa) (skipn (length ss) l)) ->
  exists r, slice_validate N rec_sp p s (VArr id l) = Ok r /\ array_ok N recd s (VArr id l) = Some (r_valid r).
Proof.
  intros [K1 [K2 [K3 _]]] [Hex [Hne Hfa]] Hl H1s H2s H3s.
  assert (Hjs : forall c l0, Forall jd l0 -> Forall (Ds c) l0 -> Forall (jds c) l0).
  { intros c l0 Ha Hb. induction Ha as [|x t Hx Ht IHa]; [constructor|]. inversion Hb; subst. constructor; [split; assumption | apply IHa; assumption]. }
  assert (Hjc : forall ss l0, Forall jd l0 -> Forall (fun sv => Ds (fst sv) (snd sv)) (combine ss l0) -> Forall (fun sv => jds (fst sv) (snd sv)) (combine ss l0)).
  { induction ss as [|c ct IHs]; intros l0 Ha Hb; [constructor|]. destruct l0 as [|x t]; [constructor|]. cbn [combine] in *.
    inversion Ha; subst. inversion Hb; subst. constructor; [split; assumption | apply IHs; assumption]. }
  unfold slice_validate, array_ok.
  set (size := Z.of_nat (length l)).
  set (U := s_unique s && unique_items N [] l).
  assert (HU : (if s_unique s then negb (has_dup N l) else true) = negb U).
  { unfold U. destruct (s_unique s); [|reflexivity]. cbn [andb]. rewrite (unique_items_has_dup fin allow_null allow_arr N Heq_sym l Hl). reflexivity. }
  rewrite HU.
  assert (Hsizes : forall r3,
    r_valid (r_inc (if U then r_add (match s_max_items s with
                    | Some m => if m <? size then r_add (match s_min_items s with Some m0 => if size <? m0 then r_add r3 [mkMsg C_MIN_ITEMS p [m0]] else r3 | None => r3 end) [mkMsg C_MAX_ITEMS p [m]]
                                else match s_min_items s with Some m0 => if size <? m0 then r_add r3 [mkMsg C_MIN_ITEMS p [m0]] else r3 | None => r3 end
                    | None => match s_min_items s with Some m0 => if size <? m0 then r_add r3 [mkMsg C_MIN_ITEMS p [m0]] else r3 | None => r3 end
                    end) [mkMsg C_UNIQUE p []] else (match s_max_items s with
                    | Some m => if m <? size then r_add (match s_min_items s with Some m0 => if size <? m0 then r_add r3 [mkMsg C_MIN_ITEMS p [m0]] else r3 | None => r3 end) [mkMsg C_MAX_ITEMS p [m]]
                                else match s_min_items s with Some m0 => if size <? m0 then r_add r3 [mkMsg C_MIN_ITEMS p [m0]] else r3 | None => r3 end
                    | None => match s_min_items s with Some m0 => if size <? m0 then r_add r3 [mkMsg C_MIN_ITEMS p [m0]] else r3 | None => r3 end
                    end)))
    = (match s_max_items s with Some m => size <=? m | None => true end) && (match s_min_items s with Some m => m <=? size | None => true end) && negb U && r_valid r3).
  { intros r3. rewrite r_valid_inc. destruct U; rewrite ?r_valid_add;
    destruct (s_max_items s) as [mx|], (s_min_items s) as [mn|]; rewrite ?(Z.leb_antisym); cbn [andb negb];
      repeat match goal with |- context [?a <? ?b] => destruct (a <? b) end; rewrite ?r_valid_add; cbn [negb andb]; btauto. }
  destruct (s_items_one s) as [s1|] eqn:E1.
  - (* one schema *)
    destruct Hex as [Hex | Hex]; [discriminate|]. rewrite Hex. cbn [length Z.of_nat].
    destruct (items_one_agree s1 p id (K1 s1 eq_refl) l (Hjs s1 l Hl (H1s s1 eq_refl)) 0 new_res) as [r1 [b [H1 [H2 H3]]]]. rewrite H1. cbn [bind slice_items_tuple].
    assert (Hr3 : exists r3, (match s_add_items s with
                   | Some (allows, sa) =>
                       if 0 <? size
                       then match sa with
                            | Some sa0 => if 0 <? 0 then slice_additional rec_sp sa0 p id (skipn 0 l) 0 (if (0 <? 0) && negb allows then r_add r1 [mkMsg C_NO_ADD_ITEMS [] []] else r1)
                                          else Ok (if (0 <? 0) && negb allows then r_add r1 [mkMsg C_NO_ADD_ITEMS [] []] else r1)
                            | None => Ok (if (0 <? 0) && negb allows then r_add r1 [mkMsg C_NO_ADD_ITEMS [] []] else r1)
                            end
                       else Ok r1
                   | None => Ok r1
                   end) = Ok r3 /\ r_valid r3 = r_valid r1).
    { destruct (s_add_items s) as [[allows [sa|]]|]; cbn [Z.ltb Z.compare andb]; destruct (0 <? size); eexists; split; reflexivity. }
    destruct Hr3 as [r3 [Hr3 Hv3]]. rewrite Hr3. cbn [bind]. eexists. split; [reflexivity|].
    rewrite Hsizes, Hv3, H3, H2. cbn [all_opt r_valid new_res r_errs andb]. f_equal. btauto.
  - (* a tuple, or no items *)
    destruct (s_items_tuple s) as [ss|] eqn:E2.
    + cbn [bind]. destruct ss as [|s0 st]; [contradiction Hne; reflexivity|].
      destruct (items_tuple_agree p id (s0 :: st) (K2 _ eq_refl) l (Hjc (s0 :: st) l Hl (H2s _ eq_refl)) 0 new_res) as [r2 [b [H1 [H2 H3]]]]. rewrite H1. cbn [bind].
      set (tuple := s0 :: st) in *. set (isz := Z.of_nat (length tuple)).
      assert (Hpos : 0 <? isz = true) by (unfold isz, tuple; cbn [length]; apply Z.ltb_lt; lia).
      rewrite Hpos. cbn [andb].
      assert (Hrest : (isz <? size) = negb (match skipn (length tuple) l with [] => true | _ => false end)).
      { unfold isz, size. clear. revert l. induction (length tuple) as [|n IH]; intros l.
        - destruct l; cbn [skipn length]; [reflexivity|]. apply Z.ltb_lt. lia.
        - destruct l as [|x t]; [reflexivity|]. cbn [skipn length]. rewrite <- IH. rewrite !Nat2Z.inj_succ.
          destruct (Z.ltb_spec (Z.of_nat n) (Z.of_nat (length t))), (Z.ltb_spec (Z.succ (Z.of_nat n)) (Z.succ (Z.of_nat (length t)))); try reflexivity; lia. }
      destruct (s_add_items s) as [[allows [sa|]]|] eqn:E3.
      * (* schema *) destruct allows; [|exfalso; apply (Hfa sa); reflexivity]. cbn [negb].
        destruct (items_additional_agree sa p id (K3 _ _ eq_refl) (skipn (length tuple) l) (Hjs sa _ (Forall_skipn jd _ l Hl) (H3s _ sa _ eq_refl eq_refl)) isz r2) as [r3 [b3 [G1 [G2 G3]]]].
        destruct (isz <? size) eqn:Els.
        -- rewrite G1. cbn [bind]. eexists. split; [reflexivity|]. rewrite Hsizes, G3, H3, H2, G2. cbn [all_opt r_valid new_res r_errs andb]. f_equal. btauto.
        -- cbn [bind]. eexists. split; [reflexivity|]. rewrite Hsizes, H3, H2.
           assert (Hnil : skipn (length tuple) l = []).
           { rewrite Hrest in Els. destruct (skipn (length tuple) l); [reflexivity | discriminate]. }
           rewrite Hnil. cbn [map all_opt r_valid new_res r_errs andb]. f_equal. btauto.
      * (* additionalItems: true / false *)
        destruct (isz <? size) eqn:Els; cbn [bind]; eexists; (split; [reflexivity|]); rewrite Hsizes, H2; rewrite Hrest in Els;
          destruct allows; cbn [negb]; rewrite ?r_valid_add, ?H3; destruct (skipn (length tuple) l); try discriminate;
          cbn [all_opt r_valid new_res r_errs andb negb]; f_equal; btauto.
      * cbn [bind]. eexists. split; [reflexivity|]. rewrite Hsizes, H3, H2. cbn [all_opt r_valid new_res r_errs andb]. f_equal. btauto.
    + (* no items: additionalItems is ignored by both *)
      cbn [bind slice_items_tuple length Z.of_nat].
      assert (Hr3 : exists r3, (match s_add_items s with
                     | Some (allows, sa) =>
                         if 0 <? size
                         then match sa with
                              | Some sa0 => if 0 <? 0 then slice_additional rec_sp sa0 p id (skipn 0 l) 0 (if (0 <? 0) && negb allows then r_add new_res [mkMsg C_NO_ADD_ITEMS [] []] else new_res)
                                            else Ok (if (0 <? 0) && negb allows then r_add new_res [mkMsg C_NO_ADD_ITEMS [] []] else new_res)
                              | None => Ok (if (0 <? 0) && negb allows then r_add new_res [mkMsg C_NO_ADD_ITEMS [] []] else new_res)
                              end
                         else Ok new_res
                     | None => Ok new_res
                     end) = Ok r3 /\ r_valid r3 = true).
      { destruct (s_add_items s) as [[allows [sa|]]|]; cbn [Z.ltb Z.compare andb]; destruct (0 <? size); eexists; split; reflexivity. }
      destruct Hr3 as [r3 [Hr3 Hv3]]. rewrite Hr3. cbn [bind]. eexists. split; [reflexivity|].
      rewrite Hsizes, Hv3. cbn [all_opt andb]. f_equal; try btauto.
Qed.

Definition V (c : schema) (d : goval) : bool := match recd c d with Some b => b | None => true end.

Lemma goodc_V D c p q d : goodD D c -> jd d -> D c d -> exists r, rec_sp c p q d = Ok r /\ r_valid r = V c d /\ recd c d = Some (V c d).
Proof. intros Hg Hd HD. destruct (Hg p q d Hd HD) as [r [H1 H2]]. exists r. unfold V. rewrite H2. auto. Qed.

Lemma lookup_val_member m k : lookup_val m k = lookup_member m k.
Proof. induction m as [|[k' v] t IH]; [reflexivity|]. cbn [lookup_val lookup_member]. rewrite IH. reflexivity. Qed.

Lemma lookup_val_in (m : list (str * goval)) k v : NoDup (map fst m) -> (lookup_val m k = Some v <-> In (k, v) m).
Proof.
  induction m as [|[k' v'] t IH]; intros Hnd; [split; [discriminate | intros []]|]. cbn [lookup_val map fst] in *. inversion Hnd as [|x xs Hx Hxs]; subst.
  destruct (Z.eqb_spec k k') as [e|ne].
  - subst. split; [intros H; inversion H; subst; left; reflexivity|]. intros [H | H]; [inversion H; reflexivity|].
    exfalso. apply Hx. apply in_map_iff. exists (k', v). split; [reflexivity | exact H].
  - rewrite (IH Hxs). split; [intros H; right; exact H | intros [H | H]; [inversion H; congruence | exact H]].
Qed.

Lemma lookup_schema_in (l : list (str * schema)) k c : NoDup (map fst l) -> (lookup_schema l k = Some c <-> In (k, c) l).
Proof.
  induction l as [|[k' c'] t IH]; intros Hnd; [split; [discriminate | intros []]|]. cbn [lookup_schema map fst] in *. inversion Hnd as [|x xs Hx Hxs]; subst.
  destruct (Z.eqb_spec k' k) as [e|ne].
  - subst. split; [intros H; inversion H; subst; left; reflexivity|]. intros [H | H]; [inversion H; reflexivity|].
    exfalso. apply Hx. apply in_map_iff. exists (k, c). split; [reflexivity | exact H].
  - rewrite (IH Hxs). split; [intros H; right; exact H | intros [H | H]; [inversion H; congruence | exact H]].
Qed.

(* iterating over the declared properties and looking the member up = iterating over the members and looking the property up *)
Lemma swap_iteration (F : schema -> goval -> bool) (props : list (str * schema)) (m : list (str * goval)) :
  NoDup (map fst props) -> NoDup (map fst m) ->
  forallb (fun kv => match lookup_schema props (fst kv) with Some ps => F ps (snd kv) | None => true end) m =
  forallb (fun kp => match lookup_val m (fst kp) with Some v => F (snd kp) v | None => true end) props.
Proof.
  intros Hp Hm. apply eq_true_iff_eq. rewrite !forallb_forall. split.
  - intros H [k ps] Hin. cbn [fst snd]. destruct (lookup_val m k) as [v|] eqn:E; [|reflexivity].
    apply (lookup_val_in m k v Hm) in E. specialize (H (k, v) E). cbn [fst snd] in H.
    rewrite (proj2 (lookup_schema_in props k ps Hp) Hin) in H. exact H.
  - intros H [k v] Hin. cbn [fst snd]. destruct (lookup_schema props k) as [ps|] eqn:E; [|reflexivity].
    apply (lookup_schema_in props k ps Hp) in E. specialize (H (k, ps) E). cbn [fst snd] in H.
    rewrite (proj2 (lookup_val_in m k v Hm) Hin) in H. exact H.
Qed.


(* ------------------------------------------------------------------ dependencies *)

Definition present (m : list (str * goval)) (k : str) : bool := match lookup_member m k with Some _ => true | None => false end.

(* the verdict of one dependency on the object d with members m *)
Definition dep_verdict (d : goval) (m : list (str * goval)) (dep : option schema * list str) : bool :=
  match fst dep with Some c => V c d | None => forallb (present m) (snd dep) end.

Definition deps_verdict (s : schema) (d : goval) : bool :=
  match d with
  | VObj _ m => forallb (fun kd => if present m (fst kd) then dep_verdict d m (snd kd) else true) (s_deps s)
  | _ => true
  end.

Fixpoint find_dep (l : list (str * (option schema * list str))) (key : str) : option (option schema * list str) :=
  match l with
  | [] => None
  | (k, dep) :: l' => if Z.eqb k key then Some dep else find_dep l' key
  end.

Lemma find_inline key : forall l : list (str * (option schema * list str)),
  (fix find (l : list (str * (option schema * list str))) :=
     match l with
     | [] => None
     | (k, dep) :: l' => if Z.eqb k key then Some dep else find l'
     end) l = find_dep l key.
Proof. induction l as [|[k dep] t IH]; [reflexivity|]. cbn [find_dep]. rewrite <- IH. reflexivity. Qed.

Lemma find_dep_in l k dep : NoDup (map fst l) -> (find_dep l k = Some dep <-> In (k, dep) l).
Proof.
  induction l as [|[k' dep'] t IH]; intros Hnd; [split; [discriminate | intros []]|]. cbn [find_dep map fst] in *. inversion Hnd as [|x xs Hx Hxs]; subst.
  destruct (Z.eqb_spec k' k) as [e|ne].
  - subst. split; [intros H; inversion H; subst; left; reflexivity|]. intros [H | H]; [inversion H; reflexivity|].
    exfalso. apply Hx. apply in_map_iff. exists (k, dep). split; [reflexivity | exact H].
  - rewrite (IH Hxs). split; [intros H; right; exact H | intros [H | H]; [inversion H; congruence | exact H]].
Qed.

Lemma swap_deps (F : option schema * list str -> bool) (deps : list (str * (option schema * list str))) (m : list (str * goval)) :
  NoDup (map fst deps) -> NoDup (map fst m) ->
  forallb (fun kv => match find_dep deps (fst kv) with Some dep => F dep | None => true end) m =
  forallb (fun kd => if present m (fst kd) then F (snd kd) else true) deps.
Proof.
  intros Hd Hm. apply eq_true_iff_eq. rewrite !forallb_forall. split.
  - intros H [k dep] Hin. cbn [fst snd]. unfold present. destruct (lookup_member m k) as [v|] eqn:E; [|reflexivity].
    rewrite <- lookup_val_member in E. apply (lookup_val_in m k v Hm) in E. specialize (H (k, v) E). cbn [fst snd] in H.
    rewrite (proj2 (find_dep_in deps k dep Hd) Hin) in H. exact H.
  - intros H [k v] Hin. cbn [fst snd]. destruct (find_dep deps k) as [dep|] eqn:E; [|reflexivity].
    apply (find_dep_in deps k dep Hd) in E. specialize (H (k, dep) E). cbn [fst snd] in H. unfold present in H.
    pose proof (proj2 (lookup_val_in m k v Hm) Hin) as Hl. rewrite lookup_val_member in Hl. rewrite Hl in H. exact H.
Qed.

(* L1: the loop over the members of the object *)
Lemma dependencies_agree s p d all : kids2 goods goodu s -> jd d -> (forall c, In c (uk s) -> Du c d) -> forall m main,
  exists main', dependencies rec_sp s p d m all main = Ok main' /\
                r_valid main' = r_valid main &&
                forallb (fun kv => match find_dep (s_deps s) (fst kv) with Some dep => dep_verdict d all dep | None => true end) m.
Proof.
  intros [_ [_ [_ [_ [_ [_ [_ [_ [_ [_ Kd]]]]]]]]]] Hd HDu. induction m as [|[key v] t IH]; intros main; [exists main; cbn; rewrite andb_true_r; auto|].
  cbn [dependencies forallb fst].
  rewrite (find_inline key (s_deps s)).
  destruct (find_dep (s_deps s) key) as [[[ds|] props]|] eqn:E.
  - assert (Hg : goodu ds /\ In (Some ds) (map (fun kd => fst (snd kd)) (s_deps s))).
    { clear - E Kd. induction Kd as [|[k dep] l Hk Hl IHl]; [discriminate|]. cbn [find_dep] in E. cbn [map].
      destruct (Z.eqb k key); [inversion E; subst; split; [apply Hk; reflexivity | left; reflexivity] | destruct (IHl E) as [A B]; split; [exact A | right; exact B]]. }
    destruct Hg as [Hg Hin].
    assert (HDds : Du ds d).
    { apply HDu. unfold uk. rewrite !in_app_iff. right; right; right; right. apply in_flat_map. apply in_map_iff in Hin. destruct Hin as [kd [E1 E2]].
      exists kd. split; [exact E2 | rewrite E1; left; reflexivity]. }
    unfold rec. destruct (goodc_V Du ds (p ++ [SDot key]) (p ++ [SDot key]) d Hg Hd HDds) as [x [Hx [Hv _]]]. rewrite Hx. cbn [bind].
    destruct (IH (merge main (Some x))) as [main' [H1 H2]]. exists main'. split; [exact H1|].
    rewrite H2, r_valid_merge, Hv. unfold dep_verdict. cbn [fst]. btauto.
  - destruct (IH (r_add main (flat_map (fun dk => match lookup_val all dk with Some _ => [] | None => [mkMsg C_DEPENDENCY p [dk]] end) props)))
      as [main' [H1 H2]]. exists main'. split; [exact H1|]. rewrite H2, r_valid_add. unfold dep_verdict. cbn [fst snd].
    assert (Hp : (match flat_map (fun dk => match lookup_val all dk with Some _ => [] | None => [mkMsg C_DEPENDENCY p [dk]] end) props with [] => true | _ => false end)
                 = forallb (present all) props).
    { clear. induction props as [|dk t IH]; [reflexivity|]. cbn [flat_map forallb]. unfold present at 1. rewrite (lookup_val_member all dk).
      destruct (lookup_member all dk); [exact IH | reflexivity]. }
    rewrite Hp. btauto.
  - destruct (IH main) as [main' [H1 H2]]. exists main'. split; [exact H1 | rewrite H2; reflexivity].
Qed.

(* L0: the list of dependencies *)
Lemma deps_L0 s id m : kids2 goods goodu s -> jd (VObj id m) -> (forall c, In c (uk s) -> Du c (VObj id m)) ->
  all_opt (map (fun dep : str * (option schema * list str) =>
                  let '(k, (ds, props)) := dep in
                  match lookup_member m k with
                  | None => Some true
                  | Some _ => match ds with
                              | Some dsch => recd dsch (VObj id m)
                              | None => Some (forallb (fun pk => match lookup_member m pk with Some _ => true | None => false end) props)
                              end
                  end) (s_deps s)) = Some (deps_verdict s (VObj id m)).
Proof.
  intros [_ [_ [_ [_ [_ [_ [_ [_ [_ [_ Kd]]]]]]]]]] Hd HDu. unfold deps_verdict. apply all_opt_some_forallb'.
  intros [k [ds props]] Hin. cbn [fst snd]. unfold present, dep_verdict. cbn [fst snd].
  destruct (lookup_member m k); [|reflexivity]. destruct ds as [c|]; [|reflexivity].
  assert (Hg : goodu c) by (apply (proj1 (Forall_forall _ _) Kd (k, (Some c, props)) Hin); reflexivity).
  assert (HDc : Du c (VObj id m)).
  { apply HDu. unfold uk. rewrite !in_app_iff. right; right; right; right. apply in_flat_map. exists (k, (Some c, props)). split; [exact Hin | left; reflexivity]. }
  destruct (goodc_V Du c [] [] (VObj id m) Hg Hd HDc) as [_ [_ [_ Hr]]]. exact Hr.
Qed.

(* ------------------------------------------------------------------ allOf / anyOf / not *)

Lemma keep_relevant_valid x : r_valid x = true -> r_valid (keep_relevant x) = true.
Proof. intros H. apply r_valid_nil in H. unfold keep_relevant, r_valid. cbn [r_errs]. rewrite H. reflexivity. Qed.

Lemma count_true_goodc d : jd d -> forall vs, (forall c, In c vs -> Du c d) -> Forall goodu vs ->
  exists c, count_true (map (fun c => recd c d) vs) = Some c /\ 0 <= c.
Proof.
  intros Hd vs HDu Hvs. induction Hvs as [|s1 t Hg Ht IH]; [exists 0; split; [reflexivity | lia]|].
  destruct (IH (fun c Hc => HDu c (or_intror Hc))) as [c [Hc Hpos]].
  destruct (Hg [] [] d Hd (HDu s1 (or_introl eq_refl))) as [x [_ Hx]]. cbn [map count_true]. rewrite Hx, Hc.
  destruct (r_valid x); eexists; split; try reflexivity; lia.
Qed.

Lemma any_of_agree p d : jd d -> forall vs, (forall c, In c vs -> Du c d) -> Forall goodu vs -> forall main keep best,
  exists mk c, any_of rec_sp vs p d main keep best = Ok mk /\
               count_true (map (fun c => recd c d) vs) = Some c /\
               r_valid (fst mk) && r_valid (snd mk) = r_valid main && (0 <? c).
Proof.
  intros Hd vs HDu Hvs. induction Hvs as [|s1 t Hg Ht IH]; intros main keep best.
  - eexists. exists 0. cbn [any_of map count_true]. split; [reflexivity|]. split; [reflexivity|]. cbn [fst snd].
    rewrite r_valid_merge, r_valid_add. cbn [Z.ltb Z.compare]. rewrite !andb_false_r. reflexivity.
  - specialize (IH (fun c Hc => HDu c (or_intror Hc))).
    cbn [any_of map count_true]. unfold rec. destruct (Hg p p d Hd (HDu s1 (or_introl eq_refl))) as [x [Hx Hdx]]. rewrite Hx, Hdx. cbn [bind].
    destruct (count_true_goodc d Hd t (fun c Hc => HDu c (or_intror Hc)) Ht) as [c [Hc Hpos]].
    destruct (r_valid x) eqn:Ev.
    + eexists. exists (c + 1). rewrite Hc. split; [reflexivity|]. split; [reflexivity|]. cbn [fst snd].
      rewrite r_valid_merge, Ev. cbn [r_valid new_res r_errs]. replace (0 <? c + 1) with true by (symmetry; apply Z.ltb_lt; lia). btauto.
    + assert (Hgen : forall best', exists mk c0, any_of rec_sp t p d main (merge keep (Some (keep_relevant x))) best' = Ok mk /\
                       Some c = Some c0 /\ r_valid (fst mk) && r_valid (snd mk) = r_valid main && (0 <? c0)).
      { intros best'. destruct (IH main (merge keep (Some (keep_relevant x))) best') as [mk [c0 [H1 [H2 H3]]]].
        exists mk, c0. rewrite <- Hc, H2. auto. }
      rewrite Hc. destruct best as [b|]; [destruct (r_mc b <? r_mc x)|];
        match goal with |- exists mk c0, any_of _ _ _ _ _ _ ?bb = _ /\ _ => destruct (Hgen bb) as [mk' [c0' [H1 [H2 H3]]]] end;
        exists mk', c0'; (split; [exact H1 | split; [exact H2 | exact H3]]).
Qed.

Lemma all_of_agree p d : jd d -> forall vs, (forall c, In c vs -> Du c d) -> Forall goodu vs -> forall main keep validated,
  exists main' keep' validated' b, all_of rec_sp vs p d main keep validated = Ok (main', keep', validated') /\
    all_opt (map (fun c => recd c d) vs) = Some b /\
    r_valid main' = r_valid main && b /\
    (b = true -> r_valid keep' = r_valid keep /\ validated' = validated + Z.of_nat (length vs)).
Proof.
  intros Hd vs HDu Hvs. induction Hvs as [|s1 t Hg Ht IH]; intros main keep validated.
  - exists main, keep, validated, true. cbn. rewrite andb_true_r, Z.add_0_r. auto.
  - specialize (IH (fun c Hc => HDu c (or_intror Hc))).
    cbn [all_of map]. unfold rec. destruct (Hg p p d Hd (HDu s1 (or_introl eq_refl))) as [x [Hx Hdx]]. rewrite Hx, Hdx. cbn [bind].
    destruct (IH (merge main (Some x)) (merge keep (Some (keep_relevant x))) (if r_valid x then validated + 1 else validated))
      as [main' [keep' [validated' [b [H1 [H2 [H3 H4]]]]]]].
    exists main', keep', validated', (r_valid x && b). split; [exact H1|]. split; [rewrite all_opt_cons_some, H2; reflexivity|].
    split; [rewrite H3, r_valid_merge, andb_assoc; reflexivity|].
    intros Hb. apply andb_true_iff in Hb. destruct Hb as [Hvx Hb]. destruct (H4 Hb) as [G1 G2]. split.
    + rewrite G1, r_valid_merge, (keep_relevant_valid x Hvx), andb_true_r. reflexivity.
    + rewrite G2, Hvx. cbn [length]. rewrite Nat2Z.inj_succ. lia.
Qed.

(* oneOf: the number of alternatives the code counts as validated is the number draft 4 counts; what is kept aside of the
   failed alternatives (keepRelevantErrors) is empty on this data *)
Lemma one_of_agree p d : jd d -> forall vs, (forall c, In c vs -> Du c d) -> Forall goodu vs -> forall keep first best validated,
  r_valid keep = true -> (forall f, first = Some f -> r_valid f = true) ->
  exists first' best' keep' c,
    one_of rec_sp vs p d keep first best validated = Ok (first', best', validated + c, keep') /\
    count_true (map (fun c => recd c d) vs) = Some c /\ 0 <= c /\
    r_valid keep' = true /\ (forall f, first' = Some f -> r_valid f = true).
Proof.
  intros Hd vs HDu Hvs. induction Hvs as [|s1 t Hg Ht IH]; intros keep first best validated Hk Hf.
  - exists first, best, keep, 0. cbn [one_of map count_true]. rewrite Z.add_0_r. repeat split; auto. lia.
  - specialize (IH (fun c Hc => HDu c (or_intror Hc))).
    cbn [one_of map count_true]. unfold rec. destruct (Hg p p d Hd (HDu s1 (or_introl eq_refl))) as [x [Hx Hdx]]. rewrite Hx, Hdx. cbn [bind].
    pose proof (Hquiet s1 p p d Hd) as Hq. rewrite Hx in Hq. unfold oquiet in Hq.
    assert (Hk' : r_valid (merge keep (Some (keep_relevant x))) = true) by (rewrite r_valid_merge, Hk, (res_quiet_keep x Hq); reflexivity).
    destruct (r_valid x) eqn:Ev.
    + destruct (IH new_res (match first with None => Some x | Some _ => first end) best (validated + 1)) as [f' [b' [k' [c [H1 [H2 [H3 [H4 H5]]]]]]]].
      * reflexivity.
      * intros f E. destruct first as [f0|]; [apply Hf; exact E | inversion E; subst; exact Ev].
      * exists f', b', k', (c + 1). rewrite H2. replace (validated + (c + 1)) with (validated + 1 + c) by lia.
        split; [exact H1|]. split; [reflexivity|]. split; [lia|]. split; assumption.
    + assert (Hgen : forall best0, exists first' best' keep' c,
                one_of rec_sp t p d (merge keep (Some (keep_relevant x))) first best0 validated = Ok (first', best', validated + c, keep') /\
                match count_true (map (fun c0 => recd c0 d) t) with Some c0 => Some c0 | None => None end = Some c /\ 0 <= c /\
                r_valid keep' = true /\ (forall f, first' = Some f -> r_valid f = true)).
      { intros best0. destruct (IH (merge keep (Some (keep_relevant x))) first best0 validated Hk' Hf) as [f' [b' [k' [c [H1 [H2 [H3 [H4 H5]]]]]]]].
        exists f', b', k', c. rewrite H2. repeat split; assumption. }
      match goal with |- exists _ _ _ _, (if ?b then _ else _) = _ /\ _ => destruct b end; apply Hgen.
Qed.

Definition comp_clean (s : schema) : Prop := NoDup (map fst (s_deps s)).

Lemma props_agree p s d : kids2 goods goodu s -> comp_clean s -> jd d -> (forall c, In c (uk s) -> Du c d) ->
  exists r bc, props_validate rec_sp p s d = Ok r /\ composition_ok recd s d = Some bc /\ r_valid r = bc && deps_verdict s d.
Proof.
  intros K Hdeps Hd HDu. unfold comp_clean in Hdeps.
  assert (HDall : forall c, In c (s_all_of s) -> Du c d) by (intros c Hc; apply HDu; unfold uk; rewrite !in_app_iff; left; exact Hc).
  assert (HDany : forall c, In c (s_any_of s) -> Du c d) by (intros c Hc; apply HDu; unfold uk; rewrite !in_app_iff; right; left; exact Hc).
  assert (HDone : forall c, In c (s_one_of s) -> Du c d) by (intros c Hc; apply HDu; unfold uk; rewrite !in_app_iff; right; right; left; exact Hc).
  assert (HDnot : forall c, s_not s = Some c -> Du c d) by (intros c Hc; apply HDu; unfold uk; rewrite !in_app_iff, Hc; right; right; right; left; left; reflexivity). pose proof K as [_ [_ [_ [_ [_ [_ [Kall [Kany [Kone [Knot _]]]]]]]]]].
  unfold props_validate, composition_ok. cbv zeta.
  (* anyOf *)
  assert (Hany : exists a bany, (match s_any_of s with
                                 | [] => Ok (new_res, None)
                                 | vs => do mk <- any_of rec_sp vs p d new_res new_res None; Ok (fst mk, Some (snd mk))
                                 end) = Ok a /\
                 (match s_any_of s with
                  | [] => Some true
                  | l => match count_true (map (fun c => recd c d) l) with Some c => Some (0 <? c) | None => None end
                  end) = Some bany /\
                 r_valid (fst a) && (match snd a with Some k => r_valid k | None => true end) = bany).
  { destruct (s_any_of s) as [|v0 vt] eqn:E; [exists (new_res, None), true; auto|].
    try rewrite E in HDany. destruct (any_of_agree p d Hd (v0 :: vt) HDany Kany new_res new_res None) as [mk [c [H1 [H2 H3]]]].
    rewrite H1, H2. cbn [bind]. exists (fst mk, Some (snd mk)), (0 <? c). cbn [fst snd]. rewrite H3. auto. }
  destruct Hany as [[main1 keep_any] [bany [Ha [Hda Hva]]]]. rewrite Ha, Hda. cbn [bind fst snd] in *.
  (* oneOf *)
  assert (Hone : exists b bone, (match s_one_of s with
                                 | [] => Ok (main1, None)
                                 | vs =>
                                     do x <- one_of rec_sp vs p d new_res None None 0;
                                     let '(first, best, validated, keep) := x in
                                     Ok (if Z.eqb validated 0 then merge (r_add main1 [mkMsg C_ONE_OF_NONE p []]) best
                                         else if Z.eqb validated 1 then merge main1 first
                                         else merge (r_add main1 [mkMsg C_ONE_OF_MANY p [validated]]) best, Some keep)
                                 end) = Ok b /\
                 (match s_one_of s with
                  | [] => Some true
                  | l => match count_true (map (fun c => recd c d) l) with Some c => Some (Z.eqb c 1) | None => None end
                  end) = Some bone /\
                 r_valid (fst b) && (match snd b with Some k => r_valid k | None => true end) = r_valid main1 && bone).
  { destruct (s_one_of s) as [|v0 vt] eqn:E; [exists (main1, None), true; cbn; rewrite !andb_true_r; auto|].
    try rewrite E in HDone. destruct (one_of_agree p d Hd (v0 :: vt) HDone Kone new_res None None 0 eq_refl) as [f' [b' [k' [c [H1 [H2 [H3 [H4 H5]]]]]]]]; [intros f E0; discriminate|].
    rewrite H1, H2. cbn [bind]. rewrite Z.add_0_l. eexists. exists (Z.eqb c 1). split; [reflexivity|]. split; [reflexivity|]. cbn [fst snd]. rewrite H4, andb_true_r.
    destruct (Z.eqb_spec c 0) as [e0|n0].
    - subst c. cbn [Z.eqb]. rewrite r_valid_merge, r_valid_add, !andb_false_r. reflexivity.
    - destruct (Z.eqb_spec c 1) as [e1|n1].
      + rewrite r_valid_merge. destruct f' as [f|]; [rewrite (H5 f eq_refl)|]; rewrite !andb_true_r; reflexivity.
      + rewrite r_valid_merge, r_valid_add, !andb_false_r. reflexivity. }
  destruct Hone as [[main2 keep_one] [bone [Ho [Hdo Hvo]]]]. cbv zeta in Ho. rewrite Ho, Hdo. cbn [bind fst snd] in *.
  (* allOf *)
  assert (Hall : exists cc ball, (match s_all_of s with
                                  | [] => Ok (main2, None)
                                  | vs => do x <- all_of rec_sp vs p d main2 new_res 0;
                                          let '(main', keep, validated) := x in
                                          Ok (if Z.eqb validated 0 then r_add main' [mkMsg C_ALL_OF_NONE p []]
                                              else if Z.eqb validated (Z.of_nat (length vs)) then main'
                                              else r_add main' [mkMsg C_ALL_OF_SOME p []], Some keep)
                                  end) = Ok cc /\
                 all_opt (map (fun c => recd c d) (s_all_of s)) = Some ball /\
                 r_valid (fst cc) && (match snd cc with Some k => r_valid k | None => true end) = r_valid main2 && ball).
  { destruct (s_all_of s) as [|v0 vt] eqn:E; [exists (main2, None), true; cbn; rewrite !andb_true_r; auto|].
    try rewrite E in HDall. destruct (all_of_agree p d Hd (v0 :: vt) HDall Kall main2 new_res 0) as [main' [keep' [validated' [b [H1 [H2 [H3 H4]]]]]]].
    cbv zeta. rewrite H1, H2. cbn [bind]. eexists. exists b. split; [reflexivity|]. split; [reflexivity|]. cbn [fst snd].
    destruct b.
    - destruct (H4 eq_refl) as [G1 G2]. rewrite G2, G1. cbn [length]. rewrite Z.add_0_l, Nat2Z.inj_succ.
      destruct (Z.eqb_spec (Z.succ (Z.of_nat (length vt))) 0) as [e|_]; [lia|]. rewrite Z.eqb_refl, H3. cbn [r_valid new_res r_errs]. btauto.
    - rewrite andb_false_r in *.
      assert (Hf : forall r0, r_valid r0 = false ->
                r_valid (if validated' =? 0 then r_add main' [mkMsg C_ALL_OF_NONE p []]
                         else if validated' =? Z.of_nat (length (v0 :: vt)) then main' else r_add main' [mkMsg C_ALL_OF_SOME p []]) = false).
      { intros _ _. destruct (validated' =? 0); [rewrite r_valid_add, H3; reflexivity|].
        destruct (validated' =? Z.of_nat (length (v0 :: vt))); [exact H3 | rewrite r_valid_add, H3; reflexivity]. }
      rewrite (Hf main' H3). reflexivity. }
  destruct Hall as [[main3 keep_all] [ball [Hc [Hdc Hvc]]]]. cbv zeta in Hc. rewrite Hc, Hdc. cbn [bind fst snd] in *.
  (* not *)
  assert (Hnot : exists main4 bnot, (match s_not s with
                                     | None => Ok main3
                                     | Some ns => do x <- rec rec_sp ns p d; Ok (if r_valid x then r_add main3 [mkMsg C_NOT p []] else main3)
                                     end) = Ok main4 /\
                 (match s_not s with None => Some true | Some ns => match recd ns d with Some b => Some (negb b) | None => None end end) = Some bnot /\
                 r_valid main4 = r_valid main3 && bnot).
  { destruct (s_not s) as [ns|] eqn:E; [|exists main3, true; rewrite andb_true_r; auto].
    unfold rec. destruct (Knot ns eq_refl p p d Hd (HDnot ns eq_refl)) as [x [Hx Hdx]]. rewrite Hx, Hdx. cbn [bind].
    eexists. exists (negb (r_valid x)). split; [reflexivity|]. split; [reflexivity|].
    destruct (r_valid x); [rewrite r_valid_add|]; cbn [negb]; btauto. }
  destruct Hnot as [main4 [bnot [Hn [Hdn Hvn]]]]. rewrite Hn, Hdn. cbn [bind].
  (* dependencies *)
  assert (Hdep : exists main5, (match s_deps s, d with
                                | _ :: _, VObj _ m => dependencies rec_sp s p d m m main4
                                | _, _ => Ok main4
                                end) = Ok main5 /\ r_valid main5 = r_valid main4 && deps_verdict s d).
  { destruct (s_deps s) as [|d0 dt] eqn:Ed.
    - exists main4. split; [reflexivity|]. unfold deps_verdict. rewrite Ed. destruct d; cbn [forallb]; rewrite andb_true_r; reflexivity.
    - destruct d as [| | | | | | | |id m]; try (exists main4; split; [reflexivity | cbn [deps_verdict]; rewrite andb_true_r; reflexivity]).
      destruct (dependencies_agree s p (VObj id m) m K Hd HDu m main4) as [main5 [G1 G2]]. exists main5. split; [exact G1|].
      rewrite G2. f_equal. unfold deps_verdict. rewrite <- Ed in *. apply jd_obj in Hd. destruct Hd as [_ Hndm].
      apply (swap_deps (dep_verdict (VObj id m) m) (s_deps s) m Hdeps Hndm). }
  destruct Hdep as [main5 [Hm5 Hv5]]. rewrite Hm5. cbn [bind].
  eexists. eexists. split; [reflexivity|]. split; [reflexivity|].
  rewrite !r_valid_merge, r_valid_inc, Hv5, Hvn.
  set (KALL := match keep_all with Some k => r_valid k | None => true end) in *.
  set (KONE := match keep_one with Some k => r_valid k | None => true end) in *.
  set (KANY := match keep_any with Some k => r_valid k | None => true end) in *.
  transitivity ((r_valid main3 && KALL) && KONE && KANY && bnot && deps_verdict s d); [btauto|].
  rewrite Hvc.
  transitivity ((r_valid main2 && KONE) && KANY && ball && bnot && deps_verdict s d); [btauto|].
  rewrite Hvo.
  transitivity ((r_valid main1 && KANY) && bone && ball && bnot && deps_verdict s d); [btauto|].
  rewrite Hva. btauto.
Qed.

(* ------------------------------------------------------------------ objects *)

(* patternProperties: every pattern compiles (an invalid one is skipped by the code) and, as in a Go map, no pattern twice *)
Definition pats_ok (s : schema) : Prop :=
  Forall (fun pp => o_re_ok OR (fst pp) = true) (s_pat_props s) /\ NoDup (map fst (s_pat_props s)).

Definition object_clean (s : schema) : Prop :=
  pats_ok s /\
  (forall k ps, In (k, ps) (s_props s) -> s_default ps <> None -> ~ In k (s_required s)) /\
  NoDup (map fst (s_props s)) /\
  (forall sa, s_add_props s <> Some (false, Some sa)).

Definition plain_members (m : list (str * goval)) : Prop := Forall (fun kv => plain_key (fst kv) /\ jd (snd kv)) m.

(* ---- patternProperties ---- *)
Definition pmatch (k : str) (pp : str * schema) : bool := o_re_match OR (fst pp) k.
Definition matched_any (s : schema) (k : str) : bool := existsb (pmatch k) (s_pat_props s).
Definition PVl (pps : list (str * schema)) (k : str) (v : goval) : bool := forallb (fun pp => negb (pmatch k pp) || V (snd pp) v) pps.
Definition PV (s : schema) (k : str) (v : goval) : bool := PVl (s_pat_props s) k v.

Lemma pattern_property_agree pps p key value :
  Forall (fun pp => o_re_ok OR (fst pp) = true) pps -> Forall (fun pp => goods (snd pp)) pps -> jd value ->
  (forall pp, In pp pps -> pmatch key pp = true -> Ds (snd pp) value) ->
  forall r matched pats, exists r' M L,
    pattern_property OR rec_sp pps p key value r matched pats = Ok (M, L, r') /\
    M = matched || existsb (pmatch key) pps /\ L = pats ++ filter (pmatch key) pps /\
    r_valid r' = r_valid r && PVl pps key value.
Proof.
  intros Hok Hg Hv HD. induction pps as [|[k ps] t IH]; intros r matched pats.
  - exists r, matched, pats. cbn [pattern_property existsb filter PVl forallb]. rewrite orb_false_r, app_nil_r, andb_true_r. auto.
  - inversion Hok as [|x xs Hk Hks]; subst. inversion Hg as [|y ys Hgp Hgs]; subst. cbn [fst snd] in Hk, Hgp.
    cbn [pattern_property existsb filter PVl forallb]. change (pmatch key (k, ps)) with (o_re_match OR k key). cbn [fst snd]. rewrite Hk. cbn [negb].
    destruct (o_re_match OR k key) eqn:Em; cbn [negb orb].
    + unfold rec. destruct (goodc_V Ds ps (p ++ [SDot key]) (p ++ [SDot key]) value Hgp Hv (HD (k, ps) (or_introl eq_refl) Em)) as [x [Hx [Hvx _]]]. rewrite Hx. cbn [bind].
      destruct (IH Hks Hgs (fun pp Hpp => HD pp (or_intror Hpp)) (merge r (Some x)) true (pats ++ [(k, ps)])) as [r' [M [L [H1 [H2 [H3 H4]]]]]].
      exists r', M, L. split; [exact H1|]. split; [rewrite H2, orb_true_r; reflexivity|]. split; [rewrite H3, <- app_assoc; reflexivity|].
      rewrite H4, r_valid_merge, Hvx. fold (PVl t key value). btauto.
    + destruct (IH Hks Hgs (fun pp Hpp => HD pp (or_intror Hpp)) r matched pats) as [r' [M [L [H1 [H2 [H3 H4]]]]]]. exists r', M, L. repeat split; assumption.
Qed.

Lemma vpp_agree s p key value r : pats_ok s -> kids2 goods goodu s -> jd value ->
  (forall pp, In pp (s_pat_props s) -> pmatch key pp = true -> Ds (snd pp) value) ->
  exists r', validate_pattern_property OR rec_sp s p key value r = Ok (matched_any s key, filter (pmatch key) (s_pat_props s), r') /\
             r_valid r' = r_valid r && PV s key value.
Proof.
  intros [Hok _] [_ [_ [_ [_ [Kpp _]]]]] Hv HD. unfold validate_pattern_property, matched_any, PV.
  destruct (s_pat_props s) as [|pp0 ppt] eqn:E; [exists r; cbn; rewrite andb_true_r; auto|].
  destruct (pattern_property_agree (pp0 :: ppt) p key value Hok Kpp Hv HD r false []) as [r' [M [L [H1 [H2 [H3 H4]]]]]].
  exists r'. rewrite H1, H2, H3. auto.
Qed.

Lemma forallb_filter_implied {A} (m v : A -> bool) l :
  forallb (fun x => negb (m x) || v x) l && forallb v (filter m l) = forallb (fun x => negb (m x) || v x) l.
Proof. induction l as [|x t IH]; [reflexivity|]. cbn [forallb filter]. destruct (m x); cbn [negb orb forallb]; rewrite <- IH; btauto. Qed.

Lemma merge_patterns_agree s p obj key value : pats_ok s -> kids2 goods goodu s -> jd value -> forall pats,
  (forall pp, In pp pats -> In pp (s_pat_props s) /\ Ds (snd pp) value) -> forall r,
  exists r', merge_patterns rec_sp pats s p obj key value r = Ok r' /\ r_valid r' = r_valid r && forallb (fun pp => V (snd pp) value) pats.
Proof.
  intros [_ Hnd] [_ [_ [_ [_ [Kpp _]]]]] Hv. induction pats as [|[pn ps'] t IH]; intros Hin r; [exists r; cbn; rewrite andb_true_r; auto|].
  cbn [merge_patterns forallb snd].
  assert (Hl : lookup_schema (s_pat_props s) pn = Some ps') by (apply (lookup_schema_in _ pn ps' Hnd); apply (Hin (pn, ps')); left; reflexivity).
  rewrite Hl. assert (Hg : goods ps') by (apply (lookup_schema_forall goods _ _ _ Kpp Hl)).
  unfold rec. destruct (goodc_V Ds ps' (p ++ [SDot key]) (p ++ [SDot key]) value Hg Hv (proj2 (Hin (pn, ps') (or_introl eq_refl)))) as [x [Hx [Hvx _]]]. rewrite Hx. cbn [bind].
  destruct (IH (fun pp Hpp => Hin pp (or_intror Hpp)) (merge_for_field r obj key x)) as [r' [H1 H2]]. exists r'. split; [exact H1|].
  rewrite H2, r_valid_merge_for_field, Hvx. btauto.
Qed.

Lemma pattern_loop_agree s p obj m : pats_ok s -> kids2 goods goodu s -> plain_members m ->
  (forall k v pp, In (k, v) m -> In pp (s_pat_props s) -> pmatch k pp = true -> Ds (snd pp) v) -> forall r,
  exists r', pattern_loop OR rec_sp s p obj m r = Ok r' /\ r_valid r' = r_valid r && forallb (fun kv => PV s (fst kv) (snd kv)) m.
Proof.
  intros Hp K Hm. induction Hm as [|[k v] t [_ Hjv] Ht IH]; intros HD r; [exists r; cbn; rewrite andb_true_r; auto|]. cbn [snd] in Hjv.
  specialize (IH (fun k0 v0 pp Hin => HD k0 v0 pp (or_intror Hin))).
  cbn [pattern_loop forallb fst snd]. destruct (vpp_agree s p k v r Hp K Hjv (fun pp => HD k v pp (or_introl eq_refl))) as [r1 [H1 Hv1]]. rewrite H1. cbn [bind].
  destruct (has_prop s k || negb (matched_any s k)).
  - destruct (IH r1) as [r' [G1 G2]]. exists r'. split; [exact G1|]. rewrite G2, Hv1. btauto.
  - destruct (merge_patterns_agree s p obj k v Hp K Hjv (filter (pmatch k) (s_pat_props s))
                (fun pp Hpp => conj (proj1 (proj1 (filter_In _ _ _) Hpp)) (HD k v pp (or_introl eq_refl) (proj1 (proj1 (filter_In _ _ _) Hpp)) (proj2 (proj1 (filter_In _ _ _) Hpp)))) r1) as [r2 [G1 G2]].
    rewrite G1. cbn [bind]. destruct (IH r2) as [r' [G3 G4]]. exists r'. split; [exact G3|].
    rewrite G4, G2, Hv1. unfold PV, PVl.
    pose proof (forallb_filter_implied (pmatch k) (fun pp => V (snd pp) v) (s_pat_props s)) as E.
    set (A := forallb (fun x => negb (pmatch k x) || V (snd x) v) (s_pat_props s)) in *.
    set (B := forallb (fun pp => V (snd pp) v) (filter (pmatch k) (s_pat_props s))) in *.
    clearbody A B. destruct A, B; cbn in E; try discriminate E; btauto.
Qed.

Lemma no_additional_agree s p m : pats_ok s -> plain_members m -> forall r,
  r_valid (no_additional_properties OR s p m r) = r_valid r && forallb (fun kv => has_prop s (fst kv) || matched_any s (fst kv)) m.
Proof.
  intros [Hok _] Hm. induction Hm as [|[k v] t [[H1 [H2 H3]] _] Ht IH]; intros r; [cbn; rewrite andb_true_r; reflexivity|].
  cbn [no_additional_properties forallb fst]. cbn [fst] in H1, H2, H3.
  destruct (Z.eqb_spec k k_dollar_schema) as [e|_]; [contradiction|]. destruct (Z.eqb_spec k k_id) as [e|_]; [contradiction|]. cbn [orb].
  destruct (has_prop s k); [rewrite IH; reflexivity|].
  assert (E : existsb (fun pk => o_re_ok OR (fst pk) && o_re_match OR (fst pk) k) (s_pat_props s) = matched_any s k).
  { unfold matched_any. clear - Hok. induction Hok as [|pp l Hpp Hl IHl]; [reflexivity|]. cbn [existsb]. unfold pmatch at 1. rewrite Hpp, IHl. reflexivity. }
  rewrite E. destruct (matched_any s k); [rewrite IH; reflexivity|]. cbv zeta.
  destruct (Z.eqb_spec k k_headers) as [e|_]; [contradiction|]. rewrite IH, r_valid_add. btauto.
Qed.

Definition add_rule (s : schema) (v : goval) : bool :=
  match s_add_props s with Some (_, Some sa) => V sa v | _ => true end.

Lemma additional_agree s p obj m : kids2 goods goodu s -> pats_ok s -> plain_members m ->
  (forall k v pp, In (k, v) m -> In pp (s_pat_props s) -> pmatch k pp = true -> Ds (snd pp) v) ->
  (forall k v a sa, In (k, v) m -> s_add_props s = Some (a, Some sa) -> has_prop s k = false -> matched_any s k = false -> Ds sa v) -> forall r,
  exists r', additional_properties OR rec_sp s p obj m r = Ok r' /\
             r_valid r' = r_valid r && forallb (fun kv => has_prop s (fst kv) || (PV s (fst kv) (snd kv) && (matched_any s (fst kv) || add_rule s (snd kv)))) m.
Proof.
  intros K Hp Hm. pose proof K as [_ [_ [_ [_ [_ [Ka _]]]]]]. induction Hm as [|[k v] t [_ Hjv] Ht IH]; intros HDp HDa r; [exists r; cbn; rewrite andb_true_r; auto|].
  specialize (IH (fun k0 v0 pp Hin => HDp k0 v0 pp (or_intror Hin)) (fun k0 v0 a sa Hin => HDa k0 v0 a sa (or_intror Hin))).
  cbn [additional_properties forallb fst snd]. cbn [snd] in Hjv. destruct (has_prop s k) eqn:Ehp.
  - destruct (IH r) as [r' [H1 H2]]. exists r'. split; [exact H1 | rewrite H2; reflexivity].
  - destruct (vpp_agree s p k v r Hp K Hjv (fun pp => HDp k v pp (or_introl eq_refl))) as [r1 [G1 Hv1]]. rewrite G1. cbn [bind orb].
    destruct (matched_any s k) eqn:Ema.
    + destruct (IH r1) as [r' [H1 H2]]. exists r'. split; [exact H1|]. rewrite H2, Hv1. btauto.
    + destruct (s_add_props s) as [[a [sa|]]|] eqn:E.
      * assert (Har : add_rule s v = V sa v) by (unfold add_rule; rewrite E; reflexivity).
        unfold rec. destruct (goodc_V Ds sa (p ++ [SDot k]) (p ++ [SDot k]) v (Ka a sa eq_refl) Hjv (HDa k v a sa (or_introl eq_refl) eq_refl Ehp Ema)) as [x [Hx [Hv _]]]. rewrite Hx. cbn [bind].
        destruct (IH (merge_for_field r1 obj k x)) as [r' [H1 H2]]. exists r'. split; [exact H1|].
        rewrite H2, r_valid_merge_for_field, Hv, Har, Hv1. btauto.
      * assert (Har : add_rule s v = true) by (unfold add_rule; rewrite E; reflexivity).
        destruct (IH r1) as [r' [H1 H2]]. exists r'. split; [exact H1 | rewrite H2, Har, Hv1; btauto].
      * assert (Har : add_rule s v = true) by (unfold add_rule; rewrite E; reflexivity).
        destruct (IH r1) as [r' [H1 H2]]. exists r'. split; [exact H1 | rewrite H2, Har, Hv1; btauto].
Qed.

Lemma properties_agree p obj m : plain_members m -> forall props,
  Forall (fun kc => goods (snd kc)) props -> (forall k ps v, In (k, ps) props -> lookup_val m k = Some v -> Ds ps v) -> forall r created,
  exists r' created', properties_schema opt rec_sp props p obj m r created = Ok (r', created') /\
             (forall k, In k created' -> In k created \/ exists ps, In (k, ps) props /\ s_default ps <> None) /\
             r_valid r' = r_valid r && forallb (fun kp => match lookup_val m (fst kp) with Some v => V (snd kp) v | None => true end) props.
Proof.
  intros Hm props Hg. induction Hg as [|[pname ps] t Hgp Ht IH]; intros HD r created.
  { exists r, created. cbn. rewrite andb_true_r. split; [reflexivity|]. split; [intros k Hk; left; exact Hk | reflexivity]. }
  specialize (IH (fun k0 ps0 v0 Hin => HD k0 ps0 v0 (or_intror Hin))).
  cbn [properties_schema forallb fst snd]. cbv zeta. cbn [snd] in Hgp.
  destruct (lookup_val m pname) as [v|] eqn:E.
  - assert (Hjv : jd v).
    { clear - E Hm. induction Hm as [|[k' v'] t' [_ Hj] Ht' IHm]; [discriminate|]. cbn [lookup_val] in E.
      destruct (Z.eqb pname k'); [inversion E; subst; exact Hj | apply IHm; exact E]. }
    unfold rec. match goal with |- context [rec_sp ps ?rn ?rn v] => destruct (goodc_V Ds ps rn rn v Hgp Hjv (HD pname ps v (or_introl eq_refl) E)) as [x [Hx [Hv _]]] end.
    rewrite Hx. cbn [bind]. destruct (IH (merge_for_field r obj pname x) created) as [r' [c' [H1 [Hc H2]]]].
    exists r', c'. split; [exact H1|]. split.
    + intros k Hk. destruct (Hc k Hk) as [Hk' | [ps0 [Hin Hd]]]; [left; exact Hk' | right; exists ps0; split; [right; exact Hin | exact Hd]].
    + rewrite H2, r_valid_merge_for_field, Hv. btauto.
  - destruct (s_default ps) as [dv|] eqn:Ed.
    + match goal with |- context [properties_schema opt rec_sp t p obj m ?r0 (created ++ [pname])] =>
        destruct (IH r0 (created ++ [pname])) as [r' [c' [H1 [Hc H2]]]];
        assert (Hr0 : r_valid r0 = r_valid r) by (destruct (opt_skip_schemata opt); reflexivity)
      end.
      exists r', c'. split; [exact H1|]. split.
      * intros k Hk. destruct (Hc k Hk) as [Hk' | [ps0 [Hin Hd]]].
        -- apply in_app_or in Hk'. destruct Hk' as [Hk' | [<- | []]]; [left; exact Hk'|].
           right. exists ps. split; [left; reflexivity | rewrite Ed; discriminate].
        -- right. exists ps0. split; [right; exact Hin | exact Hd].
      * rewrite H2, Hr0. reflexivity.
    + destruct (IH r created) as [r' [c' [H1 [Hc H2]]]]. exists r', c'. split; [exact H1|]. split; [|rewrite H2; reflexivity].
      intros k Hk. destruct (Hc k Hk) as [Hk' | [ps0 [Hin Hd]]]; [left; exact Hk' | right; exists ps0; split; [right; exact Hin | exact Hd]].
Qed.

Lemma contains_in k l : contains k l = true <-> In k l.
Proof.
  induction l as [|y t IH]; cbn [contains In]; [split; [discriminate | intros []]|].
  rewrite orb_true_iff, Z.eqb_eq, IH. split; intros [H | H]; auto.
Qed.

Lemma required_agree s p m r created : (forall k, In k (s_required s) -> ~ In k created) ->
  r_valid (match s_required s with [] => r | _ => r_add r (required_errors s p m created) end) =
  r_valid r && forallb (fun k => match lookup_member m k with Some _ => true | None => false end) (s_required s).
Proof.
  intros Hcr.
  assert (H : forall l, (forall k, In k l -> ~ In k created) ->
                (match flat_map (fun k => match lookup_val m k with
                                               | Some _ => []
                                               | None => if contains k created then [] else [mkMsg C_REQUIRED (p ++ [SDot k]) []]
                                               end) l with [] => true | _ => false end)
                      = forallb (fun k => match lookup_member m k with Some _ => true | None => false end) l).
  { induction l as [|k t IH]; intros Hl; [reflexivity|]. cbn [flat_map forallb]. rewrite (lookup_val_member m k).
    assert (Hk : contains k created = false).
    { destruct (contains k created) eqn:E; [|reflexivity]. apply contains_in in E. exfalso. apply (Hl k (or_introl eq_refl) E). }
    rewrite Hk. destruct (lookup_member m k); [apply IH; intros k' Hk'; apply Hl; right; exact Hk' | reflexivity]. }
  destruct (s_required s) as [|k0 ks] eqn:E; [cbn; rewrite andb_true_r; reflexivity|].
  rewrite r_valid_add. unfold required_errors. rewrite E, (H (k0 :: ks) Hcr). reflexivity.
Qed.

Lemma precheck_off p m r : precheck opt p m r = r.
Proof. unfold precheck. rewrite Hopt_items, Hopt_array. reflexivity. Qed.

Lemma all_opt_some_forallb {A} (f : A -> option bool) (g : A -> bool) l :
  (forall x, In x l -> f x = Some (g x)) -> all_opt (map f l) = Some (forallb g l).
Proof.
  induction l as [|x t IH]; intros H; [reflexivity|]. cbn [map forallb]. rewrite (H x (or_introl eq_refl)), all_opt_cons_some, IH; [reflexivity|].
  intros y Hy. apply H. right; exact Hy.
Qed.

Lemma all_opt_app l1 l2 : all_opt (l1 ++ l2) = match all_opt l1, all_opt l2 with Some a, Some b => Some (a && b) | _, _ => None end.
Proof.
  induction l1 as [|[x|] t IH]; cbn [app all_opt].
  - destruct (all_opt l2); reflexivity.
  - rewrite IH. destruct (all_opt t), (all_opt l2); try reflexivity. rewrite andb_assoc. reflexivity.
  - reflexivity.
Qed.

(* L0 on the patterns that match a member name *)
Lemma by_pat_agree pps k v : Forall (fun pp => goods (snd pp)) pps -> jd v -> (forall pp, In pp pps -> pmatch k pp = true -> Ds (snd pp) v) ->
  all_opt (flat_map (fun pp => if o_re_match OR (fst pp) k then [recd (snd pp) v] else []) pps) = Some (PVl pps k v) /\
  (match flat_map (fun pp => if o_re_match OR (fst pp) k then [recd (snd pp) v] else []) pps with [] => false | _ => true end) = existsb (pmatch k) pps.
Proof.
  intros Hg Hv. induction Hg as [|[pk ps] t Hgp Ht IH]; intros HD; [split; reflexivity|].
  destruct (IH (fun pp Hpp => HD pp (or_intror Hpp))) as [IH1 IH2].
  cbn [flat_map PVl forallb existsb]. change (pmatch k (pk, ps)) with (o_re_match OR pk k). cbn [fst snd] in *.
  destruct (o_re_match OR pk k) eqn:Em; cbn [negb orb app].
  - destruct (goodc_V Ds ps [] [] v Hgp Hv (HD (pk, ps) (or_introl eq_refl) Em)) as [_ [_ [_ Hr]]]. rewrite Hr. cbn [all_opt]. rewrite IH1. split; reflexivity.
  - split; [exact IH1 | exact IH2].
Qed.

(* the applications of a sub-schema to a part of the value that the two sides perform *)
Inductive app_g (s : schema) : goval -> schema -> goval -> Prop :=
| ag_one id l c v : s_items_one s = Some c -> In v l -> app_g s (VArr id l) c v
| ag_tuple id l cs c v : s_items_tuple s = Some cs -> In (c, v) (combine cs l) -> app_g s (VArr id l) c v
| ag_additems id l a c cs v : s_add_items s = Some (a, Some c) -> s_items_tuple s = Some cs -> In v (skipn (length cs) l) -> app_g s (VArr id l) c v
| ag_prop id m k c v : In (k, c) (s_props s) -> lookup_val m k = Some v -> app_g s (VObj id m) c v
| ag_pat id m pp k v : In pp (s_pat_props s) -> In (k, v) m -> pmatch k pp = true -> app_g s (VObj id m) (snd pp) v
| ag_addprop id m a c k v : s_add_props s = Some (a, Some c) -> In (k, v) m -> has_prop s k = false -> matched_any s k = false -> app_g s (VObj id m) c v.

Lemma object_agree p s id m : kids2 goods goodu s -> object_clean s -> jd (VObj id m) -> (forall c, In c (uk s) -> Du c (VObj id m)) ->
  (forall c v, app_g s (VObj id m) c v -> Ds c v) ->
  exists r, object_validate OR opt rec_sp p s (VObj id m) = Ok r /\
            object_ok OR recd s (VObj id m) = Some (r_valid r && deps_verdict s (VObj id m)).
Proof.
  intros K [Hpp [Hdef [Hnd Hfa]]] Hjd HDu Hsub. pose proof (deps_L0 s id m K Hjd HDu) as Hdeps. apply jd_obj in Hjd. destruct Hjd as [Hm Hndm].
  assert (HDp : forall k v pp, In (k, v) m -> In pp (s_pat_props s) -> pmatch k pp = true -> Ds (snd pp) v)
    by (intros k v pp H1 H2 H3; apply Hsub; apply (ag_pat s id m pp k v H2 H1 H3)).
  assert (HDa : forall k v a sa, In (k, v) m -> s_add_props s = Some (a, Some sa) -> has_prop s k = false -> matched_any s k = false -> Ds sa v)
    by (intros k v a sa H1 H2 H3 H4; apply Hsub; apply (ag_addprop s id m a sa k v H2 H1 H3 H4)).
  assert (HDr : forall k ps v, In (k, ps) (s_props s) -> lookup_val m k = Some v -> Ds ps v)
    by (intros k ps v H1 H2; apply Hsub; apply (ag_prop s id m k ps v H1 H2)).
  pose proof K as [_ [_ [_ [Kp [Kpp [Ka _]]]]]].
  unfold object_validate, object_ok. cbv zeta. set (n := Z.of_nat (length m)).
  (* the verdict of L0 on the members *)
  set (arule := fun v : goval => match s_add_props s with Some (_, Some sa) => V sa v | Some (false, None) => false | _ => true end).
  set (member_b := fun kv : str * goval =>
         (match lookup_schema (s_props s) (fst kv) with Some ps => V ps (snd kv) | None => true end) &&
         PV s (fst kv) (snd kv) &&
         (has_prop s (fst kv) || matched_any s (fst kv) || arule (snd kv))).
  assert (Hmem : all_opt (map (fun kv : str * goval =>
                    let (k, v) := kv in
                    all_opt ((match lookup_schema (s_props s) k with Some ps => [recd ps v] | None => [] end) ++
                             flat_map (fun pp => if o_re_match OR (fst pp) k then [recd (snd pp) v] else []) (s_pat_props s) ++
                             (if match (match lookup_schema (s_props s) k with Some ps => [recd ps v] | None => [] end),
                                        (flat_map (fun pp => if o_re_match OR (fst pp) k then [recd (snd pp) v] else []) (s_pat_props s))
                                  with [], [] => false | _, _ => true end
                              then []
                              else match s_add_props s with
                                   | Some (_, Some sa) => [recd sa v]
                                   | Some (false, None) => [Some false]
                                   | _ => []
                                   end))) m) = Some (forallb member_b m)).
  { apply all_opt_some_forallb. intros [k v] Hin. unfold member_b, PV, matched_any, has_prop, arule. cbn [fst snd].
    assert (Hjv : jd v) by (apply (proj2 (proj1 (Forall_forall _ m) Hm (k, v) Hin))).
    destruct (by_pat_agree (s_pat_props s) k v Kpp Hjv (fun pp => HDp k v pp Hin)) as [Hbp Hany].
    rewrite !all_opt_app, Hbp.
    assert (Hdesc : (match (match lookup_schema (s_props s) k with Some ps => [recd ps v] | None => [] end),
                           (flat_map (fun pp => if o_re_match OR (fst pp) k then [recd (snd pp) v] else []) (s_pat_props s))
                     with [], [] => false | _, _ => true end)
                    = (match lookup_schema (s_props s) k with Some _ => true | None => false end) || existsb (pmatch k) (s_pat_props s)).
    { rewrite <- Hany. destruct (lookup_schema (s_props s) k); [reflexivity|].
      destruct (flat_map (fun pp => if o_re_match OR (fst pp) k then [recd (snd pp) v] else []) (s_pat_props s)); reflexivity. }
    rewrite Hdesc.
    destruct (lookup_schema (s_props s) k) as [ps|] eqn:E.
    - assert (Hg : goods ps) by (apply (lookup_schema_forall goods _ _ _ Kp E)).
      assert (HDps : Ds ps v).
      { apply (HDr k ps v); [apply (lookup_schema_in _ k ps Hnd); exact E|]. apply (proj2 (lookup_val_in m k v Hndm)). exact Hin. }
      destruct (goodc_V Ds ps [] [] v Hg Hjv HDps) as [_ [_ [_ Hr]]]. rewrite Hr. cbn [orb all_opt]. apply f_equal. btauto.
    - cbn [orb all_opt]. destruct (existsb (pmatch k) (s_pat_props s)) eqn:Ema; cbn [orb all_opt]; [apply f_equal; btauto|].
      destruct (s_add_props s) as [[a [sa|]]|] eqn:Ea.
      + assert (HDsa : Ds sa v) by (apply (HDa k v a sa Hin eq_refl); [unfold has_prop; rewrite E; reflexivity | exact Ema]).
        destruct (goodc_V Ds sa [] [] v (Ka a sa eq_refl) Hjv HDsa) as [_ [_ [_ Hr]]]. rewrite Hr. destruct a; cbn [all_opt]; apply f_equal; btauto.
      + destruct a; cbn [all_opt]; apply f_equal; btauto.
      + cbn [all_opt]. apply f_equal. btauto. }
  rewrite Hmem, Hdeps. set (dv := deps_verdict s (VObj id m)).
  set (sizes := (match s_max_props s with Some mx => n <=? mx | None => true end) && (match s_min_props s with Some mn => mn <=? n | None => true end)).
  set (required := forallb (fun k => match lookup_member m k with Some _ => true | None => false end) (s_required s)).
  assert (HL0 : all_opt [Some sizes; Some required; Some (forallb member_b m); Some dv] = Some (sizes && (required && (forallb member_b m && (dv && true))))) by reflexivity.
  rewrite HL0.
  destruct (match s_min_props s with Some mn => n <? mn | None => false end) eqn:Efew.
  { eexists. split; [reflexivity|]. cbn [r_valid s_err r_errs]. f_equal. unfold sizes. destruct (s_min_props s) as [mn|]; [|discriminate].
    rewrite (Z.leb_antisym n mn), Efew. cbn [negb]. rewrite andb_false_r. reflexivity. }
  destruct (match s_max_props s with Some mx => mx <? n | None => false end) eqn:Emany.
  { eexists. split; [reflexivity|]. cbn [r_valid s_err r_errs]. f_equal. unfold sizes. destruct (s_max_props s) as [mx|]; [|discriminate].
    rewrite (Z.leb_antisym mx n), Emany. reflexivity. }
  assert (Hsz : sizes = true).
  { unfold sizes. destruct (s_max_props s) as [mx|]; [rewrite (Z.leb_antisym mx n), Emany|]; (destruct (s_min_props s) as [mn|]; [rewrite (Z.leb_antisym n mn), Efew|]); reflexivity. }
  rewrite precheck_off.
  (* additional properties *)
  assert (H1 : exists r1, (match s_add_props s with
                           | Some (false, _) => Ok (no_additional_properties OR s p m new_res)
                           | _ => additional_properties OR rec_sp s p id m new_res
                           end) = Ok r1 /\
               r_valid r1 = forallb (fun kv => has_prop s (fst kv) || (PV s (fst kv) (snd kv) && (matched_any s (fst kv) || arule (snd kv))) ||
                                               (match s_add_props s with Some (false, None) => matched_any s (fst kv) | _ => false end)) m).
  { destruct (s_add_props s) as [[[|] o]|] eqn:Ea.
    - rewrite <- Ea in HDa. destruct (additional_agree s p id m K Hpp Hm HDp HDa new_res) as [r1 [G1 G2]]. exists r1. split; [exact G1|]. rewrite G2. unfold add_rule, arule. rewrite ?Ea.
      cbn [r_valid new_res r_errs andb]. apply forallb_ext_in. intros [k v] _. rewrite orb_false_r. destruct o; reflexivity.
    - destruct o as [sa|]; [exfalso; apply (Hfa sa); reflexivity|]. eexists. split; [reflexivity|].
      rewrite (no_additional_agree s p m Hpp Hm). cbn [r_valid new_res r_errs andb]. apply forallb_ext_in. intros [k v] _. unfold arule. rewrite ?Ea. cbn [fst snd].
      destruct (has_prop s k), (matched_any s k), (PV s k v); reflexivity.
    - rewrite <- Ea in HDa. destruct (additional_agree s p id m K Hpp Hm HDp HDa new_res) as [r1 [G1 G2]]. exists r1. split; [exact G1|]. rewrite G2. unfold add_rule, arule. rewrite ?Ea.
      cbn [r_valid new_res r_errs andb]. apply forallb_ext_in. intros [k v] _. rewrite orb_false_r. reflexivity. }
  destruct H1 as [r1 [G1 Hv1]]. rewrite G1. cbn [bind].
  destruct (properties_agree p id m Hm (s_props s) Kp HDr r1 []) as [r2 [created [G2 [Hcr Hv2]]]]. rewrite G2. cbn [bind].
  match goal with |- exists r, pattern_loop _ _ _ _ _ _ ?r3 = Ok r /\ _ =>
    destruct (pattern_loop_agree s p id m Hpp K Hm HDp r3) as [r4 [G4 Hv4]]
  end.
  exists r4. split; [exact G4|]. f_equal. rewrite Hv4.
  rewrite (required_agree s p m r2 created).
  2:{ intros k Hk Hin. destruct (Hcr k Hin) as [[] | [ps [Hps Hd]]]. apply (Hdef k ps Hps Hd Hk). }
  rewrite Hv2, Hv1, Hsz. fold required.
  rewrite <- (swap_iteration V (s_props s) m Hnd Hndm).
  cbn [andb]. rewrite andb_true_r.
  transitivity (required && (forallb (fun kv => has_prop s (fst kv) || (PV s (fst kv) (snd kv) && (matched_any s (fst kv) || arule (snd kv))) ||
                                                (match s_add_props s with Some (false, None) => matched_any s (fst kv) | _ => false end)) m &&
                             forallb (fun kv => match lookup_schema (s_props s) (fst kv) with Some ps => V ps (snd kv) | None => true end) m &&
                             forallb (fun kv => PV s (fst kv) (snd kv)) m) && dv); [|btauto].
  rewrite <- !andb_assoc. f_equal. rewrite !andb_assoc. f_equal.
  rewrite <- !forallb_andb_pointwise. apply forallb_ext_in. intros [k v] _. unfold member_b, has_prop. cbn [fst snd].
  generalize (arule v). intros ar.
  destruct (lookup_schema (s_props s) k) as [ps0|]; [destruct (V ps0 v)|]; destruct (PV s k v), (matched_any s k), ar, (s_add_props s) as [[[|] [sa|]]|]; reflexivity.
Qed.

(* ------------------------------------------------------------------ one schema level *)

Definition nullsafe (s : schema) : Prop := s_all_of s = [] /\ s_any_of s = [] /\ s_one_of s = [] /\ s_not s = None.

(* a format next to a numeric type is harmless; elsewhere the string / array shortcut of the type validator (type.go:200, finding
   class type-format-shortcut) accepts every string and every array: the value this level is applied to must then be one the type
   list accepts anyway.  This is the one condition that depends on the value: it is asked of every (sub-schema, part of the value)
   pair the validation visits ([app_g] and the composition members), see Schema/AgreementRec.v.
   The same goes for null: a null value is looked at by the type and the enumeration only, the composition keywords are skipped
   (finding class nil-under-composition): a schema that meets a null must have none. *)
Definition fmt_fits (s : schema) (d : goval) : Prop :=
  (s_format s = 0 \/ contains k_number (s_types s) || contains k_integer (s_types s) = true \/
   (contains k_number (s_types s) || contains k_integer (s_types s) = false /\ s_types s <> [] /\
    ((exists x, d = VStr x) -> contains k_string (s_types s) = true) /\
    ((exists id l, d = VArr id l) -> contains k_array (s_types s) = true))) /\
  (d = VNil -> nullsafe s).

Definition local_clean0 (s : schema) : Prop :=
  s_ref s = None /\
  s_nullable s = false /\ Forall jde (s_enum s) /\
  (s_pattern s = 0 \/ o_re_ok OR (s_pattern s) = true) /\
  array_clean s /\ object_clean s /\ comp_clean s /\ bounds_fin s.

(* a sufficient condition on the schema alone: the type list next to a non-numeric format accepts strings - and arrays, when the
   data class admits arrays *)
Definition fmt_clean (s : schema) : Prop :=
  (s_format s = 0 \/ contains k_number (s_types s) || contains k_integer (s_types s) = true \/
   (contains k_number (s_types s) || contains k_integer (s_types s) = false /\ contains k_string (s_types s) = true /\
    (allow_arr = true -> contains k_array (s_types s) = true))) /\
  (allow_null = true -> nullsafe s).

Lemma fmt_clean_fits s d : fmt_clean s -> jd d -> fmt_fits s d.
Proof.
  intros [HF HN] Hd. split; [|intros E; subst d; apply HN; exact Hd].
  destruct HF as [H | [H | [H1 [H2 H3]]]]; [left; exact H | right; left; exact H | right; right].
  split; [exact H1|]. split; [intros E; rewrite E in H2; discriminate|]. split; [intros _; exact H2|].
  intros [id [l E]]. subst d. apply jd_arr in Hd. destruct Hd as [Ha _]. apply H3. exact Ha.
Qed.

Definition local_clean (s : schema) : Prop := local_clean0 s /\ fmt_clean s.

Lemma r_valid_r0 s : r_valid (if opt_skip_schemata opt then new_res else mkRes [] 0 [s_default s] [] []) = true.
Proof. destruct (opt_skip_schemata opt); reflexivity. Qed.

Lemma body_agree s p q d : local_clean0 s -> fmt_fits s d -> kids2 goods goodu s -> jd d ->
  (forall c, In c (uk s) -> Du c d) -> (forall c v, app_g s d c v -> Ds c v) ->
  exists r, sv_body OR N opt rec_sp s p q d = Ok r /\ d4_body OR N recd s d = Some (r_valid r).
Proof.
  intros [_ [Hnull [Henum [Hpat [Harr [Hobj [Hcomp Hbf]]]]]]] [Hfmt Hns] K Hd HDu Hg.
  pose proof (enum_agree p s d Hd Henum) as He.
  destruct (props_agree p s d K Hcomp Hd HDu) as [x2 [bc [Hx2 [Hc Hvx2]]]].
  unfold sv_body, d4_body. rewrite Hnull in *. rewrite Hc.
  set (r0 := if opt_skip_schemata opt then new_res else mkRes [] 0 [s_default s] [] []).
  assert (Hr0 : r_valid r0 = true) by apply r_valid_r0.
  set (r1 := if type_applies (s_types s) (s_format s) then r_inc (merge r0 (Some (type_validate N p (s_types s) false (s_format s) d))) else r0).
  assert (Hr1 : r_valid r1 = type_ok N s d).
  { unfold r1, type_ok. destruct Hfmt as [Hf0 | [Hnum | [Hnn [Hne [Hstr Harrt]]]]].
    - rewrite Hf0. rewrite <- (type_agree p (s_types s) d Hd). destruct (type_applies (s_types s) 0); [rewrite r_valid_inc, r_valid_merge, Hr0; reflexivity | exact Hr0].
    - rewrite <- (type_agree_numeric p (s_types s) (s_format s) d Hd Hnum).
      assert (Ha : type_applies (s_types s) (s_format s) = true).
      { unfold type_applies. destruct (s_types s); [discriminate | reflexivity]. }
      rewrite Ha, r_valid_inc, r_valid_merge, Hr0. reflexivity.
    - rewrite <- (type_agree_strfmt_gen p (s_types s) (s_format s) d Hd Hnn Hne Hstr Harrt).
      assert (Ha : type_applies (s_types s) (s_format s) = true).
      { unfold type_applies. destruct (s_types s); [destruct (Hne eq_refl) | reflexivity]. }
      rewrite Ha, r_valid_inc, r_valid_merge, Hr0. reflexivity. }
  destruct d as [|b|x|d32 f| | |id l| |id m]; try (exfalso; exact Hd).
  - (* null: only the type and the enumeration are looked at; the schema has no composition keyword *)
    destruct (Hns eq_refl) as [Hao [Hany [Hone Hnot]]].
    assert (Hx2v : bc = true).
    { unfold composition_ok in Hc. rewrite Hao, Hany, Hnot, Hone in Hc. cbn in Hc. inversion Hc. reflexivity. }
    assert (Htn : r_valid (type_validate N p (s_types s) false (s_format s) VNil) = type_ok N s VNil).
    { unfold type_ok, type_validate. destruct (s_types s) as [|t0 ts]; [reflexivity|]. cbn [length Nat.eqb negb andb].
      transitivity (contains k_null (t0 :: ts)); [destruct (contains k_null (t0 :: ts)); reflexivity | rewrite contains_existsb; apply existsb_ext; intros; reflexivity]. }
    cbv beta iota zeta. fold r0. eexists. split; [reflexivity|]. cbn [numeric_ok string_ok array_ok object_ok].
    repeat (rewrite r_valid_inc || rewrite r_valid_merge). rewrite Hr0, He, Htn, Hx2v.
    match goal with |- all_opt [Some ?a; Some ?b; Some true; Some true; Some true; Some true; Some true] = _ =>
      change (all_opt [Some a; Some b; Some true; Some true; Some true; Some true; Some true]) with (Some (a && (b && (true && (true && (true && (true && (true && true))))))))
    end. f_equal. btauto.
  - (* boolean *)
    cbv beta iota zeta. fold r0. fold r1. rewrite Hx2. cbn [bind is_string_kind is_number_kind is_slice_kind is_map_kind format_applies andb].
    eexists. split; [reflexivity|]. cbn [numeric_ok string_ok array_ok object_ok].
    repeat (rewrite r_valid_inc || rewrite r_valid_merge). rewrite Hr1, He, Hvx2. cbn [deps_verdict].
    match goal with |- all_opt [Some ?a; Some ?b; Some true; Some true; Some true; Some true; Some ?e] = _ =>
      change (all_opt [Some a; Some b; Some true; Some true; Some true; Some true; Some e]) with (Some (a && (b && (true && (true && (true && (true && (e && true))))))))
    end. f_equal. btauto.
  - (* string *)
    pose proof (string_agree p s x Hpat) as Hs.
    cbv beta iota zeta. fold r0. fold r1. rewrite Hx2. cbn [bind is_string_kind is_number_kind is_slice_kind is_map_kind].
    assert (Hfv : exists xf, format_validate OR p s (VStr x) = Ok xf).
    { unfold format_validate. destruct (o_fmt_check OR (s_format s) x); eexists; reflexivity. }
    destruct Hfv as [xf Hxf]. rewrite Hxf in *.
    destruct (format_applies OR s (VStr x)) eqn:Ea; cbn [bind]; (eexists; split; [reflexivity|]);
      cbn [numeric_ok array_ok object_ok]; repeat (rewrite r_valid_inc || rewrite r_valid_merge); rewrite Hr1, He, Hvx2, <- Hs; cbn [deps_verdict];
      match goal with |- all_opt [Some ?a; Some ?b; Some true; Some ?c; Some true; Some true; Some ?e] = _ =>
        change (all_opt [Some a; Some b; Some true; Some c; Some true; Some true; Some e]) with (Some (a && (b && (true && (c && (true && (true && (e && true))))))))
      end; f_equal; destruct (string_validate OR p s (VStr x)); btauto.
  - (* number *)
    cbn [jd] in Hd. pose proof (number_agree p s d32 f Hd Hbf) as Hn.
    cbv beta iota zeta. fold r0. fold r1. rewrite Hx2. cbn [bind is_string_kind is_number_kind is_slice_kind is_map_kind format_applies andb].
    eexists. split; [reflexivity|]. cbn [string_ok array_ok object_ok].
    repeat (rewrite r_valid_inc || rewrite r_valid_merge). rewrite Hr1, He, Hvx2, Hn. cbn [deps_verdict].
    match goal with |- all_opt [Some ?a; Some ?b; Some ?c; Some true; Some true; Some true; Some ?e] = _ =>
      change (all_opt [Some a; Some b; Some c; Some true; Some true; Some true; Some e]) with (Some (a && (b && (c && (true && (true && (true && (e && true))))))))
    end. f_equal. btauto.
  - (* array *)
    apply jd_arr in Hd. destruct Hd as [_ Hd].
    destruct (slice_agree p s id l K Harr Hd) as [xs [Hxs Ha]].
    { intros s1 E1. apply Forall_forall. intros v Hv. apply Hg. apply (ag_one s id l s1 v E1 Hv). }
    { intros ss E2. apply Forall_forall. intros [c v] Hcv. cbn [fst snd]. apply Hg. apply (ag_tuple s id l ss c v E2 Hcv). }
    { intros a sa ss E3 E2. apply Forall_forall. intros v Hv. apply Hg. apply (ag_additems s id l a sa ss v E3 E2 Hv). }
    cbv beta iota zeta. fold r0. fold r1. rewrite Hx2. cbn [bind is_string_kind is_number_kind is_slice_kind is_map_kind format_applies andb].
    rewrite Hxs. cbn [bind]. eexists. split; [reflexivity|]. rewrite Ha. cbn [numeric_ok string_ok object_ok].
    repeat (rewrite r_valid_inc || rewrite r_valid_merge). rewrite Hr1, He, Hvx2. cbn [deps_verdict].
    match goal with |- all_opt [Some ?a; Some ?b; Some true; Some true; Some ?c; Some true; Some ?e] = _ =>
      change (all_opt [Some a; Some b; Some true; Some true; Some c; Some true; Some e]) with (Some (a && (b && (true && (true && (c && (true && (e && true))))))))
    end. f_equal. btauto.
  - (* object *)
    destruct (object_agree p s id m K Hobj Hd HDu Hg) as [xo [Hxo Ho]].
    cbv beta iota zeta. fold r0. fold r1. rewrite Hx2. cbn [bind is_string_kind is_number_kind is_slice_kind is_map_kind format_applies andb].
    rewrite Hxo. cbn [bind]. eexists. split; [reflexivity|]. rewrite Ho. cbn [numeric_ok string_ok array_ok].
    repeat (rewrite r_valid_inc || rewrite r_valid_merge). rewrite Hr1, He, Hvx2. cbn [deps_verdict].
    match goal with |- all_opt [Some ?a; Some ?b; Some true; Some true; Some true; Some ?c; Some ?e] = _ =>
      change (all_opt [Some a; Some b; Some true; Some true; Some true; Some c; Some e]) with (Some (a && (b && (true && (true && (true && (c && (e && true))))))))
    end. f_equal. btauto.
Qed.

End Agree.

(* ------------------------------------------------------------------ every level, by induction on the nesting depth *)

Section Whole.
Variable OR : oracles.
Variable N : numops.
Variable opt : options.
Variable defs : env.
Hypothesis Hopt_items : opt_array_must_have_items opt = false.
Hypothesis Hopt_array : opt_obj_array_type_check opt = false.
Hypothesis Hord : forall a b, fin a -> fin b -> n_lt N a b = negb (n_le N b a).
Hypothesis Heq_sym : forall a b, fin a -> fin b -> n_eq N a b = n_eq N b a.

Fixpoint clean (n : nat) (s : schema) {struct n} : Prop :=
  match n with
  | O => False
  | S m => local_clean OR s /\ kids (clean m) s
  end.

Lemma clean_bounded : forall n s, clean n s -> bounded n s.
Proof.
  induction n as [|n IH]; intros s H; [exact H|]. destruct H as [[[Href _] _] K]. split; [exact Href|].
  eapply kids_impl; [|exact K]. exact (IH).
Qed.

Theorem clean_fragment_agrees : forall n fuel s, clean n s -> (n < fuel)%nat -> forall p q d, jd d ->
  exists r, sv_validate OR N opt defs fuel s p q d = Ok r /\ d4 OR N defs fuel s d = Some (r_valid r).
Proof.
  induction n as [|n IH]; intros fuel s Hc Hlt p q d Hd; [destruct Hc|]. destruct fuel as [|f]; [lia|].
  pose proof (clean_bounded (S n) s Hc) as Hb. destruct Hc as [[Hl Hf] K]. pose proof Hl as [Href _].
  cbn [sv_validate d4]. rewrite (eager_bounded defs (S n) f s Hb); [|lia]. cbn [bind].
  rewrite (resolve_ref_free defs f s Href). cbn [bind]. rewrite Href.
  apply (body_agree OR N opt Hopt_items Hopt_array Hord Heq_sym (sv_validate OR N opt defs f) (d4 OR N defs f)
           (fun c p' q' d' Hd' => no_important_error OR N opt defs f c p' q' d' (jd_nohdr d' Hd'))
           (fun _ _ => True) (fun _ _ => True) s p q d Hl (fmt_clean_fits s d Hf Hd)); [|exact Hd| |].
  - apply (proj1 (kids_kids2 _ s)). eapply kids_impl; [|exact K]. intros c Hcc p' q' d' Hd' _. apply IH; [exact Hcc | lia | exact Hd'].
  - intros c _. exact I.
  - intros c v _. exact I.
Qed.

End Whole.
End Data.
