(* Exact (decimal) arithmetic instance of numops for the draft-4 oracle, and the finding-class
   detector: which of the recorded deviations of the code from draft 4 a (schema, instance) pair
   can trigger. Used by the failing-input search; no theorem depends on these definitions except
   the statements that name the classes. *)
From Coq Require Import List ZArith Bool.
From Flocq Require Import IEEE754.BinarySingleNaN IEEE754.Binary IEEE754.Bits.
From Verif Require Import Base.Sx Base.GoVal Base.F64 Schema.Ast Schema.Draft4.
Import ListNotations.
Open Scope Z_scope.

(* a finite decimal m * 10^e *)
Definition dec := (Z * Z)%type.

(* every finite binary64 is a finite decimal: m * 2^e = (m * 5^-e) * 10^e for e < 0 *)
Definition dec_of_bits (b : Z) : option dec :=
  match fb b with
  | Binary.B754_zero _ _ _ => Some (0, 0)
  | Binary.B754_finite _ _ s m e _ =>
      let z := if s then Z.neg m else Z.pos m in
      if 0 <=? e then Some (z * 2 ^ e, 0) else Some (z * 5 ^ (- e), e)
  | _ => None
  end.

Definition dec_cmp (a b : dec) : comparison :=
  let (ma, ea) := a in
  let (mb, eb) := b in
  let e := Z.min ea eb in
  Z.compare (ma * 10 ^ (ea - e)) (mb * 10 ^ (eb - e)).

Definition dec_is_int (a : dec) : bool :=
  let (m, e) := a in
  if 0 <=? e then true else Z.eqb (m mod 10 ^ (- e)) 0.

Definition dec_mult_of (d f : dec) : mres :=
  match dec_cmp f (0, 0) with
  | Gt =>
      let (md, ed) := d in
      let (mf, ef) := f in
      let e := Z.min ed ef in
      if Z.eqb ((md * 10 ^ (ed - e)) mod (mf * 10 ^ (ef - e))) 0 then MOk else MNotMultiple
  | _ => MNotPositive
  end.

(* numops in exact arithmetic: a number is the decimal literal it was written as (table shipped with
   the case), or, for bit patterns not in the table, its exact binary value *)
Definition exact_ops (table : list (Z * dec)) : numops :=
  let val (b : Z) : option dec := match assocZ b table with Some d => Some d | None => dec_of_bits b end in
  let cmp (a b : Z) : option comparison :=
    match val a, val b with Some x, Some y => Some (dec_cmp x y) | _, _ => None end in
  {| n_le := fun a b => match cmp a b with Some Lt | Some Eq => true | _ => false end;
     n_lt := fun a b => match cmp a b with Some Lt => true | _ => false end;
     n_eq := fun a b => match cmp a b with Some Eq => true | _ => false end;
     n_is_int := fun a => match val a with Some x => dec_is_int x | None => false end;
     n_mult_of := fun a f => match val a, val f with Some x, Some y => dec_mult_of x y | _, _ => MNotMultiple end;
     n_of_int := f_of_Z;
     n_to_int64 := f_to_int64;
     n_to_uint64 := f_to_uint64;
     n_exact_int := f_exact_int;
     n_fits_f32 := f_fits_f32 |}.

(* ------------------------------------------------------------------ finding classes *)

Definition K_NIL_UNDER_COMPOSITION := 1.   (* null reaching allOf / anyOf / oneOf / not: schema.go:153-164 *)
Definition K_SCHEMA_ID_EXEMPT := 2.        (* "$schema" / "id" members exempt from additionalProperties: false *)
Definition K_REQUIRED_BY_DEFAULT := 3.     (* required member absent but its property declares a default *)
Definition K_TYPE_FORMAT_SHORTCUT := 4.    (* format next to a non-numeric type list: strings and arrays skip the type check *)
Definition K_EMPTY_TUPLE := 6.             (* items: [] with additionalItems false / schema *)
(* outside the property's quantifier ("supported"): *)
Definition U_FORMAT_WITHOUT_TYPE := 101.
Definition U_INVALID_PATTERN := 102.
Definition U_NULLABLE := 103.
Definition U_NON_JSON := 104.

Section Visit.
Variable OR : oracles.
Variable defs : env.

Definition local_classes (s : schema) (d : goval) : list Z :=
  (match d with
   | VNil => match s_all_of s, s_any_of s, s_one_of s, s_not s with
             | [], [], [], None => []
             | _, _, _, _ => [K_NIL_UNDER_COMPOSITION]
             end
   | _ => []
   end) ++
  (match d, s_add_props s with
   | VObj _ m, Some (false, _) =>
       if existsb (fun kv => (Z.eqb (fst kv) k_dollar_schema || Z.eqb (fst kv) k_id) &&
                             match lookup_schema (s_props s) (fst kv) with Some _ => false | None => true end &&
                             negb (existsb (fun pp => o_re_match OR (fst pp) (fst kv)) (s_pat_props s))) m
       then [K_SCHEMA_ID_EXEMPT] else []
   | _, _ => []
   end) ++
  (match d with
   | VObj _ m =>
       if existsb (fun k => match lookup_member m k with
                            | Some _ => false
                            | None => match lookup_schema (s_props s) k with
                                      | Some ps => match s_default ps with Some _ => true | None => false end
                                      | None => false
                                      end
                            end) (s_required s)
       then [K_REQUIRED_BY_DEFAULT] else []
   | _ => []
   end) ++
  (match d with
   | VStr _ | VArr _ _ =>
       if negb (Z.eqb (s_format s) 0) && negb (mem_str k_number (s_types s) || mem_str k_integer (s_types s)) &&
          (match s_types s with [] => false | _ => true end) &&
          negb (mem_str (match d with VStr _ => k_string | _ => k_array end) (s_types s))
       then [K_TYPE_FORMAT_SHORTCUT] else []
   | _ => []
   end) ++
  (match d, s_items_tuple s, s_add_items s with
   | VArr _ (_ :: _), Some [], Some _ => [K_EMPTY_TUPLE]
   | _, _, _ => []
   end) ++
  (if negb (Z.eqb (s_format s) 0) && (match s_types s with [] => true | _ => false end) then [U_FORMAT_WITHOUT_TYPE] else []) ++
  (if (negb (Z.eqb (s_pattern s) 0) && negb (o_re_ok OR (s_pattern s))) ||
      existsb (fun pp => negb (o_re_ok OR (fst pp))) (s_pat_props s) then [U_INVALID_PATTERN] else []) ++
  (if s_nullable s then [U_NULLABLE] else []) ++
  (match d with VInt _ _ | VJnum _ _ _ | VFlt true _ => [U_NON_JSON] | _ => [] end).

(* every (schema, value) pair a draft-4 evaluation looks at *)
Fixpoint visit (fuel : nat) (s : schema) (d : goval) : list Z :=
  match fuel with
  | O => []
  | S f =>
      match s_ref s with
      | Some n => match lookup_def defs n with Some t => visit f t d | None => [] end
      | None =>
          local_classes s d ++
          flat_map (fun c => visit f c d) (s_all_of s ++ s_any_of s ++ s_one_of s ++ (match s_not s with Some n => [n] | None => [] end)) ++
          (match d with
           | VArr _ l =>
               (match s_items_one s with Some s1 => flat_map (visit f s1) l | None => [] end) ++
               (match s_items_tuple s with
                | Some tuple =>
                    flat_map (fun sv => visit f (fst sv) (snd sv)) (combine tuple l) ++
                    (match s_add_items s with
                     | Some (_, Some sa) => flat_map (visit f sa) (skipn (length tuple) l)
                     | _ => []
                     end)
                | None => []
                end)
           | VObj _ m =>
               flat_map (fun kv =>
                           (match lookup_schema (s_props s) (fst kv) with Some ps => visit f ps (snd kv) | None => [] end) ++
                           flat_map (fun pp => if o_re_match OR (fst pp) (fst kv) then visit f (snd pp) (snd kv) else []) (s_pat_props s) ++
                           (match s_add_props s with Some (_, Some sa) => visit f sa (snd kv) | _ => [] end)) m ++
               flat_map (fun dep => match fst (snd dep) with Some ds => visit f ds d | None => [] end) (s_deps s)
           | _ => []
           end)
      end
  end.

End Visit.

Fixpoint dedupZ (l : list Z) : list Z :=
  match l with
  | [] => []
  | x :: t => if memZ x t then dedupZ t else x :: dedupZ t
  end.
