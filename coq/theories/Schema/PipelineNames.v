(* Every error of the pipeline is named after the place it is about: its name is empty (messages that carry no name)
   or extends the path the validator was given - through every keyword group, at every depth (C17). *)
From Coq Require Import List ZArith Bool Lia.
From Verif Require Import Base.Sx Base.GoVal Schema.Ast Schema.Build Schema.Pipeline Schema.PipelineFacts.
Import ListNotations.
Open Scope Z_scope.

(* q extends p: p renders to the empty string (o.Path == ""), or q is p followed by more segments *)
Definition extends (p q : path) : Prop := path_is_empty p = true \/ exists t, q = p ++ t.

Lemma extends_refl p : extends p p.
Proof. right. exists []. rewrite app_nil_r. reflexivity. Qed.

Lemma extends_app p t : extends p (p ++ t).
Proof. right. exists t. reflexivity. Qed.

Lemma path_is_empty_app p t : path_is_empty (p ++ t) = path_is_empty p && path_is_empty t.
Proof. unfold path_is_empty. apply forallb_app. Qed.

Lemma extends_trans p q r : extends p q -> extends q r -> extends p r.
Proof.
  intros [Hp | [t ->]] H2; [left; exact Hp|]. destruct H2 as [He | [t' ->]].
  - left. rewrite path_is_empty_app in He. apply andb_true_iff in He. tauto.
  - right. exists (t ++ t'). rewrite app_assoc. reflexivity.
Qed.

Definition named (p : path) (e : msg) : Prop := m_name e = [] \/ extends p (m_name e).
Definition res_named (p : path) (r : res) : Prop := forall e, In e (r_errs r) -> named p e.
Definition onamed (p : path) (o : outcome res) : Prop := match o with Ok r => res_named p r | _ => True end.
Arguments onamed : simpl never.

Lemma named_weaken p q e : extends p q -> named q e -> named p e.
Proof. intros H [Hn | Hn]; [left; exact Hn | right; apply (extends_trans p q _ H Hn)]. Qed.

Lemma res_named_weaken p q r : extends p q -> res_named q r -> res_named p r.
Proof. intros H Hr e He. apply (named_weaken p q e H), Hr, He. Qed.

Lemma onamed_weaken p q o : extends p q -> onamed q o -> onamed p o.
Proof. intros H. destruct o; unfold onamed; [apply res_named_weaken; exact H | auto | auto]. Qed.

Lemma nm_new p : res_named p new_res.
Proof. intros e []. Qed.
Lemma nm_empty p : res_named p empty_result.
Proof. intros e []. Qed.
Lemma nm_serr p e : named p e -> res_named p (s_err e).
Proof. intros H x [<- | []]. exact H. Qed.
Lemma nm_inc p r : res_named p r -> res_named p (r_inc r).
Proof. intros H. exact H. Qed.
Lemma nm_add p r es : res_named p r -> (forall e, In e es -> named p e) -> res_named p (r_add r es).
Proof. intros Hr He e Hin. cbn [r_add r_errs] in Hin. apply add_errs_In in Hin. destruct Hin; [apply Hr | apply He]; assumption. Qed.
Lemma nm_merge_wo_root p r o : res_named p r -> res_named p o -> res_named p (merge_wo_root r o).
Proof. intros Hr Ho e Hin. cbn [merge_wo_root r_errs] in Hin. apply add_errs_In in Hin. destruct Hin; [apply Hr | apply Ho]; assumption. Qed.
Lemma nm_merge p r o : res_named p r -> match o with Some x => res_named p x | None => True end -> res_named p (merge r o).
Proof. destruct o as [o|]; intros Hr Ho; [|exact Hr]. intros e Hin. apply (nm_merge_wo_root p r o Hr Ho e). exact Hin. Qed.
Lemma nm_merge_for_field p r obj k o : res_named p r -> res_named p o -> res_named p (merge_for_field r obj k o).
Proof. intros Hr Ho e Hin. apply (nm_merge_wo_root p r o Hr Ho e). unfold merge_for_field in Hin. destruct (r_root o); exact Hin. Qed.
Lemma nm_merge_for_slice p r sl i o : res_named p r -> res_named p o -> res_named p (merge_for_slice r sl i o).
Proof. intros Hr Ho e Hin. apply (nm_merge_wo_root p r o Hr Ho e). unfold merge_for_slice in Hin. destruct (r_root o); exact Hin. Qed.
Lemma nm_keep_relevant p x : res_named p x -> res_named p (keep_relevant x).
Proof.
  intros H e Hin. cbn [keep_relevant r_errs] in Hin. apply in_map_iff in Hin. destruct Hin as [e0 [<- Hf]].
  apply filter_In in Hf. destruct Hf as [Hf _]. destruct (H e0 Hf) as [Hn | Hn]; [left | right]; exact Hn.
Qed.

Lemma named_here p c a : named p (mkMsg c p a).
Proof. right. apply extends_refl. Qed.
Lemma named_nil p c a : named p (mkMsg c [] a).
Proof. left. reflexivity. Qed.
Lemma named_under p t c a : named p (mkMsg c (p ++ t) a).
Proof. right. apply extends_app. Qed.

Lemma onamed_bind p (x : outcome res) (f : res -> outcome res) :
  onamed p x -> (forall r, res_named p r -> onamed p (f r)) -> onamed p (bind x f).
Proof. destruct x as [r| |]; intros Hx Hf; [apply Hf; exact Hx | exact I | exact I]. Qed.

Section Groups.
Variable OR : oracles.
Variable N : numops.
Variable opt : options.
Hypothesis Hopt_items : opt_array_must_have_items opt = false.
Hypothesis Hopt_array : opt_obj_array_type_check opt = false.
Variable rec_sp : schema -> path -> path -> goval -> outcome res.
Hypothesis Hrec : forall s p q d, extends p q -> onamed p (rec_sp s p q d).

Lemma Hrec_under s p t d : onamed p (rec rec_sp s (p ++ t) d).
Proof. unfold rec. apply (onamed_weaken p (p ++ t)); [apply extends_app | apply Hrec, extends_refl]. Qed.

Lemma nm_type_validate p types nullable format d : res_named p (type_validate N p types nullable format d).
Proof.
  unfold type_validate. destruct d; repeat match goal with
    | |- res_named _ (if ?b then _ else _) => destruct b
    | |- res_named _ (let (_, _) := ?x in _) => destruct x
    | |- res_named _ empty_result => apply nm_empty
    | |- res_named _ (s_err _) => apply nm_serr; apply named_here
    end.
Qed.

Lemma nm_string_validate p s d : match string_validate OR p s d with Some r => res_named p r | None => True end.
Proof.
  unfold string_validate. destruct d; try (apply nm_serr; apply named_here).
  repeat match goal with
    | |- match (if ?b then _ else _) with _ => _ end => destruct b
    | |- res_named _ (s_err _) => apply nm_serr; apply named_here
    | |- True => exact I
    end.
Qed.

Lemma nm_format_validate p s d : onamed p (format_validate OR p s d).
Proof.
  unfold format_validate. destruct d; try apply nm_new. destruct (o_fmt_check OR (s_format s) s0); [apply nm_new|].
  apply nm_add; [apply nm_new|]. intros e [<- | []]. apply named_here.
Qed.

Lemma nm_number_validate p s d : res_named p (number_validate N p s d).
Proof.
  unfold number_validate. apply nm_inc. repeat apply nm_merge; try apply nm_new;
    repeat match goal with
    | |- match (match ?x with Some _ => _ | None => _ end) with _ => _ end => destruct x
    | |- True => exact I
    | |- res_named _ (if ?b then _ else _) => destruct b
    | |- res_named _ (match ?m with MOk => _ | MNotMultiple => _ | MNotPositive => _ end) => destruct m
    | |- res_named _ new_res => apply nm_new
    | |- res_named _ (merge new_res (Some (s_err _))) => apply nm_merge; [apply nm_new | apply nm_serr; apply named_here]
    end.
Qed.

Lemma nm_common_validate p s d : match common_validate N p s d with Some r => res_named p r | None => True end.
Proof.
  unfold common_validate. destruct (s_enum s); [exact I|]. destruct (existsb _ _); [exact I|]. apply nm_serr, named_here.
Qed.

Lemma nm_slice_items_one s1 p sl l : forall i r, res_named p r -> onamed p (slice_items_one rec_sp s1 p sl l i r).
Proof.
  induction l as [|v t IH]; intros i r Hr; cbn [slice_items_one]; [exact Hr|].
  apply onamed_bind; [apply Hrec, extends_app|]. intros x Hx. apply IH. apply nm_merge_for_slice; assumption.
Qed.

Lemma nm_slice_items_tuple ss p sl : forall l i r, res_named p r -> onamed p (slice_items_tuple rec_sp ss p sl l i r).
Proof.
  induction ss as [|s1 st IH]; intros [|v t] i r Hr; cbn [slice_items_tuple]; try exact Hr.
  apply onamed_bind; [apply Hrec_under|]. intros x Hx. apply IH. apply nm_merge_for_slice; assumption.
Qed.

Lemma nm_slice_additional sa p sl rest : forall i r, res_named p r -> onamed p (slice_additional rec_sp sa p sl rest i r).
Proof.
  induction rest as [|v t IH]; intros i r Hr; cbn [slice_additional]; [exact Hr|].
  apply onamed_bind; [apply Hrec_under|]. intros x Hx. apply IH. apply nm_merge_for_slice; assumption.
Qed.

Lemma nm_slice_validate p s d : onamed p (slice_validate N rec_sp p s d).
Proof.
  unfold slice_validate. destruct d; try apply nm_new.
  apply onamed_bind; [destruct (s_items_one s); [apply nm_slice_items_one; apply nm_new | apply nm_new]|]. intros r1 H1.
  apply onamed_bind; [apply nm_slice_items_tuple; exact H1|]. intros r2 H2.
  apply onamed_bind.
  - destruct (s_add_items s) as [[allows [sa|]]|]; repeat match goal with
      | |- onamed _ (if ?b then _ else _) => destruct b
      | |- onamed _ (Ok ?r) => change (res_named p r)
      | |- res_named _ (if ?b then _ else _) => destruct b
      | |- res_named _ (r_add _ _) => apply nm_add; [|intros e [<- | []]; apply named_nil]
      | |- res_named _ r2 => exact H2
      | |- onamed _ (slice_additional _ _ _ _ _ _ _) => apply nm_slice_additional
      end.
  - intros r3 H3. change (res_named p (r_inc (if s_unique s && unique_items N [] l then r_add
        (match s_max_items s with Some m => if m <? Z.of_nat (length l) then r_add (match s_min_items s with Some m0 => if Z.of_nat (length l) <? m0 then r_add r3 [mkMsg C_MIN_ITEMS p [m0]] else r3 | None => r3 end) [mkMsg C_MAX_ITEMS p [m]] else match s_min_items s with Some m0 => if Z.of_nat (length l) <? m0 then r_add r3 [mkMsg C_MIN_ITEMS p [m0]] else r3 | None => r3 end | None => match s_min_items s with Some m0 => if Z.of_nat (length l) <? m0 then r_add r3 [mkMsg C_MIN_ITEMS p [m0]] else r3 | None => r3 end end)
        [mkMsg C_UNIQUE p []] else
        (match s_max_items s with Some m => if m <? Z.of_nat (length l) then r_add (match s_min_items s with Some m0 => if Z.of_nat (length l) <? m0 then r_add r3 [mkMsg C_MIN_ITEMS p [m0]] else r3 | None => r3 end) [mkMsg C_MAX_ITEMS p [m]] else match s_min_items s with Some m0 => if Z.of_nat (length l) <? m0 then r_add r3 [mkMsg C_MIN_ITEMS p [m0]] else r3 | None => r3 end | None => match s_min_items s with Some m0 => if Z.of_nat (length l) <? m0 then r_add r3 [mkMsg C_MIN_ITEMS p [m0]] else r3 | None => r3 end end)))).
    apply nm_inc. repeat match goal with
      | |- res_named _ (if ?b then _ else _) => destruct b
      | |- res_named _ (match ?x with Some _ => _ | None => _ end) => destruct x
      | |- res_named _ (r_add _ _) => apply nm_add; [|intros e [<- | []]; apply named_here]
      | |- res_named _ r3 => exact H3
      end.
Qed.

(* ---- objects ---- *)

Definition onamed_pp (p : path) (o : outcome (bool * list (str * schema) * res)) : Prop :=
  match o with Ok (_, _, r) => res_named p r | _ => True end.

Lemma nm_pattern_property pps p key value : forall r m pats, res_named p r -> onamed_pp p (pattern_property OR rec_sp pps p key value r m pats).
Proof.
  induction pps as [|[k ps] t IH]; intros r m pats Hr; cbn [pattern_property]; [exact Hr|].
  destruct (negb (o_re_ok OR k)); [apply IH; exact Hr|]. destruct (negb (o_re_match OR k key)); [apply IH; exact Hr|].
  pose proof (Hrec_under ps p [SDot key] value) as Hx. destruct (rec rec_sp ps (p ++ [SDot key]) value) as [x| |]; cbn [bind]; try exact I.
  apply IH. apply nm_merge; assumption.
Qed.

Lemma nm_validate_pattern_property s p key value r : res_named p r -> onamed_pp p (validate_pattern_property OR rec_sp s p key value r).
Proof. intros Hr. unfold validate_pattern_property. destruct (s_pat_props s) eqn:E; [exact Hr|]. apply nm_pattern_property. exact Hr. Qed.

Lemma nm_header_ref_errors p v : forall e, In e (header_ref_errors p v) -> named p e.
Proof.
  intros e He. unfold header_ref_errors in He. destruct v; try contradiction. apply in_flat_map in He. destruct He as [hk [_ He]].
  destruct (snd hk); try contradiction. destruct (lookup_val m0 k_dollar_ref) as [v0|]; [|contradiction].
  destruct v0; try contradiction. destruct He as [<- | []]. apply named_nil.
Qed.

Lemma nm_no_additional s p m : forall r, res_named p r -> res_named p (no_additional_properties OR s p m r).
Proof.
  induction m as [|[k v] t IH]; intros r Hr; cbn [no_additional_properties]; [exact Hr|].
  destruct (Z.eqb k k_dollar_schema || Z.eqb k k_id); [apply IH; exact Hr|].
  destruct (has_prop s k); [apply IH; exact Hr|].
  destruct (existsb _ (s_pat_props s)); [apply IH; exact Hr|]. cbv zeta.
  apply IH. destruct (Z.eqb k k_headers).
  - apply nm_add; [apply nm_add; [exact Hr | intros e [<- | []]; apply named_here] | apply nm_header_ref_errors].
  - apply nm_add; [exact Hr | intros e [<- | []]; apply named_here].
Qed.

Lemma nm_additional s p obj m : forall r, res_named p r -> onamed p (additional_properties OR rec_sp s p obj m r).
Proof.
  induction m as [|[key value] t IH]; intros r Hr; cbn [additional_properties]; [exact Hr|].
  destruct (has_prop s key); [apply IH; exact Hr|].
  pose proof (nm_validate_pattern_property s p key value r Hr) as Hv.
  destruct (validate_pattern_property OR rec_sp s p key value r) as [[[matched pats] r1]| |]; cbn [bind]; try exact I. cbn [onamed_pp] in Hv.
  destruct matched; [apply IH; exact Hv|].
  destruct (s_add_props s) as [[b [sa|]]|]; try (apply IH; exact Hv).
  apply onamed_bind; [apply Hrec_under|]. intros x Hx. apply IH. apply nm_merge_for_field; assumption.
Qed.

Definition onamed_ps (p : path) (o : outcome (res * list str)) : Prop := match o with Ok (r, _) => res_named p r | _ => True end.

Lemma nm_properties_schema props p obj m : forall r created, res_named p r -> onamed_ps p (properties_schema opt rec_sp props p obj m r created).
Proof.
  induction props as [|[pname ps] t IH]; intros r created Hr; cbn [properties_schema]; [exact Hr|]. cbv zeta.
  destruct (lookup_val m pname).
  - match goal with |- onamed_ps _ (bind ?X _) =>
      assert (Hx : onamed p X);
      [ unfold rec; destruct (path_is_empty p) eqn:Ep;
        [ apply (onamed_weaken p [SKey0 pname]); [left; exact Ep | apply Hrec, extends_refl]
        | apply (onamed_weaken p (p ++ [SDot pname])); [apply extends_app | apply Hrec, extends_refl] ]
      | destruct X as [x| |]; cbn [bind]; try exact I ]
    end.
    apply IH. apply nm_merge_for_field; assumption.
  - destruct (s_default ps); [|apply IH; exact Hr]. apply IH. destruct (opt_skip_schemata opt); exact Hr.
Qed.

Lemma nm_required_errors s p m created : forall e, In e (required_errors s p m created) -> named p e.
Proof.
  intros e He. unfold required_errors in He. apply in_flat_map in He. destruct He as [k [_ He]].
  destruct (lookup_val m k); [destruct He|]. destruct (contains k created); [destruct He|]. destruct He as [<- | []]. apply named_under.
Qed.

Lemma nm_merge_patterns pats s p obj key value : forall r, res_named p r -> onamed p (merge_patterns rec_sp pats s p obj key value r).
Proof.
  induction pats as [|[pn x] t IH]; intros r Hr; cbn [merge_patterns]; [exact Hr|].
  destruct (lookup_schema (s_pat_props s) pn); [|apply IH; exact Hr].
  apply onamed_bind; [apply Hrec_under|]. intros y Hy. apply IH. apply nm_merge_for_field; assumption.
Qed.

Lemma nm_pattern_loop s p obj m : forall r, res_named p r -> onamed p (pattern_loop OR rec_sp s p obj m r).
Proof.
  induction m as [|[key value] t IH]; intros r Hr; cbn [pattern_loop]; [exact Hr|].
  pose proof (nm_validate_pattern_property s p key value r Hr) as Hv.
  destruct (validate_pattern_property OR rec_sp s p key value r) as [[[matched pats] r1]| |]; cbn [bind]; try exact I. cbn [onamed_pp] in Hv.
  destruct (has_prop s key || negb matched); [apply IH; exact Hv|].
  apply onamed_bind; [apply nm_merge_patterns; exact Hv|]. intros r2 H2. apply IH. exact H2.
Qed.

Lemma nm_precheck p m r : precheck opt p m r = r.
Proof. unfold precheck. rewrite Hopt_items, Hopt_array. reflexivity. Qed.

Lemma nm_object_validate p s d : onamed p (object_validate OR opt rec_sp p s d).
Proof.
  unfold object_validate. destruct d; try (apply nm_serr; apply named_here). cbv zeta.
  repeat match goal with |- onamed _ (if ?b then _ else _) => destruct b; [apply nm_serr; apply named_here|] end.
  rewrite nm_precheck.
  apply onamed_bind.
  - destruct (s_add_props s) as [[[|] x]|]; try (apply nm_additional; apply nm_new). apply nm_no_additional. apply nm_new.
  - intros r1 H1. pose proof (nm_properties_schema (s_props s) p id m r1 [] H1) as Hp.
    destruct (properties_schema opt rec_sp (s_props s) p id m r1 []) as [[r2 created]| |]; cbn [bind]; try exact I. cbn [onamed_ps] in Hp.
    apply nm_pattern_loop. destruct (s_required s); [exact Hp|]. apply nm_add; [exact Hp | apply nm_required_errors].
Qed.

(* ---- composition ---- *)

Definition onamed2 (p : path) (o : outcome (res * res)) : Prop := match o with Ok (a, b) => res_named p a /\ res_named p b | _ => True end.
Definition optnamed (p : path) (o : option res) : Prop := match o with Some x => res_named p x | None => True end.

Lemma nm_any_of vs p d : forall main keep best, res_named p main -> res_named p keep -> optnamed p best ->
  onamed2 p (any_of rec_sp vs p d main keep best).
Proof.
  induction vs as [|s1 t IH]; intros main keep best Hm Hk Hb; cbn [any_of].
  - split; [apply nm_merge; [apply nm_add; [exact Hm | intros e [<- | []]; apply named_here] | exact Hb] | exact Hk].
  - pose proof (Hrec s1 p p d (extends_refl p)) as Hx. unfold rec. destruct (rec_sp s1 p p d) as [x| |]; cbn [bind]; try exact I.
    assert (Hk' : res_named p (merge keep (Some (keep_relevant x)))) by (apply nm_merge; [exact Hk | apply nm_keep_relevant; exact Hx]).
    destruct (r_valid x); [split; [apply nm_merge; assumption | apply nm_new]|].
    destruct best as [b|]; [destruct (r_mc b <? r_mc x)|]; apply IH; assumption.
Qed.

Definition onamed4 (p : path) (o : outcome (option res * option res * Z * res)) : Prop :=
  match o with Ok (a, b, _, k) => optnamed p a /\ optnamed p b /\ res_named p k | _ => True end.

Lemma nm_one_of vs p d : forall keep first best validated, res_named p keep -> optnamed p first -> optnamed p best ->
  onamed4 p (one_of rec_sp vs p d keep first best validated).
Proof.
  induction vs as [|s1 t IH]; intros keep first best validated Hk Hf Hb; cbn [one_of]; [repeat split; assumption|].
  pose proof (Hrec s1 p p d (extends_refl p)) as Hx. unfold rec. destruct (rec_sp s1 p p d) as [x| |]; cbn [bind]; try exact I.
  assert (Hk' : res_named p (merge keep (Some (keep_relevant x)))) by (apply nm_merge; [exact Hk | apply nm_keep_relevant; exact Hx]).
  destruct (r_valid x).
  - apply IH; [apply nm_new | destruct first; [exact Hf | exact Hx] | exact Hb].
  - match goal with |- onamed4 _ (if ?b then _ else _) => destruct b end; apply IH; assumption.
Qed.

Definition onamed3 (p : path) (o : outcome (res * res * Z)) : Prop := match o with Ok (a, b, _) => res_named p a /\ res_named p b | _ => True end.

Lemma nm_all_of vs p d : forall main keep validated, res_named p main -> res_named p keep -> onamed3 p (all_of rec_sp vs p d main keep validated).
Proof.
  induction vs as [|s1 t IH]; intros main keep validated Hm Hk; cbn [all_of]; [split; assumption|].
  pose proof (Hrec s1 p p d (extends_refl p)) as Hx. unfold rec. destruct (rec_sp s1 p p d) as [x| |]; cbn [bind]; try exact I.
  apply IH; [apply nm_merge; assumption | apply nm_merge; [exact Hk | apply nm_keep_relevant; exact Hx]].
Qed.

Lemma nm_dependencies s p d m all : forall main, res_named p main -> onamed p (dependencies rec_sp s p d m all main).
Proof.
  induction m as [|[key v] t IH]; intros main Hm; cbn [dependencies]; [exact Hm|].
  match goal with |- onamed _ (match ?x with Some _ => _ | None => _ end) => destruct x as [[[ds|] props]|] end.
  - apply onamed_bind; [apply Hrec_under|]. intros x Hx. apply IH. apply nm_merge; assumption.
  - apply IH. apply nm_add; [exact Hm|]. intros e He. apply in_flat_map in He. destruct He as [dk [_ He]].
    destruct (lookup_val all dk); [destruct He|]. destruct He as [<- | []]. apply named_here.
  - apply IH. exact Hm.
Qed.

Lemma nm_props_validate p s d : onamed p (props_validate rec_sp p s d).
Proof.
  unfold props_validate. cbv zeta.
  (* anyOf *)
  assert (Ha : match (match s_any_of s with
                      | [] => Ok (new_res, None)
                      | vs => do mk <- any_of rec_sp vs p d new_res new_res None; Ok (fst mk, Some (snd mk))
                      end) with Ok (a, k) => res_named p a /\ optnamed p k | _ => True end).
  { destruct (s_any_of s) as [|v0 vt]; [split; [apply nm_new | exact I]|].
    pose proof (nm_any_of (v0 :: vt) p d new_res new_res None (nm_new p) (nm_new p) I) as H.
    destruct (any_of rec_sp (v0 :: vt) p d new_res new_res None) as [[a b]| |]; cbn [bind]; try exact I. exact H. }
  match goal with |- onamed _ (bind ?X _) => destruct X as [[main1 keep_any]| |]; cbn [bind]; try exact I end. destruct Ha as [Hm1 Hka].
  (* oneOf *)
  assert (Hb : match (match s_one_of s with
                      | [] => Ok (main1, None)
                      | vs =>
                          do x <- one_of rec_sp vs p d new_res None None 0;
                          let '(first, best, validated, keep) := x in
                          Ok (if Z.eqb validated 0 then merge (r_add main1 [mkMsg C_ONE_OF_NONE p []]) best
                              else if Z.eqb validated 1 then merge main1 first
                              else merge (r_add main1 [mkMsg C_ONE_OF_MANY p [validated]]) best, Some keep)
                      end) with Ok (a, k) => res_named p a /\ optnamed p k | _ => True end).
  { destruct (s_one_of s) as [|v0 vt]; [split; [exact Hm1 | exact I]|].
    pose proof (nm_one_of (v0 :: vt) p d new_res None None 0 (nm_new p) I I) as H.
    destruct (one_of rec_sp (v0 :: vt) p d new_res None None 0) as [[[[first best] validated] keep]| |]; cbn [bind]; try exact I.
    destruct H as [Hf [Hbest Hk]]. split; [|exact Hk].
    destruct (Z.eqb validated 0); [apply nm_merge; [apply nm_add; [exact Hm1 | intros e [<- | []]; apply named_here] | exact Hbest]|].
    destruct (Z.eqb validated 1); [apply nm_merge; assumption|].
    apply nm_merge; [apply nm_add; [exact Hm1 | intros e [<- | []]; apply named_here] | exact Hbest]. }
  match goal with |- onamed _ (bind ?X _) => destruct X as [[main2 keep_one]| |]; cbn [bind]; try exact I end. destruct Hb as [Hm2 Hko].
  (* allOf *)
  assert (Hc : match (match s_all_of s with
                      | [] => Ok (main2, None)
                      | vs =>
                          do x <- all_of rec_sp vs p d main2 new_res 0;
                          let '(main', keep, validated) := x in
                          Ok (if Z.eqb validated 0 then r_add main' [mkMsg C_ALL_OF_NONE p []]
                              else if Z.eqb validated (Z.of_nat (length vs)) then main'
                              else r_add main' [mkMsg C_ALL_OF_SOME p []], Some keep)
                      end) with Ok (a, k) => res_named p a /\ optnamed p k | _ => True end).
  { destruct (s_all_of s) as [|v0 vt]; [split; [exact Hm2 | exact I]|].
    pose proof (nm_all_of (v0 :: vt) p d main2 new_res 0 Hm2 (nm_new p)) as H. cbv zeta.
    destruct (all_of rec_sp (v0 :: vt) p d main2 new_res 0) as [[[main' keep] validated]| |]; cbn [bind]; try exact I.
    destruct H as [Hm' Hk]. split; [|exact Hk].
    destruct (Z.eqb validated 0); [apply nm_add; [exact Hm' | intros e [<- | []]; apply named_here]|].
    destruct (Z.eqb validated _); [exact Hm' | apply nm_add; [exact Hm' | intros e [<- | []]; apply named_here]]. }
  cbv zeta in Hc.
  match goal with |- onamed _ (bind ?X _) => destruct X as [[main3 keep_all]| |]; cbn [bind]; try exact I end. destruct Hc as [Hm3 Hkl].
  (* not *)
  assert (Hn : onamed p (match s_not s with
                         | None => Ok main3
                         | Some ns => do x <- rec rec_sp ns p d; Ok (if r_valid x then r_add main3 [mkMsg C_NOT p []] else main3)
                         end)).
  { destruct (s_not s) as [ns|]; [|exact Hm3]. apply onamed_bind; [apply Hrec, extends_refl|]. intros x Hx.
    destruct (r_valid x); [apply nm_add; [exact Hm3 | intros e [<- | []]; apply named_here] | exact Hm3]. }
  match goal with |- onamed _ (bind ?X _) => destruct X as [main4| |]; cbn [bind]; try exact I end.
  (* dependencies *)
  assert (Hd : onamed p (match s_deps s, d with
                         | _ :: _, VObj _ m => dependencies rec_sp s p d m m main4
                         | _, _ => Ok main4
                         end)).
  { destruct (s_deps s); [exact Hn|]. destruct d; try exact Hn. apply nm_dependencies. exact Hn. }
  match goal with |- onamed _ (bind ?X _) => destruct X as [main5| |]; cbn [bind]; try exact I end.
  repeat apply nm_merge; try assumption; try (apply nm_inc; exact Hd).
Qed.

(* ---- one validator ---- *)

Lemma nm_sv_body s p q d : extends p q -> onamed p (sv_body OR N opt rec_sp s p q d).
Proof.
  intros Hq. unfold sv_body.
  set (r0 := if opt_skip_schemata opt then new_res else mkRes [] 0 [s_default s] [] []).
  assert (Hr0 : res_named p r0) by (unfold r0; destruct (opt_skip_schemata opt); intros e []).
  assert (Hrest : forall d', onamed p (
     do x2 <- props_validate rec_sp p s d';
     do r4 <- (if format_applies OR s d'
               then do x <- format_validate OR p s d';
                    Ok (r_inc (merge (if is_string_kind d' then r_inc (merge (r_inc (merge (if type_applies (s_types s) (s_format s) then r_inc (merge r0 (Some (type_validate N p (s_types s) (s_nullable s) (s_format s) d'))) else r0) (Some x2))) (string_validate OR p s d')) else r_inc (merge (if type_applies (s_types s) (s_format s) then r_inc (merge r0 (Some (type_validate N p (s_types s) (s_nullable s) (s_format s) d'))) else r0) (Some x2))) (Some x)))
               else Ok (if is_string_kind d' then r_inc (merge (r_inc (merge (if type_applies (s_types s) (s_format s) then r_inc (merge r0 (Some (type_validate N p (s_types s) (s_nullable s) (s_format s) d'))) else r0) (Some x2))) (string_validate OR p s d')) else r_inc (merge (if type_applies (s_types s) (s_format s) then r_inc (merge r0 (Some (type_validate N p (s_types s) (s_nullable s) (s_format s) d'))) else r0) (Some x2))));
     do r6 <- (if is_slice_kind d'
               then do x <- slice_validate N rec_sp p s d'; Ok (r_inc (merge (if is_number_kind d' then r_inc (merge r4 (Some (number_validate N p s d'))) else r4) (Some x)))
               else Ok (if is_number_kind d' then r_inc (merge r4 (Some (number_validate N p s d'))) else r4));
     do r8 <- (if is_map_kind d'
               then do x <- object_validate OR opt rec_sp p s d'; Ok (r_inc (merge (r_inc (merge r6 (common_validate N p s d'))) (Some x)))
               else Ok (r_inc (merge r6 (common_validate N p s d'))));
     Ok (r_inc r8))).
  { intros d'. apply onamed_bind; [apply nm_props_validate|]. intros x2 H2.
    assert (Hr1 : res_named p (if type_applies (s_types s) (s_format s) then r_inc (merge r0 (Some (type_validate N p (s_types s) (s_nullable s) (s_format s) d'))) else r0)).
    { destruct (type_applies _ _); [apply nm_inc, nm_merge; [exact Hr0 | apply nm_type_validate] | exact Hr0]. }
    assert (Hr3 : res_named p (if is_string_kind d' then r_inc (merge (r_inc (merge (if type_applies (s_types s) (s_format s) then r_inc (merge r0 (Some (type_validate N p (s_types s) (s_nullable s) (s_format s) d'))) else r0) (Some x2))) (string_validate OR p s d')) else r_inc (merge (if type_applies (s_types s) (s_format s) then r_inc (merge r0 (Some (type_validate N p (s_types s) (s_nullable s) (s_format s) d'))) else r0) (Some x2)))).
    { destruct (is_string_kind d'); [apply nm_inc, nm_merge; [apply nm_inc, nm_merge; assumption | apply nm_string_validate] | apply nm_inc, nm_merge; assumption]. }
    apply onamed_bind.
    { destruct (format_applies OR s d'); [|exact Hr3]. apply onamed_bind; [apply nm_format_validate|]. intros x Hx. apply nm_inc, nm_merge; assumption. }
    intros r4 H4.
    assert (Hr5 : res_named p (if is_number_kind d' then r_inc (merge r4 (Some (number_validate N p s d'))) else r4)).
    { destruct (is_number_kind d'); [apply nm_inc, nm_merge; [exact H4 | apply nm_number_validate] | exact H4]. }
    apply onamed_bind.
    { destruct (is_slice_kind d'); [|exact Hr5]. apply onamed_bind; [apply nm_slice_validate|]. intros x Hx. apply nm_inc, nm_merge; assumption. }
    intros r6 H6.
    assert (Hr7 : res_named p (r_inc (merge r6 (common_validate N p s d')))) by (apply nm_inc, nm_merge; [exact H6 | apply nm_common_validate]).
    apply onamed_bind.
    { destruct (is_map_kind d'); [|exact Hr7]. apply onamed_bind; [apply nm_object_validate|]. intros x Hx. apply nm_inc, nm_merge; assumption. }
    intros r8 H8. apply nm_inc. exact H8. }
  destruct d; cbv beta iota zeta; fold r0;
    try (apply Hrest);
    try (apply nm_merge; [apply nm_merge; [exact Hr0 | apply nm_type_validate] | apply nm_common_validate]).
  (* json.Number *)
  destruct (types_numeric s); [|apply Hrest].
  destruct (contains k_integer (s_types s)).
  - destruct asint; [apply Hrest|]. apply nm_inc, nm_add; [exact Hr0|]. intros e [<- | []]. right. exact Hq.
  - destruct asflt; [apply Hrest|]. apply nm_inc, nm_add; [exact Hr0|]. intros e [<- | []]. right. exact Hq.
Qed.

End Groups.

(* every error of every result is named after the validator's path, at every fuel, for every schema and value *)
Theorem names_extend_the_path OR N opt defs :
  opt_array_must_have_items opt = false -> opt_obj_array_type_check opt = false ->
  forall fuel s p q d, extends p q -> onamed p (sv_validate OR N opt defs fuel s p q d).
Proof.
  intros H1 H2. induction fuel as [|f IH]; intros s p q d Hq; cbn [sv_validate]; [exact I|].
  destruct (eager defs f s); cbn [bind]; try exact I. destruct (resolve defs f s) as [s'| |]; cbn [bind]; try exact I.
  apply nm_sv_body; [exact H1 | exact H2 | exact IH | exact Hq].
Qed.
