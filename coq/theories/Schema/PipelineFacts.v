(* Facts about the result bookkeeping of the pipeline model and about its leaf keyword groups. *)
From Coq Require Import List ZArith Bool Lia.
From Verif Require Import Base.Sx Base.GoVal Schema.Ast Schema.Pipeline Schema.Draft4.
Import ListNotations.
Open Scope Z_scope.

(* ------------------------------------------------------------------ message equality *)

Lemma list_eqb_spec {T} (eqb : T -> T -> bool) :
  (forall a b, eqb a b = true <-> a = b) -> forall l1 l2, list_eqb eqb l1 l2 = true <-> l1 = l2.
Proof.
  intros H. induction l1 as [|x t IH]; intros [|y u]; simpl; try (split; congruence).
  rewrite andb_true_iff, H, IH. split; [intros [-> ->]; reflexivity|intros E; injection E; auto].
Qed.

Lemma seg_eqb_spec a b : seg_eqb a b = true <-> a = b.
Proof.
  destruct a, b; simpl; try (split; congruence); rewrite Z.eqb_eq; split; congruence.
Qed.

Lemma msg_eqb_spec a b : msg_eqb a b = true <-> a = b.
Proof.
  destruct a as [c n x], b as [c' n' x']. unfold msg_eqb; simpl.
  rewrite !andb_true_iff, Z.eqb_eq, (list_eqb_spec seg_eqb seg_eqb_spec), (list_eqb_spec Z.eqb Z.eqb_eq).
  split; [intros [[-> ->] ->]; reflexivity|intros E; injection E; auto].
Qed.

Lemma reported_In e l : reported e l = true <-> In e l.
Proof.
  induction l as [|x t IH]; simpl; [split; [discriminate|tauto]|].
  destruct (msg_eqb e x) eqn:E.
  - apply msg_eqb_spec in E. subst x. tauto.
  - rewrite IH. split; [auto|]. intros [Hx|H]; [|assumption]. subst x.
    assert (msg_eqb e e = true) by (apply msg_eqb_spec; reflexivity). congruence.
Qed.

(* ------------------------------------------------------------------ add_errs: set semantics *)

Lemma add_err_In l e x : In x (add_err l e) <-> In x l \/ x = e.
Proof.
  unfold add_err. destruct (reported e l) eqn:E.
  - apply reported_In in E. split; [auto|]. intros [H| ->]; assumption.
  - rewrite in_app_iff. simpl. intuition congruence.
Qed.

Lemma add_errs_In es : forall l x, In x (add_errs l es) <-> In x l \/ In x es.
Proof.
  unfold add_errs. induction es as [|e t IH]; intros l x; simpl; [tauto|].
  rewrite IH, add_err_In. intuition congruence.
Qed.

Lemma add_err_NoDup l e : NoDup l -> NoDup (add_err l e).
Proof.
  intros H. unfold add_err. destruct (reported e l) eqn:E; [assumption|].
  assert (~ In e l) by (rewrite <- reported_In; congruence).
  clear E. induction l as [|x t IH]; simpl.
  - constructor; [tauto|constructor].
  - inversion H; subst. constructor.
    + rewrite in_app_iff. simpl. simpl in H0. intuition congruence.
    + apply IH; [assumption|]. simpl in H0. tauto.
Qed.

Lemma add_errs_NoDup es : forall l, NoDup l -> NoDup (add_errs l es).
Proof.
  unfold add_errs. induction es as [|e t IH]; intros l H; simpl; [assumption|].
  apply IH, add_err_NoDup, H.
Qed.

Lemma add_err_nonempty l e : add_err l e <> [].
Proof. unfold add_err. destruct (reported e l) eqn:E; destruct l; simpl in *; congruence. Qed.

Lemma add_errs_nil es : forall l, add_errs l es = [] <-> l = [] /\ es = [].
Proof.
  unfold add_errs. induction es as [|e t IH]; intros l; simpl; [tauto|].
  rewrite IH. split; [intros [H _]; exfalso; eapply add_err_nonempty; eassumption|intros [_ H]; discriminate].
Qed.

(* ------------------------------------------------------------------ validity of combined results *)

Lemma r_valid_nil r : r_valid r = true <-> r_errs r = [].
Proof. unfold r_valid. destruct (r_errs r); split; congruence. Qed.

Lemma list_nil_dec {T} (l : list T) : {l = []} + {l <> []}.
Proof. destruct l; [left; reflexivity|right; discriminate]. Qed.

Lemma r_valid_add r es : r_valid (r_add r es) = r_valid r && match es with [] => true | _ => false end.
Proof.
  apply eq_true_iff_eq. rewrite andb_true_iff, !r_valid_nil. simpl. rewrite add_errs_nil.
  destruct es; intuition congruence.
Qed.

Lemma r_valid_inc r : r_valid (r_inc r) = r_valid r.
Proof. reflexivity. Qed.

Lemma r_valid_merge_wo_root r o : r_valid (merge_wo_root r o) = r_valid r && r_valid o.
Proof.
  apply eq_true_iff_eq. rewrite andb_true_iff, !r_valid_nil. simpl. apply add_errs_nil.
Qed.

Lemma r_valid_merge r o : r_valid (merge r o) = r_valid r && match o with Some o => r_valid o | None => true end.
Proof.
  destruct o as [o|]; simpl; [|now rewrite andb_true_r].
  change (r_valid (merge_wo_root r o) = r_valid r && r_valid o). apply r_valid_merge_wo_root.
Qed.

Lemma r_valid_merge_for_field r obj k o : r_valid (merge_for_field r obj k o) = r_valid r && r_valid o.
Proof.
  unfold merge_for_field. destruct (r_root o); [apply r_valid_merge_wo_root|].
  change (r_valid (merge_wo_root r o) = r_valid r && r_valid o). apply r_valid_merge_wo_root.
Qed.

Lemma r_valid_merge_for_slice r sl i o : r_valid (merge_for_slice r sl i o) = r_valid r && r_valid o.
Proof.
  unfold merge_for_slice. destruct (r_root o); [apply r_valid_merge_wo_root|].
  change (r_valid (merge_wo_root r o) = r_valid r && r_valid o). apply r_valid_merge_wo_root.
Qed.

Lemma r_valid_s_err e : r_valid (s_err e) = false.
Proof. reflexivity. Qed.

Lemma r_valid_new : r_valid new_res = true.
Proof. reflexivity. Qed.

Lemma r_valid_empty : r_valid empty_result = true.
Proof. reflexivity. Qed.

(* ------------------------------------------------------------------ the one-shot wrapper *)

Lemma against_schema_spec OR N opt defs fuel s d :
  match sv_validate OR N opt defs fuel s [SRoot 0] [SRoot 0] d with
  | Ok r => against_schema OR N opt defs fuel s d = Ok (if r_valid r then None else Some (r_errs r))
  | Panic site => against_schema OR N opt defs fuel s d = Panic site
  | OutOfFuel => against_schema OR N opt defs fuel s d = OutOfFuel
  end.
Proof.
  unfold against_schema. destruct (sv_validate OR N opt defs fuel s [SRoot 0] [SRoot 0] d) as [r| |]; simpl; try reflexivity.
  unfold r_valid. destruct (r_errs r); reflexivity.
Qed.
