(* The binary64 instance that the correspondence run executes satisfies the numeric interfaces: [exact_iface] (C13) and
   [carrier_iface] (typed values, C16), with the mathematical value of the bit pattern and "finite". Of the
   divisibility test, "a factor <= 0 is reported" and "a divisor is accepted" are proved ([ci_mult_div]: the quotient is
   exact); that a non-divisor is rejected ([mult_iface]) is not - it needs an error analysis of validate.MultipleOf's
   division and of the 1e-9 tolerance of swag.IsFloat64AJSONInteger. *)
From Coq Require Import ZArith Bool QArith Lia.
From Verif Require Import Base.GoVal Base.F64 Base.F64Exact Schema.Numeric Schema.SimpleCarrier.
Open Scope Z_scope.

Theorem flocq_exact : exact_iface flocq_ops fvalue fok.
Proof.
  constructor; cbn [n_lt n_le n_exact_int n_of_int flocq_ops].
  - exact f_lt_spec.
  - exact f_le_spec.
  - intros a z Ha. exact (f_exact_int_spec a z Ha).
  - intros z Hz. exact (f_of_Z_exact z Hz).
Qed.

Theorem flocq_carrier : carrier_iface flocq_ops fvalue fok.
Proof.
  constructor; cbn [n_eq n_is_int n_to_int64 n_to_uint64 n_fits_f32 n_of_int n_mult_of flocq_ops].
  - exact f_eq_spec.
  - intros z Hz. exact (f_is_json_int_of_Z z Hz).
  - intros z Hz. exact (f_to_int64_of_Z z Hz).
  - intros z Hz H0. apply f_to_uint64_of_Z. unfold small in Hz. lia.
  - intros z Hz. exact (f_fits_f32_of_Z z Hz).
  - intros z g f Hz Hf Hv. exact (f_mult_of_div z g f Hz Hf Hv).
  - intros a f _ H. unfold f_mult_of. change (f_le f c_zero = true) in H. rewrite H. reflexivity.
Qed.
