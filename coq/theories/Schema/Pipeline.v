(* L1p: transcription of the schema validation pipeline
     schema.go (SchemaValidator.Validate, newSchemaValidator), type.go, schema_props.go,
     object_validator.go, slice_validator.go, validator.go (basicCommonValidator, numberValidator,
     stringValidator), formats.go, values.go, and the result bookkeeping of result.go.
   Deliberately not tidy: where the code is odd, this is odd. No proofs in this file. *)
From Coq Require Import List ZArith Bool.
From Verif Require Import Base.Sx Base.GoVal Schema.Ast.
Import ListNotations.
Open Scope Z_scope.

(* ------------------------------------------------------------------ outcomes *)

Inductive outcome (T : Type) : Type :=
| Ok (t : T)
| Panic (site : Z)
| OutOfFuel.
Arguments Ok {T} t.
Arguments Panic {T} site.
Arguments OutOfFuel {T}.

Definition bind {T U} (x : outcome T) (f : T -> outcome U) : outcome U :=
  match x with Ok t => f t | Panic s => Panic s | OutOfFuel => OutOfFuel end.
Notation "'do' x <- e ; k" := (bind e (fun x => k)) (at level 200, x name, e at level 100, k at level 200).

(* Go panic sites covered by the model *)
Definition P_BAD_REF : Z := 3.        (* schema.go:81 documented panic: reference cannot be resolved *)

(* ------------------------------------------------------------------ names and messages *)

Inductive seg : Type :=
| SRoot (s : str)      (* the caller's root path, verbatim *)
| SDot (k : str)       (* "." ++ k *)
| SKey0 (k : str)      (* k, without dot: object_validator.go:347-348 when o.Path == "" *)
| SIdx (i : Z).        (* "." ++ decimal i *)

Definition path := list seg.

Definition seg_is_empty (s : seg) : bool :=
  match s with SRoot k | SKey0 k => Z.eqb k 0 | _ => false end.

(* o.Path == "" *)
Definition path_is_empty (p : path) : bool := forallb seg_is_empty p.

Definition seg_eqb (a b : seg) : bool :=
  match a, b with
  | SRoot x, SRoot y | SDot x, SDot y | SKey0 x, SKey0 y | SIdx x, SIdx y => Z.eqb x y
  | _, _ => false
  end.

Fixpoint list_eqb {T} (eqb : T -> T -> bool) (a b : list T) : bool :=
  match a, b with
  | [], [] => true
  | x :: a', y :: b' => eqb x y && list_eqb eqb a' b'
  | _, _ => false
  end.

Record msg : Type := mkMsg { m_code : Z; m_name : path; m_args : list Z }.

Definition msg_eqb (a b : msg) : bool :=
  Z.eqb (m_code a) (m_code b) && list_eqb seg_eqb (m_name a) (m_name b) && list_eqb Z.eqb (m_args a) (m_args b).

(* go-openapi/errors codes *)
Definition C_INVALID_TYPE := 601.
Definition C_REQUIRED := 602.
Definition C_TOO_LONG := 603.
Definition C_TOO_SHORT := 604.
Definition C_PATTERN := 605.
Definition C_ENUM := 606.
Definition C_MULTIPLE_OF := 607.
Definition C_MAX := 608.
Definition C_MIN := 609.
Definition C_UNIQUE := 610.
Definition C_MAX_ITEMS := 611.
Definition C_MIN_ITEMS := 612.
Definition C_TOO_FEW_PROPS := 614.
Definition C_TOO_MANY_PROPS := 615.
Definition C_UNALLOWED_PROP := 616.
Definition C_MULT_POSITIVE := 618.
(* code 422 messages of schema_messages.go, told apart by their template *)
Definition C_ANY_OF := 1001.
Definition C_ONE_OF_NONE := 1002.
Definition C_ONE_OF_MANY := 1003.
Definition C_ALL_OF_NONE := 1004.
Definition C_ALL_OF_SOME := 1005.
Definition C_NOT := 1006.
Definition C_DEPENDENCY := 1007.
Definition C_NO_ADD_ITEMS := 1008.
Definition C_TYPE_CONV := 1009.
Definition C_REF_IN_HEADER := 1010.           (* "IMPORTANT!..." *)
Definition C_REF_IN_HEADER_STRIPPED := 1011.  (* same text without the tag *)

Definition seg_code (s : seg) : list Z :=
  match s with SRoot k => [0; k] | SDot k => [1; k] | SKey0 k => [2; k] | SIdx i => [3; i] end.
Definition path_code (p : path) : list Z := flat_map seg_code p.

(* ------------------------------------------------------------------ results *)

Definition sdef := option goval.   (* what post-processing reads from a recorded schema: its Default *)

Record res : Type := mkRes {
  r_errs : list msg;
  r_mc : Z;
  r_root : list sdef;                          (* rootObjectSchemata *)
  r_fields : list (Z * str * list sdef);       (* fieldSchemata: (object identity, member, schemata) *)
  r_items : list (Z * Z * list sdef);          (* itemSchemata: (slice identity, index, schemata) *)
}.

Definition new_res : res := mkRes [] 0 [] [] [].
Definition empty_result : res := mkRes [] 1 [] [] [].      (* result.go:26 *)

Fixpoint reported (e : msg) (l : list msg) : bool :=
  match l with [] => false | x :: t => if msg_eqb e x then true else reported e t end.

Definition add_err (l : list msg) (e : msg) : list msg := if reported e l then l else l ++ [e].
Definition add_errs (l : list msg) (es : list msg) : list msg := fold_left add_err es l.

Definition r_add (r : res) (es : list msg) : res :=
  mkRes (add_errs (r_errs r) es) (r_mc r) (r_root r) (r_fields r) (r_items r).
Definition r_inc (r : res) : res := mkRes (r_errs r) (r_mc r + 1) (r_root r) (r_fields r) (r_items r).
Definition r_valid (r : res) : bool := match r_errs r with [] => true | _ => false end.

(* result.go:271-296 *)
Definition merge_wo_root (r o : res) : res :=
  mkRes (add_errs (r_errs r) (r_errs o)) (r_mc r + r_mc o) (r_root r)
        (r_fields r ++ r_fields o) (r_items r ++ r_items o).

(* result.go:116-128; None = nil operand *)
Definition merge (r : res) (o : option res) : res :=
  match o with
  | None => r
  | Some o => let r' := merge_wo_root r o in
              mkRes (r_errs r') (r_mc r') (r_root r' ++ r_root o) (r_fields r') (r_items r')
  end.

(* result.go:188-210 *)
Definition merge_for_field (r : res) (obj : Z) (field : str) (o : res) : res :=
  let r' := merge_wo_root r o in
  match r_root o with
  | [] => r'
  | sch => mkRes (r_errs r') (r_mc r') (r_root r') (r_fields r' ++ [(obj, field, sch)]) (r_items r')
  end.

(* result.go:215-238 *)
Definition merge_for_slice (r : res) (sl : Z) (i : Z) (o : res) : res :=
  let r' := merge_wo_root r o in
  match r_root o with
  | [] => r'
  | sch => mkRes (r_errs r') (r_mc r') (r_root r') (r_fields r') (r_items r' ++ [(sl, i, sch)])
  end.

(* result.go:382-416: only messages tagged IMPORTANT! survive, with the tag removed *)
Definition keep_relevant (r : res) : res :=
  mkRes (map (fun e => mkMsg C_REF_IN_HEADER_STRIPPED (m_name e) (m_args e))
             (filter (fun e => Z.eqb (m_code e) C_REF_IN_HEADER) (r_errs r)))
        0 [] [] [].

(* helpers.go:104-115 *)
Definition s_err (e : msg) : res := mkRes [e] 0 [] [] [].

(* ------------------------------------------------------------------ options *)

Record options : Type := {
  opt_obj_array_type_check : bool;     (* EnableObjectArrayTypeCheck *)
  opt_array_must_have_items : bool;    (* EnableArrayMustHaveItemsCheck *)
  opt_skip_schemata : bool;            (* skipSchemataResult *)
  opt_tails : str -> (Z * Z);          (* last and second-last "."-separated component of a string (-1: none) *)
}.

Section Pipeline.
Variable OR : oracles.
Variable N : numops.
Variable opt : options.
Variable defs : env.

(* ------------------------------------------------------------------ values *)

Fixpoint contains (x : str) (l : list str) : bool :=
  match l with [] => false | y :: t => Z.eqb x y || contains x t end.

Definition ikind_eqb (a b : ikind) : bool :=
  match a, b with
  | KInt, KInt | KInt8, KInt8 | KInt16, KInt16 | KInt32, KInt32 | KInt64, KInt64
  | KUint, KUint | KUint8, KUint8 | KUint16, KUint16 | KUint32, KUint32 | KUint64, KUint64 => true
  | _, _ => false
  end.

(* reflect.DeepEqual on the values encoding/json produces (plus int64 from json.Number) *)
Fixpoint deep_eq_fuel (fuel : nat) (a b : goval) : bool :=
  match fuel with
  | O => false
  | S f =>
      match a, b with
      | VNil, VNil => true
      | VBool x, VBool y => Bool.eqb x y
      | VStr x, VStr y => Z.eqb x y
      | VFlt x32 x, VFlt y32 y => Bool.eqb x32 y32 && n_eq N x y
      | VInt k x, VInt k' y => ikind_eqb k k' && Z.eqb x y
      | VJnum x _ _, VJnum y _ _ => Z.eqb x y
      | VArr _ l1, VArr _ l2 =>
          (fix go (l1 l2 : list goval) : bool :=
             match l1, l2 with
             | [], [] => true
             | x :: t1, y :: t2 => deep_eq_fuel f x y && go t1 t2
             | _, _ => false
             end) l1 l2
      | VSlice e1 l1, VSlice e2 l2 =>
          Z.eqb e1 e2 &&
          (fix go (l1 l2 : list goval) : bool :=
             match l1, l2 with
             | [], [] => true
             | x :: t1, y :: t2 => deep_eq_fuel f x y && go t1 t2
             | _, _ => false
             end) l1 l2
      | VObj _ m1, VObj _ m2 =>
          Nat.eqb (length m1) (length m2) &&
          forallb (fun kv => match (fix find (m : list (str * goval)) : option goval :=
                                     match m with
                                     | [] => None
                                     | (k, v) :: t => if Z.eqb k (fst kv) then Some v else find t
                                     end) m2 with
                             | Some v2 => deep_eq_fuel f (snd kv) v2
                             | None => false
                             end) m1
      | _, _ => false
      end
  end.

Fixpoint goval_depth (v : goval) : nat :=
  match v with
  | VArr _ l | VSlice _ l => S (fold_left (fun acc e => Nat.max acc (goval_depth e)) l O)
  | VObj _ m => S (fold_left (fun acc kv => Nat.max acc (goval_depth (snd kv))) m O)
  | _ => 1%nat
  end.

Definition deep_eq (a b : goval) : bool := deep_eq_fuel (S (goval_depth a)) a b.

(* a structural code of a value, used where a message text embeds the value (fmt %v of an enum list) *)
Fixpoint goval_code_fuel (fuel : nat) (v : goval) : list Z :=
  match fuel with
  | O => []
  | S f =>
      match v with
      | VNil => [0]
      | VBool b => [1; if b then 1 else 0]
      | VStr s => [2; s]
      | VFlt _ x => [3; x]
      | VInt _ z => [4; z]
      | VJnum lit _ _ => [5; lit]
      | VArr _ l => [6; Z.of_nat (length l)] ++ flat_map (goval_code_fuel f) l
      | VSlice et l => [8; et; Z.of_nat (length l)] ++ flat_map (goval_code_fuel f) l
      | VObj _ m => [7; Z.of_nat (length m)] ++ flat_map (fun kv => fst kv :: goval_code_fuel f (snd kv)) m
      end
  end.
Definition goval_code (v : goval) : list Z := goval_code_fuel (S (goval_depth v)) v.

(* two's complement wrap of z into kind k *)
Definition ikind_bits (k : ikind) : Z :=
  match k with KInt8 | KUint8 => 8 | KInt16 | KUint16 => 16 | KInt32 | KUint32 => 32 | _ => 64 end.
Definition wrap_kind (k : ikind) (z : Z) : Z :=
  let m := 2 ^ ikind_bits k in
  let r := z mod m in
  if ikind_signed k then (if r <? m / 2 then r else r - m) else r.

(* validator.go:279-291 with values.go equalAfterNumericConversion: a number is converted to the enum value's
   numeric type only when the conversion round-trips; non-numeric convertible pairs as reflect does *)
Definition enum_match (d e : goval) : bool :=
  match d, e with
  | VNil, VNil => true                                         (* actualType == nil && data == nil: member *)
  | _, VNil => false                                           (* reflect.TypeOf(enumValue) == nil: continue *)
  | VNil, _ => false                                           (* !expectedValue.IsValid() *)
  | VInt k z, VFlt false y =>                                  (* integer -> float64 and back *)
      let f := n_of_int N z in
      Z.eqb (wrap_kind k (if ikind_signed k then n_to_int64 N f else n_to_uint64 N f)) z && n_eq N f y
  | VInt _ _, VStr _ => false                                  (* number -> string: never *)
  | VFlt _ x, VFlt false y => n_eq N x y
  | VJnum lit _ _, VStr s => Z.eqb lit s                       (* json.Number -> string conversion (string kinds) *)
  | _, _ => deep_eq d e
  end.

Definition is_string_kind (d : goval) : bool :=
  match d with VStr _ | VJnum _ _ _ => true | _ => false end.
Definition is_slice_kind (d : goval) : bool := match d with VArr _ _ | VSlice _ _ => true | _ => false end.
Definition is_map_kind (d : goval) : bool := match d with VObj _ _ => true | _ => false end.
Definition is_number_kind (d : goval) : bool :=
  match d with VFlt _ _ | VInt _ _ => true | _ => false end.

(* type.go:58-145 *)
Definition info_for_type (d : goval) : str * str :=
  match d with
  | VNil => (0, 0)
  | VBool _ => (k_boolean, 0)
  | VStr _ | VJnum _ _ _ => (k_string, 0)
  | VFlt false _ => (k_number, k_float64)
  | VFlt true _ => (k_number, k_float32)
  | VInt k _ =>
      match k with
      | KInt8 | KInt16 | KInt32 | KUint8 | KUint16 | KUint32 => (k_integer, k_int32)
      | _ => (k_integer, k_int64)
      end
  | VArr _ _ => (k_array, 0)
  | VSlice et _ => if Z.eqb et 6 then (k_string, k_byte) else (k_array, 0)     (* []byte: type.go:63 *)
  | VObj _ _ => (k_object, 0)
  end.

Definition invalid_type (p : path) (expected : list Z) (got : Z) : msg :=
  mkMsg C_INVALID_TYPE p (expected ++ [-1; got]).

(* type.go:164-209 *)
Definition type_validate (p : path) (types : list str) (nullable : bool) (format : str) (d : goval) : res :=
  match d with
  | VNil =>
      if negb (Nat.eqb (length types) 0) && negb (contains k_null types) && negb nullable
      then s_err (invalid_type p types k_null)
      else empty_result
  | _ =>
      let (sch_type, fmt) := info_for_type d in
      let is_lower_int := Z.eqb format k_int64 && Z.eqb fmt k_int32 in
      let is_lower_float := Z.eqb format k_float64 && Z.eqb fmt k_float32 in
      let is_float_int := Z.eqb sch_type k_number &&
                          (match d with VFlt _ f => n_is_int N f | _ => false end) && contains k_integer types in
      let is_int_float := Z.eqb sch_type k_integer && contains k_number types in
      if negb (is_string_kind d) && negb (is_slice_kind d) && negb (Z.eqb format 0) &&
         negb (contains sch_type types || Z.eqb fmt format || is_float_int || is_int_float || is_lower_int || is_lower_float)
      then s_err (invalid_type p [format] fmt)
      else if negb (contains k_number types || contains k_integer types) && negb (Z.eqb format 0) &&
              (is_string_kind d || is_slice_kind d)
      then empty_result
      else if negb (contains sch_type types || is_float_int || is_int_float)
      then s_err (invalid_type p types sch_type)
      else empty_result
  end.

Definition type_applies (types : list str) (format : str) : bool :=
  negb (Nat.eqb (length types) 0) || negb (Z.eqb format 0).

(* validator.go:1011-1047, in a schema: Required = false; the first failing check returns *)
Definition string_validate (p : path) (s : schema) (d : goval) : option res :=
  match d with
  | VStr x =>
      let too_long := match s_max_length s with Some m => m <? o_rune_len OR x | None => false end in
      let too_short := match s_min_length s with Some m => o_rune_len OR x <? m | None => false end in
      if too_long then Some (s_err (mkMsg C_TOO_LONG p [match s_max_length s with Some m => m | None => 0 end]))
      else if too_short then Some (s_err (mkMsg C_TOO_SHORT p [match s_min_length s with Some m => m | None => 0 end]))
      else if Z.eqb (s_pattern s) 0 then None
      else if negb (o_re_ok OR (s_pattern s)) then Some (s_err (mkMsg C_PATTERN p [s_pattern s; -1]))
      else if negb (o_re_match OR (s_pattern s) x) then Some (s_err (mkMsg C_PATTERN p [s_pattern s]))
      else None
  | _ => Some (s_err (invalid_type p [k_string] (-2)))      (* val.(string) failed: a json.Number *)
  end.

(* formats.go:57-95 *)
Definition format_applies (s : schema) (d : goval) : bool :=
  is_string_kind d && o_fmt_known OR (s_format s).

Definition format_validate (p : path) (s : schema) (d : goval) : outcome res :=
  match d with
  | VStr x =>
      if o_fmt_check OR (s_format s) x then Ok new_res
      else Ok (r_add new_res [invalid_type p [s_format s] x])
  | _ => Ok new_res                                             (* val.(string) not ok: nothing to say *)
  end.

(* helpers.go:164-214 *)
Definition two64 : Z := 18446744073709551616.
Definition two63 : Z := 9223372036854775808.
Definition wrap_s64 (z : Z) : Z := ((z + two63) mod two64) - two63.
Definition wrap_u64 (z : Z) : Z := z mod two64.

Definition as_float64 (d : goval) : f64 :=
  match d with VFlt _ f => f | VInt _ z => n_of_int N z | _ => n_of_int N 0 end.

(* values.go: float64AsInt64 / float64AsUint64: the constraint as an integer when that conversion is exact *)
Definition as_int64_exact (c : f64) : option Z :=
  match n_exact_int N c with
  | Some z => if (- two63 <=? z) && (z <? two63) then Some z else None
  | None => None
  end.
Definition as_uint64_exact (c : f64) : option Z :=
  match n_exact_int N c with
  | Some z => if (0 <=? z) && (z <? two64) then Some z else None
  | None => None
  end.

(* values.go MaximumNativeType / MinimumNativeType / MultipleOfNativeType: outcome of one numeric constraint *)
Definition max_float (v mx : f64) (excl : bool) : bool := if excl then n_le N mx v else n_lt N mx v.
Definition min_float (v mn : f64) (excl : bool) : bool := if excl then n_le N v mn else n_lt N v mn.

Definition max_native (d : goval) (mx : f64) (excl : bool) : bool :=      (* true = error *)
  match d with
  | VInt k z =>
      if ikind_signed k then
        match as_int64_exact mx with
        | Some b => if excl then b <=? z else b <? z
        | None => max_float (n_of_int N z) mx excl
        end
      else if n_lt N mx (n_of_int N 0) then true
      else match as_uint64_exact mx with
           | Some b => if excl then b <=? z else b <? z
           | None => max_float (n_of_int N z) mx excl
           end
  | _ => max_float (as_float64 d) mx excl
  end.

Definition min_native (d : goval) (mn : f64) (excl : bool) : bool :=
  match d with
  | VInt k z =>
      if ikind_signed k then
        match as_int64_exact mn with
        | Some b => if excl then z <=? b else z <? b
        | None => min_float (n_of_int N z) mn excl
        end
      else if n_lt N mn (n_of_int N 0) then false
      else match as_uint64_exact mn with
           | Some b => if excl then z <=? b else z <? b
           | None => min_float (n_of_int N z) mn excl
           end
  | _ => min_float (as_float64 d) mn excl
  end.

Definition mult_native (d : goval) (factor : f64) : mres :=
  match d with
  | VInt k z =>
      if ikind_signed k then
        match as_int64_exact factor with
        | Some f => if f <=? 0 then MNotPositive
                    else if Z.eqb (wrap_s64 (Z.quot z f * f)) z then MOk else MNotMultiple
        | None => n_mult_of N (n_of_int N z) factor
        end
      else
        if n_le N factor (n_of_int N 0) then MNotPositive
        else match as_uint64_exact factor with
             | Some f => if Z.eqb (wrap_u64 (Z.quot z f * f)) z then MOk else MNotMultiple
             | None => n_mult_of N (n_of_int N z) factor
             end
  | _ => n_mult_of N (as_float64 d) factor
  end.

(* validator.go:874-952 with Type = "" and Format = "" (schema.go:273-286): the range checks never fire *)
Definition number_validate (p : path) (s : schema) (d : goval) : res :=
  let r_mult := match s_multiple_of s with
                | None => None
                | Some f => Some (match mult_native d f with
                                  | MOk => new_res
                                  | MNotMultiple => merge new_res (Some (s_err (mkMsg C_MULTIPLE_OF p [f])))
                                  | MNotPositive => merge new_res (Some (s_err (mkMsg C_MULT_POSITIVE p [f])))
                                  end)
                end in
  let r_max := match s_maximum s with
               | None => None
               | Some m => Some (if max_native d m (s_excl_max s)
                                 then merge new_res (Some (s_err (mkMsg C_MAX p [m; if s_excl_max s then 1 else 0])))
                                 else new_res)
               end in
  let r_min := match s_minimum s with
               | None => None
               | Some m => Some (if min_native d m (s_excl_min s)
                                 then merge new_res (Some (s_err (mkMsg C_MIN p [m; if s_excl_min s then 1 else 0])))
                                 else new_res)
               end in
  r_inc (merge (merge (merge new_res r_mult) r_min) r_max).

(* validator.go:268-294 *)
Definition common_validate (p : path) (s : schema) (d : goval) : option res :=
  match s_enum s with
  | [] => None
  | en => if existsb (enum_match d) en then None else Some (s_err (mkMsg C_ENUM p (flat_map goval_code en)))
  end.

(* values.go:112-128 *)
Fixpoint unique_items (seen : list goval) (l : list goval) : bool :=       (* true = duplicates *)
  match l with
  | [] => false
  | v :: t => if existsb (deep_eq v) seen then true else unique_items (seen ++ [v]) t
  end.

(* ------------------------------------------------------------------ the recursive groups *)
(* [rec_sp s p pself d] = v := newSchemaValidator(s, root, p, ...); v.SetPath(pself); v.Validate(d):
   the group validators of v were built with p, only v itself reads pself *)
Variable rec_sp : schema -> path -> path -> goval -> outcome res.
Definition rec (s : schema) (p : path) (d : goval) : outcome res := rec_sp s p p d.

Fixpoint nth_goval (l : list goval) (i : nat) : option goval :=
  match l, i with
  | [], _ => None
  | x :: _, O => Some x
  | _ :: t, S i' => nth_goval t i'
  end.

(* slice_validator.go:96-103: single schema, every element; the path of the element validator is set
   after construction, children keep the parent's path: the element index never shows in nested names *)
Fixpoint slice_items_one (s1 : schema) (p : path) (sl : Z) (l : list goval) (i : Z) (r : res) : outcome res :=
  match l with
  | [] => Ok r
  | v :: t => do x <- rec_sp s1 p (p ++ [SIdx i]) v; slice_items_one s1 p sl t (i + 1) (merge_for_slice r sl i x)
  end.

(* slice_validator.go:108-115: positional schemas *)
Fixpoint slice_items_tuple (ss : list schema) (p : path) (sl : Z) (l : list goval) (i : Z) (r : res) : outcome res :=
  match ss, l with
  | s1 :: st, v :: t =>
      do x <- rec s1 (p ++ [SIdx i]) v; slice_items_tuple st p sl t (i + 1) (merge_for_slice r sl i x)
  | _, _ => Ok r
  end.

(* slice_validator.go:121-126: for i := itemsSize; i < size; i++ *)
Fixpoint slice_additional (sa : schema) (p : path) (sl : Z) (rest : list goval) (i : Z) (r : res) : outcome res :=
  match rest with
  | [] => Ok r
  | v :: t => do x <- rec sa (p ++ [SIdx i]) v; slice_additional sa p sl t (i + 1) (merge_for_slice r sl i x)
  end.

Definition slice_validate (p : path) (s : schema) (d : goval) : outcome res :=
  match d with
  | VArr sl l =>
      let size := Z.of_nat (length l) in
      do r1 <- (match s_items_one s with
                | Some s1 => slice_items_one s1 p sl l 0 new_res
                | None => Ok new_res
                end);
      let tuple := match s_items_tuple s with Some ss => ss | None => [] end in
      let items_size := Z.of_nat (length tuple) in
      do r2 <- slice_items_tuple tuple p sl l 0 r1;
      do r3 <- (match s_add_items s with
                | Some (allows, sa) =>
                    if items_size <? size then
                      let r2' := if (0 <? items_size) && negb allows then r_add r2 [mkMsg C_NO_ADD_ITEMS [] []] else r2 in
                      match sa with
                      | Some sa => if 0 <? items_size
                                   then slice_additional sa p sl (skipn (length tuple) l) items_size r2'
                                   else Ok r2'
                      | None => Ok r2'
                      end
                    else Ok r2
                | None => Ok r2
                end);
      let r4 := match s_min_items s with
                | Some m => if size <? m then r_add r3 [mkMsg C_MIN_ITEMS p [m]] else r3
                | None => r3
                end in
      let r5 := match s_max_items s with
                | Some m => if m <? size then r_add r4 [mkMsg C_MAX_ITEMS p [m]] else r4
                | None => r4
                end in
      let r6 := if s_unique s && unique_items [] l then r_add r5 [mkMsg C_UNIQUE p []] else r5 in
      Ok (r_inc r6)
  | _ => Ok new_res
  end.

(* ---- object validator ---- *)

Fixpoint lookup_val (m : list (str * goval)) (k : str) : option goval :=
  match m with
  | [] => None
  | (k', v) :: t => if Z.eqb k k' then Some v else lookup_val t k
  end.

Definition has_prop (s : schema) (k : str) : bool :=
  match lookup_schema (s_props s) k with Some _ => true | None => false end.

(* object_validator.go:392-427 *)
Fixpoint pattern_property (pps : list (str * schema)) (p : path) (key : str) (value : goval) (r : res)
  (matched : bool) (patterns : list (str * schema)) : outcome (bool * list (str * schema) * res) :=
  match pps with
  | [] => Ok (matched, patterns, r)
  | (k, ps) :: t =>
      if negb (o_re_ok OR k) then pattern_property t p key value r matched patterns
      else if negb (o_re_match OR k key) then pattern_property t p key value r matched patterns
      else do x <- rec ps (p ++ [SDot key]) value;
           pattern_property t p key value (merge r (Some x)) true (patterns ++ [(k, ps)])
  end.

Definition validate_pattern_property (s : schema) (p : path) (key : str) (value : goval) (r : res)
  : outcome (bool * list (str * schema) * res) :=
  match s_pat_props s with
  | [] => Ok (false, [], r)
  | pps => pattern_property pps p key value r false []
  end.

(* object_validator.go:224-304 *)
Definition header_ref_errors (p : path) (v : goval) : list msg :=
  match v with
  | VObj _ headers =>
      flat_map (fun hk =>
                  match snd hk with
                  | VObj _ body =>
                      match lookup_val body k_dollar_ref with
                      | Some (VStr refs) => [mkMsg C_REF_IN_HEADER [] (path_code p ++ [-1; fst hk; refs])]
                      | _ => []
                      end
                  | _ => []
                  end) headers
  | _ => []
  end.

Fixpoint no_additional_properties (s : schema) (p : path) (m : list (str * goval)) (r : res) : res :=
  match m with
  | [] => r
  | (k, v) :: t =>
      if Z.eqb k k_dollar_schema || Z.eqb k k_id then no_additional_properties s p t r
      else if has_prop s k then no_additional_properties s p t r
      else if existsb (fun pk => o_re_ok OR (fst pk) && o_re_match OR (fst pk) k) (s_pat_props s)
      then no_additional_properties s p t r
      else
        let r1 := r_add r [mkMsg C_UNALLOWED_PROP p [k]] in
        let r2 := if Z.eqb k k_headers then r_add r1 (header_ref_errors p v) else r1 in
        no_additional_properties s p t r2
  end.

(* object_validator.go:306-332 *)
Fixpoint additional_properties (s : schema) (p : path) (obj : Z) (m : list (str * goval)) (r : res) : outcome res :=
  match m with
  | [] => Ok r
  | (key, value) :: t =>
      if has_prop s key then additional_properties s p obj t r
      else
        do mpr <- validate_pattern_property s p key value r;
        let '(matched, _, r1) := mpr in
        if matched then additional_properties s p obj t r1
        else match s_add_props s with
             | Some (_, Some sa) =>
                 do x <- rec sa (p ++ [SDot key]) value;
                 additional_properties s p obj t (merge_for_field r1 obj key x)
             | _ => additional_properties s p obj t r1
             end
  end.

(* object_validator.go:334-370: the loop over o.Properties *)
Fixpoint properties_schema (props : list (str * schema)) (p : path) (obj : Z) (m : list (str * goval))
  (r : res) (created : list str) : outcome (res * list str) :=
  match props with
  | [] => Ok (r, created)
  | (pname, ps) :: t =>
      let rname := if path_is_empty p then [SKey0 pname] else p ++ [SDot pname] in
      match lookup_val m pname with
      | Some v => do x <- rec ps rname v; properties_schema t p obj m (merge_for_field r obj pname x) created
      | None =>
          (* pSchema.Default is read from the un-expanded copy of the property schema *)
          match s_default ps with
          | Some dv =>
              let r' := if opt_skip_schemata opt then r
                        else mkRes (r_errs r) (r_mc r) (r_root r) (r_fields r ++ [(obj, pname, [Some dv])]) (r_items r) in
              properties_schema t p obj m r' (created ++ [pname])
          | None => properties_schema t p obj m r created
          end
      end
  end.

(* object_validator.go:372-388 *)
Definition required_errors (s : schema) (p : path) (m : list (str * goval)) (created : list str) : list msg :=
  flat_map (fun k => match lookup_val m k with
                     | Some _ => []
                     | None => if contains k created then [] else [mkMsg C_REQUIRED (p ++ [SDot k]) []]
                     end) (s_required s).

(* object_validator.go:206-219 *)
Fixpoint merge_patterns (pats : list (str * schema)) (s : schema) (p : path) (obj : Z) (key : str) (value : goval) (r : res)
  : outcome res :=
  match pats with
  | [] => Ok r
  | (pn, _) :: t =>
      match lookup_schema (s_pat_props s) pn with
      | Some ps => do x <- rec ps (p ++ [SDot key]) value; merge_patterns t s p obj key value (merge_for_field r obj key x)
      | None => merge_patterns t s p obj key value r
      end
  end.

Fixpoint pattern_loop (s : schema) (p : path) (obj : Z) (m : list (str * goval)) (r : res) : outcome res :=
  match m with
  | [] => Ok r
  | (key, value) :: t =>
      do mpr <- validate_pattern_property s p key value r;
      let '(matched, pats, r1) := mpr in
      if has_prop s key || negb matched then pattern_loop s p obj t r1
      else do r2 <- merge_patterns pats s p obj key value r1; pattern_loop s p obj t r2
  end.

(* object_validator.go:86-158: Swagger pre-checks on the raw JSON of a schema object *)
Definition seg_tails (sg : seg) : Z * Z :=     (* (last component, second-last within the segment or -1) *)
  match sg with
  | SRoot k | SKey0 k | SDot k => opt_tails opt k
  | SIdx _ => (-2, -1)
  end.

Definition path_last2 (p : path) : option (Z * Z) :=      (* (second-last, last) of strings.Split(path, ".") *)
  match rev p with
  | [] => None
  | s1 :: rest =>
      let (last, inner) := seg_tails s1 in
      if 0 <=? inner then Some (inner, last)
      else match s1 with
           | SDot _ | SIdx _ =>
               match rest with
               | s2 :: _ => Some (fst (seg_tails s2), last)
               | [] => Some (0, last)
               end
           | _ => None
           end
  end.

Definition is_properties_path (p : path) : bool :=
  match path_last2 p with Some (a, b) => Z.eqb b k_properties && negb (Z.eqb a k_properties) | None => false end.
Definition is_default_path (p : path) : bool :=
  match path_last2 p with Some (a, b) => Z.eqb b k_default && negb (Z.eqb a k_default) | None => false end.
Definition is_example_path (p : path) : bool :=
  match path_last2 p with
  | Some (a, b) => (Z.eqb b k_example || Z.eqb b k_examples) && negb (Z.eqb a k_example)
  | None => false
  end.

Definition precheck (p : path) (m : list (str * goval)) (r : res) : res :=
  let r1 :=
    if opt_array_must_have_items opt then
      match lookup_val m k_type with
      | Some (VStr t) =>
          if Z.eqb t k_array then
            match lookup_val m k_items with
            | Some _ => r
            | None => r_add r [mkMsg C_REQUIRED [SRoot k_items] (path_code p)]
            end
          else r
      | _ => r
      end
    else r in
  if opt_obj_array_type_check opt then
    if is_properties_path p || is_default_path p || is_example_path p then r1
    else match lookup_val m k_items with
         | None => r1
         | Some _ =>
             let t := lookup_val m k_type in
             let r2 := match t with None => r_add r1 [mkMsg C_REQUIRED [SRoot k_type] (path_code p)] | Some _ => r1 end in
             match t with
             | Some (VStr ty) => if Z.eqb ty k_array then r2 else r_add r2 [invalid_type p [k_array] (-4)]
             | _ => r_add r2 [invalid_type p [k_array] (-4)]
             end
         end
  else r1.

(* object_validator.go:160-222 *)
Definition object_validate (p : path) (s : schema) (d : goval) : outcome res :=
  match d with
  | VObj obj m =>
      let nkeys := Z.of_nat (length m) in
      let too_few := match s_min_props s with Some mn => nkeys <? mn | None => false end in
      let too_many := match s_max_props s with Some mx => mx <? nkeys | None => false end in
      if too_few then Ok (s_err (mkMsg C_TOO_FEW_PROPS p [match s_min_props s with Some mn => mn | None => 0 end]))
      else if too_many then Ok (s_err (mkMsg C_TOO_MANY_PROPS p [match s_max_props s with Some mx => mx | None => 0 end]))
      else
      let r0 := precheck p m new_res in
      do r1 <- (match s_add_props s with
                | Some (false, _) => Ok (no_additional_properties s p m r0)
                | _ => additional_properties s p obj m r0
                end);
      do rc <- properties_schema (s_props s) p obj m r1 [];
      let '(r2, created) := rc in
      let r3 := match s_required s with [] => r2 | _ => r_add r2 (required_errors s p m created) end in
      pattern_loop s p obj m r3
  | _ => Ok (s_err (mkMsg C_INVALID_TYPE p [k_object; -5]))
  end.

(* ---- schema_props.go ---- *)

(* schema_props.go:153-193 *)
Fixpoint any_of (vs : list schema) (p : path) (d : goval) (main keep : res) (best : option res)
  : outcome (res * res) :=
  match vs with
  | [] => Ok (merge (r_add main [mkMsg C_ANY_OF p []]) best, keep)
  | s1 :: t =>
      do x <- rec s1 p d;
      let keep' := merge keep (Some (keep_relevant x)) in
      if r_valid x then Ok (merge main (Some x), new_res)          (* keepResultAnyOf.cleared() *)
      else
        match best with
        | None => any_of t p d main keep' (Some x)
        | Some b => if r_mc b <? r_mc x then any_of t p d main keep' (Some x) else any_of t p d main keep' best
        end
  end.

(* schema_props.go:195-252 *)
Fixpoint one_of (vs : list schema) (p : path) (d : goval) (keep : res) (first best : option res) (validated : Z)
  : outcome (option res * option res * Z * res) :=
  match vs with
  | [] => Ok (first, best, validated, keep)
  | s1 :: t =>
      do x <- rec s1 p d;
      let keep' := merge keep (Some (keep_relevant x)) in
      if r_valid x then
        one_of t p d new_res (match first with None => Some x | Some _ => first end) best (validated + 1)
      else if Z.eqb validated 0 &&
              (match best with None => true | Some b => r_mc b <? r_mc x end)
      then one_of t p d keep' first (Some x) validated
      else one_of t p d keep' first best validated
  end.

(* schema_props.go:254-278 *)
Fixpoint all_of (vs : list schema) (p : path) (d : goval) (main keep : res) (validated : Z) : outcome (res * res * Z) :=
  match vs with
  | [] => Ok (main, keep, validated)
  | s1 :: t =>
      do x <- rec s1 p d;
      all_of t p d (merge main (Some x)) (merge keep (Some (keep_relevant x)))
             (if r_valid x then validated + 1 else validated)
  end.

(* schema_props.go:294-317 *)
Fixpoint dependencies (s : schema) (p : path) (d : goval) (m all : list (str * goval)) (main : res) : outcome res :=
  match m with
  | [] => Ok main
  | (key, _) :: t =>
      match (fix find (l : list (str * (option schema * list str))) :=
               match l with
               | [] => None
               | (k, dep) :: l' => if Z.eqb k key then Some dep else find l'
               end) (s_deps s) with
      | None => dependencies s p d t all main
      | Some (Some ds, _) =>
          do x <- rec ds (p ++ [SDot key]) d; dependencies s p d t all (merge main (Some x))
      | Some (None, props) =>
          let es := flat_map (fun dk => match lookup_val all dk with
                                        | Some _ => []
                                        | None => [mkMsg C_DEPENDENCY p [dk]]
                                        end) props in
          dependencies s p d t all (r_add main es)
      end
  end.

(* schema_props.go:101-151 *)
Definition props_validate (p : path) (s : schema) (d : goval) : outcome res :=
  let main := new_res in
  do a <- (match s_any_of s with
           | [] => Ok (main, None)
           | vs => do mk <- any_of vs p d main new_res None; Ok (fst mk, Some (snd mk))
           end);
  let '(main1, keep_any) := a in
  do b <- (match s_one_of s with
           | [] => Ok (main1, None)
           | vs =>
               do x <- one_of vs p d new_res None None 0;
               let '(first, best, validated, keep) := x in
               let main' :=
                 if Z.eqb validated 0 then merge (r_add main1 [mkMsg C_ONE_OF_NONE p []]) best
                 else if Z.eqb validated 1 then merge main1 first
                 else merge (r_add main1 [mkMsg C_ONE_OF_MANY p [validated]]) best in
               Ok (main', Some keep)
           end);
  let '(main2, keep_one) := b in
  do c <- (match s_all_of s with
           | [] => Ok (main2, None)
           | vs =>
               do x <- all_of vs p d main2 new_res 0;
               let '(main', keep, validated) := x in
               let main'' :=
                 if Z.eqb validated 0 then r_add main' [mkMsg C_ALL_OF_NONE p []]
                 else if Z.eqb validated (Z.of_nat (length vs)) then main'
                 else r_add main' [mkMsg C_ALL_OF_SOME p []] in
               Ok (main'', Some keep)
           end);
  let '(main3, keep_all) := c in
  do main4 <- (match s_not s with
               | None => Ok main3
               | Some ns => do x <- rec ns p d;
                            Ok (if r_valid x then r_add main3 [mkMsg C_NOT p []] else main3)
               end);
  do main5 <- (match s_deps s, d with
               | _ :: _, VObj _ m => dependencies s p d m m main4
               | _, _ => Ok main4
               end);
  Ok (merge (merge (merge (r_inc main5) keep_all) keep_one) keep_any).

(* ------------------------------------------------------------------ SchemaValidator.Validate *)

Definition types_numeric (s : schema) : bool := contains k_number (s_types s) || contains k_integer (s_types s).

(* schema.go:129-235 on an already resolved schema *)
Definition sv_body (s : schema) (p pself : path) (data : goval) : outcome res :=
  let r0 := if opt_skip_schemata opt then new_res
            else mkRes [] 0 [s_default s] [] [] in
  match data with
  | VNil =>
      let r1 := merge r0 (Some (type_validate p (s_types s) (s_nullable s) (s_format s) VNil)) in
      Ok (merge r1 (common_validate p s VNil))
  | _ =>
      (* json.Number, schema.go:184-208 *)
      let conv : option (option goval) :=
        match data with
        | VJnum _ asint asflt =>
            if types_numeric s then
              if contains k_integer (s_types s)
              then match asint with Some z => Some (Some (VInt KInt64 z)) | None => Some None end
              else match asflt with Some f => Some (Some (VFlt false f)) | None => Some None end
            else None
        | _ => None
        end in
      match conv with
      | Some None => Ok (r_inc (r_add r0 [mkMsg C_TYPE_CONV pself []]))
      | _ =>
          let d := match conv with Some (Some d') => d' | _ => data end in
          let r1 := if type_applies (s_types s) (s_format s)
                    then r_inc (merge r0 (Some (type_validate p (s_types s) (s_nullable s) (s_format s) d)))
                    else r0 in
          do x2 <- props_validate p s d;
          let r2 := r_inc (merge r1 (Some x2)) in
          let r3 := if is_string_kind d then r_inc (merge r2 (string_validate p s d)) else r2 in
          do r4 <- (if format_applies s d
                    then do x <- format_validate p s d; Ok (r_inc (merge r3 (Some x)))
                    else Ok r3);
          let r5 := if is_number_kind d then r_inc (merge r4 (Some (number_validate p s d))) else r4 in
          do r6 <- (if is_slice_kind d
                    then do x <- slice_validate p s d; Ok (r_inc (merge r5 (Some x)))
                    else Ok r5);
          let r7 := r_inc (merge r6 (common_validate p s d)) in
          do r8 <- (if is_map_kind d
                    then do x <- object_validate p s d; Ok (r_inc (merge r7 (Some x)))
                    else Ok r7);
          Ok (r_inc r8)
      end
  end.

End Pipeline.

(* ------------------------------------------------------------------ references and fuel *)

(* schema.go:77-83: a schema carrying $ref is replaced by its (expanded) target *)
Fixpoint resolve (defs : env) (fuel : nat) (s : schema) : outcome schema :=
  match s_ref s with
  | None => Ok s
  | Some n =>
      match fuel with
      | O => OutOfFuel
      | S f => match lookup_def defs n with
               | Some t => resolve defs f t
               | None => Panic P_BAD_REF
               end
      end
  end.

(* newSchemaValidator builds the validators of allOf / anyOf / oneOf / not eagerly (schema_props.go:53-69),
   expanding their references: [eager] is that construction, without the validation *)
Fixpoint eager (defs : env) (fuel : nat) (s : schema) : outcome unit :=
  match fuel with
  | O => OutOfFuel
  | S f =>
      do s' <- resolve defs f s;
      let children := s_any_of s' ++ s_all_of s' ++ s_one_of s' ++ (match s_not s' with Some n => [n] | None => [] end) in
      (fix go (l : list schema) : outcome unit :=
         match l with
         | [] => Ok tt
         | c :: t => do _ <- eager defs f c; go t
         end) children
  end.

Fixpoint sv_validate (OR : oracles) (N : numops) (opt : options) (defs : env) (fuel : nat)
  (s : schema) (p pself : path) (d : goval) : outcome res :=
  match fuel with
  | O => OutOfFuel
  | S f =>
      do _ <- eager defs f s;
      do s' <- resolve defs f s;
      sv_body OR N opt (sv_validate OR N opt defs f) s' p pself d
  end.

(* schema.go:41-54: the one-shot entry point returns nil or the composite of the result's errors *)
Definition against_schema (OR : oracles) (N : numops) (opt : options) (defs : env) (fuel : nat)
  (s : schema) (d : goval) : outcome (option (list msg)) :=
  do r <- sv_validate OR N opt defs fuel s [SRoot 0] [SRoot 0] d;
  Ok (match r_errs r with [] => None | es => Some es end).
