(* JSON equality (Draft4.json_eq) is symmetric on the data class of Agreement.v and insensitive to surplus fuel; hence the
   duplicate scan of the code (later element against the earlier ones) finds what the specification's scan (earlier
   element against the later ones) finds.  Used to bring uniqueItems inside the proved fragment. *)
From Coq Require Import List ZArith Bool Lia.
From Verif Require Import Base.Sx Base.GoVal Schema.Ast Schema.Pipeline Schema.Draft4 Schema.AgreementData.
Import ListNotations.
Open Scope Z_scope.

Section JEq.
Variable fin : f64 -> Prop.
Variable allow_null : bool.
(* arrays in the data are admitted only together with schemas whose formats sit next to a type list that accepts arrays (see [local_clean]) *)
Variable allow_arr : bool.
Variable N : numops.
Hypothesis Heq_sym : forall a b, fin a -> fin b -> n_eq N a b = n_eq N b a.

Notation jd := (AgreementData.jd fin allow_null allow_arr).

(* depth of an element is below the depth of its container *)
Lemma fold_max_ge {A} (f : A -> nat) (l : list A) : forall acc x, In x l -> (f x <= fold_left (fun a e => Nat.max a (f e)) l acc)%nat.
Proof.
  induction l as [|y t IH]; intros acc x Hin; [destruct Hin|]. cbn [fold_left]. destruct Hin as [-> | Hin].
  - clear IH. assert (H : forall l acc, (acc <= fold_left (fun a e => Nat.max a (f e)) l acc)%nat).
    { induction l as [|z u IHu]; intros a; [cbn; lia|]. cbn [fold_left]. specialize (IHu (Nat.max a (f z))). lia. }
    specialize (H t (Nat.max acc (f x))). lia.
  - apply IH. exact Hin.
Qed.

Lemma jdepth_elem id l x : In x l -> (jdepth x < jdepth (VArr id l))%nat.
Proof. intros H. cbn [jdepth]. pose proof (fold_max_ge jdepth l 0%nat x H). lia. Qed.

Lemma jdepth_member id m kv : In kv m -> (jdepth (snd kv) < jdepth (VObj id m))%nat.
Proof. intros H. cbn [jdepth]. pose proof (fold_max_ge (fun kv => jdepth (snd kv)) m 0%nat kv H). lia. Qed.

(* surplus fuel changes nothing *)
Lemma json_eq_fuel_stable : forall f1 f2 a b, (jdepth a < f1)%nat -> (jdepth a < f2)%nat ->
  json_eq_fuel N f1 a b = json_eq_fuel N f2 a b.
Proof.
  induction f1 as [|f1 IH]; intros f2 a b H1 H2; [lia|]. destruct f2 as [|f2]; [lia|].
  destruct a as [| | |a32 fa| | |ida la| |ida ma]; destruct b as [| | |b32 fb| | |idb lb| |idb mb]; try reflexivity.
  - cbn [json_eq_fuel].
    assert (Hl : forall x, In x la -> (jdepth x < f1)%nat /\ (jdepth x < f2)%nat).
    { intros x Hx. pose proof (jdepth_elem ida la x Hx). lia. }
    clear H1 H2. revert lb. induction la as [|x t IHl]; intros [|y u]; try reflexivity.
    destruct (Hl x (or_introl eq_refl)) as [G1 G2]. rewrite (IH f2 x y G1 G2). f_equal. apply IHl. intros z Hz. apply Hl. right; exact Hz.
  - cbn [json_eq_fuel]. f_equal.
    assert (Hm : forall kv, In kv ma -> (jdepth (snd kv) < f1)%nat /\ (jdepth (snd kv) < f2)%nat).
    { intros kv Hkv. pose proof (jdepth_member ida ma kv Hkv). lia. }
    clear H1 H2. induction ma as [|kv t IHm]; [reflexivity|]. cbn [forallb]. rewrite IHm; [|intros z Hz; apply Hm; right; exact Hz]. f_equal.
    destruct (Hm kv (or_introl eq_refl)) as [G1 G2]. clear - IH G1 G2. induction mb as [|kv2 u IHu]; [reflexivity|]. cbn [existsb]. rewrite IHu.
    f_equal. f_equal. apply IH; assumption.
Qed.

(* symmetry at equal fuel *)
Lemma existsb_key_unique (m : list (str * goval)) k (P Q : goval -> bool) v :
  NoDup (map fst m) -> In (k, v) m ->
  existsb (fun kv2 => Z.eqb k (fst kv2) && P (snd kv2)) m = P v.
Proof.
  intros Hnd Hin. induction m as [|[k' v'] t IH]; [destruct Hin|]. cbn [existsb fst snd map] in *. inversion Hnd as [|x xs Hx Hxs]; subst.
  destruct Hin as [Heq | Hin].
  - inversion Heq; subst. rewrite Z.eqb_refl. cbn [andb]. destruct (P v); [reflexivity|]. cbn [orb].
    apply not_true_iff_false. intros H. apply existsb_exists in H. destruct H as [[k2 v2] [Hin2 H2]]. cbn [fst snd] in H2.
    apply andb_true_iff in H2. destruct H2 as [H2 _]. apply Z.eqb_eq in H2. subst. apply Hx. apply in_map_iff. exists (k2, v2). auto.
  - destruct (Z.eqb_spec k k') as [e|ne].
    + exfalso. subst. apply Hx. apply in_map_iff. exists (k', v). auto.
    + cbn [andb orb]. apply IH; assumption.
Qed.

Lemma json_eq_fuel_sym : forall f a b, jd a -> jd b -> json_eq_fuel N f a b = json_eq_fuel N f b a.
Proof.
  induction f as [|f IH]; intros a b Ha Hb; [reflexivity|].
  destruct a as [| | |a32 fa| | |ida la| |ida ma]; try (exfalso; exact Ha); destruct b as [| | |b32 fb| | |idb lb| |idb mb]; try (exfalso; exact Hb);
    try reflexivity.
  - cbn [json_eq_fuel]. destruct b0, b; reflexivity.
  - cbn [json_eq_fuel]. apply Z.eqb_sym.
  - cbn [json_eq_fuel]. cbn [AgreementData.jd] in Ha, Hb. apply Heq_sym; tauto.
  - cbn [json_eq_fuel]. apply jd_arr in Ha. apply jd_arr in Hb. destruct Ha as [_ Ha]. destruct Hb as [_ Hb]. revert lb Hb. induction Ha as [|x t Hx Ht IHl]; intros [|y u] Hb; try reflexivity.
    inversion Hb; subst. rewrite (IH x y); [|assumption|assumption]. f_equal. apply IHl. assumption.
  - (* objects: equal sizes, distinct keys on both sides *)
    cbn [json_eq_fuel]. apply jd_obj in Ha. apply jd_obj in Hb. destruct Ha as [Ha Hnda]. destruct Hb as [Hb Hndb].
    rewrite (Nat.eqb_sym (length mb) (length ma)). destruct (Nat.eqb_spec (length ma) (length mb)) as [Hlen|]; [|reflexivity]. cbn [andb].
    (* both directions say: the two maps have the same keys and equal values under each key *)
    set (E := fun v1 v2 => json_eq_fuel N f v1 v2).
    assert (Hsym : forall v1 v2, jd v1 -> jd v2 -> E v1 v2 = E v2 v1) by (intros; apply IH; assumption).
    assert (Hdir : forall m1 m2 : list (str * goval), NoDup (map fst m1) -> NoDup (map fst m2) -> length m1 = length m2 ->
              Forall (fun kv => plain_key (fst kv) /\ jd (snd kv)) m1 -> Forall (fun kv => plain_key (fst kv) /\ jd (snd kv)) m2 ->
              forallb (fun kv => existsb (fun kv2 => Z.eqb (fst kv) (fst kv2) && E (snd kv) (snd kv2)) m2) m1 = true ->
              forallb (fun kv => existsb (fun kv2 => Z.eqb (fst kv) (fst kv2) && E (snd kv) (snd kv2)) m1) m2 = true).
    { intros m1 m2 N1 N2 Hl F1 F2 H. apply forallb_forall. intros [k v2] Hin2.
      assert (Hincl : incl (map fst m1) (map fst m2)).
      { intros k1 Hk1. apply in_map_iff in Hk1. destruct Hk1 as [[k1' v1] [<- Hin1]]. pose proof (proj1 (forallb_forall _ _) H (k1', v1) Hin1) as He.
        apply existsb_exists in He. destruct He as [[k2 v2'] [Hin2' He]]. cbn [fst snd] in He. apply andb_true_iff in He. destruct He as [He _].
        apply Z.eqb_eq in He. subst. apply in_map_iff. exists (k2, v2'). auto. }
      assert (Hincl' : incl (map fst m2) (map fst m1)).
      { apply NoDup_length_incl; [exact N1 | rewrite !map_length; lia | exact Hincl]. }
      assert (Hk : In k (map fst m1)) by (apply Hincl'; apply in_map_iff; exists (k, v2); auto).
      apply in_map_iff in Hk. destruct Hk as [[k' v1] [Hk' Hin1]]. cbn [fst] in Hk'. subst k'.
      pose proof (proj1 (forallb_forall _ _) H (k, v1) Hin1) as He. cbn [fst snd] in He.
      rewrite (existsb_key_unique m2 k (E v1) (E v1) v2 N2 Hin2) in He.
      cbn [fst snd]. rewrite (existsb_key_unique m1 k (E v2) (E v2) v1 N1 Hin1).
      rewrite Hsym; [exact He | apply (proj1 (Forall_forall _ _) F2 (k, v2) Hin2) | apply (proj1 (Forall_forall _ _) F1 (k, v1) Hin1)]. }
    apply eq_true_iff_eq. split; intros H; [apply (Hdir ma mb) | apply (Hdir mb ma)]; auto.
Qed.

Theorem json_eq_sym a b : jd a -> jd b -> json_eq N a b = json_eq N b a.
Proof.
  intros Ha Hb. unfold json_eq. set (F := S (Nat.max (jdepth a) (jdepth b))).
  rewrite (json_eq_fuel_stable (S (jdepth a)) F a b); [|lia | unfold F; lia].
  rewrite (json_eq_fuel_stable (S (jdepth b)) F b a); [|lia | unfold F; lia].
  apply json_eq_fuel_sym; assumption.
Qed.

(* the code scans each element against the earlier ones, the specification against the later ones *)
Fixpoint dup2 (l : list goval) : bool :=
  match l with
  | [] => false
  | x :: t => existsb (fun w => deep_eq N w x) t || dup2 t
  end.

Lemma existsb_app_bool {A} (f : A -> bool) l1 l2 : existsb f (l1 ++ l2) = existsb f l1 || existsb f l2.
Proof. apply existsb_app. Qed.

Lemma unique_items_dup2 : forall l seen,
  unique_items N seen l = existsb (fun v => existsb (deep_eq N v) seen) l || dup2 l.
Proof.
  induction l as [|v t IH]; intros seen; [reflexivity|]. cbn [unique_items existsb dup2].
  destruct (existsb (deep_eq N v) seen) eqn:E; [reflexivity|]. rewrite IH. cbn [orb].
  assert (H : existsb (fun w => existsb (deep_eq N w) (seen ++ [v])) t =
              existsb (fun w => existsb (deep_eq N w) seen) t || existsb (fun w => deep_eq N w v) t).
  { clear. induction t as [|w u IHu]; [reflexivity|]. cbn [existsb]. rewrite IHu, existsb_app. cbn [existsb]. rewrite orb_false_r.
    destruct (existsb (deep_eq N w) seen), (deep_eq N w v), (existsb (fun w0 => existsb (deep_eq N w0) seen) u), (existsb (fun w0 => deep_eq N w0 v) u); reflexivity. }
  rewrite H. destruct (existsb (fun w => existsb (deep_eq N w) seen) t), (existsb (fun w => deep_eq N w v) t), (dup2 t); reflexivity.
Qed.

Theorem unique_items_has_dup l : Forall (AgreementData.jd fin allow_null allow_arr) l -> unique_items N [] l = has_dup N l.
Proof.
  intros Hl. rewrite unique_items_dup2.
  assert (E : existsb (fun v => existsb (deep_eq N v) []) l = false).
  { clear. induction l as [|y u IHu]; [reflexivity | cbn [existsb orb]; exact IHu]. }
  rewrite E. cbn [orb]. clear E. induction Hl as [|x t Hx Ht IH]; [reflexivity|]. cbn [dup2 has_dup]. rewrite IH. f_equal.
  clear IH. induction Ht as [|w u Hw Hu IHu]; [reflexivity|]. cbn [existsb]. rewrite IHu. f_equal.
  rewrite (deep_eq_json_eq w x Hw Hx). apply json_eq_sym; assumption.
Qed.

End JEq.

