(* Facts about ApplyDefaults / Prune (post-processing of a validation result) and about the way schemata
   travel through merges. *)
From Coq Require Import List ZArith Bool Lia.
From Verif Require Import Base.Sx Base.GoVal Schema.Ast Schema.Pipeline Schema.Post.
Import ListNotations.
Open Scope Z_scope.

(* ------------------------------------------------------------------ defaults on one object *)

Lemma has_member_In m k : has_member m k = true <-> exists v, In (k, v) m.
Proof.
  unfold has_member. rewrite existsb_exists. split.
  - intros [[k' v] [Hin E]]. simpl in E. apply Z.eqb_eq in E. subst. eauto.
  - intros [v Hin]. exists (k, v). split; [assumption|apply Z.eqb_refl].
Qed.

Lemma memZ_In x l : memZ x l = true <-> In x l.
Proof.
  induction l as [|y t IH]; simpl; [split; [discriminate|tauto]|].
  rewrite orb_true_iff, IH, Z.eqb_eq. intuition congruence.
Qed.

Lemma dedup_fields_In l x : In x (dedup_fields l) <-> In x l.
Proof.
  induction l as [|y t IH]; simpl; [tauto|].
  destruct (memZ y t) eqn:E.
  - rewrite IH. apply memZ_In in E. intuition (subst; auto).
  - simpl. rewrite IH. tauto.
Qed.

Lemma dedup_fields_NoDup l : NoDup (dedup_fields l).
Proof.
  induction l as [|y t IH]; simpl; [constructor|].
  destruct (memZ y t) eqn:E; [assumption|]. constructor; [|assumption].
  rewrite dedup_fields_In, <- memZ_In. congruence.
Qed.

(* a member is added exactly when it is absent and the first recorded schema with a default gives the value *)
Theorem added_members_spec r obj m f v :
  In (f, v) (added_members r obj m) <->
  In f (recorded_fields r obj) /\ has_member m f = false /\ first_default (field_schemata r obj f) = Some v.
Proof.
  unfold added_members. rewrite in_flat_map. split.
  - intros [f' [Hin H]]. destruct (has_member m f') eqn:Em; [contradiction|].
    destruct (first_default (field_schemata r obj f')) as [v'|] eqn:Ed; [|contradiction].
    destruct H as [E|[]]. injection E as -> ->. auto.
  - intros (Hin & Hm & Hd). exists f. split; [assumption|]. rewrite Hm, Hd. left; reflexivity.
Qed.

(* ... at most once *)
Theorem added_members_keys_NoDup r obj m : NoDup (map fst (added_members r obj m)).
Proof.
  unfold added_members. pose proof (dedup_fields_NoDup
    (flat_map (fun e => let '(o, f, _) := e in if Z.eqb o obj then [f] else []) (r_fields r))) as H.
  fold (recorded_fields r obj) in H. induction (recorded_fields r obj) as [|f t IH]; simpl; [constructor|].
  inversion H as [|? ? Hnot Ht]; subst. specialize (IH Ht).
  destruct (has_member m f); [exact IH|].
  destruct (first_default (field_schemata r obj f)); [|exact IH].
  simpl. constructor; [|exact IH].
  intros Hin. apply in_map_iff in Hin as [[f' v'] [E Hin]]. simpl in E. subst f'.
  apply in_flat_map in Hin as [f2 [Hg Hin]]. destruct (has_member m f2); [contradiction|].
  destruct (first_default (field_schemata r obj f2)); [|contradiction].
  destruct Hin as [E|[]]. injection E as -> _. contradiction.
Qed.

(* the value put in place is a default declared by one of the recorded schemas *)
Lemma first_default_In l v : first_default l = Some v -> In (Some v) l.
Proof. induction l as [|[x|] t IH]; simpl; [discriminate| |]; intros H; [injection H as ->; auto|auto]. Qed.

Definition is_container (v : goval) : bool := match v with VObj _ _ | VArr _ _ => true | _ => false end.

Lemma apply_defaults_fuel_scalar fuel r v : is_container v = false -> apply_defaults_fuel fuel r v = v.
Proof. destruct fuel, v; simpl; intros H; try reflexivity; discriminate. Qed.

(* ApplyDefaults on an object: present members keep their place and key (scalar values are untouched, nested
   containers are processed in turn), and nothing but the added members appears *)
Theorem apply_defaults_object r id m :
  exists m', apply_defaults r (VObj id m) = VObj id (m' ++ added_members r id m) /\
             map fst m' = map fst m /\
             (forall k v, In (k, v) m -> is_container v = false -> In (k, v) m').
Proof.
  unfold apply_defaults. cbn [apply_defaults_fuel].
  eexists. split; [reflexivity|]. split.
  - rewrite map_map. reflexivity.
  - intros k v Hin Hc. apply in_map_iff. exists (k, v). split; [|assumption]. simpl. f_equal.
    destruct v; try reflexivity; discriminate Hc.
Qed.

(* ------------------------------------------------------------------ prune on one object *)

Theorem prune_object r id m :
  exists m', prune r (VObj id m) = VObj id m' /\
             map fst m' = map fst (filter (fun kv => has_field_entry r id (fst kv)) m).
Proof.
  unfold prune. cbn [prune_fuel]. eexists. split; [reflexivity|]. rewrite map_map. reflexivity.
Qed.

Corollary prune_member_remains_iff r id m k :
  (exists m', prune r (VObj id m) = VObj id m' /\ In k (map fst m')) <->
  (In k (map fst m) /\ has_field_entry r id k = true).
Proof.
  destruct (prune_object r id m) as [m' [E Hk]]. split.
  - intros [m'' [E' Hin]]. rewrite E in E'. injection E' as <-. rewrite Hk in Hin.
    apply in_map_iff in Hin as [[k' v] [Ek Hf]]. simpl in Ek. subst k'.
    apply filter_In in Hf as [Hin Hh]. split; [apply in_map_iff; exists (k, v); auto|exact Hh].
  - intros [Hin Hh]. exists m'. split; [assumption|]. rewrite Hk.
    apply in_map_iff in Hin as [[k' v] [Ek Hin]]. simpl in Ek. subst k'.
    apply in_map_iff. exists (k, v). split; [reflexivity|]. apply filter_In. auto.
Qed.

(* ------------------------------------------------------------------ schemata are never lost by a merge *)

Lemma merge_wo_root_fields r o : r_fields (merge_wo_root r o) = r_fields r ++ r_fields o.
Proof. reflexivity. Qed.

Lemma merge_fields r o e : In e (r_fields r) \/ (exists x, o = Some x /\ In e (r_fields x)) -> In e (r_fields (merge r o)).
Proof.
  destruct o as [x|]; simpl.
  - intros [H|[y [E H]]]; apply in_or_app; [left; assumption|right; injection E as ->; assumption].
  - intros [H|[y [E _]]]; [assumption|discriminate].
Qed.

Lemma merge_for_field_fields r obj k o e :
  In e (r_fields r) \/ In e (r_fields o) \/ (r_root o <> [] /\ e = (obj, k, r_root o)) ->
  In e (r_fields (merge_for_field r obj k o)).
Proof.
  unfold merge_for_field. destruct (r_root o) eqn:E; simpl.
  - intros [H|[H|[H _]]]; [apply in_or_app; auto|apply in_or_app; auto|congruence].
  - intros [H|[H|[_ H]]]; rewrite ?in_app_iff; simpl; auto.
Qed.

Lemma merge_for_slice_fields r sl i o e :
  In e (r_fields r) \/ In e (r_fields o) -> In e (r_fields (merge_for_slice r sl i o)).
Proof.
  unfold merge_for_slice. destruct (r_root o); simpl; rewrite in_app_iff; tauto.
Qed.

Lemma r_add_fields r es : r_fields (r_add r es) = r_fields r.
Proof. reflexivity. Qed.

Lemma r_inc_fields r : r_fields (r_inc r) = r_fields r.
Proof. reflexivity. Qed.
