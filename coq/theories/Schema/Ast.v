(* spec.Schema after decoding, as the validators read it. The harness walks the decoded Go struct,
   so decoder behaviour (items: [] => empty non-nil tuple, additionalProperties: false => Allows=false,
   Schema=nil) is data here, not modelled code. *)
From Coq Require Import List ZArith Bool.
From Verif Require Import Base.Sx Base.GoVal.
Import ListNotations.
Open Scope Z_scope.

Inductive schema : Type := mkSchema {
  s_ref : option str;                       (* "$ref": "#/definitions/<name>"; None when absent *)
  s_types : list str;                       (* Type (StringOrArray) *)
  s_nullable : bool;
  s_format : str;                           (* 0 = "" *)
  s_enum : list goval;
  s_default : option goval;                 (* Default != nil *)
  s_multiple_of : option f64;
  s_maximum : option f64;
  s_excl_max : bool;
  s_minimum : option f64;
  s_excl_min : bool;
  s_max_length : option Z;
  s_min_length : option Z;
  s_pattern : str;                          (* 0 = "" *)
  s_max_items : option Z;
  s_min_items : option Z;
  s_unique : bool;
  s_items_one : option schema;              (* Items.Schema *)
  s_items_tuple : option (list schema);     (* Items.Schemas (Some [] for an empty non-nil list); None when Items == nil or single *)
  s_items_present : bool;                   (* Items != nil *)
  s_add_items : option (bool * option schema);   (* AdditionalItems: (Allows, Schema) *)
  s_max_props : option Z;
  s_min_props : option Z;
  s_required : list str;
  s_props : list (str * schema);            (* Properties, in the iteration order of this call *)
  s_pat_props : list (str * schema);        (* PatternProperties *)
  s_add_props : option (bool * option schema);
  s_all_of : list schema;
  s_any_of : list schema;
  s_one_of : list schema;
  s_not : option schema;
  s_deps : list (str * (option schema * list str));   (* Dependencies: key -> (Schema, Property) *)
}.

Definition env := list (str * schema).      (* definitions reachable by "#/definitions/<name>" *)

Fixpoint lookup_def (defs : env) (n : str) : option schema :=
  match defs with
  | [] => None
  | (k, s) :: t => if Z.eqb k n then Some s else lookup_def t n
  end.

Fixpoint lookup_schema (l : list (str * schema)) (n : str) : option schema :=
  match l with
  | [] => None
  | (k, s) :: t => if Z.eqb k n then Some s else lookup_schema t n
  end.

Definition empty_schema : schema :=
  mkSchema None [] false 0 [] None None None false None false None None 0 None None false
           None None false None None None [] [] [] None [] [] [] None [].

(* ---- codec ---- *)
(* (ref types nullable format enum default multipleOf maximum exclMax minimum exclMin maxLength minLength
    pattern maxItems minItems unique itemsOne itemsTuple itemsPresent addItems maxProps minProps required
    props patProps addProps allOf anyOf oneOf not deps) *)

Definition get_sob (gets : sx -> option schema) (s : sx) : option (option (bool * option schema)) :=
  getOpt (fun e => match e with
                   | L [b; os] =>
                       match getBool b, getOpt gets os with
                       | Some b, Some os => Some (b, os)
                       | _, _ => None
                       end
                   | _ => None
                   end) s.

Definition get_named (gets : sx -> option schema) (s : sx) : option (list (str * schema)) :=
  getList (getPair getZ gets) s.

Fixpoint get_schema_fuel (fuel : nat) (s : sx) : option schema :=
  match fuel with
  | O => None
  | S f =>
      let gets := get_schema_fuel f in
      match s with
      | L [ref; types; nullable; A format; enum; default; mult; maxi; exmax; mini; exmin; maxlen; minlen;
           A pattern; maxit; minit; unique; it1; ittuple; itpresent; additems; maxp; minp; required;
           props; patprops; addprops; allof; anyof; oneof; snot; deps] =>
          match getOpt getZ ref, getZs types, getBool nullable, getList get_goval enum,
                getOpt get_goval default, getOpt getZ mult, getOpt getZ maxi, getBool exmax with
          | Some ref, Some types, Some nullable, Some enum, Some default, Some mult, Some maxi, Some exmax =>
              match getOpt getZ mini, getBool exmin, getOpt getZ maxlen, getOpt getZ minlen,
                    getOpt getZ maxit, getOpt getZ minit, getBool unique, getOpt gets it1 with
              | Some mini, Some exmin, Some maxlen, Some minlen, Some maxit, Some minit, Some unique, Some it1 =>
                  match getOpt (getList gets) ittuple, getBool itpresent, get_sob gets additems,
                        getOpt getZ maxp, getOpt getZ minp, getZs required,
                        get_named gets props, get_named gets patprops with
                  | Some ittuple, Some itpresent, Some additems, Some maxp, Some minp, Some required,
                    Some props, Some patprops =>
                      match get_sob gets addprops, getList gets allof, getList gets anyof, getList gets oneof,
                            getOpt gets snot,
                            getList (fun e => match e with
                                              | L [A k; os; ps] =>
                                                  match getOpt gets os, getZs ps with
                                                  | Some os, Some ps => Some (k, (os, ps))
                                                  | _, _ => None
                                                  end
                                              | _ => None
                                              end) deps with
                      | Some addprops, Some allof, Some anyof, Some oneof, Some snot, Some deps =>
                          Some (mkSchema ref types nullable format enum default mult maxi exmax mini exmin
                                         maxlen minlen pattern maxit minit unique it1 ittuple itpresent additems
                                         maxp minp required props patprops addprops allof anyof oneof snot deps)
                      | _, _, _, _, _, _ => None
                      end
                  | _, _, _, _, _, _, _, _ => None
                  end
              | _, _, _, _, _, _, _, _ => None
              end
          | _, _, _, _, _, _, _, _ => None
          end
      | _ => None
      end
  end.

Definition get_schema (s : sx) : option schema := get_schema_fuel (S (sx_depth s)) s.

Definition get_env (s : sx) : option env := getList (getPair getZ get_schema) s.
