(* Every error of the pipeline designates the place it is about (C17): its name is empty (messages that carry no name), or
   the validator's path is empty (names are then rendered relative to the caller), or it is the validator's path followed by
   a walk INTO THE VALUE - member names of objects that have that member (or the name of a missing member, for "required"),
   indices of arrays that have that element.  Through every keyword group, at every depth, for every schema of a set W closed
   under sub-schemas and reference targets in which no schema has the single-schema form of items nor a schema dependency:
   those two build their sub-validator with the parent's path (slice_validator.go:96-103, schema_props.go:309) and name the
   wrong place, which is why the property text excludes them. *)
From Coq Require Import List ZArith Bool Lia.
From Verif Require Import Base.Sx Base.GoVal Schema.Ast Schema.Build Schema.Pipeline Schema.PipelineFacts Schema.PipelineTerm
  Schema.PipelineNames.
Import ListNotations.
Open Scope Z_scope.

(* t walks into d *)
Fixpoint walks (d : goval) (t : path) {struct t} : Prop :=
  match t with
  | [] => True
  | SDot k :: t' =>
      match d with
      | VObj _ m => t' = [] \/ exists v, In (k, v) m /\ walks v t'   (* the member itself (present or required and missing), or inside it *)
      | _ => False
      end
  | SIdx i :: t' =>
      match d with
      | VArr _ l => 0 <= i /\ match nth_goval l (Z.to_nat i) with Some v => walks v t' | None => False end
      | _ => False
      end
  | _ => False
  end.

Definition des (p : path) (d : goval) (e : msg) : Prop :=
  m_name e = [] \/ path_is_empty p = true \/ exists t, m_name e = p ++ t /\ walks d t.
Definition res_des (p : path) (d : goval) (r : res) : Prop := forall e, In e (r_errs r) -> des p d e.
Definition odes (p : path) (d : goval) (o : outcome res) : Prop := match o with Ok r => res_des p d r | _ => True end.
Arguments odes : simpl never.

Lemma des_here p d c a : des p d (mkMsg c p a).
Proof. right. right. exists []. rewrite app_nil_r. split; [reflexivity | exact I]. Qed.
Lemma des_nil p d c a : des p d (mkMsg c [] a).
Proof. left. reflexivity. Qed.

(* a member: errors located from p.k in the member's value are located from p in the object *)
Lemma des_member p id m k v e : In (k, v) m -> des (p ++ [SDot k]) v e -> des p (VObj id m) e.
Proof.
  intros Hl [H | [H | [t [H1 H2]]]]; [left; exact H | right; left | right; right].
  - rewrite path_is_empty_app in H. apply andb_true_iff in H. tauto.
  - exists (SDot k :: t). split; [rewrite H1, <- app_assoc; reflexivity|]. cbn [walks]. right. exists v. split; assumption.
Qed.

Lemma des_elem p id l i v e : 0 <= i -> nth_goval l (Z.to_nat i) = Some v -> des (p ++ [SIdx i]) v e -> des p (VArr id l) e.
Proof.
  intros Hi Hn [H | [H | [t [H1 H2]]]]; [left; exact H | right; left | right; right].
  - rewrite path_is_empty_app in H. apply andb_true_iff in H. tauto.
  - exists (SIdx i :: t). split; [rewrite H1, <- app_assoc; reflexivity|]. cbn [walks]. split; [exact Hi|]. rewrite Hn. exact H2.
Qed.

Lemma nd_new p d : res_des p d new_res.
Proof. intros e []. Qed.
Lemma nd_empty p d : res_des p d empty_result.
Proof. intros e []. Qed.
Lemma nd_serr p d e : des p d e -> res_des p d (s_err e).
Proof. intros H x [<- | []]. exact H. Qed.
Lemma nd_inc p d r : res_des p d r -> res_des p d (r_inc r).
Proof. intros H. exact H. Qed.
Lemma nd_add p d r es : res_des p d r -> (forall e, In e es -> des p d e) -> res_des p d (r_add r es).
Proof. intros Hr He e Hin. cbn [r_add r_errs] in Hin. apply add_errs_In in Hin. destruct Hin; [apply Hr | apply He]; assumption. Qed.
Lemma nd_merge_wo_root p d r o : res_des p d r -> res_des p d o -> res_des p d (merge_wo_root r o).
Proof. intros Hr Ho e Hin. cbn [merge_wo_root r_errs] in Hin. apply add_errs_In in Hin. destruct Hin; [apply Hr | apply Ho]; assumption. Qed.
Lemma nd_merge p d r o : res_des p d r -> match o with Some x => res_des p d x | None => True end -> res_des p d (merge r o).
Proof. destruct o as [o|]; intros Hr Ho; [|exact Hr]. intros e Hin. apply (nd_merge_wo_root p d r o Hr Ho e). exact Hin. Qed.
Lemma nd_merge_for_field p d r obj k o : res_des p d r -> res_des p d o -> res_des p d (merge_for_field r obj k o).
Proof. intros Hr Ho e Hin. apply (nd_merge_wo_root p d r o Hr Ho e). unfold merge_for_field in Hin. destruct (r_root o); exact Hin. Qed.
Lemma nd_merge_for_slice p d r sl i o : res_des p d r -> res_des p d o -> res_des p d (merge_for_slice r sl i o).
Proof. intros Hr Ho e Hin. apply (nd_merge_wo_root p d r o Hr Ho e). unfold merge_for_slice in Hin. destruct (r_root o); exact Hin. Qed.
Lemma nd_keep_relevant p d x : res_des p d x -> res_des p d (keep_relevant x).
Proof.
  intros H e Hin. cbn [keep_relevant r_errs] in Hin. apply in_map_iff in Hin. destruct Hin as [e0 [<- Hf]].
  apply filter_In in Hf. destruct Hf as [Hf _]. exact (H e0 Hf).
Qed.

Lemma odes_bind p d (x : outcome res) (f : res -> outcome res) :
  odes p d x -> (forall r, res_des p d r -> odes p d (f r)) -> odes p d (bind x f).
Proof. destruct x as [r| |]; intros Hx Hf; [apply Hf; exact Hx | exact I | exact I]. Qed.

(* results of a sub-validator on a member / an element, seen from the parent *)
Lemma res_des_member p id m k v x : In (k, v) m -> res_des (p ++ [SDot k]) v x -> res_des p (VObj id m) x.
Proof. intros Hl H e He. apply (des_member p id m k v e Hl), H, He. Qed.
Lemma res_des_elem p id l i v x : 0 <= i -> nth_goval l (Z.to_nat i) = Some v -> res_des (p ++ [SIdx i]) v x -> res_des p (VArr id l) x.
Proof. intros Hi Hn H e He. apply (des_elem p id l i v e Hi Hn), H, He. Qed.

Lemma skipn_cons_nth (L : list goval) : forall n v t, skipn n L = v :: t -> nth_goval L n = Some v /\ skipn (S n) L = t.
Proof.
  induction L as [|x xs IH]; intros n v t H; [destruct n; discriminate|]. destruct n as [|n].
  - cbn [skipn] in H. inversion H; subst. split; reflexivity.
  - cbn [skipn] in H. destruct (IH n v t H) as [H1 H2]. split; [exact H1 | exact H2].
Qed.

(* the schemas on which errors are located: no single-schema items, no schema dependency *)
Definition located_local (s : schema) : Prop :=
  s_items_one s = None /\ Forall (fun kd => fst (snd kd) = None) (s_deps s).

Section Groups.
Variable OR : oracles.
Variable N : numops.
Variable opt : options.
Hypothesis Hopt_items : opt_array_must_have_items opt = false.
Hypothesis Hopt_array : opt_obj_array_type_check opt = false.
Variable rec_sp : schema -> path -> path -> goval -> outcome res.
Variable W : schema -> Prop.
Hypothesis Hrec : forall s p d, W s -> odes p d (rec_sp s p p d).

Lemma nd_type_validate p d types nullable format : res_des p d (type_validate N p types nullable format d).
Proof.
  unfold type_validate. destruct d; repeat match goal with
    | |- res_des _ _ (if ?b then _ else _) => destruct b
    | |- res_des _ _ (let (_, _) := ?x in _) => destruct x
    | |- res_des _ _ empty_result => apply nd_empty
    | |- res_des _ _ (s_err _) => apply nd_serr; apply des_here
    end.
Qed.

Lemma nd_string_validate p s d : match string_validate OR p s d with Some r => res_des p d r | None => True end.
Proof.
  unfold string_validate. destruct d; try (apply nd_serr; apply des_here).
  repeat match goal with
    | |- match (if ?b then _ else _) with _ => _ end => destruct b
    | |- res_des _ _ (s_err _) => apply nd_serr; apply des_here
    | |- True => exact I
    end.
Qed.

Lemma nd_format_validate p s d : odes p d (format_validate OR p s d).
Proof.
  unfold format_validate. destruct d; try apply nd_new. destruct (o_fmt_check OR (s_format s) s0); [apply nd_new|].
  apply nd_add; [apply nd_new|]. intros e [<- | []]. apply des_here.
Qed.

Lemma nd_number_validate p s d : res_des p d (number_validate N p s d).
Proof.
  unfold number_validate. apply nd_inc. repeat apply nd_merge; try apply nd_new;
    repeat match goal with
    | |- match (match ?x with Some _ => _ | None => _ end) with _ => _ end => destruct x
    | |- True => exact I
    | |- res_des _ _ (if ?b then _ else _) => destruct b
    | |- res_des _ _ (match ?m with MOk => _ | MNotMultiple => _ | MNotPositive => _ end) => destruct m
    | |- res_des _ _ new_res => apply nd_new
    | |- res_des _ _ (merge new_res (Some (s_err _))) => apply nd_merge; [apply nd_new | apply nd_serr; apply des_here]
    end.
Qed.

Lemma nd_common_validate p s d : match common_validate N p s d with Some r => res_des p d r | None => True end.
Proof.
  unfold common_validate. destruct (s_enum s); [exact I|]. destruct (existsb _ _); [exact I|]. apply nd_serr, des_here.
Qed.

(* ---- arrays ---- *)
Lemma nd_slice_items_tuple p sl id L : forall ss l i r, Forall W ss -> 0 <= i -> skipn (Z.to_nat i) L = l ->
  res_des p (VArr id L) r -> odes p (VArr id L) (slice_items_tuple rec_sp ss p sl l i r).
Proof.
  induction ss as [|s1 st IH]; intros l i r Hw Hi Hsk Hr; [destruct l; exact Hr|]. destruct l as [|v t]; [exact Hr|].
  inversion Hw as [|x xs Hw1 Hws]; subst. cbn [slice_items_tuple].
  destruct (skipn_cons_nth L (Z.to_nat i) v t Hsk) as [Hn Hsk'].
  pose proof (Hrec s1 (p ++ [SIdx i]) v Hw1) as Hx. unfold rec. destruct (rec_sp s1 (p ++ [SIdx i]) (p ++ [SIdx i]) v) as [x| |]; cbn [bind]; try exact I.
  apply IH; [exact Hws | lia | replace (Z.to_nat (i + 1)) with (S (Z.to_nat i)) by lia; exact Hsk' |].
  apply nd_merge_for_slice; [exact Hr | apply (res_des_elem p id L i v x Hi Hn Hx)].
Qed.

Lemma nd_slice_additional sa p sl id L : W sa -> forall rest i r, 0 <= i -> skipn (Z.to_nat i) L = rest ->
  res_des p (VArr id L) r -> odes p (VArr id L) (slice_additional rec_sp sa p sl rest i r).
Proof.
  intros Hw. induction rest as [|v t IH]; intros i r Hi Hsk Hr; [exact Hr|]. cbn [slice_additional].
  destruct (skipn_cons_nth L (Z.to_nat i) v t Hsk) as [Hn Hsk'].
  pose proof (Hrec sa (p ++ [SIdx i]) v Hw) as Hx. unfold rec. destruct (rec_sp sa (p ++ [SIdx i]) (p ++ [SIdx i]) v) as [x| |]; cbn [bind]; try exact I.
  apply IH; [lia | replace (Z.to_nat (i + 1)) with (S (Z.to_nat i)) by lia; exact Hsk' |].
  apply nd_merge_for_slice; [exact Hr | apply (res_des_elem p id L i v x Hi Hn Hx)].
Qed.

Lemma nd_slice_validate p s d : kids W s -> located_local s -> odes p d (slice_validate N rec_sp p s d).
Proof.
  intros [_ [K2 [K3 _]]] [Hone _]. unfold slice_validate. destruct d; try apply nd_new. rewrite Hone.
  cbn [bind].
  apply odes_bind.
  { apply nd_slice_items_tuple; [destruct (s_items_tuple s) eqn:E; [apply K2; reflexivity | constructor] | lia | reflexivity | apply nd_new]. }
  intros r2 H2.
  apply odes_bind.
  - destruct (s_add_items s) as [[allows [sa|]]|] eqn:E; repeat match goal with
      | |- odes _ _ (if ?b then _ else _) => destruct b
      | |- odes _ _ (Ok ?r) => change (res_des p (VArr id l) r)
      | |- res_des _ _ (if ?b then _ else _) => destruct b
      | |- res_des _ _ (r_add _ _) => apply nd_add; [|intros e [<- | []]; apply des_nil]
      | |- res_des _ _ r2 => exact H2
      | |- odes _ _ (slice_additional _ _ _ _ _ _ _) =>
          apply nd_slice_additional; [apply (K3 _ _ eq_refl) | lia | rewrite Nat2Z.id; reflexivity |]
      end.
  - intros r3 H3. change (res_des p (VArr id l) (r_inc (if s_unique s && unique_items N [] l then r_add
        (match s_max_items s with Some m => if m <? Z.of_nat (length l) then r_add (match s_min_items s with Some m0 => if Z.of_nat (length l) <? m0 then r_add r3 [mkMsg C_MIN_ITEMS p [m0]] else r3 | None => r3 end) [mkMsg C_MAX_ITEMS p [m]] else match s_min_items s with Some m0 => if Z.of_nat (length l) <? m0 then r_add r3 [mkMsg C_MIN_ITEMS p [m0]] else r3 | None => r3 end | None => match s_min_items s with Some m0 => if Z.of_nat (length l) <? m0 then r_add r3 [mkMsg C_MIN_ITEMS p [m0]] else r3 | None => r3 end end)
        [mkMsg C_UNIQUE p []] else
        (match s_max_items s with Some m => if m <? Z.of_nat (length l) then r_add (match s_min_items s with Some m0 => if Z.of_nat (length l) <? m0 then r_add r3 [mkMsg C_MIN_ITEMS p [m0]] else r3 | None => r3 end) [mkMsg C_MAX_ITEMS p [m]] else match s_min_items s with Some m0 => if Z.of_nat (length l) <? m0 then r_add r3 [mkMsg C_MIN_ITEMS p [m0]] else r3 | None => r3 end | None => match s_min_items s with Some m0 => if Z.of_nat (length l) <? m0 then r_add r3 [mkMsg C_MIN_ITEMS p [m0]] else r3 | None => r3 end end)))).
    apply nd_inc. repeat match goal with
      | |- res_des _ _ (if ?b then _ else _) => destruct b
      | |- res_des _ _ (match ?x with Some _ => _ | None => _ end) => destruct x
      | |- res_des _ _ (r_add _ _) => apply nd_add; [|intros e [<- | []]; apply des_here]
      | |- res_des _ _ r3 => exact H3
      end.
Qed.

(* ---- objects ---- *)
Lemma lookup_val_In m k v : lookup_val m k = Some v -> In (k, v) m.
Proof.
  induction m as [|[k' v'] t IH]; cbn [lookup_val]; intros H; [discriminate|].
  match type of H with (if ?c then _ else _) = _ => destruct c eqn:E end;
    [apply Z.eqb_eq in E; injection H as H; subst; left; reflexivity | right; apply IH; exact H].
Qed.

Definition odes_pp (p : path) (d : goval) (o : outcome (bool * list (str * schema) * res)) : Prop :=
  match o with Ok (_, _, r) => res_des p d r | _ => True end.

Lemma nd_pattern_property pps p id m key value : Forall (fun kc => W (snd kc)) pps -> In (key, value) m ->
  forall r mt pats, res_des p (VObj id m) r -> odes_pp p (VObj id m) (pattern_property OR rec_sp pps p key value r mt pats).
Proof.
  intros Hw Hin. induction Hw as [|[k ps] t Hwp Ht IH]; intros r mt pats Hr; cbn [pattern_property]; [exact Hr|]. cbn [snd] in Hwp.
  destruct (negb (o_re_ok OR k)); [apply IH; exact Hr|]. destruct (negb (o_re_match OR k key)); [apply IH; exact Hr|].
  pose proof (Hrec ps (p ++ [SDot key]) value Hwp) as Hx. unfold rec.
  destruct (rec_sp ps (p ++ [SDot key]) (p ++ [SDot key]) value) as [x| |]; cbn [bind]; try exact I.
  apply IH. apply nd_merge; [exact Hr | apply (res_des_member p id m key value x Hin Hx)].
Qed.

Lemma nd_validate_pattern_property s p id m key value r : kids W s -> In (key, value) m -> res_des p (VObj id m) r ->
  odes_pp p (VObj id m) (validate_pattern_property OR rec_sp s p key value r).
Proof.
  intros [_ [_ [_ [_ [Kpp _]]]]] Hin Hr. unfold validate_pattern_property. destruct (s_pat_props s) eqn:E; [exact Hr|].
  apply nd_pattern_property; assumption.
Qed.

Lemma nd_header_ref_errors p d v : forall e, In e (header_ref_errors p v) -> des p d e.
Proof.
  intros e He. unfold header_ref_errors in He. destruct v; try contradiction. apply in_flat_map in He. destruct He as [hk [_ He]].
  destruct (snd hk); try contradiction. destruct (lookup_val m0 k_dollar_ref) as [v0|]; [|contradiction].
  destruct v0; try contradiction. destruct He as [<- | []]. apply des_nil.
Qed.

Lemma nd_no_additional s p d ms : forall r, res_des p d r -> res_des p d (no_additional_properties OR s p ms r).
Proof.
  induction ms as [|[k v] t IH]; intros r Hr; cbn [no_additional_properties]; [exact Hr|].
  destruct (Z.eqb k k_dollar_schema || Z.eqb k k_id); [apply IH; exact Hr|].
  destruct (has_prop s k); [apply IH; exact Hr|].
  destruct (existsb _ (s_pat_props s)); [apply IH; exact Hr|]. cbv zeta.
  apply IH. destruct (Z.eqb k k_headers).
  - apply nd_add; [apply nd_add; [exact Hr | intros e [<- | []]; apply des_here] | apply nd_header_ref_errors].
  - apply nd_add; [exact Hr | intros e [<- | []]; apply des_here].
Qed.

Lemma nd_additional s p id m : kids W s -> forall ms, incl ms m -> forall r, res_des p (VObj id m) r ->
  odes p (VObj id m) (additional_properties OR rec_sp s p id ms r).
Proof.
  intros K. pose proof K as [_ [_ [_ [_ [_ [Ka _]]]]]].
  induction ms as [|[key value] t IH]; intros Hincl r Hr; cbn [additional_properties]; [exact Hr|].
  assert (Hin : In (key, value) m) by (apply Hincl; left; reflexivity).
  assert (Ht : incl t m) by (intros x Hx; apply Hincl; right; exact Hx).
  destruct (has_prop s key); [apply IH; assumption|].
  pose proof (nd_validate_pattern_property s p id m key value r K Hin Hr) as Hv.
  destruct (validate_pattern_property OR rec_sp s p key value r) as [[[matched pats] r1]| |]; cbn [bind]; try exact I. cbn [odes_pp] in Hv.
  destruct matched; [apply IH; assumption|].
  destruct (s_add_props s) as [[b [sa|]]|] eqn:E; try (apply IH; assumption).
  pose proof (Hrec sa (p ++ [SDot key]) value (Ka b sa eq_refl)) as Hx. unfold rec.
  destruct (rec_sp sa (p ++ [SDot key]) (p ++ [SDot key]) value) as [x| |]; cbn [bind]; try exact I.
  apply IH; [exact Ht|]. apply nd_merge_for_field; [exact Hv | apply (res_des_member p id m key value x Hin Hx)].
Qed.

Definition odes_ps (p : path) (d : goval) (o : outcome (res * list str)) : Prop := match o with Ok (r, _) => res_des p d r | _ => True end.

Lemma nd_properties_schema p id m : forall props, Forall (fun kc => W (snd kc)) props -> forall r created, res_des p (VObj id m) r ->
  odes_ps p (VObj id m) (properties_schema opt rec_sp props p id m r created).
Proof.
  induction props as [|[pname ps] t IH]; intros Hw r created Hr; cbn [properties_schema]; [exact Hr|]. cbv zeta.
  inversion Hw as [|x xs Hwp Hws]; subst. cbn [snd] in Hwp.
  destruct (lookup_val m pname) as [v|] eqn:E.
  - match goal with |- odes_ps _ _ (bind ?X _) =>
      assert (Hx : match X with Ok x => res_des p (VObj id m) x | _ => True end);
      [ unfold rec; destruct (path_is_empty p) eqn:Ep;
        [ destruct (rec_sp ps [SKey0 pname] [SKey0 pname] v); try exact I; intros e _; right; left; exact Ep
        | pose proof (Hrec ps (p ++ [SDot pname]) v Hwp) as Hx0;
          destruct (rec_sp ps (p ++ [SDot pname]) (p ++ [SDot pname]) v); try exact I;
          apply (res_des_member p id m pname v _ (lookup_val_In m pname v E) Hx0) ]
      | destruct X as [x| |]; cbn [bind]; try exact I ]
    end.
    apply IH; [exact Hws|]. apply nd_merge_for_field; assumption.
  - destruct (s_default ps); [|apply IH; assumption]. apply IH; [exact Hws|]. destruct (opt_skip_schemata opt); exact Hr.
Qed.

Lemma nd_required_errors s p id m created : forall e, In e (required_errors s p m created) -> des p (VObj id m) e.
Proof.
  intros e He. unfold required_errors in He. apply in_flat_map in He. destruct He as [k [_ He]].
  destruct (lookup_val m k); [destruct He|]. destruct (contains k created); [destruct He|]. destruct He as [<- | []].
  right. right. exists [SDot k]. split; [reflexivity|]. cbn [walks]. left. reflexivity.
Qed.

Lemma nd_merge_patterns pats s p id m key value : kids W s -> In (key, value) m -> forall r, res_des p (VObj id m) r ->
  odes p (VObj id m) (merge_patterns rec_sp pats s p id key value r).
Proof.
  intros [_ [_ [_ [_ [Kpp _]]]]] Hin. induction pats as [|[pn x] t IH]; intros r Hr; cbn [merge_patterns]; [exact Hr|].
  destruct (lookup_schema (s_pat_props s) pn) as [ps|] eqn:E; [|apply IH; exact Hr].
  pose proof (Hrec ps (p ++ [SDot key]) value (lookup_schema_forall W _ _ _ Kpp E)) as Hx. unfold rec.
  destruct (rec_sp ps (p ++ [SDot key]) (p ++ [SDot key]) value) as [y| |]; cbn [bind]; try exact I.
  apply IH. apply nd_merge_for_field; [exact Hr | apply (res_des_member p id m key value y Hin Hx)].
Qed.

Lemma nd_pattern_loop s p id m : kids W s -> forall ms, incl ms m -> forall r, res_des p (VObj id m) r ->
  odes p (VObj id m) (pattern_loop OR rec_sp s p id ms r).
Proof.
  intros K. induction ms as [|[key value] t IH]; intros Hincl r Hr; cbn [pattern_loop]; [exact Hr|].
  assert (Hin : In (key, value) m) by (apply Hincl; left; reflexivity).
  assert (Ht : incl t m) by (intros x Hx; apply Hincl; right; exact Hx).
  pose proof (nd_validate_pattern_property s p id m key value r K Hin Hr) as Hv.
  destruct (validate_pattern_property OR rec_sp s p key value r) as [[[matched pats] r1]| |]; cbn [bind]; try exact I. cbn [odes_pp] in Hv.
  destruct (has_prop s key || negb matched); [apply IH; assumption|].
  apply odes_bind; [apply nd_merge_patterns; assumption|]. intros r2 H2. apply IH; assumption.
Qed.

Lemma nd_precheck p m r : precheck opt p m r = r.
Proof. unfold precheck. rewrite Hopt_items, Hopt_array. reflexivity. Qed.

Lemma nd_object_validate p s d : kids W s -> odes p d (object_validate OR opt rec_sp p s d).
Proof.
  intros K. pose proof K as [_ [_ [_ [Kp _]]]].
  unfold object_validate. destruct d; try (apply nd_serr; apply des_here). cbv zeta.
  repeat match goal with |- odes _ _ (if ?b then _ else _) => destruct b; [apply nd_serr; apply des_here|] end.
  rewrite nd_precheck.
  apply odes_bind.
  - destruct (s_add_props s) as [[[|] x]|]; try (apply nd_additional; [exact K | apply incl_refl | apply nd_new]). apply nd_no_additional. apply nd_new.
  - intros r1 H1. pose proof (nd_properties_schema p id m (s_props s) Kp r1 [] H1) as Hp.
    destruct (properties_schema opt rec_sp (s_props s) p id m r1 []) as [[r2 created]| |]; cbn [bind]; try exact I. cbn [odes_ps] in Hp.
    apply nd_pattern_loop; [exact K | apply incl_refl|]. destruct (s_required s); [exact Hp|]. apply nd_add; [exact Hp | apply nd_required_errors].
Qed.

(* ---- composition ---- *)
Definition odes2 (p : path) (d : goval) (o : outcome (res * res)) : Prop := match o with Ok (a, b) => res_des p d a /\ res_des p d b | _ => True end.
Definition optdes (p : path) (d : goval) (o : option res) : Prop := match o with Some x => res_des p d x | None => True end.

Lemma nd_any_of vs p d : Forall W vs -> forall main keep best, res_des p d main -> res_des p d keep -> optdes p d best ->
  odes2 p d (any_of rec_sp vs p d main keep best).
Proof.
  intros Hw. induction Hw as [|s1 t Hw1 Ht IH]; intros main keep best Hm Hk Hb; cbn [any_of].
  - split; [apply nd_merge; [apply nd_add; [exact Hm | intros e [<- | []]; apply des_here] | exact Hb] | exact Hk].
  - pose proof (Hrec s1 p d Hw1) as Hx. unfold rec. destruct (rec_sp s1 p p d) as [x| |]; cbn [bind]; try exact I.
    assert (Hk' : res_des p d (merge keep (Some (keep_relevant x)))) by (apply nd_merge; [exact Hk | apply nd_keep_relevant; exact Hx]).
    destruct (r_valid x); [split; [apply nd_merge; assumption | apply nd_new]|].
    destruct best as [b|]; [destruct (r_mc b <? r_mc x)|]; apply IH; assumption.
Qed.

Definition odes4 (p : path) (d : goval) (o : outcome (option res * option res * Z * res)) : Prop :=
  match o with Ok (a, b, _, k) => optdes p d a /\ optdes p d b /\ res_des p d k | _ => True end.

Lemma nd_one_of vs p d : Forall W vs -> forall keep first best validated, res_des p d keep -> optdes p d first -> optdes p d best ->
  odes4 p d (one_of rec_sp vs p d keep first best validated).
Proof.
  intros Hw. induction Hw as [|s1 t Hw1 Ht IH]; intros keep first best validated Hk Hf Hb; cbn [one_of]; [repeat split; assumption|].
  pose proof (Hrec s1 p d Hw1) as Hx. unfold rec. destruct (rec_sp s1 p p d) as [x| |]; cbn [bind]; try exact I.
  assert (Hk' : res_des p d (merge keep (Some (keep_relevant x)))) by (apply nd_merge; [exact Hk | apply nd_keep_relevant; exact Hx]).
  destruct (r_valid x).
  - apply IH; [apply nd_new | destruct first; [exact Hf | exact Hx] | exact Hb].
  - match goal with |- odes4 _ _ (if ?b then _ else _) => destruct b end; apply IH; assumption.
Qed.

Definition odes3 (p : path) (d : goval) (o : outcome (res * res * Z)) : Prop := match o with Ok (a, b, _) => res_des p d a /\ res_des p d b | _ => True end.

Lemma nd_all_of vs p d : Forall W vs -> forall main keep validated, res_des p d main -> res_des p d keep -> odes3 p d (all_of rec_sp vs p d main keep validated).
Proof.
  intros Hw. induction Hw as [|s1 t Hw1 Ht IH]; intros main keep validated Hm Hk; cbn [all_of]; [split; assumption|].
  pose proof (Hrec s1 p d Hw1) as Hx. unfold rec. destruct (rec_sp s1 p p d) as [x| |]; cbn [bind]; try exact I.
  apply IH; [apply nd_merge; assumption | apply nd_merge; [exact Hk | apply nd_keep_relevant; exact Hx]].
Qed.

(* without schema dependencies the loop only looks at member names *)
Lemma nd_dependencies s p d ms all : Forall (fun kd => fst (snd kd) = None) (s_deps s) -> forall main, res_des p d main ->
  odes p d (dependencies rec_sp s p d ms all main).
Proof.
  intros Hnone. induction ms as [|[key v] t IH]; intros main Hm; cbn [dependencies]; [exact Hm|].
  match goal with |- odes _ _ (match ?x with Some _ => _ | None => _ end) => destruct x as [[[ds|] props]|] eqn:E end.
  - exfalso. clear - E Hnone. induction Hnone as [|[k dep] l Hk Hl IHl]; [discriminate|].
    destruct (Z.eqb k key); [inversion E; subst; cbn [fst snd] in Hk; discriminate | apply IHl; exact E].
  - apply IH. apply nd_add; [exact Hm|]. intros e He. apply in_flat_map in He. destruct He as [dk [_ He]].
    destruct (lookup_val all dk); [destruct He|]. destruct He as [<- | []]. apply des_here.
  - apply IH. exact Hm.
Qed.

Lemma nd_props_validate p s d : kids W s -> located_local s -> odes p d (props_validate rec_sp p s d).
Proof.
  intros K [_ Hnone]. pose proof K as [_ [_ [_ [_ [_ [_ [Kall [Kany [Kone [Knot _]]]]]]]]]].
  unfold props_validate. cbv zeta.
  assert (Ha : match (match s_any_of s with
                      | [] => Ok (new_res, None)
                      | vs => do mk <- any_of rec_sp vs p d new_res new_res None; Ok (fst mk, Some (snd mk))
                      end) with Ok (a, k) => res_des p d a /\ optdes p d k | _ => True end).
  { destruct (s_any_of s) as [|v0 vt]; [split; [apply nd_new | exact I]|].
    pose proof (nd_any_of (v0 :: vt) p d Kany new_res new_res None (nd_new p d) (nd_new p d) I) as H.
    destruct (any_of rec_sp (v0 :: vt) p d new_res new_res None) as [[a b]| |]; cbn [bind]; try exact I. exact H. }
  match goal with |- odes _ _ (bind ?X _) => destruct X as [[main1 keep_any]| |]; cbn [bind]; try exact I end. destruct Ha as [Hm1 Hka].
  assert (Hb : match (match s_one_of s with
                      | [] => Ok (main1, None)
                      | vs =>
                          do x <- one_of rec_sp vs p d new_res None None 0;
                          let '(first, best, validated, keep) := x in
                          Ok (if Z.eqb validated 0 then merge (r_add main1 [mkMsg C_ONE_OF_NONE p []]) best
                              else if Z.eqb validated 1 then merge main1 first
                              else merge (r_add main1 [mkMsg C_ONE_OF_MANY p [validated]]) best, Some keep)
                      end) with Ok (a, k) => res_des p d a /\ optdes p d k | _ => True end).
  { destruct (s_one_of s) as [|v0 vt]; [split; [exact Hm1 | exact I]|].
    pose proof (nd_one_of (v0 :: vt) p d Kone new_res None None 0 (nd_new p d) I I) as H.
    destruct (one_of rec_sp (v0 :: vt) p d new_res None None 0) as [[[[first best] validated] keep]| |]; cbn [bind]; try exact I.
    destruct H as [Hf [Hbest Hk]]. split; [|exact Hk].
    destruct (Z.eqb validated 0); [apply nd_merge; [apply nd_add; [exact Hm1 | intros e [<- | []]; apply des_here] | exact Hbest]|].
    destruct (Z.eqb validated 1); [apply nd_merge; assumption|].
    apply nd_merge; [apply nd_add; [exact Hm1 | intros e [<- | []]; apply des_here] | exact Hbest]. }
  match goal with |- odes _ _ (bind ?X _) => destruct X as [[main2 keep_one]| |]; cbn [bind]; try exact I end. destruct Hb as [Hm2 Hko].
  assert (Hc : match (match s_all_of s with
                      | [] => Ok (main2, None)
                      | vs =>
                          do x <- all_of rec_sp vs p d main2 new_res 0;
                          let '(main', keep, validated) := x in
                          Ok (if Z.eqb validated 0 then r_add main' [mkMsg C_ALL_OF_NONE p []]
                              else if Z.eqb validated (Z.of_nat (length vs)) then main'
                              else r_add main' [mkMsg C_ALL_OF_SOME p []], Some keep)
                      end) with Ok (a, k) => res_des p d a /\ optdes p d k | _ => True end).
  { destruct (s_all_of s) as [|v0 vt]; [split; [exact Hm2 | exact I]|].
    pose proof (nd_all_of (v0 :: vt) p d Kall main2 new_res 0 Hm2 (nd_new p d)) as H. cbv zeta.
    destruct (all_of rec_sp (v0 :: vt) p d main2 new_res 0) as [[[main' keep] validated]| |]; cbn [bind]; try exact I.
    destruct H as [Hm' Hk]. split; [|exact Hk].
    destruct (Z.eqb validated 0); [apply nd_add; [exact Hm' | intros e [<- | []]; apply des_here]|].
    destruct (Z.eqb validated _); [exact Hm' | apply nd_add; [exact Hm' | intros e [<- | []]; apply des_here]]. }
  cbv zeta in Hc.
  match goal with |- odes _ _ (bind ?X _) => destruct X as [[main3 keep_all]| |]; cbn [bind]; try exact I end. destruct Hc as [Hm3 Hkl].
  assert (Hn : odes p d (match s_not s with
                         | None => Ok main3
                         | Some ns => do x <- rec rec_sp ns p d; Ok (if r_valid x then r_add main3 [mkMsg C_NOT p []] else main3)
                         end)).
  { destruct (s_not s) as [ns|] eqn:En; [|exact Hm3]. apply odes_bind; [unfold rec; apply Hrec; apply (Knot ns eq_refl)|]. intros x Hx.
    destruct (r_valid x); [apply nd_add; [exact Hm3 | intros e [<- | []]; apply des_here] | exact Hm3]. }
  match goal with |- odes _ _ (bind ?X _) => destruct X as [main4| |]; cbn [bind]; try exact I end.
  assert (Hd : odes p d (match s_deps s, d with
                         | _ :: _, VObj _ m => dependencies rec_sp s p d m m main4
                         | _, _ => Ok main4
                         end)).
  { destruct (s_deps s) eqn:Ed; [exact Hn|]. destruct d; try exact Hn. rewrite <- Ed in *. apply nd_dependencies; [exact Hnone | exact Hn]. }
  match goal with |- odes _ _ (bind ?X _) => destruct X as [main5| |]; cbn [bind]; try exact I end.
  repeat apply nd_merge; try assumption; try (apply nd_inc; exact Hd).
Qed.

(* ---- one validator ---- *)
Lemma nd_sv_body s p d : kids W s -> located_local s -> odes p d (sv_body OR N opt rec_sp s p p d).
Proof.
  intros K Hloc. unfold sv_body.
  set (r0 := if opt_skip_schemata opt then new_res else mkRes [] 0 [s_default s] [] []).
  assert (Hr0 : forall dd, res_des p dd r0) by (intros dd; unfold r0; destruct (opt_skip_schemata opt); intros e []).
  (* the groups see the value d', a typed number when d is a json.Number: leaves both, errors are named p *)
  assert (Hrest : forall d', (forall e, des p d' e -> des p d e) -> odes p d (
     do x2 <- props_validate rec_sp p s d';
     do r4 <- (if format_applies OR s d'
               then do x <- format_validate OR p s d';
                    Ok (r_inc (merge (if is_string_kind d' then r_inc (merge (r_inc (merge (if type_applies (s_types s) (s_format s) then r_inc (merge r0 (Some (type_validate N p (s_types s) (s_nullable s) (s_format s) d'))) else r0) (Some x2))) (string_validate OR p s d')) else r_inc (merge (if type_applies (s_types s) (s_format s) then r_inc (merge r0 (Some (type_validate N p (s_types s) (s_nullable s) (s_format s) d'))) else r0) (Some x2))) (Some x)))
               else Ok (if is_string_kind d' then r_inc (merge (r_inc (merge (if type_applies (s_types s) (s_format s) then r_inc (merge r0 (Some (type_validate N p (s_types s) (s_nullable s) (s_format s) d'))) else r0) (Some x2))) (string_validate OR p s d')) else r_inc (merge (if type_applies (s_types s) (s_format s) then r_inc (merge r0 (Some (type_validate N p (s_types s) (s_nullable s) (s_format s) d'))) else r0) (Some x2))));
     do r6 <- (if is_slice_kind d'
               then do x <- slice_validate N rec_sp p s d'; Ok (r_inc (merge (if is_number_kind d' then r_inc (merge r4 (Some (number_validate N p s d'))) else r4) (Some x)))
               else Ok (if is_number_kind d' then r_inc (merge r4 (Some (number_validate N p s d'))) else r4));
     do r8 <- (if is_map_kind d'
               then do x <- object_validate OR opt rec_sp p s d'; Ok (r_inc (merge (r_inc (merge r6 (common_validate N p s d'))) (Some x)))
               else Ok (r_inc (merge r6 (common_validate N p s d'))));
     Ok (r_inc r8))).
  { intros d' Hlift.
    assert (L : forall r, res_des p d' r -> res_des p d r) by (intros r Hr e He; apply Hlift, Hr, He).
    assert (LO : forall o, odes p d' o -> odes p d o) by (intros [r| |] Ho; [apply L; exact Ho | exact I | exact I]).
    apply odes_bind; [apply LO, nd_props_validate; assumption|]. intros x2 H2.
    assert (Hr1 : res_des p d (if type_applies (s_types s) (s_format s) then r_inc (merge r0 (Some (type_validate N p (s_types s) (s_nullable s) (s_format s) d'))) else r0)).
    { destruct (type_applies _ _); [apply nd_inc, nd_merge; [apply Hr0 | apply L, nd_type_validate] | apply Hr0]. }
    assert (Hr3 : res_des p d (if is_string_kind d' then r_inc (merge (r_inc (merge (if type_applies (s_types s) (s_format s) then r_inc (merge r0 (Some (type_validate N p (s_types s) (s_nullable s) (s_format s) d'))) else r0) (Some x2))) (string_validate OR p s d')) else r_inc (merge (if type_applies (s_types s) (s_format s) then r_inc (merge r0 (Some (type_validate N p (s_types s) (s_nullable s) (s_format s) d'))) else r0) (Some x2)))).
    { destruct (is_string_kind d'); [apply nd_inc, nd_merge; [apply nd_inc, nd_merge; assumption|] | apply nd_inc, nd_merge; assumption].
      pose proof (nd_string_validate p s d') as Hs. destruct (string_validate OR p s d'); [apply L; exact Hs | exact I]. }
    apply odes_bind.
    { destruct (format_applies OR s d'); [|exact Hr3]. apply odes_bind; [apply LO, nd_format_validate|]. intros x Hx. apply nd_inc, nd_merge; assumption. }
    intros r4 H4.
    assert (Hr5 : res_des p d (if is_number_kind d' then r_inc (merge r4 (Some (number_validate N p s d'))) else r4)).
    { destruct (is_number_kind d'); [apply nd_inc, nd_merge; [exact H4 | apply L, nd_number_validate] | exact H4]. }
    apply odes_bind.
    { destruct (is_slice_kind d'); [|exact Hr5]. apply odes_bind; [apply LO, nd_slice_validate; assumption|]. intros x Hx. apply nd_inc, nd_merge; assumption. }
    intros r6 H6.
    assert (Hr7 : res_des p d (r_inc (merge r6 (common_validate N p s d')))).
    { apply nd_inc, nd_merge; [exact H6|]. pose proof (nd_common_validate p s d') as Hc. destruct (common_validate N p s d'); [apply L; exact Hc | exact I]. }
    apply odes_bind.
    { destruct (is_map_kind d'); [|exact Hr7]. apply odes_bind; [apply LO, nd_object_validate; assumption|]. intros x Hx. apply nd_inc, nd_merge; assumption. }
    intros r8 H8. apply nd_inc. exact H8. }
  (* a value without parts walks nowhere: errors about the converted number are errors about the json.Number *)
  assert (Hflat : forall d', (forall id l, d' <> VArr id l) -> (forall id m, d' <> VObj id m) -> forall e, des p d' e -> des p d e).
  { intros d' Ha Ho e [H | [H | [t [H1 H2]]]]; [left; exact H | right; left; exact H | right; right].
    exists t. split; [exact H1|]. destruct t as [|[k|k|k|i] t']; try exact I; cbn [walks] in H2; destruct d'; try contradiction.
    - exfalso. apply (Ho id m). reflexivity.
    - exfalso. apply (Ha id l). reflexivity. }
  destruct d; cbv beta iota zeta; fold r0;
    try (apply Hrest; intros e He; exact He);
    try (apply nd_merge; [apply nd_merge; [apply Hr0 | apply nd_type_validate] | apply nd_common_validate]).
  (* json.Number *)
  destruct (types_numeric s); [|apply Hrest; intros e He; exact He].
  destruct (contains k_integer (s_types s)).
  - destruct asint; [apply Hrest; apply Hflat; intros; discriminate|]. apply nd_inc, nd_add; [apply Hr0|]. intros e [<- | []]. apply des_here.
  - destruct asflt; [apply Hrest; apply Hflat; intros; discriminate|]. apply nd_inc, nd_add; [apply Hr0|]. intros e [<- | []]. apply des_here.
Qed.

End Groups.

(* ------------------------------------------------------------------ every validator of a closed set of schemas *)
Section Located.
Variable OR : oracles.
Variable N : numops.
Variable opt : options.
Variable defs : env.
Hypothesis Hopt_items : opt_array_must_have_items opt = false.
Hypothesis Hopt_array : opt_obj_array_type_check opt = false.
Variable W : schema -> Prop.
Hypothesis Hkids : forall s, W s -> kids W s.
Hypothesis Href : forall s n t, W s -> s_ref s = Some n -> lookup_def defs n = Some t -> W t.
Hypothesis Hloc : forall s, W s -> s_ref s = None -> located_local s.

Lemma resolve_W : forall f s t, W s -> resolve defs f s = Ok t -> W t /\ s_ref t = None.
Proof.
  induction f as [|f IH]; intros s t Ws H; cbn [resolve] in H; destruct (s_ref s) as [n|] eqn:E; try discriminate.
  - inversion H; subst. split; assumption.
  - destruct (lookup_def defs n) as [t1|] eqn:Et; [|discriminate]. apply (IH t1 t (Href s n t1 Ws E Et) H).
  - inversion H; subst. split; assumption.
Qed.

Theorem errors_designate_their_place : forall fuel s p d, W s -> odes p d (sv_validate OR N opt defs fuel s p p d).
Proof.
  induction fuel as [|f IH]; intros s p d Ws; cbn [sv_validate]; [exact I|].
  destruct (eager defs f s); cbn [bind]; try exact I. destruct (resolve defs f s) as [s'| |] eqn:Er; cbn [bind]; try exact I.
  destruct (resolve_W f s s' Ws Er) as [Ws' Hnone].
  apply (nd_sv_body OR N opt Hopt_items Hopt_array (sv_validate OR N opt defs f) W); [|apply Hkids; exact Ws' | apply Hloc; assumption].
  intros c p' d' Wc. apply IH. exact Wc.
Qed.

End Located.
