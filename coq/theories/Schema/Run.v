(* Entry points [sx -> sx] for the schema pipeline: decode a case, run the model, encode what the
   harness observes of the Go run. *)
From Coq Require Import List ZArith Bool.
From Verif Require Spec.Visited Spec.Rules Spec.Walk.
From Verif Require Import Base.Sx Base.GoVal Base.F64 Schema.Ast Schema.Pipeline Schema.Simple Schema.Draft4 Schema.Classes Schema.Helpers Schema.Post Schema.AgreementDec Schema.AgreementRec Schema.PipelineLocateDec Schema.PipelineTermDec Schema.SimpleAgree Schema.SimpleAgreeDec Schema.SimpleCarrier Schema.SimpleCarrierDec.
Import ListNotations.
Open Scope Z_scope.

Definition get_options (s : sx) : option options :=
  match s with
  | L [a; b; c; tails] =>
      match getBool a, getBool b, getBool c,
            getList (fun e => match e with L [A k; A l; A sl] => Some (k, (l, sl)) | _ => None end) tails with
      | Some a, Some b, Some c, Some tails =>
          Some {| opt_obj_array_type_check := a; opt_array_must_have_items := b; opt_skip_schemata := c;
                  opt_tails := fun k => match assocZ k tails with Some t => t | None => (k, -1) end |}
      | _, _, _, _ => None
      end
  | _ => None
  end.

Definition of_seg (s : seg) : sx :=
  match s with SRoot k => L [A 0; A k] | SDot k => L [A 1; A k] | SKey0 k => L [A 2; A k] | SIdx i => L [A 3; A i] end.

Definition of_msg (m : msg) : sx := L [A (m_code m); L (map of_seg (m_name m)); ofZs (m_args m)].

Fixpoint of_goval_fuel (fuel : nat) (v : goval) : sx :=
  match fuel with
  | O => L []
  | S f =>
      match v with
      | VNil => L [A 0]
      | VBool b => L [A 1; ofBool b]
      | VStr s => L [A 2; A s]
      | VFlt b x => L [A 3; ofBool b; A x]
      | VInt k z => L [A 4; A (match k with KInt => 0 | KInt8 => 1 | KInt16 => 2 | KInt32 => 3 | KInt64 => 4
                                          | KUint => 5 | KUint8 => 6 | KUint16 => 7 | KUint32 => 8 | KUint64 => 9 end); A z]
      | VJnum lit _ _ => L [A 5; A lit]
      | VArr id l => L [A 6; A id; L (map (of_goval_fuel f) l)]
      | VSlice et l => L [A 8; A et; L (map (of_goval_fuel f) l)]
      | VObj id m => L [A 7; A id; L (map (fun kv => L [A (fst kv); of_goval_fuel f (snd kv)]) m)]
      end
  end.
Definition of_goval (v : goval) : sx := of_goval_fuel (S (goval_depth v)) v.

Definition of_sdef (d : sdef) : sx := match d with None => L [] | Some v => L [of_goval v] end.

Definition of_res (r : res) : sx :=
  L [A 0; L (map of_msg (r_errs r)); A (r_mc r);
     L (map of_sdef (r_root r));
     L (map (fun e => L [A (fst (fst e)); A (snd (fst e)); L (map of_sdef (snd e))]) (r_fields r));
     L (map (fun e => L [A (fst (fst e)); A (snd (fst e)); L (map of_sdef (snd e))]) (r_items r))].

Definition of_outcome {T} (f : T -> sx) (o : outcome T) : sx :=
  match o with
  | Ok t => f t
  | Panic site => L [A 1; A site]
  | OutOfFuel => L [A 2]
  end.

Definition of_optbool (b : option bool) : sx :=
  A (match b with None => -1 | Some false => 0 | Some true => 1 end).

(* case: (oracles options defs schema rootpath data fuel dectable)
   result: (L1 outcome, draft-4 verdict in exact decimal arithmetic, draft-4 verdict with binary64 operations,
            finding / unsupported classes the pair can trigger) *)
Definition run_schema (s : sx) : sx :=
  match s with
  | L [orc; opts; dfs; sch; A root; data; A fuel; dect] =>
      match get_oracles orc, get_options opts, get_env dfs, get_schema sch, get_goval data,
            getList (fun e => match e with L [A b; A m; A e10] => Some (b, (m, e10)) | _ => None end) dect with
      | Some orc, Some opts, Some dfs, Some sch, Some data, Some dect =>
          let fuel := Z.to_nat fuel in
          L [ of_outcome of_res (sv_validate orc flocq_ops opts dfs fuel sch [SRoot root] [SRoot root] data);
              of_optbool (d4 orc (exact_ops dect) dfs fuel sch data);
              of_optbool (d4 orc flocq_ops dfs fuel sch data);
              ofZs (dedupZ (visit orc dfs fuel sch data));
              (* is the case inside the fragment on which agreement is proved (Schema/Agreement.v, decided by AgreementDec.v)? *)
              (let K := length dfs in
               (* the largest level the fuel of the case allows (AgreementRef.agreement_with_references): n + K < fuel, n * (K + 1) <= fuel *)
               let n := Nat.min (fuel - K - 1) (Nat.div fuel (S K)) in
               (* ... or through recursive definitions (AgreementRec.decided_fragment_agrees): a rank exists and every schema
                  below the root and the definitions is of the clean class *)
               let Kr := Nat.min fuel 48 in
               let R := fold_right Nat.max O (map (max_rank dfs Kr fuel) (roots dfs sch)) in
               let fits := (goval_depth data * S R + urank dfs Kr sch <? fuel)%nat in
               let inside (an aa : bool) :=
                 jd_b f_finite an aa (S (goval_depth data)) data &&
                 (cleanr_b f_finite an aa orc dfs K n sch || (fits && cleang_b f_finite orc dfs Kr R fuel sch data)) in
               (* the theorems are about draft 4: both Swagger-mode options off *)
               ofBool (negb (opt_array_must_have_items opts) && negb (opt_obj_array_type_check opts) &&
                       (inside false false || inside false true || inside true false || inside true true)));
              (* is the case inside the class on which a verdict is proved to be returned with this fuel
                 (Schema/PipelineTermRec.v, decided by PipelineTermDec.v)? *)
              (let K := Nat.min fuel 48 in
               let R := fold_right Nat.max O (map (max_rank dfs K fuel) (roots dfs sch)) in
               ofBool (guarded_b dfs K R fuel sch && (goval_depth data * S R + urank dfs K sch <? fuel)%nat));
              (* is the schema inside the class on which every error is proved to designate its place (Schema/PipelineLocate.v)? *)
              ofBool (located_class_b dfs fuel sch) ]
      | _, _, _, _, _, _ => sx_err
      end
  | _ => sx_err
  end.

(* float model self-test: (op a b) -> result bits, compared with Go bit for bit *)
Definition run_f64 (s : sx) : sx :=
  match s with
  | L [A 0; A a; A b] => A (f_div a b)
  | L [A 1; A a; A b] => A (f_mul a b)
  | L [A 2; A a; A b] => A (f_add a b)
  | L [A 3; A a; A b] => A (f_sub a b)
  | L [A 4; A a; A b] => ofBool (f_lt a b)
  | L [A 5; A a; A b] => ofBool (f_eq a b)
  | L [A 6; A a] => A (f_to_int64 a)
  | L [A 7; A a] => A (f_to_uint64 a)
  | L [A 8; A z] => A (f_of_Z z)
  | L [A 9; A a] => ofBool (f_is_json_int a)
  | L [A 10; A a; A b] => A (match f_mult_of a b with MOk => 0 | MNotMultiple => 1 | MNotPositive => 2 end)
  | _ => sx_err
  end.

(* parameter / header validators: (oracles sroot value) -> () for a nil result, (result) otherwise *)
Definition run_simple (s : sx) : sx :=
  match s with
  | L [orc; root; data] =>
      match get_oracles orc, get_sroot root, get_goval data with
      | Some orc, Some root, Some data =>
          of_outcome (fun o => match o with None => L [A 0; L []] | Some r => L [A 0; L [of_res r]] end)
                     (simple_validate orc flocq_ops root data)
      | _, _, _ => sx_err
      end
  | _ => sx_err
  end.

(* the same case against the declarative reading (Schema/SimpleAgree.v, SimpleCarrier.v): (inside the proved class?, verdict of the
   reading of the value carried, inside only under the unproved divisibility clause?, inside through the typed-value theorem for binary64?) *)
Definition run_simple_frag (s : sx) : sx :=
  match s with
  | L [orc; root; data] =>
      match get_oracles orc, get_sroot root, get_goval data with
      | Some orc, Some root, Some data =>
          let q := sr_simple root in
          let clean := qclean_b orc flocq_ops f_finite (q_format q) q in
          let json := clean && jd_b f_finite false true (S (goval_depth data)) data && qfits_b flocq_ops q data in
          (* typed values (Schema/SimpleCarrier.v) *)
          let tj := clean && tj_b f_finite (S (goval_depth data)) data in
          (* proved of the binary64 model (C16_typed_agreement_for_the_binary64_model) ... *)
          let typed := tj && tfits_b flocq_ops f_finite false q data in
          (* ... or conditional on the divisibility clause of the numeric interface (multipleOf with an integral factor on an
             integer carrier) *)
          let typed_c := tj && tfits_b flocq_ops f_finite true q data in
          L [ ofBool (json || typed || typed_c);
              ofBool (root_spec orc flocq_ops root (as_json flocq_ops data));
              ofBool (typed_c && negb typed && negb json);
              ofBool (typed && negb json) ]
      | _, _, _ => sx_err
      end
  | _ => sx_err
  end.

(* exported numeric helpers: (fn value constraint exclusive) -> (valid code) *)
Definition run_helper (s : sx) : sx :=
  match s with
  | L [A fn; v; A c; excl] =>
      match get_goval v, getBool excl with
      | Some v, Some excl =>
          if Z.eqb fn 0 then (if max_native flocq_ops v c excl then L [A 0; A C_MAX] else L [A 1; A 0])
          else if Z.eqb fn 1 then (if min_native flocq_ops v c excl then L [A 0; A C_MIN] else L [A 1; A 0])
          else match mult_native flocq_ops v c with
               | MOk => L [A 1; A 0]
               | MNotMultiple => L [A 0; A C_MULTIPLE_OF]
               | MNotPositive => L [A 0; A C_MULT_POSITIVE]
               end
      | _, _ => sx_err
      end
  | _ => sx_err
  end.

(* exported value helpers (C14): (horacles fn args...) -> (model answer, textbook answer); 0 = no error *)
Definition run_h14 (s : sx) : sx :=
  let b (x : bool) := A (if x then 1 else 0) in
  match s with
  | L (orc :: A fn :: args) =>
      match get_horacles orc with
      | None => sx_err
      | Some ho =>
          let N := flocq_ops in
          match fn, args with
          | 0, [A str; A n] => L [b (min_length ho str n); b (min_length ho str n)]
          | 1, [A str; A n] => L [b (max_length ho str n); b (max_length ho str n)]
          | 2, [A data; A pat] => L [b (pattern_h ho data pat); b (pattern_h ho data pat)]
          | 3, [v] => match get_hval v with
                      | Some v => L [b (unique_items_h N v); b (match v with HSlice _ _ l => has_dup_spec N l | _ => false end)]
                      | None => sx_err
                      end
          | 4, [v; en; cs] =>
              match get_hval v, getOpt (getList get_hval) en, getBool cs with
              | Some v, Some en, Some cs =>
                  L [b (enum_case ho N f_round32 v en cs);
                     b (match en with None => false | Some vals => enum_spec ho N v vals cs end)]
              | _, _, _ => sx_err
              end
          | 6, [A size; A n] => L [b (min_items size n); b (size <? n)]
          | 7, [A size; A n] => L [b (max_items size n); b (n <? size)]
          | 8, [v] => match get_hval v with Some v => L [b (required_h N v); b (required_h N v)] | None => sx_err end
          | 9, [A str] => L [b (required_string str); b (Z.eqb str 0)]
          | 10, [A f] => L [b (required_number N f); b (required_number N f)]
          | 11, [op; v] => match getBool op, get_hval v with
                           | Some op, Some v => L [b (read_only_h N op v); b (read_only_h N op v)]
                           | _, _ => sx_err
                           end
          | 12, [A fmt; A data] => L [A (format_of ho fmt data); A (format_of ho fmt data)]
          | _, _ => sx_err
          end
      end
  | _ => sx_err
  end.

(* post-processing (C18 C19): same case as run_schema -> (outcome, data after ApplyDefaults, data after Prune) *)
Definition run_post (s : sx) : sx :=
  match s with
  | L [orc; opts; dfs; sch; A root; data; A fuel; _] =>
      match get_oracles orc, get_options opts, get_env dfs, get_schema sch, get_goval data with
      | Some orc, Some opts, Some dfs, Some sch, Some data =>
          match sv_validate orc flocq_ops opts dfs (Z.to_nat fuel) sch [SRoot root] [SRoot root] data with
          | Ok r => L [A 0; ofBool (r_valid r); of_goval (apply_defaults r data); of_goval (prune r data)]
          | Panic site => L [A 1; A site]
          | OutOfFuel => L [A 2]
          end
      | _, _, _, _, _ => sx_err
      end
  | _ => sx_err
  end.

(* the visited-path heuristic: ((bytes of the path) ((bytes of a visited path) ...)) -> 0/1 *)
Definition run_visited (s : sx) : sx :=
  match s with
  | L [p; vs] =>
      match getZs p, getList getZs vs with
      | Some p, Some vs => ofBool (Spec.Visited.is_visited p vs)
      | _, _ => sx_err
      end
  | _ => sx_err
  end.

Definition run_rules (s : sx) : sx := Spec.Rules.run_rules s.
Definition run_walk (s : sx) : sx := Spec.Walk.run_walk s.
