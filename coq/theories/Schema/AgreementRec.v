(* C01, the agreement theorem for recursive definitions: on a set W of schemas closed under "sub-schema of" and "target of
   the reference of", all of the clean class, with a rank that decreases along the edges that keep the value (the
   [guarded] of Schema/PipelineTermRec.v: every cycle of references passes through items, properties or the additional keywords),
   the verdict of the pipeline is the draft-4 verdict on every JSON value of the data class - by lexicographic induction on
   (nesting depth of the value, rank of the schema), through the keyword-group lemmas of Schema/Agreement.v. *)
From Coq Require Import List ZArith Bool Lia.
From Verif Require Import Base.Sx Base.GoVal Schema.Ast Schema.Build Schema.Pipeline Schema.Draft4 Schema.PipelineFacts
  Schema.PipelineTerm Schema.PipelineTermRec Schema.PipelineTermDec Schema.PipelineQuiet Schema.AgreementData Schema.JsonEq
  Schema.Agreement Schema.AgreementDec.
Import ListNotations.
Open Scope Z_scope.

Section Rec.
Variable fin : f64 -> Prop.
Variable allow_null allow_arr : bool.
Notation jd := (AgreementData.jd fin allow_null allow_arr).
Variable OR : oracles.
Variable N : numops.
Variable opt : options.
Variable defs : env.
Hypothesis Hopt_items : opt_array_must_have_items opt = false.
Hypothesis Hopt_array : opt_obj_array_type_check opt = false.
Hypothesis Hord : forall a b, fin a -> fin b -> n_lt N a b = negb (n_le N b a).
Hypothesis Heq_sym : forall a b, fin a -> fin b -> n_eq N a b = n_eq N b a.

Variable W : schema -> Prop.
Variable rank : schema -> nat.
Variable R : nat.
Hypothesis G : guarded defs W rank R.
(* every schema of W that is not a reference (the siblings of $ref are ignored by both sides) is of the clean class *)
Hypothesis Hclean : forall s, W s -> s_ref s = None -> local_clean0 fin OR s.
(* the one condition that depends on the value - where a format sits next to a non-numeric type list, the value is one the
   list accepts (the type.go:200 shortcut) - holds along the validation: F is closed under the visits both sides make *)
Variable F : schema -> goval -> Prop.
Hypothesis HFref : forall s n t d, F s d -> s_ref s = Some n -> lookup_def defs n = Some t -> F t d.
Hypothesis HFfmt : forall t d, F t d -> s_ref t = None -> fmt_fits t d.
Hypothesis HFg : forall t d c v, F t d -> s_ref t = None -> app_g OR t d c v -> F c v.
Hypothesis HFu : forall t d c, F t d -> s_ref t = None -> In c (uk t) -> F c d.

(* a chain of references, for both sides: L1 follows it in one step, L0 one reference per unit of fuel *)
Lemma resolve_both : forall g s, W s -> (rank s <= g)%nat ->
  exists t k, resolve defs g s = Ok t /\ W t /\ s_ref t = None /\ (rank t + k <= rank s)%nat /\ (forall d, F s d -> F t d) /\
              forall f2 d, (k < f2)%nat -> d4 OR N defs f2 s d = d4_body OR N (d4 OR N defs (f2 - S k)) t d.
Proof.
  destruct G as [_ [Gref _]].
  induction g as [|g IH]; intros s Ws Hle.
  - destruct (s_ref s) as [n|] eqn:E.
    + destruct (Gref s n Ws E) as [t [_ [_ Hlt]]]. lia.
    + exists s, 0%nat. cbn [resolve]. rewrite E. repeat split; auto; [lia|].
      intros f2 d Hf. destruct f2 as [|f]; [lia|]. cbn [d4]. rewrite E. replace (S f - 1)%nat with f by lia. reflexivity.
  - destruct (s_ref s) as [n|] eqn:E.
    + destruct (Gref s n Ws E) as [t1 [Ht1 [Wt1 Hlt]]]. cbn [resolve]. rewrite E, Ht1.
      destruct (IH t1 Wt1) as [t [k [H1 [H2 [H3 [H4 [H5 H6]]]]]]]; [lia|]. exists t, (S k). repeat split; auto; [lia | |].
      * intros d Fd. apply H5. apply (HFref s n t1 d Fd E Ht1).
      * intros f2 d Hf. destruct f2 as [|f]; [lia|]. cbn [d4]. rewrite E, Ht1. rewrite (H6 f d); [|lia].
        replace (S f - S (S k))%nat with (f - S k)%nat by lia. reflexivity.
    + exists s, 0%nat. cbn [resolve]. rewrite E. repeat split; auto; [lia|].
      intros f2 d Hf. destruct f2 as [|f]; [lia|]. cbn [d4]. rewrite E. replace (S f - 1)%nat with f by lia. reflexivity.
Qed.

Lemma in_skipn' {A} (x : A) n l : In x (skipn n l) -> In x l.
Proof. revert l; induction n as [|n IH]; intros l H; [exact H|]. destruct l; [exact H|]. right. apply IH. exact H. Qed.

Lemma lookup_val_in' m k v : lookup_val m k = Some v -> In (k, v) m.
Proof.
  induction m as [|[k' v'] t IH]; cbn [lookup_val]; intros H; [discriminate|].
  match type of H with (if ?c then _ else _) = _ => destruct c eqn:E end;
    [apply Z.eqb_eq in E; injection H as H; subst; left; reflexivity | right; apply IH; exact H].
Qed.

(* the parts of a value are less deep than the value *)
Lemma app_g_depth t d c v : app_g OR t d c v -> (goval_depth v < goval_depth d)%nat.
Proof.
  intros H. destruct H as [id l c v _ Hv | id l cs c v _ Hcv | id l a c cs v _ _ Hv | id m k c v _ Hl | id m pp k v _ Hkv _ | id m a c k v _ Hkv _ _].
  - apply depth_elem. exact Hv.
  - apply depth_elem. apply (in_combine_r _ _ _ _ Hcv).
  - apply depth_elem. apply (in_skipn' v _ l Hv).
  - apply (depth_member id m (k, v) (lookup_val_in' m k v Hl)).
  - apply (depth_member id m (k, v) Hkv).
  - apply (depth_member id m (k, v) Hkv).
Qed.

Theorem guarded_fragment_agrees : forall f1 f2 s d, W s -> F s d -> jd d ->
  (goval_depth d * S R + rank s < f1)%nat -> (goval_depth d * S R + rank s < f2)%nat ->
  forall p q, exists r, sv_validate OR N opt defs f1 s p q d = Ok r /\ d4 OR N defs f2 s d = Some (r_valid r).
Proof.
  induction f1 as [|g1 IH]; intros f2 s d Ws Fs Hd Hf1 Hf2 p q; [lia|]. cbn [sv_validate].
  pose proof (depth_pos d) as Hpos.
  assert (Hmul : (S R <= goval_depth d * S R)%nat) by (destruct (goval_depth d); [lia|]; cbn [Nat.mul]; lia).
  rewrite (eager_guarded defs W rank R G g1 s Ws); [|lia]. cbn [bind].
  destruct (resolve_both g1 s Ws) as [t [k [Ht [Wt [Hnone [Hrk [HFt Hd4]]]]]]]; [lia|]. rewrite Ht. cbn [bind].
  rewrite (Hd4 f2 d); [|lia]. pose proof (HFt d Fs) as Ft.
  destruct G as [GR [_ Gk]].
  apply (body_agree fin allow_null allow_arr OR N opt Hopt_items Hopt_array Hord Heq_sym (sv_validate OR N opt defs g1) (d4 OR N defs (f2 - S k))
           (fun c p' q' d' Hd' => no_important_error OR N opt defs g1 c p' q' d' (jd_nohdr fin allow_null allow_arr d' Hd'))
           (fun c v => (goval_depth v < goval_depth d)%nat /\ F c v) (fun c v => (goval_depth v <= goval_depth d)%nat /\ F c v)
           t p q d (Hclean t Wt Hnone) (HFfmt t d Ft Hnone)).
  - eapply kids2_impl; [| |exact (Gk t Wt Hnone)].
    + intros c Wc p' q' v Hjv [Hv Fv]. pose proof (GR c Wc) as Hc.
      assert ((goval_depth v * S R + S R <= goval_depth d * S R)%nat).
      { replace (goval_depth v * S R + S R)%nat with (S (goval_depth v) * S R)%nat by (cbn [Nat.mul]; lia). apply Nat.mul_le_mono_r. lia. }
      apply IH; [exact Wc | exact Fv | exact Hjv | lia | lia].
    + intros c [Wc Hc] p' q' v Hjv [Hv Fv].
      assert ((goval_depth v * S R <= goval_depth d * S R)%nat) by (apply Nat.mul_le_mono_r; exact Hv).
      apply IH; [exact Wc | exact Fv | exact Hjv | lia | lia].
  - exact Hd.
  - intros c Hc. split; [lia | apply (HFu t d c Ft Hnone Hc)].
  - intros c v Ha. split; [apply (app_g_depth t d c v Ha) | apply (HFg t d c v Ft Hnone Ha)].
Qed.

End Rec.

(* ------------------------------------------------------------------ deciding the hypothesis *)

Section Walk.
Variable P : schema -> bool.

(* P holds of every schema below x; the walk fails when its fuel does not reach the leaves *)
Fixpoint walk_b (n : nat) (x : schema) : bool :=
  match n with
  | O => false
  | S m => P x && forallb (walk_b m) (gk x ++ uk x)
  end.

Lemma walk_b_desc x s : desc x s -> forall n, walk_b n x = true -> exists m, walk_b m s = true.
Proof.
  induction 1 as [|s c Hs IH Hc]; intros n Hn; [exists n; exact Hn|].
  destruct (IH n Hn) as [m Hm]. destruct m as [|m]; [discriminate|]. cbn [walk_b] in Hm.
  apply andb_true_iff in Hm. destruct Hm as [_ Hm]. rewrite forallb_forall in Hm. exists m. apply Hm. exact Hc.
Qed.

Lemma walk_b_holds n x s : walk_b n x = true -> desc x s -> P s = true.
Proof.
  intros Hn Hd. destruct (walk_b_desc x s Hd n Hn) as [m Hm]. destruct m as [|m]; [discriminate|]. cbn [walk_b] in Hm.
  apply andb_true_iff in Hm. destruct Hm as [Hm _]. exact Hm.
Qed.
End Walk.

Section Decided.
Variable fin_b : f64 -> bool.
Variable allow_null allow_arr : bool.
Variable OR : oracles.
Variable N : numops.
Variable opt : options.
Variable defs : env.
Hypothesis Hopt_items : opt_array_must_have_items opt = false.
Hypothesis Hopt_array : opt_obj_array_type_check opt = false.
Hypothesis Hord : forall a b, finP fin_b a -> finP fin_b b -> n_lt N a b = negb (n_le N b a).
Hypothesis Heq_sym : forall a b, finP fin_b a -> finP fin_b b -> n_eq N a b = n_eq N b a.

Definition lc_b (s : schema) : bool :=
  match s_ref s with Some _ => true | None => local_clean0_b fin_b OR s end.

Definition fmt_fits_b (s : schema) (d : goval) : bool :=
  (match d with
   | VNil => is_nil_b (s_all_of s) && is_nil_b (s_any_of s) && is_nil_b (s_one_of s) && is_none (s_not s)
   | _ => true
   end) &&
  (Z.eqb (s_format s) 0 || (contains k_number (s_types s) || contains k_integer (s_types s)) ||
   (negb (match s_types s with [] => true | _ => false end) &&
    (match d with VStr _ => contains k_string (s_types s) | _ => true end) &&
    (match d with VArr _ _ => contains k_array (s_types s) | _ => true end))).

Lemma fmt_fits_b_sound s d : fmt_fits_b s d = true -> fmt_fits s d.
Proof.
  unfold fmt_fits_b, fmt_fits. intros H. apply andb_true_iff in H. destruct H as [HN H]. split.
  2: { intros E. subst d. unfold nullsafe. apply andb_true_iff in HN. destruct HN as [HN Hc]. apply andb_true_iff in HN. destruct HN as [HN Ho].
       apply andb_true_iff in HN. destruct HN as [Ha Hb].
       split; [revert Ha; destruct (s_all_of s); [reflexivity | discriminate]|].
       split; [revert Hb; destruct (s_any_of s); [reflexivity | discriminate]|].
       split; [revert Ho; destruct (s_one_of s); [reflexivity | discriminate] | revert Hc; destruct (s_not s); [discriminate | reflexivity]]. }
  apply orb_true_iff in H. destruct H as [H | H].
  - apply orb_true_iff in H. destruct H as [H | H]; [left; apply Z.eqb_eq; exact H | right; left; exact H].
  - destruct (contains k_number (s_types s) || contains k_integer (s_types s)) eqn:En; [right; left; reflexivity|].
    right. right. apply andb_true_iff in H. destruct H as [H H3]. apply andb_true_iff in H. destruct H as [H1 H2].
    split; [reflexivity|]. split; [intros E; rewrite E in H1; discriminate|]. split.
    + intros [x E]. subst d. exact H2.
    + intros [id [l E]]. subst d. exact H3.
Qed.

(* the value-dependent condition along the visits of the validation: the same traversal as the two sides make *)
Fixpoint fits_b (f : nat) (s : schema) (d : goval) {struct f} : bool :=
  match f with
  | O => false
  | S f' =>
      match s_ref s with
      | Some n => match lookup_def defs n with Some t => fits_b f' t d | None => false end
      | None =>
          fmt_fits_b s d && forallb (fun c => fits_b f' c d) (uk s) &&
          match d with
          | VArr _ l =>
              (match s_items_one s with Some c => forallb (fits_b f' c) l | None => true end) &&
              (match s_items_tuple s with
               | Some cs => forallb (fun cv => fits_b f' (fst cv) (snd cv)) (combine cs l) &&
                            (match s_add_items s with Some (_, Some c) => forallb (fits_b f' c) (skipn (length cs) l) | _ => true end)
               | None => true
               end)
          | VObj _ m =>
              forallb (fun kc => match lookup_val m (fst kc) with Some v => fits_b f' (snd kc) v | None => true end) (s_props s) &&
              forallb (fun kv => forallb (fun pp => negb (pmatch OR (fst kv) pp) || fits_b f' (snd pp) (snd kv)) (s_pat_props s) &&
                                 (has_prop s (fst kv) || matched_any OR s (fst kv) ||
                                  match s_add_props s with Some (_, Some c) => fits_b f' c (snd kv) | _ => true end)) m
          | _ => true
          end
      end
  end.

Definition Fd (s : schema) (d : goval) : Prop := exists f, fits_b f s d = true.

Lemma Fd_ref s n t d : Fd s d -> s_ref s = Some n -> lookup_def defs n = Some t -> Fd t d.
Proof. intros [[|f] H] E Et; [discriminate|]. cbn [fits_b] in H. rewrite E, Et in H. exists f. exact H. Qed.

Lemma Fd_body t d : Fd t d -> s_ref t = None -> exists f,
  fmt_fits_b t d = true /\ forallb (fun c => fits_b f c d) (uk t) = true /\
  match d with
  | VArr _ l =>
      (match s_items_one t with Some c => forallb (fits_b f c) l | None => true end) &&
      (match s_items_tuple t with
       | Some cs => forallb (fun cv => fits_b f (fst cv) (snd cv)) (combine cs l) &&
                    (match s_add_items t with Some (_, Some c) => forallb (fits_b f c) (skipn (length cs) l) | _ => true end)
       | None => true
       end)
  | VObj _ m =>
      forallb (fun kc => match lookup_val m (fst kc) with Some v => fits_b f (snd kc) v | None => true end) (s_props t) &&
      forallb (fun kv => forallb (fun pp => negb (pmatch OR (fst kv) pp) || fits_b f (snd pp) (snd kv)) (s_pat_props t) &&
                         (has_prop t (fst kv) || matched_any OR t (fst kv) ||
                          match s_add_props t with Some (_, Some c) => fits_b f c (snd kv) | _ => true end)) m
  | _ => true
  end = true.
Proof.
  intros [[|f] H] E; [discriminate|]. cbn [fits_b] in H. rewrite E in H. exists f.
  apply andb_true_iff in H. destruct H as [H H3]. apply andb_true_iff in H. destruct H as [H1 H2]. auto.
Qed.

Lemma Fd_fmt t d : Fd t d -> s_ref t = None -> fmt_fits t d.
Proof. intros H E. destruct (Fd_body t d H E) as [f [H1 _]]. apply fmt_fits_b_sound. exact H1. Qed.

Lemma Fd_u t d c : Fd t d -> s_ref t = None -> In c (uk t) -> Fd c d.
Proof. intros H E Hc. destruct (Fd_body t d H E) as [f [_ [H2 _]]]. exists f. apply (proj1 (forallb_forall _ _) H2 c Hc). Qed.

Lemma Fd_g t d c v : Fd t d -> s_ref t = None -> app_g OR t d c v -> Fd c v.
Proof.
  intros H E Ha. destruct (Fd_body t d H E) as [f [_ [_ H3]]]. exists f.
  destruct Ha as [id l c v E1 Hv | id l cs c v E2 Hcv | id l a c cs v E3 E2 Hv | id m k c v Hkc Hl | id m pp k v Hpp Hkv Hm | id m a c k v Ea Hkv Hhp Hma].
  - apply andb_true_iff in H3. destruct H3 as [H3 _]. rewrite E1 in H3. apply (proj1 (forallb_forall _ _) H3 v Hv).
  - apply andb_true_iff in H3. destruct H3 as [_ H3]. rewrite E2 in H3. apply andb_true_iff in H3. destruct H3 as [H3 _].
    apply (proj1 (forallb_forall _ _) H3 (c, v) Hcv).
  - apply andb_true_iff in H3. destruct H3 as [_ H3]. rewrite E2, E3 in H3. apply andb_true_iff in H3. destruct H3 as [_ H3].
    apply (proj1 (forallb_forall _ _) H3 v Hv).
  - apply andb_true_iff in H3. destruct H3 as [H3 _]. pose proof (proj1 (forallb_forall _ _) H3 (k, c) Hkc) as G. cbn [fst snd] in G. rewrite Hl in G. exact G.
  - apply andb_true_iff in H3. destruct H3 as [_ H3]. pose proof (proj1 (forallb_forall _ _) H3 (k, v) Hkv) as G. cbn [fst snd] in G.
    apply andb_true_iff in G. destruct G as [G _]. pose proof (proj1 (forallb_forall _ _) G pp Hpp) as G2. cbv beta in G2. cbn [fst snd] in G2. rewrite Hm in G2. exact G2.
  - apply andb_true_iff in H3. destruct H3 as [_ H3]. pose proof (proj1 (forallb_forall _ _) H3 (k, v) Hkv) as G. cbn [fst snd] in G.
    apply andb_true_iff in G. destruct G as [_ G]. rewrite Hhp, Hma, Ea in G. exact G.
Qed.

(* the class: a rank exists (Schema/PipelineTermDec.v), every schema below the root and the definitions is clean, and the
   value fits the formats along the validation *)
Definition cleang_b (K R n : nat) (root : schema) (d : goval) : bool :=
  guarded_b defs K R n root && forallb (walk_b lc_b n) (roots defs root) && fits_b n root d.

Theorem decided_fragment_agrees K R n root f1 f2 d :
  cleang_b K R n root d = true -> AgreementData.jd (finP fin_b) allow_null allow_arr d ->
  (goval_depth d * S R + urank defs K root < f1)%nat -> (goval_depth d * S R + urank defs K root < f2)%nat ->
  forall p q, exists r, sv_validate OR N opt defs f1 root p q d = Ok r /\ d4 OR N defs f2 root d = Some (r_valid r).
Proof.
  intros H Hd Hf1 Hf2 p q. unfold cleang_b in H. apply andb_true_iff in H. destruct H as [H Hfit]. apply andb_true_iff in H. destruct H as [Hg Hw].
  rewrite forallb_forall in Hw.
  apply (guarded_fragment_agrees (finP fin_b) allow_null allow_arr OR N opt defs Hopt_items Hopt_array Hord Heq_sym
           (Wd defs root) (urank defs K) R (guarded_b_sound defs K R n root Hg)) with (F := Fd); try assumption.
  - intros s [x [Hx Hdesc]] Hnone. apply local_clean0_b_sound.
    pose proof (walk_b_holds lc_b n x s (Hw x Hx) Hdesc) as L. unfold lc_b in L. rewrite Hnone in L. exact L.
  - exact Fd_ref.
  - exact Fd_fmt.
  - exact Fd_g.
  - exact Fd_u.
  - exists root. split; [left; reflexivity | apply desc_refl].
  - exists n. exact Hfit.
Qed.

End Decided.
