(* C01, the agreement theorem for recursive definitions: on a set W of schemas closed under "sub-schema of" and "target of
   the reference of", all of the clean class, with a rank that decreases along the edges that keep the value (the
   [guarded] of Schema/PipelineTermRec.v: every cycle of references passes through items, properties or the additional keywords),
   the verdict of the pipeline is the draft-4 verdict on every JSON value of the data class - by lexicographic induction on
   (nesting depth of the value, rank of the schema), through the keyword-group lemmas of Schema/Agreement.v. *)
From Coq Require Import List ZArith Bool Lia.
From Verif Require Import Base.Sx Base.GoVal Schema.Ast Schema.Build Schema.Pipeline Schema.Draft4 Schema.PipelineFacts
  Schema.PipelineTerm Schema.PipelineTermRec Schema.PipelineTermDec Schema.PipelineQuiet Schema.AgreementData Schema.JsonEq
  Schema.Agreement Schema.AgreementDec.
Import ListNotations.
Open Scope Z_scope.

Section Rec.
Variable fin : f64 -> Prop.
Variable allow_null allow_arr : bool.
Notation jd := (AgreementData.jd fin allow_null allow_arr).
Variable OR : oracles.
Variable N : numops.
Variable opt : options.
Variable defs : env.
Hypothesis Hopt_items : opt_array_must_have_items opt = false.
Hypothesis Hopt_array : opt_obj_array_type_check opt = false.
Hypothesis Hord : forall a b, fin a -> fin b -> n_lt N a b = negb (n_le N b a).
Hypothesis Heq_sym : forall a b, fin a -> fin b -> n_eq N a b = n_eq N b a.

Variable W : schema -> Prop.
Variable rank : schema -> nat.
Variable R : nat.
Hypothesis G : guarded defs W rank R.
(* every schema of W that is not a reference (the siblings of $ref are ignored by both sides) is of the clean class *)
Hypothesis Hclean : forall s, W s -> s_ref s = None -> local_clean fin allow_null allow_arr OR s.

(* a chain of references, for both sides: L1 follows it in one step, L0 one reference per unit of fuel *)
Lemma resolve_both : forall g s, W s -> (rank s <= g)%nat ->
  exists t k, resolve defs g s = Ok t /\ W t /\ s_ref t = None /\ (rank t + k <= rank s)%nat /\
              forall f2 d, (k < f2)%nat -> d4 OR N defs f2 s d = d4_body OR N (d4 OR N defs (f2 - S k)) t d.
Proof.
  destruct G as [_ [Gref _]].
  induction g as [|g IH]; intros s Ws Hle.
  - destruct (s_ref s) as [n|] eqn:E.
    + destruct (Gref s n Ws E) as [t [_ [_ Hlt]]]. lia.
    + exists s, 0%nat. cbn [resolve]. rewrite E. repeat split; auto; [lia|].
      intros f2 d Hf. destruct f2 as [|f]; [lia|]. cbn [d4]. rewrite E. replace (S f - 1)%nat with f by lia. reflexivity.
  - destruct (s_ref s) as [n|] eqn:E.
    + destruct (Gref s n Ws E) as [t1 [Ht1 [Wt1 Hlt]]]. cbn [resolve]. rewrite E, Ht1.
      destruct (IH t1 Wt1) as [t [k [H1 [H2 [H3 [H4 H5]]]]]]; [lia|]. exists t, (S k). repeat split; auto; [lia|].
      intros f2 d Hf. destruct f2 as [|f]; [lia|]. cbn [d4]. rewrite E, Ht1. rewrite (H5 f d); [|lia].
      replace (S f - S (S k))%nat with (f - S k)%nat by lia. reflexivity.
    + exists s, 0%nat. cbn [resolve]. rewrite E. repeat split; auto; [lia|].
      intros f2 d Hf. destruct f2 as [|f]; [lia|]. cbn [d4]. rewrite E. replace (S f - 1)%nat with f by lia. reflexivity.
Qed.

Theorem guarded_fragment_agrees : forall f1 f2 s d, W s -> jd d ->
  (goval_depth d * S R + rank s < f1)%nat -> (goval_depth d * S R + rank s < f2)%nat ->
  forall p q, exists r, sv_validate OR N opt defs f1 s p q d = Ok r /\ d4 OR N defs f2 s d = Some (r_valid r).
Proof.
  induction f1 as [|g1 IH]; intros f2 s d Ws Hd Hf1 Hf2 p q; [lia|]. cbn [sv_validate].
  pose proof (depth_pos d) as Hpos.
  assert (Hmul : (S R <= goval_depth d * S R)%nat) by (destruct (goval_depth d); [lia|]; cbn [Nat.mul]; lia).
  rewrite (eager_guarded defs W rank R G g1 s Ws); [|lia]. cbn [bind].
  destruct (resolve_both g1 s Ws) as [t [k [Ht [Wt [Hnone [Hrk Hd4]]]]]]; [lia|]. rewrite Ht. cbn [bind].
  rewrite (Hd4 f2 d); [|lia].
  destruct G as [GR [_ Gk]].
  apply (body_agree fin allow_null allow_arr OR N opt Hopt_items Hopt_array Hord Heq_sym (sv_validate OR N opt defs g1) (d4 OR N defs (f2 - S k))
           (fun c p' q' d' Hd' => no_important_error OR N opt defs g1 c p' q' d' (jd_nohdr fin allow_null allow_arr d' Hd'))
           (fun v => (goval_depth v < goval_depth d)%nat) (fun v => (goval_depth v <= goval_depth d)%nat) t p q d (Hclean t Wt Hnone)).
  - eapply kids2_impl; [| |exact (Gk t Wt Hnone)].
    + intros c Wc p' q' v Hjv Hv. pose proof (GR c Wc) as Hc.
      assert ((goval_depth v * S R + S R <= goval_depth d * S R)%nat).
      { replace (goval_depth v * S R + S R)%nat with (S (goval_depth v) * S R)%nat by (cbn [Nat.mul]; lia). apply Nat.mul_le_mono_r. lia. }
      apply IH; [exact Wc | exact Hjv | lia | lia].
    + intros c [Wc Hc] p' q' v Hjv Hv.
      assert ((goval_depth v * S R <= goval_depth d * S R)%nat) by (apply Nat.mul_le_mono_r; exact Hv).
      apply IH; [exact Wc | exact Hjv | lia | lia].
  - exact Hd.
  - lia.
  - intros id l ->. apply Forall_forall. intros v Hv. apply depth_elem. exact Hv.
  - intros id m ->. apply Forall_forall. intros kv Hkv. apply (depth_member id m kv Hkv).
Qed.

End Rec.

(* ------------------------------------------------------------------ deciding the hypothesis *)

Section Walk.
Variable P : schema -> bool.

(* P holds of every schema below x; the walk fails when its fuel does not reach the leaves *)
Fixpoint walk_b (n : nat) (x : schema) : bool :=
  match n with
  | O => false
  | S m => P x && forallb (walk_b m) (gk x ++ uk x)
  end.

Lemma walk_b_desc x s : desc x s -> forall n, walk_b n x = true -> exists m, walk_b m s = true.
Proof.
  induction 1 as [|s c Hs IH Hc]; intros n Hn; [exists n; exact Hn|].
  destruct (IH n Hn) as [m Hm]. destruct m as [|m]; [discriminate|]. cbn [walk_b] in Hm.
  apply andb_true_iff in Hm. destruct Hm as [_ Hm]. rewrite forallb_forall in Hm. exists m. apply Hm. exact Hc.
Qed.

Lemma walk_b_holds n x s : walk_b n x = true -> desc x s -> P s = true.
Proof.
  intros Hn Hd. destruct (walk_b_desc x s Hd n Hn) as [m Hm]. destruct m as [|m]; [discriminate|]. cbn [walk_b] in Hm.
  apply andb_true_iff in Hm. destruct Hm as [Hm _]. exact Hm.
Qed.
End Walk.

Section Decided.
Variable fin_b : f64 -> bool.
Variable allow_null allow_arr : bool.
Variable OR : oracles.
Variable N : numops.
Variable opt : options.
Variable defs : env.
Hypothesis Hopt_items : opt_array_must_have_items opt = false.
Hypothesis Hopt_array : opt_obj_array_type_check opt = false.
Hypothesis Hord : forall a b, finP fin_b a -> finP fin_b b -> n_lt N a b = negb (n_le N b a).
Hypothesis Heq_sym : forall a b, finP fin_b a -> finP fin_b b -> n_eq N a b = n_eq N b a.

Definition lc_b (s : schema) : bool :=
  match s_ref s with Some _ => true | None => local_clean_b fin_b allow_null allow_arr OR s end.

(* the class: a rank exists (Schema/PipelineTermDec.v) and every schema below the root and the definitions is clean *)
Definition cleang_b (K R n : nat) (root : schema) : bool :=
  guarded_b defs K R n root && forallb (walk_b lc_b n) (roots defs root).

Theorem decided_fragment_agrees K R n root f1 f2 d :
  cleang_b K R n root = true -> AgreementData.jd (finP fin_b) allow_null allow_arr d ->
  (goval_depth d * S R + urank defs K root < f1)%nat -> (goval_depth d * S R + urank defs K root < f2)%nat ->
  forall p q, exists r, sv_validate OR N opt defs f1 root p q d = Ok r /\ d4 OR N defs f2 root d = Some (r_valid r).
Proof.
  intros H Hd Hf1 Hf2 p q. unfold cleang_b in H. apply andb_true_iff in H. destruct H as [Hg Hw]. rewrite forallb_forall in Hw.
  apply (guarded_fragment_agrees (finP fin_b) allow_null allow_arr OR N opt defs Hopt_items Hopt_array Hord Heq_sym
           (Wd defs root) (urank defs K) R (guarded_b_sound defs K R n root Hg)); try assumption.
  - intros s [x [Hx Hdesc]] Hnone. apply local_clean_b_sound.
    pose proof (walk_b_holds lc_b n x s (Hw x Hx) Hdesc) as L. unfold lc_b in L. rewrite Hnone in L. exact L.
  - exists root. split; [left; reflexivity | apply desc_refl].
Qed.

End Decided.
