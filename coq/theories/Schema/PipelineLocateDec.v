(* The class of Schema/PipelineLocate.v is decidable: every schema below the root and below every definition is inspected. *)
From Coq Require Import List ZArith Bool Lia.
From Verif Require Import Base.Sx Base.GoVal Schema.Ast Schema.Build Schema.Pipeline Schema.PipelineTerm Schema.PipelineTermRec
  Schema.PipelineTermDec Schema.AgreementRec Schema.PipelineLocate.
Import ListNotations.
Open Scope Z_scope.

Definition located_b (s : schema) : bool :=
  match s_ref s with
  | Some _ => true
  | None => (match s_items_one s with None => true | Some _ => false end) &&
            forallb (fun kd => match fst (snd kd) with None => true | Some _ => false end) (s_deps s)
  end.

Lemma located_b_sound s : located_b s = true -> s_ref s = None -> located_local s.
Proof.
  unfold located_b. intros H E. rewrite E in H. apply andb_true_iff in H. destruct H as [H1 H2]. split.
  - destruct (s_items_one s); [discriminate | reflexivity].
  - apply Forall_forall. intros kd Hkd. pose proof (proj1 (forallb_forall _ _) H2 kd Hkd) as H. cbv beta in H.
    destruct (fst (snd kd)); [discriminate | reflexivity].
Qed.

Section Dec.
Variable OR : oracles.
Variable N : numops.
Variable opt : options.
Variable defs : env.
Hypothesis Hopt_items : opt_array_must_have_items opt = false.
Hypothesis Hopt_array : opt_obj_array_type_check opt = false.

Definition located_class_b (n : nat) (root : schema) : bool := forallb (walk_b located_b n) (roots defs root).

Theorem decided_errors_designate_their_place n root : located_class_b n root = true ->
  forall fuel p d, odes p d (sv_validate OR N opt defs fuel root p p d).
Proof.
  intros H fuel p d. unfold located_class_b in H. rewrite forallb_forall in H.
  apply (errors_designate_their_place OR N opt defs Hopt_items Hopt_array (Wd defs root)).
  - intros s [x [Hx Hd]]. apply (proj2 (kids_kids2 _ s)). apply kids2_lists.
    + intros c Hc. exists x. split; [exact Hx|]. apply (desc_step x s c Hd). apply in_or_app. left. exact Hc.
    + intros c Hc. exists x. split; [exact Hx|]. apply (desc_step x s c Hd). apply in_or_app. right. exact Hc.
  - intros s nm t _ _ Ht. exists t. split; [right; apply (lookup_def_in defs nm t Ht) | apply desc_refl].
  - intros s [x [Hx Hd]] Hnone. apply located_b_sound; [|exact Hnone]. apply (walk_b_holds located_b n x s (H x Hx) Hd).
  - exists root. split; [left; reflexivity | apply desc_refl].
Qed.

End Dec.
