(* No error tagged IMPORTANT! (a "$ref" inside the "headers" of a response, object_validator.go:243-260) is ever produced
   on a value that has no member named "headers": the results that composition keywords keep aside
   (keepRelevantErrors) are then empty, which is what lets oneOf into the agreement theorem (Schema/Agreement.v). *)
From Coq Require Import List ZArith Bool Lia.
From Verif Require Import Base.Sx Base.GoVal Schema.Ast Schema.Build Schema.Pipeline Schema.PipelineFacts.
Import ListNotations.
Open Scope Z_scope.

(* no object of the value, at any depth, has a member named "headers" *)
Fixpoint nohdr (v : goval) : Prop :=
  match v with
  | VArr _ l | VSlice _ l => (fix all (l : list goval) : Prop := match l with [] => True | x :: t => nohdr x /\ all t end) l
  | VObj _ m => (fix all (m : list (str * goval)) : Prop :=
                   match m with [] => True | kv :: t => fst kv <> k_headers /\ nohdr (snd kv) /\ all t end) m
  | _ => True
  end.

Lemma nohdr_arr id l : nohdr (VArr id l) <-> Forall nohdr l.
Proof.
  cbn [nohdr]. induction l as [|x t IH]; [split; [constructor | intros; exact I]|].
  split; [intros [H1 H2]; constructor; [exact H1 | apply IH; exact H2] | intros H; inversion H; subst; split; [assumption | apply IH; assumption]].
Qed.

Lemma nohdr_obj id m : nohdr (VObj id m) <-> Forall (fun kv => fst kv <> k_headers /\ nohdr (snd kv)) m.
Proof.
  cbn [nohdr]. induction m as [|x t IH]; [split; [constructor | intros; exact I]|].
  split; [intros [H1 [H2 H3]]; constructor; [split; assumption | apply IH; exact H3]
         | intros H; inversion H as [|y ys [Hy1 Hy2] Hys]; subst; split; [assumption | split; [assumption | apply IH; assumption]]].
Qed.

Definition nohdr_m (m : list (str * goval)) : Prop := Forall (fun kv => fst kv <> k_headers /\ nohdr (snd kv)) m.

Lemma lookup_val_nohdr m k v : nohdr_m m -> lookup_val m k = Some v -> nohdr v.
Proof.
  intros HM. induction HM as [|[key value] t [_ Hv] Ht IH]; cbn [lookup_val]; intros H; [discriminate|].
  match type of H with (if ?b then _ else _) = _ => destruct b end; [inversion H; subst; exact Hv | apply IH; exact H].
Qed.

Definition quiet (e : msg) : Prop := m_code e <> C_REF_IN_HEADER.
Definition res_quiet (r : res) : Prop := forall e, In e (r_errs r) -> quiet e.
Definition oquiet (o : outcome res) : Prop := match o with Ok r => res_quiet r | _ => True end.
Arguments oquiet : simpl never.

Ltac qcode := let H := fresh in unfold quiet; intro H; unfold invalid_type in H; cbn [m_code] in H; vm_compute in H; discriminate H.
Ltac qone := let e := fresh "e" in intros e [<- | []]; qcode.

Lemma filter_quiet (l : list msg) : (forall e, In e l -> quiet e) -> filter (fun e => Z.eqb (m_code e) C_REF_IN_HEADER) l = [].
Proof.
  induction l as [|e t IH]; intros H; [reflexivity|]. cbn [filter].
  destruct (Z.eqb_spec (m_code e) C_REF_IN_HEADER) as [Eq|_]; [destruct (H e (or_introl eq_refl) Eq)|].
  apply IH. intros x Hx. apply H. right. exact Hx.
Qed.

Lemma res_quiet_keep r : res_quiet r -> r_valid (keep_relevant r) = true.
Proof. intros H. unfold r_valid, keep_relevant. cbn [r_errs]. rewrite (filter_quiet (r_errs r) H). reflexivity. Qed.

Lemma nq_new : res_quiet new_res.
Proof. intros e []. Qed.
Lemma nq_empty : res_quiet empty_result.
Proof. intros e []. Qed.
Lemma nq_serr e : quiet e -> res_quiet (s_err e).
Proof. intros H x [<- | []]. exact H. Qed.
Lemma nq_inc r : res_quiet r -> res_quiet (r_inc r).
Proof. intros H. exact H. Qed.
Lemma nq_add r es : res_quiet r -> (forall e, In e es -> quiet e) -> res_quiet (r_add r es).
Proof. intros Hr He e Hin. cbn [r_add r_errs] in Hin. apply add_errs_In in Hin. destruct Hin; [apply Hr | apply He]; assumption. Qed.
Lemma nq_merge_wo_root r o : res_quiet r -> res_quiet o -> res_quiet (merge_wo_root r o).
Proof. intros Hr Ho e Hin. cbn [merge_wo_root r_errs] in Hin. apply add_errs_In in Hin. destruct Hin; [apply Hr | apply Ho]; assumption. Qed.
Lemma nq_merge r o : res_quiet r -> match o with Some x => res_quiet x | None => True end -> res_quiet (merge r o).
Proof. destruct o as [o|]; intros Hr Ho; [|exact Hr]. intros e Hin. apply (nq_merge_wo_root r o Hr Ho e). exact Hin. Qed.
Lemma nq_merge_for_field r obj k o : res_quiet r -> res_quiet o -> res_quiet (merge_for_field r obj k o).
Proof. intros Hr Ho e Hin. apply (nq_merge_wo_root r o Hr Ho e). unfold merge_for_field in Hin. destruct (r_root o); exact Hin. Qed.
Lemma nq_merge_for_slice r sl i o : res_quiet r -> res_quiet o -> res_quiet (merge_for_slice r sl i o).
Proof. intros Hr Ho e Hin. apply (nq_merge_wo_root r o Hr Ho e). unfold merge_for_slice in Hin. destruct (r_root o); exact Hin. Qed.
Lemma nq_keep_relevant x : res_quiet (keep_relevant x).
Proof.
  intros e Hin. cbn [keep_relevant r_errs] in Hin. apply in_map_iff in Hin. destruct Hin as [e0 [<- _]]. qcode.
Qed.

Lemma oquiet_bind (x : outcome res) (f : res -> outcome res) :
  oquiet x -> (forall r, res_quiet r -> oquiet (f r)) -> oquiet (bind x f).
Proof. destruct x as [r| |]; intros Hx Hf; [apply Hf; exact Hx | exact I | exact I]. Qed.

Section Groups.
Variable OR : oracles.
Variable N : numops.
Variable opt : options.
Variable rec_sp : schema -> path -> path -> goval -> outcome res.
Hypothesis Hrec : forall s p q d, nohdr d -> oquiet (rec_sp s p q d).

Lemma nq_type_validate p types nullable format d : res_quiet (type_validate N p types nullable format d).
Proof.
  unfold type_validate. destruct d; repeat match goal with
    | |- res_quiet (if ?b then _ else _) => destruct b
    | |- res_quiet (let (_, _) := ?x in _) => destruct x
    | |- res_quiet empty_result => apply nq_empty
    | |- res_quiet (s_err _) => apply nq_serr; qcode
    end.
Qed.

Lemma nq_string_validate p s d : match string_validate OR p s d with Some r => res_quiet r | None => True end.
Proof.
  unfold string_validate. destruct d; try (apply nq_serr; qcode).
  repeat match goal with
    | |- match (if ?b then _ else _) with _ => _ end => destruct b
    | |- res_quiet (s_err _) => apply nq_serr; qcode
    | |- True => exact I
    end.
Qed.

Lemma nq_format_validate p s d : oquiet (format_validate OR p s d).
Proof.
  unfold format_validate. destruct d; try apply nq_new. destruct (o_fmt_check OR (s_format s) s0); [apply nq_new|].
  apply nq_add; [apply nq_new|]. qone.
Qed.

Lemma nq_number_validate p s d : res_quiet (number_validate N p s d).
Proof.
  unfold number_validate. apply nq_inc. repeat apply nq_merge; try apply nq_new;
    repeat match goal with
    | |- match (match ?x with Some _ => _ | None => _ end) with _ => _ end => destruct x
    | |- True => exact I
    | |- res_quiet (if ?b then _ else _) => destruct b
    | |- res_quiet (match ?m with MOk => _ | MNotMultiple => _ | MNotPositive => _ end) => destruct m
    | |- res_quiet new_res => apply nq_new
    | |- res_quiet (merge new_res (Some (s_err _))) => apply nq_merge; [apply nq_new | apply nq_serr; qcode]
    end.
Qed.

Lemma nq_common_validate p s d : match common_validate N p s d with Some r => res_quiet r | None => True end.
Proof.
  unfold common_validate. destruct (s_enum s); [exact I|]. destruct (existsb _ _); [exact I|]. apply nq_serr. qcode.
Qed.

Lemma nq_slice_items_one s1 p sl l : Forall nohdr l -> forall i r, res_quiet r -> oquiet (slice_items_one rec_sp s1 p sl l i r).
Proof.
  intros HL. induction HL as [|v t Hv Ht IH]; intros i r Hr; cbn [slice_items_one]; [exact Hr|].
  apply oquiet_bind; [apply Hrec; exact Hv|]. intros x Hx. apply IH. apply nq_merge_for_slice; assumption.
Qed.

Lemma nq_slice_items_tuple ss p sl : forall l, Forall nohdr l -> forall i r, res_quiet r -> oquiet (slice_items_tuple rec_sp ss p sl l i r).
Proof.
  induction ss as [|s1 st IH]; intros [|v t] HL i r Hr; cbn [slice_items_tuple]; try exact Hr.
  inversion HL as [|y ys Hy Hys]; subst.
  apply oquiet_bind; [unfold rec; apply Hrec; exact Hy|]. intros x Hx. apply IH; [exact Hys|]. apply nq_merge_for_slice; assumption.
Qed.

Lemma nq_slice_additional sa p sl rest : Forall nohdr rest -> forall i r, res_quiet r -> oquiet (slice_additional rec_sp sa p sl rest i r).
Proof.
  intros HL. induction HL as [|v t Hv Ht IH]; intros i r Hr; cbn [slice_additional]; [exact Hr|].
  apply oquiet_bind; [unfold rec; apply Hrec; exact Hv|]. intros x Hx. apply IH. apply nq_merge_for_slice; assumption.
Qed.

Lemma Forall_skipn_q {A} (P : A -> Prop) n l : Forall P l -> Forall P (skipn n l).
Proof. revert l; induction n as [|n IH]; intros l H; [exact H|]. destruct l; [constructor|]. inversion H; subst. apply IH. assumption. Qed.

Lemma nq_slice_validate p s d : nohdr d -> oquiet (slice_validate N rec_sp p s d).
Proof.
  intros Hd. unfold slice_validate. destruct d; try apply nq_new. apply nohdr_arr in Hd.
  apply oquiet_bind; [destruct (s_items_one s); [apply nq_slice_items_one; [exact Hd | apply nq_new] | apply nq_new]|]. intros r1 H1.
  apply oquiet_bind; [apply nq_slice_items_tuple; [exact Hd | exact H1]|]. intros r2 H2.
  apply oquiet_bind.
  - destruct (s_add_items s) as [[allows [sa|]]|]; repeat match goal with
      | |- oquiet (if ?b then _ else _) => destruct b
      | |- oquiet (Ok ?r) => change (res_quiet r)
      | |- res_quiet (if ?b then _ else _) => destruct b
      | |- res_quiet (r_add _ _) => apply nq_add; [|qone]
      | |- res_quiet r2 => exact H2
      | |- oquiet (slice_additional _ _ _ _ _ _ _) => apply nq_slice_additional; [apply Forall_skipn_q; exact Hd|]
      end.
  - intros r3 H3. change (res_quiet (r_inc (if s_unique s && unique_items N [] l then r_add
        (match s_max_items s with Some m => if m <? Z.of_nat (length l) then r_add (match s_min_items s with Some m0 => if Z.of_nat (length l) <? m0 then r_add r3 [mkMsg C_MIN_ITEMS p [m0]] else r3 | None => r3 end) [mkMsg C_MAX_ITEMS p [m]] else match s_min_items s with Some m0 => if Z.of_nat (length l) <? m0 then r_add r3 [mkMsg C_MIN_ITEMS p [m0]] else r3 | None => r3 end | None => match s_min_items s with Some m0 => if Z.of_nat (length l) <? m0 then r_add r3 [mkMsg C_MIN_ITEMS p [m0]] else r3 | None => r3 end end)
        [mkMsg C_UNIQUE p []] else
        (match s_max_items s with Some m => if m <? Z.of_nat (length l) then r_add (match s_min_items s with Some m0 => if Z.of_nat (length l) <? m0 then r_add r3 [mkMsg C_MIN_ITEMS p [m0]] else r3 | None => r3 end) [mkMsg C_MAX_ITEMS p [m]] else match s_min_items s with Some m0 => if Z.of_nat (length l) <? m0 then r_add r3 [mkMsg C_MIN_ITEMS p [m0]] else r3 | None => r3 end | None => match s_min_items s with Some m0 => if Z.of_nat (length l) <? m0 then r_add r3 [mkMsg C_MIN_ITEMS p [m0]] else r3 | None => r3 end end)))).
    apply nq_inc. repeat match goal with
      | |- res_quiet (if ?b then _ else _) => destruct b
      | |- res_quiet (match ?x with Some _ => _ | None => _ end) => destruct x
      | |- res_quiet (r_add _ _) => apply nq_add; [|qone]
      | |- res_quiet r3 => exact H3
      end.
Qed.

(* ---- objects ---- *)

Definition oquiet_pp (o : outcome (bool * list (str * schema) * res)) : Prop :=
  match o with Ok (_, _, r) => res_quiet r | _ => True end.

Lemma nq_pattern_property pps p key value : nohdr value -> forall r m pats, res_quiet r -> oquiet_pp (pattern_property OR rec_sp pps p key value r m pats).
Proof.
  intros Hv. induction pps as [|[k ps] t IH]; intros r m pats Hr; cbn [pattern_property]; [exact Hr|].
  destruct (negb (o_re_ok OR k)); [apply IH; exact Hr|]. destruct (negb (o_re_match OR k key)); [apply IH; exact Hr|].
  pose proof (Hrec ps (p ++ [SDot key]) (p ++ [SDot key]) value Hv) as Hx. unfold rec.
  destruct (rec_sp ps (p ++ [SDot key]) (p ++ [SDot key]) value) as [x| |]; cbn [bind]; try exact I.
  apply IH. apply nq_merge; assumption.
Qed.

Lemma nq_validate_pattern_property s p key value r : nohdr value -> res_quiet r -> oquiet_pp (validate_pattern_property OR rec_sp s p key value r).
Proof. intros Hv Hr. unfold validate_pattern_property. destruct (s_pat_props s) eqn:E; [exact Hr|]. apply nq_pattern_property; assumption. Qed.

Lemma nq_no_additional s p m : nohdr_m m -> forall r, res_quiet r -> res_quiet (no_additional_properties OR s p m r).
Proof.
  intros HM. induction HM as [|[k v] t [Hk Hv] Ht IH]; intros r Hr; cbn [no_additional_properties]; [exact Hr|]. cbn [fst] in Hk.
  destruct (Z.eqb k k_dollar_schema || Z.eqb k k_id); [apply IH; exact Hr|].
  destruct (has_prop s k); [apply IH; exact Hr|].
  destruct (existsb _ (s_pat_props s)); [apply IH; exact Hr|]. cbv zeta.
  apply IH. destruct (Z.eqb_spec k k_headers) as [E|_]; [destruct (Hk E)|].
  apply nq_add; [exact Hr | qone].
Qed.

Lemma nq_additional s p obj m : nohdr_m m -> forall r, res_quiet r -> oquiet (additional_properties OR rec_sp s p obj m r).
Proof.
  intros HM. induction HM as [|[key value] t [_ Hval] Ht IH]; intros r Hr; cbn [additional_properties]; [exact Hr|]. cbn [snd] in Hval.
  destruct (has_prop s key); [apply IH; exact Hr|].
  pose proof (nq_validate_pattern_property s p key value r Hval Hr) as Hv.
  destruct (validate_pattern_property OR rec_sp s p key value r) as [[[matched pats] r1]| |]; cbn [bind]; try exact I. cbn [oquiet_pp] in Hv.
  destruct matched; [apply IH; exact Hv|].
  destruct (s_add_props s) as [[b [sa|]]|]; try (apply IH; exact Hv).
  apply oquiet_bind; [unfold rec; apply Hrec; exact Hval|]. intros x Hx. apply IH. apply nq_merge_for_field; assumption.
Qed.

Definition oquiet_ps (o : outcome (res * list str)) : Prop := match o with Ok (r, _) => res_quiet r | _ => True end.

Lemma nq_properties_schema props p obj m : nohdr_m m -> forall r created, res_quiet r -> oquiet_ps (properties_schema opt rec_sp props p obj m r created).
Proof.
  intros HM. induction props as [|[pname ps] t IH]; intros r created Hr; cbn [properties_schema]; [exact Hr|]. cbv zeta.
  destruct (lookup_val m pname) eqn:E.
  - match goal with |- oquiet_ps (bind ?X _) =>
      assert (Hx : oquiet X);
      [ unfold rec; apply Hrec; apply (lookup_val_nohdr m pname _ HM E)
      | destruct X as [x| |]; cbn [bind]; try exact I ]
    end.
    apply IH. apply nq_merge_for_field; assumption.
  - destruct (s_default ps); [|apply IH; exact Hr]. apply IH. destruct (opt_skip_schemata opt); exact Hr.
Qed.

Lemma nq_required_errors s p m created : forall e, In e (required_errors s p m created) -> quiet e.
Proof.
  intros e He. unfold required_errors in He. apply in_flat_map in He. destruct He as [k [_ He]].
  destruct (lookup_val m k); [destruct He|]. destruct (contains k created); [destruct He|]. destruct He as [<- | []]. qcode.
Qed.

Lemma nq_merge_patterns pats s p obj key value : nohdr value -> forall r, res_quiet r -> oquiet (merge_patterns rec_sp pats s p obj key value r).
Proof.
  intros Hv. induction pats as [|[pn x] t IH]; intros r Hr; cbn [merge_patterns]; [exact Hr|].
  destruct (lookup_schema (s_pat_props s) pn); [|apply IH; exact Hr].
  apply oquiet_bind; [unfold rec; apply Hrec; exact Hv|]. intros y Hy. apply IH. apply nq_merge_for_field; assumption.
Qed.

Lemma nq_pattern_loop s p obj m : nohdr_m m -> forall r, res_quiet r -> oquiet (pattern_loop OR rec_sp s p obj m r).
Proof.
  intros HM. induction HM as [|[key value] t [_ Hval] Ht IH]; intros r Hr; cbn [pattern_loop]; [exact Hr|]. cbn [snd] in Hval.
  pose proof (nq_validate_pattern_property s p key value r Hval Hr) as Hv.
  destruct (validate_pattern_property OR rec_sp s p key value r) as [[[matched pats] r1]| |]; cbn [bind]; try exact I. cbn [oquiet_pp] in Hv.
  destruct (has_prop s key || negb matched); [apply IH; exact Hv|].
  apply oquiet_bind; [apply nq_merge_patterns; assumption|]. intros r2 H2. apply IH. exact H2.
Qed.

Lemma nq_precheck p m r : res_quiet r -> res_quiet (precheck opt p m r).
Proof.
  intros Hr. unfold precheck.
  set (r1 := if opt_array_must_have_items opt then _ else r). assert (H1 : res_quiet r1).
  { unfold r1. repeat match goal with
      | |- res_quiet (if ?b then _ else _) => destruct b
      | |- res_quiet (match ?x with _ => _ end) => destruct x
      | |- res_quiet (r_add _ _) => apply nq_add; [|qone]
      | |- res_quiet r => exact Hr
      end. }
  clearbody r1. cbv zeta. unfold invalid_type.
  repeat match goal with
    | |- res_quiet (if ?b then _ else _) => destruct b
    | |- res_quiet (match ?x with _ => _ end) => destruct x
    | |- res_quiet (r_add _ _) => apply nq_add; [|qone]
    | |- res_quiet r1 => exact H1
    end.
Qed.

Lemma nq_object_validate p s d : nohdr d -> oquiet (object_validate OR opt rec_sp p s d).
Proof.
  intros Hd. unfold object_validate. destruct d; try (apply nq_serr; qcode). apply nohdr_obj in Hd. cbv zeta.
  repeat match goal with |- oquiet (if ?b then _ else _) => destruct b; [apply nq_serr; qcode|] end.
  apply oquiet_bind.
  - destruct (s_add_props s) as [[[|] x]|]; try (apply nq_additional; [exact Hd | apply nq_precheck, nq_new]).
    apply nq_no_additional; [exact Hd | apply nq_precheck, nq_new].
  - intros r1 H1. pose proof (nq_properties_schema (s_props s) p id m Hd r1 [] H1) as Hp.
    destruct (properties_schema opt rec_sp (s_props s) p id m r1 []) as [[r2 created]| |]; cbn [bind]; try exact I. cbn [oquiet_ps] in Hp.
    apply nq_pattern_loop; [exact Hd|]. destruct (s_required s); [exact Hp|]. apply nq_add; [exact Hp | apply nq_required_errors].
Qed.

(* ---- composition ---- *)

Definition oquiet2 (o : outcome (res * res)) : Prop := match o with Ok (a, b) => res_quiet a /\ res_quiet b | _ => True end.
Definition optquiet (o : option res) : Prop := match o with Some x => res_quiet x | None => True end.

Lemma nq_any_of vs p d : nohdr d -> forall main keep best, res_quiet main -> res_quiet keep -> optquiet best ->
  oquiet2 (any_of rec_sp vs p d main keep best).
Proof.
  intros Hd. induction vs as [|s1 t IH]; intros main keep best Hm Hk Hb; cbn [any_of].
  - split; [apply nq_merge; [apply nq_add; [exact Hm | qone] | exact Hb] | exact Hk].
  - pose proof (Hrec s1 p p d Hd) as Hx. unfold rec. destruct (rec_sp s1 p p d) as [x| |]; cbn [bind]; try exact I.
    assert (Hk' : res_quiet (merge keep (Some (keep_relevant x)))) by (apply nq_merge; [exact Hk | apply nq_keep_relevant]).
    destruct (r_valid x); [split; [apply nq_merge; assumption | apply nq_new]|].
    destruct best as [b|]; [destruct (r_mc b <? r_mc x)|]; apply IH; assumption.
Qed.

Definition oquiet4 (o : outcome (option res * option res * Z * res)) : Prop :=
  match o with Ok (a, b, _, k) => optquiet a /\ optquiet b /\ res_quiet k | _ => True end.

Lemma nq_one_of vs p d : nohdr d -> forall keep first best validated, res_quiet keep -> optquiet first -> optquiet best ->
  oquiet4 (one_of rec_sp vs p d keep first best validated).
Proof.
  intros Hd. induction vs as [|s1 t IH]; intros keep first best validated Hk Hf Hb; cbn [one_of]; [repeat split; assumption|].
  pose proof (Hrec s1 p p d Hd) as Hx. unfold rec. destruct (rec_sp s1 p p d) as [x| |]; cbn [bind]; try exact I.
  assert (Hk' : res_quiet (merge keep (Some (keep_relevant x)))) by (apply nq_merge; [exact Hk | apply nq_keep_relevant]).
  destruct (r_valid x).
  - apply IH; [apply nq_new | destruct first; [exact Hf | exact Hx] | exact Hb].
  - match goal with |- oquiet4 (if ?b then _ else _) => destruct b end; apply IH; assumption.
Qed.

Definition oquiet3 (o : outcome (res * res * Z)) : Prop := match o with Ok (a, b, _) => res_quiet a /\ res_quiet b | _ => True end.

Lemma nq_all_of vs p d : nohdr d -> forall main keep validated, res_quiet main -> res_quiet keep -> oquiet3 (all_of rec_sp vs p d main keep validated).
Proof.
  intros Hd. induction vs as [|s1 t IH]; intros main keep validated Hm Hk; cbn [all_of]; [split; assumption|].
  pose proof (Hrec s1 p p d Hd) as Hx. unfold rec. destruct (rec_sp s1 p p d) as [x| |]; cbn [bind]; try exact I.
  apply IH; [apply nq_merge; assumption | apply nq_merge; [exact Hk | apply nq_keep_relevant]].
Qed.

Lemma nq_dependencies s p d m all : nohdr d -> forall main, res_quiet main -> oquiet (dependencies rec_sp s p d m all main).
Proof.
  intros Hd. induction m as [|[key v] t IH]; intros main Hm; cbn [dependencies]; [exact Hm|].
  match goal with |- oquiet (match ?x with Some _ => _ | None => _ end) => destruct x as [[[ds|] props]|] end.
  - apply oquiet_bind; [unfold rec; apply Hrec; exact Hd|]. intros x Hx. apply IH. apply nq_merge; assumption.
  - apply IH. apply nq_add; [exact Hm|]. intros e He. apply in_flat_map in He. destruct He as [dk [_ He]].
    destruct (lookup_val all dk); [destruct He|]. destruct He as [<- | []]. qcode.
  - apply IH. exact Hm.
Qed.

Lemma nq_props_validate p s d : nohdr d -> oquiet (props_validate rec_sp p s d).
Proof.
  intros Hdd. unfold props_validate. cbv zeta.
  (* anyOf *)
  assert (Ha : match (match s_any_of s with
                      | [] => Ok (new_res, None)
                      | vs => do mk <- any_of rec_sp vs p d new_res new_res None; Ok (fst mk, Some (snd mk))
                      end) with Ok (a, k) => res_quiet a /\ optquiet k | _ => True end).
  { destruct (s_any_of s) as [|v0 vt]; [split; [apply nq_new | exact I]|].
    pose proof (nq_any_of (v0 :: vt) p d Hdd new_res new_res None nq_new nq_new I) as H.
    destruct (any_of rec_sp (v0 :: vt) p d new_res new_res None) as [[a b]| |]; cbn [bind]; try exact I. exact H. }
  match goal with |- oquiet (bind ?X _) => destruct X as [[main1 keep_any]| |]; cbn [bind]; try exact I end. destruct Ha as [Hm1 Hka].
  (* oneOf *)
  assert (Hb : match (match s_one_of s with
                      | [] => Ok (main1, None)
                      | vs =>
                          do x <- one_of rec_sp vs p d new_res None None 0;
                          let '(first, best, validated, keep) := x in
                          Ok (if Z.eqb validated 0 then merge (r_add main1 [mkMsg C_ONE_OF_NONE p []]) best
                              else if Z.eqb validated 1 then merge main1 first
                              else merge (r_add main1 [mkMsg C_ONE_OF_MANY p [validated]]) best, Some keep)
                      end) with Ok (a, k) => res_quiet a /\ optquiet k | _ => True end).
  { destruct (s_one_of s) as [|v0 vt]; [split; [exact Hm1 | exact I]|].
    pose proof (nq_one_of (v0 :: vt) p d Hdd new_res None None 0 nq_new I I) as H.
    destruct (one_of rec_sp (v0 :: vt) p d new_res None None 0) as [[[[first best] validated] keep]| |]; cbn [bind]; try exact I.
    destruct H as [Hf [Hbest Hk]]. split; [|exact Hk].
    destruct (Z.eqb validated 0); [apply nq_merge; [apply nq_add; [exact Hm1 | qone] | exact Hbest]|].
    destruct (Z.eqb validated 1); [apply nq_merge; assumption|].
    apply nq_merge; [apply nq_add; [exact Hm1 | qone] | exact Hbest]. }
  match goal with |- oquiet (bind ?X _) => destruct X as [[main2 keep_one]| |]; cbn [bind]; try exact I end. destruct Hb as [Hm2 Hko].
  (* allOf *)
  assert (Hc : match (match s_all_of s with
                      | [] => Ok (main2, None)
                      | vs =>
                          do x <- all_of rec_sp vs p d main2 new_res 0;
                          let '(main', keep, validated) := x in
                          Ok (if Z.eqb validated 0 then r_add main' [mkMsg C_ALL_OF_NONE p []]
                              else if Z.eqb validated (Z.of_nat (length vs)) then main'
                              else r_add main' [mkMsg C_ALL_OF_SOME p []], Some keep)
                      end) with Ok (a, k) => res_quiet a /\ optquiet k | _ => True end).
  { destruct (s_all_of s) as [|v0 vt]; [split; [exact Hm2 | exact I]|].
    pose proof (nq_all_of (v0 :: vt) p d Hdd main2 new_res 0 Hm2 nq_new) as H. cbv zeta.
    destruct (all_of rec_sp (v0 :: vt) p d main2 new_res 0) as [[[main' keep] validated]| |]; cbn [bind]; try exact I.
    destruct H as [Hm' Hk]. split; [|exact Hk].
    destruct (Z.eqb validated 0); [apply nq_add; [exact Hm' | qone]|].
    destruct (Z.eqb validated _); [exact Hm' | apply nq_add; [exact Hm' | qone]]. }
  cbv zeta in Hc.
  match goal with |- oquiet (bind ?X _) => destruct X as [[main3 keep_all]| |]; cbn [bind]; try exact I end. destruct Hc as [Hm3 Hkl].
  (* not *)
  assert (Hn : oquiet (match s_not s with
                       | None => Ok main3
                       | Some ns => do x <- rec rec_sp ns p d; Ok (if r_valid x then r_add main3 [mkMsg C_NOT p []] else main3)
                       end)).
  { destruct (s_not s) as [ns|]; [|exact Hm3]. apply oquiet_bind; [unfold rec; apply Hrec; exact Hdd|]. intros x Hx.
    destruct (r_valid x); [apply nq_add; [exact Hm3 | qone] | exact Hm3]. }
  match goal with |- oquiet (bind ?X _) => destruct X as [main4| |]; cbn [bind]; try exact I end.
  (* dependencies *)
  assert (Hd : oquiet (match s_deps s, d with
                       | _ :: _, VObj _ m => dependencies rec_sp s p d m m main4
                       | _, _ => Ok main4
                       end)).
  { destruct (s_deps s); [exact Hn|]. destruct d; try exact Hn. apply nq_dependencies; [exact Hdd | exact Hn]. }
  match goal with |- oquiet (bind ?X _) => destruct X as [main5| |]; cbn [bind]; try exact I end.
  repeat apply nq_merge; try assumption; try (apply nq_inc; exact Hd).
Qed.

(* ---- one validator ---- *)

Lemma nq_sv_body s p q d : nohdr d -> oquiet (sv_body OR N opt rec_sp s p q d).
Proof.
  intros Hnd. unfold sv_body.
  set (r0 := if opt_skip_schemata opt then new_res else mkRes [] 0 [s_default s] [] []).
  assert (Hr0 : res_quiet r0) by (unfold r0; destruct (opt_skip_schemata opt); intros e []).
  assert (Hrest : forall d', nohdr d' -> oquiet (
     do x2 <- props_validate rec_sp p s d';
     do r4 <- (if format_applies OR s d'
               then do x <- format_validate OR p s d';
                    Ok (r_inc (merge (if is_string_kind d' then r_inc (merge (r_inc (merge (if type_applies (s_types s) (s_format s) then r_inc (merge r0 (Some (type_validate N p (s_types s) (s_nullable s) (s_format s) d'))) else r0) (Some x2))) (string_validate OR p s d')) else r_inc (merge (if type_applies (s_types s) (s_format s) then r_inc (merge r0 (Some (type_validate N p (s_types s) (s_nullable s) (s_format s) d'))) else r0) (Some x2))) (Some x)))
               else Ok (if is_string_kind d' then r_inc (merge (r_inc (merge (if type_applies (s_types s) (s_format s) then r_inc (merge r0 (Some (type_validate N p (s_types s) (s_nullable s) (s_format s) d'))) else r0) (Some x2))) (string_validate OR p s d')) else r_inc (merge (if type_applies (s_types s) (s_format s) then r_inc (merge r0 (Some (type_validate N p (s_types s) (s_nullable s) (s_format s) d'))) else r0) (Some x2))));
     do r6 <- (if is_slice_kind d'
               then do x <- slice_validate N rec_sp p s d'; Ok (r_inc (merge (if is_number_kind d' then r_inc (merge r4 (Some (number_validate N p s d'))) else r4) (Some x)))
               else Ok (if is_number_kind d' then r_inc (merge r4 (Some (number_validate N p s d'))) else r4));
     do r8 <- (if is_map_kind d'
               then do x <- object_validate OR opt rec_sp p s d'; Ok (r_inc (merge (r_inc (merge r6 (common_validate N p s d'))) (Some x)))
               else Ok (r_inc (merge r6 (common_validate N p s d'))));
     Ok (r_inc r8))).
  { intros d' Hd'. apply oquiet_bind; [apply nq_props_validate; exact Hd'|]. intros x2 H2.
    assert (Hr1 : res_quiet (if type_applies (s_types s) (s_format s) then r_inc (merge r0 (Some (type_validate N p (s_types s) (s_nullable s) (s_format s) d'))) else r0)).
    { destruct (type_applies _ _); [apply nq_inc, nq_merge; [exact Hr0 | apply nq_type_validate] | exact Hr0]. }
    assert (Hr3 : res_quiet (if is_string_kind d' then r_inc (merge (r_inc (merge (if type_applies (s_types s) (s_format s) then r_inc (merge r0 (Some (type_validate N p (s_types s) (s_nullable s) (s_format s) d'))) else r0) (Some x2))) (string_validate OR p s d')) else r_inc (merge (if type_applies (s_types s) (s_format s) then r_inc (merge r0 (Some (type_validate N p (s_types s) (s_nullable s) (s_format s) d'))) else r0) (Some x2)))).
    { destruct (is_string_kind d'); [apply nq_inc, nq_merge; [apply nq_inc, nq_merge; assumption | apply nq_string_validate] | apply nq_inc, nq_merge; assumption]. }
    apply oquiet_bind.
    { destruct (format_applies OR s d'); [|exact Hr3]. apply oquiet_bind; [apply nq_format_validate|]. intros x Hx. apply nq_inc, nq_merge; assumption. }
    intros r4 H4.
    assert (Hr5 : res_quiet (if is_number_kind d' then r_inc (merge r4 (Some (number_validate N p s d'))) else r4)).
    { destruct (is_number_kind d'); [apply nq_inc, nq_merge; [exact H4 | apply nq_number_validate] | exact H4]. }
    apply oquiet_bind.
    { destruct (is_slice_kind d'); [|exact Hr5]. apply oquiet_bind; [apply nq_slice_validate; exact Hd'|]. intros x Hx. apply nq_inc, nq_merge; assumption. }
    intros r6 H6.
    assert (Hr7 : res_quiet (r_inc (merge r6 (common_validate N p s d')))) by (apply nq_inc, nq_merge; [exact H6 | apply nq_common_validate]).
    apply oquiet_bind.
    { destruct (is_map_kind d'); [|exact Hr7]. apply oquiet_bind; [apply nq_object_validate; exact Hd'|]. intros x Hx. apply nq_inc, nq_merge; assumption. }
    intros r8 H8. apply nq_inc. exact H8. }
  destruct d; cbv beta iota zeta; fold r0;
    try (apply Hrest; exact Hnd);
    try (apply nq_merge; [apply nq_merge; [exact Hr0 | apply nq_type_validate] | apply nq_common_validate]).
  (* json.Number *)
  destruct (types_numeric s); [|apply Hrest; exact Hnd].
  destruct (contains k_integer (s_types s)).
  - destruct asint; [apply Hrest; exact I|]. apply nq_inc, nq_add; [exact Hr0|]. qone.
  - destruct asflt; [apply Hrest; exact I|]. apply nq_inc, nq_add; [exact Hr0|]. qone.
Qed.

End Groups.

(* no IMPORTANT! error in any result, at every fuel, for every schema, option set, oracle and numeric implementation *)
Theorem no_important_error OR N opt defs :
  forall fuel s p q d, nohdr d -> oquiet (sv_validate OR N opt defs fuel s p q d).
Proof.
  induction fuel as [|f IH]; intros s p q d Hd; cbn [sv_validate]; [exact I|].
  destruct (eager defs f s); cbn [bind]; try exact I. destruct (resolve defs f s) as [s'| |]; cbn [bind]; try exact I.
  apply nq_sv_body; [exact IH | exact Hd].
Qed.
