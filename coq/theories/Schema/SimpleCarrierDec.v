(* The class of Schema/SimpleCarrier.v is decidable: the procedure evaluated by the correspondence run on every case. *)
From Coq Require Import List ZArith Bool Lia QArith.
From Verif Require Import Base.Sx Base.GoVal Schema.Ast Schema.Pipeline Schema.Draft4 Schema.Simple Schema.Numeric Schema.AgreementData
  Schema.AgreementDec Schema.SimpleAgree Schema.SimpleAgreeDec Schema.SimpleCarrier.
Import ListNotations.
Open Scope Z_scope.

Section Dec.
Variable OR : oracles.
Variable N : numops.
Variable value : f64 -> Q.
Variable ok : f64 -> Prop.
Hypothesis X : exact_iface N value ok.
Variable ok_b : f64 -> bool.
Hypothesis ok_b_sound : forall f, ok_b f = true -> ok f.

Definition small_b (z : Z) : bool := (- 2 ^ 53 <? z) && (z <? 2 ^ 53).
Definition le53_b (z : Z) : bool := (- 2 ^ 53 <=? z) && (z <=? 2 ^ 53).
Lemma le53_b_sound z : le53_b z = true -> small z.
Proof. unfold le53_b, small. intros H. apply andb_true_iff in H. destruct H as [A B]. split; [apply Z.leb_le; exact A | apply Z.leb_le; exact B]. Qed.
Definition small26_b (z : Z) : bool := (- 2 ^ 26 <=? z) && (z <=? 2 ^ 26).

Lemma small_b_sound z : small_b z = true -> jsmall z.
Proof. unfold small_b, jsmall. intros H. apply andb_true_iff in H. destruct H as [A B]. split; [apply Z.ltb_lt; exact A | apply Z.ltb_lt; exact B]. Qed.
Lemma small26_b_sound z : small26_b z = true -> small26 z.
Proof. unfold small26_b, small26. intros H. apply andb_true_iff in H. destruct H as [A B]. split; [apply Z.leb_le; exact A | apply Z.leb_le; exact B]. Qed.

Fixpoint tj_b (fuel : nat) (d : goval) : bool :=
  match fuel with
  | O => false
  | S f =>
      match d with
      | VBool _ | VStr _ => true
      | VFlt _ x => ok_b x
      | VInt k z => small_b z && Z.eqb (wrap_kind k z) z
      | VArr _ l => forallb (tj_b f) l
      | VSlice et l => negb (Z.eqb et 6) && forallb (tj_b f) l
      | _ => false
      end
  end.

Lemma forallb_Forall'' {A} (P : A -> Prop) (f : A -> bool) l : (forall x, In x l -> f x = true -> P x) -> forallb f l = true -> Forall P l.
Proof.
  induction l as [|x t IH]; intros H E; [constructor|]. cbn [forallb] in E. apply andb_true_iff in E. destruct E as [E1 E2].
  constructor; [apply H; [left; reflexivity | exact E1] | apply IH; [intros y Hy; apply H; right; exact Hy | exact E2]].
Qed.

Theorem tj_b_sound : forall fuel d, tj_b fuel d = true -> tj ok d.
Proof.
  induction fuel as [|f IH]; intros d H; [discriminate|].
  destruct d as [|b|x|b x|k z| |id l|et l|id m]; cbn [tj_b] in H; try discriminate H; try exact I.
  - apply ok_b_sound. exact H.
  - apply andb_true_iff in H. destruct H as [A B]. split; [apply small_b_sound; exact A | apply Z.eqb_eq; exact B].
  - cbn [tj]. apply tj_all. apply (forallb_Forall'' _ _ _ (fun v _ Hv => IH v Hv) H).
  - apply andb_true_iff in H. destruct H as [A B]. cbn [tj]. split.
    + intros E. subst et. discriminate A.
    + apply tj_all. apply (forallb_Forall'' _ _ _ (fun v _ Hv => IH v Hv) B).
Qed.

(* mi: is the divisibility clause [mult_iface] available for this numeric implementation? *)
Variable mi : bool.
Hypothesis mi_sound : mi = true -> mult_iface N value ok.

Definition tmult_b (q : simple) (k : ikind) (z : Z) : bool :=
  match q_multiple_of q with
  | None => true
  | Some f => ok_b f && match n_exact_int N f with
                        | None => true
                        | Some g => (le53_b g && small_b z && ((g <=? 0) || Z.eqb (z mod g) 0)) || (mi && small26_b g && small26_b z)
                        end
  end.

Lemma tmult_b_sound q k z : tmult_b q k z = true -> tmult N value ok q k z.
Proof.
  unfold tmult_b, tmult. destruct (q_multiple_of q) as [f|]; [|intros; exact I].
  intros H. apply andb_true_iff in H. destruct H as [Hf H]. split; [apply ok_b_sound; exact Hf|].
  destruct (n_exact_int N f) as [g|] eqn:E.
  - right. apply orb_true_iff in H. destruct H as [H | H].
    + left. exists g. apply andb_true_iff in H. destruct H as [H D]. apply andb_true_iff in H. destruct H as [A B].
      split; [apply (ex_int _ _ _ X f g (ok_b_sound f Hf)); exact E|]. split; [apply le53_b_sound; exact A|]. split; [apply small_b_sound; exact B|].
      apply orb_true_iff in D. destruct D as [D | D]; [left; apply Z.leb_le; exact D | right; apply Z.eqb_eq; exact D].
    + right. apply andb_true_iff in H. destruct H as [H B]. apply andb_true_iff in H. destruct H as [M A].
      split; [apply mi_sound; exact M|]. exists g.
      split; [apply (ex_int _ _ _ X f g (ok_b_sound f Hf)); exact E | split; [apply small26_b_sound; exact A | apply small26_b_sound; exact B]].
  - left. reflexivity.
Qed.

Fixpoint tfits_b (q : simple) (d : goval) {struct q} : bool :=
  match d with
  | VInt k z => tmult_b q k z
  | VFlt _ f => negb (match n_exact_int N f with Some z => Z.eqb z (- two63) | None => false end)
  | VBool _ | VStr _ => qfits1_b N q d
  | VArr _ l | VSlice _ l =>
      (match q_enum q with [] => true | _ => false end) && negb (q_unique q) &&
      (Z.eqb (q_format q) 0 || numeric_q q || Z.eqb (q_type q) k_array) &&
      match q_items q with Some it => forallb (tfits_b it) l | None => true end
  | _ => false
  end.

Lemma tfits_b_eq q d : tfits_b q d =
  match d with
  | VInt k z => tmult_b q k z
  | VFlt _ f => negb (match n_exact_int N f with Some z => Z.eqb z (- two63) | None => false end)
  | VBool _ | VStr _ => qfits1_b N q d
  | VArr _ l | VSlice _ l =>
      (match q_enum q with [] => true | _ => false end) && negb (q_unique q) &&
      (Z.eqb (q_format q) 0 || numeric_q q || Z.eqb (q_type q) k_array) &&
      match q_items q with Some it => forallb (tfits_b it) l | None => true end
  | _ => false
  end.
Proof. destruct q; reflexivity. Qed.

Theorem tfits_b_sound : forall q d, tfits_b q d = true -> tfits N value ok q d.
Proof.
  fix IH 1. intros q d H. rewrite tfits_b_eq in H. rewrite tfits_eq.
  assert (Harr : forall l,
            (match q_enum q with [] => true | _ => false end) && negb (q_unique q) &&
            (Z.eqb (q_format q) 0 || numeric_q q || Z.eqb (q_type q) k_array) &&
            match q_items q with Some it => forallb (tfits_b it) l | None => true end = true ->
            q_enum q = [] /\ q_unique q = false /\ (q_format q = 0 \/ numeric_q q = true \/ q_type q = k_array) /\
            match q_items q with Some it => Forall (tfits N value ok it) l | None => True end).
  { intros l E. apply andb_true_iff in E. destruct E as [E E4]. apply andb_true_iff in E. destruct E as [E E3].
    apply andb_true_iff in E. destruct E as [E1 E2].
    split; [destruct (q_enum q); [reflexivity | discriminate E1]|].
    split; [apply negb_true_iff; exact E2|].
    split.
    { apply orb_true_iff in E3. destruct E3 as [E3 | E3]; [apply orb_true_iff in E3; destruct E3 as [E3 | E3]|].
      - left. apply Z.eqb_eq. exact E3.
      - right. left. exact E3.
      - right. right. apply Z.eqb_eq. exact E3. }
    destruct (q_items q) as [it|]; [|exact I].
    apply (forallb_Forall' _ _ _ (fun v Hv => IH it v Hv) E4). }
  destruct d as [|b|x|b f|k z| |id l|et l|id m]; try discriminate H.
  - apply qfits1_b_sound. exact H.
  - apply qfits1_b_sound. exact H.
  - apply negb_true_iff in H. intros C. rewrite C, Z.eqb_refl in H. discriminate.
  - apply tmult_b_sound. exact H.
  - apply Harr. exact H.
  - apply Harr. exact H.
Qed.

End Dec.
