(* C16, the agreement theorem: the verdict of the parameter / header / items validators (Schema/Simple.v) is the verdict of
   a declarative reading of the Swagger simple schema - the draft-4 semantics of its keywords (the functions of
   Schema/Draft4.v on the keywords of the definition), a declared numeric type and format bounding the value, and the
   required-and-empty rule - on a decidable class of definitions and decoded values. The excluded shapes are where the
   recorded finding classes of C16 live. *)
From Coq Require Import List ZArith Bool Lia Btauto.
From Verif Require Import Base.Sx Base.GoVal Schema.Ast Schema.Pipeline Schema.Draft4 Schema.PipelineFacts
  Schema.Simple Schema.SimpleFacts Schema.AgreementData Schema.JsonEq Schema.Agreement.
Import ListNotations.
Open Scope Z_scope.

(* the keywords of one level of a simple schema, read as a JSON schema without sub-schemas *)
Definition sch_of1 (q : simple) : schema :=
  mkSchema None [q_type q] false (q_format q) (q_enum q) None (q_multiple_of q) (q_maximum q) (q_excl_max q) (q_minimum q) (q_excl_min q)
           (q_max_length q) (q_min_length q) (q_pattern q) (q_max_items q) (q_min_items q) (q_unique q)
           None None false None None None [] [] [] None [] [] [] None [].

Section Spec.
Variable OR : oracles.
Variable N : numops.

Definition in_fmt_range (fmt : str) (z : Z) : bool :=
  if Z.eqb fmt k_int32 then (- two31 <=? z) && (z <? two31)
  else if Z.eqb fmt k_uint32 then (0 <=? z) && (z <? two32)
  else if Z.eqb fmt k_uint64 then (0 <=? z) && (z <? two64)
  else (- two63 <=? z) && (z <? two63).

(* a declared numeric type and format bound the value: an integer is integral and fits its format, a float fits binary32 *)
Definition range_spec (q : simple) (d : goval) : bool :=
  match d with
  | VFlt _ f =>
      if Z.eqb (q_type q) k_integer
      then match n_exact_int N f with Some z => in_fmt_range (q_format q) z | None => false end
      else if Z.eqb (q_format q) k_float || Z.eqb (q_format q) k_float32 then n_fits_f32 N f else true
  | _ => true
  end.

(* the declarative reading, level by level *)
Fixpoint q_spec (q : simple) (d : goval) {struct q} : bool :=
  type_ok N (sch_of1 q) d && enum_ok N (sch_of1 q) d && numeric_ok N (sch_of1 q) d && string_ok OR (sch_of1 q) d && range_spec q d &&
  match d with
  | VArr _ l =>
      (match q_max_items q with Some m => Z.of_nat (length l) <=? m | None => true end) &&
      (match q_min_items q with Some m => m <=? Z.of_nat (length l) | None => true end) &&
      (if q_unique q then negb (has_dup N l) else true) &&
      match q_items q with Some it => forallb (q_spec it) l | None => true end
  | _ => true
  end.

Definition default_empty (q : simple) : bool := match q_default q with None => true | Some (VStr 0) => true | Some _ => false end.

(* a parameter or header: a required one that does not allow empty values (and has no default) rejects the empty string *)
Definition root_spec (sr : sroot) (d : goval) : bool :=
  negb (match d with VStr x => sr_required sr && negb (sr_allow_empty sr) && default_empty (sr_simple sr) && Z.eqb x 0 | _ => false end) &&
  q_spec (sr_simple sr) d.

Lemma q_spec_eq q d : q_spec q d =
  (type_ok N (sch_of1 q) d && enum_ok N (sch_of1 q) d && numeric_ok N (sch_of1 q) d && string_ok OR (sch_of1 q) d && range_spec q d &&
   match d with
   | VArr _ l =>
       (match q_max_items q with Some m => Z.of_nat (length l) <=? m | None => true end) &&
       (match q_min_items q with Some m => m <=? Z.of_nat (length l) | None => true end) &&
       (if q_unique q then negb (has_dup N l) else true) &&
       match q_items q with Some it => forallb (q_spec it) l | None => true end
   | _ => true
   end).
Proof. destruct q; reflexivity. Qed.

(* the element loop of an array level *)
Definition each_items (rf : str) (it' : simple) (p' : path) : list goval -> Z -> outcome (option res) :=
  fix each (l : list goval) (i : Z) : outcome (option res) :=
    match l with
    | [] => Ok None
    | v :: t => do x <- items_validate OR N rf it' p' i v;
                if r_valid x then each t (i + 1) else Ok (Some x)
    end.

(* one level of the items validator, unfolded *)
Lemma items_validate_eq rf it p index d : items_validate OR N rf it p index d =
  (let p' := p ++ [SIdx index] in
   let slice_step :=
     (fun _ : unit =>
        if is_slice_kind d then
          let l := slice_elems d in
          let size := Z.of_nat (length l) in
          let too_few := match q_min_items it with Some m => size <? m | None => false end in
          let too_many := match q_max_items it with Some m => m <? size | None => false end in
          if too_few then Ok (Some (s_err (mkMsg C_MIN_ITEMS p' [match q_min_items it with Some m => m | None => 0 end])))
          else if too_many then Ok (Some (s_err (mkMsg C_MAX_ITEMS p' [match q_max_items it with Some m => m | None => 0 end])))
          else if q_unique it && unique_items N [] l then Ok (Some (s_err (mkMsg C_UNIQUE p' [])))
          else match q_items it with
               | None => Ok None
               | Some it' => each_items rf it' p' l 0
               end
        else Ok None) in
   chain true
     [ (fun _ => Ok (Some (type_validate N p' [q_type it] (q_nullable it) (q_format it) d)));
       (fun _ => Ok (if is_string_kind d then string_validate_q OR p' it false false d else None));
       (fun _ => Ok (if is_string_kind d && o_fmt_known OR rf then Some (format_validate_q OR p' (q_format it) d) else None));
       (fun _ => Ok (if is_number_kind d then Some (number_validate_tf N p' it d) else None));
       slice_step;
       (fun _ => Ok (common_validate_q N p' it d)) ]
     new_res).
Proof. destruct it; reflexivity. Qed.

End Spec.

Section Agree.
Variable OR : oracles.
Variable N : numops.
Variable fin : f64 -> Prop.
Hypothesis Hord : forall a b, fin a -> fin b -> n_lt N a b = negb (n_le N b a).
Hypothesis Heq_sym : forall a b, fin a -> fin b -> n_eq N a b = n_eq N b a.
(* decoded values: no null, arrays anywhere *)
Notation jd := (AgreementData.jd fin false true).

Definition numeric_q (q : simple) : bool := contains k_number [q_type q] || contains k_integer [q_type q].

(* one level of a definition: what does not depend on the value *)
Definition qlocal (rf : str) (q : simple) : Prop :=
  q_nullable q = false /\ Forall (AgreementData.jd fin true true) (q_enum q) /\ (q_pattern q = 0 \/ o_re_ok OR (q_pattern q) = true) /\
  (* bounds and factor are numbers of the declared type and format (elsewhere: finding constraint-outside-declared-type) *)
  (forall m, q_maximum q = Some m -> fin m /\ range_bad N (VFlt false m) (q_type q) (q_format q) = false) /\
  (forall m, q_minimum q = Some m -> fin m /\ range_bad N (VFlt false m) (q_type q) (q_format q) = false) /\
  (forall m, q_multiple_of q = Some m -> range_bad N (VFlt false m) (q_type q) (q_format q) = false) /\
  (* the format of a level is looked at when the format of the parameter / header is a known one (finding
     items-format-needs-root-format): the two must be known together *)
  o_fmt_known OR rf = o_fmt_known OR (q_format q).

(* ... and what does: the type.go:200 shortcut (finding type-format-shortcut) and the one float64 that prints outside int64 *)
Definition qfits1 (q : simple) (d : goval) : Prop :=
  (q_format q = 0 \/ numeric_q q = true \/
   ((forall x, d = VStr x -> q_type q = k_string) /\ (forall id l, d = VArr id l -> q_type q = k_array))) /\
  (forall b f, d = VFlt b f -> n_exact_int N f <> Some (- two63)).

Fixpoint qclean (rf : str) (q : simple) {struct q} : Prop :=
  qlocal rf q /\ match q_items q with Some it => qclean rf it | None => True end.

Fixpoint qfits (q : simple) (d : goval) {struct q} : Prop :=
  qfits1 q d /\
  match q_items q with
  | Some it => match d with VArr _ l => Forall (qfits it) l | _ => True end
  | None => True
  end.

Lemma qclean_eq rf q : qclean rf q = (qlocal rf q /\ match q_items q with Some it => qclean rf it | None => True end).
Proof. destruct q; reflexivity. Qed.
Lemma qfits_eq q d : qfits q d = (qfits1 q d /\ match q_items q with
                                               | Some it => match d with VArr _ l => Forall (qfits it) l | _ => True end
                                               | None => True end).
Proof. destruct q; reflexivity. Qed.

Lemma contains1 x t : contains x [t] = Z.eqb t x.
Proof. rewrite contains_existsb. cbn [existsb]. apply orb_false_r. Qed.

(* ---- type ---- *)
Lemma type_q_agree p q d : jd d -> q_nullable q = false -> qfits1 q d ->
  r_valid (type_validate N p [q_type q] (q_nullable q) (q_format q) d) = type_ok N (sch_of1 q) d.
Proof.
  intros Hd Hnull [Hf _]. rewrite Hnull. unfold type_ok. cbn [sch_of1 s_types].
  destruct (contains k_number [q_type q] || contains k_integer [q_type q]) eqn:En.
  - apply (type_agree_numeric fin false true N p [q_type q] (q_format q) d Hd En).
  - destruct Hf as [F0 | [Fn | [Fs Fa]]].
    + rewrite F0. pose proof (type_agree fin false true N p [q_type q] d Hd) as H. cbn [type_applies length Nat.eqb negb orb] in H. exact H.
    + unfold numeric_q in Fn. congruence.
    + apply (type_agree_strfmt_gen fin false true N p [q_type q] (q_format q) d Hd En); [discriminate | |].
      * intros [x E]. rewrite contains1, (Fs x E). apply Z.eqb_refl.
      * intros [id [l E]]. rewrite contains1, (Fa id l E). apply Z.eqb_refl.
Qed.

(* ---- enum ---- *)
Lemma enum_q_agree p q d : jd d -> Forall (AgreementData.jd fin true true) (q_enum q) ->
  (match common_validate_q N p q d with None => true | Some r => r_valid r end) = enum_ok N (sch_of1 q) d.
Proof. intros Hd He. exact (enum_agree fin false true N p (sch_of1 q) d Hd He). Qed.

(* ---- string and format ---- *)
Lemma string_q_agree rf p q x : (q_pattern q = 0 \/ o_re_ok OR (q_pattern q) = true) -> o_fmt_known OR rf = o_fmt_known OR (q_format q) ->
  (match string_validate_q OR p q false false (VStr x) with None => true | Some r => r_valid r end) &&
  (if o_fmt_known OR rf then r_valid (format_validate_q OR p (q_format q) (VStr x)) else true)
  = string_ok OR (sch_of1 q) (VStr x).
Proof.
  intros Hp Hk. rewrite <- (string_agree OR p (sch_of1 q) x Hp). f_equal.
  unfold format_applies, format_validate, format_validate_q. cbn [is_string_kind andb sch_of1 s_format]. rewrite Hk.
  destruct (o_fmt_known OR (q_format q)); [|reflexivity]. cbn [negb]. destruct (o_fmt_check OR (q_format q) x); reflexivity.
Qed.

(* ---- numbers ---- *)
Lemma range_bad_spec q b f : n_exact_int N f <> Some (- two63) ->
  range_bad N (VFlt b f) (q_type q) (q_format q) = negb (range_spec N q (VFlt b f)).
Proof.
  intros Hne. unfold range_bad, range_spec, int_value, in_fmt_range.
  destruct (Z.eqb (q_type q) k_integer).
  - destruct (n_exact_int N f) as [z|] eqn:E; [|reflexivity].
    destruct (Z.eqb (q_format q) k_int32); [reflexivity|]. destruct (Z.eqb (q_format q) k_uint32); [reflexivity|].
    destruct (Z.eqb (q_format q) k_uint64); [reflexivity|].
    assert (z <> - two63) by congruence.
    replace (- two63 <? z) with (- two63 <=? z); [reflexivity|].
    destruct (Z.leb_spec (- two63) z), (Z.ltb_spec (- two63) z); try reflexivity; lia.
  - destruct (Z.eqb (q_format q) k_float || Z.eqb (q_format q) k_float32); reflexivity.
Qed.

Lemma number_q_agree rf p q f : qlocal rf q -> fin f -> n_exact_int N f <> Some (- two63) ->
  r_valid (number_validate_tf N p q (VFlt false f)) = numeric_ok N (sch_of1 q) (VFlt false f) && range_spec N q (VFlt false f).
Proof.
  intros [_ [_ [_ [Hmax [Hmin [Hmul _]]]]]] Hf Hne.
  assert (Hbf : bounds_fin fin (sch_of1 q)).
  { split; intros m E; cbn [sch_of1 s_maximum s_minimum] in E; [apply (Hmax m E) | apply (Hmin m E)]. }
  rewrite <- (number_agree fin N Hord p (sch_of1 q) false f (conj eq_refl Hf) Hbf).
  unfold number_validate_tf, number_validate. cbn [sch_of1 s_multiple_of s_maximum s_excl_max s_minimum s_excl_min].
  rewrite (range_bad_spec q false f Hne).
  destruct (q_multiple_of q) as [mf|] eqn:Emf; [rewrite (Hmul mf eq_refl)|];
  (destruct (q_maximum q) as [mx|] eqn:Emx; [rewrite (proj2 (Hmax mx eq_refl))|]);
  (destruct (q_minimum q) as [mn|] eqn:Emn; [rewrite (proj2 (Hmin mn eq_refl))|]);
  destruct (range_spec N q (VFlt false f)); cbn [negb];
  repeat (rewrite r_valid_inc || rewrite r_valid_merge || rewrite r_valid_add); cbn [r_valid new_res r_errs];
  try (destruct (mult_native N (VFlt false f) mf)); repeat (rewrite r_valid_merge); cbn [r_valid new_res r_errs]; btauto.
Qed.

(* ---- arrays ---- *)
Lemma each_items_cons rf it' p' v t i :
  each_items OR N rf it' p' (v :: t) i = (do x <- items_validate OR N rf it' p' i v; if r_valid x then each_items OR N rf it' p' t (i + 1) else Ok (Some x)).
Proof. reflexivity. Qed.

Lemma each_agree rf it' p' : forall l i,
  (forall v j, In v l -> exists r, items_validate OR N rf it' p' j v = Ok r /\ r_valid r = q_spec OR N it' v) ->
  exists x, each_items OR N rf it' p' l i = Ok x /\ (match x with None => true | Some e => r_valid e end) = forallb (q_spec OR N it') l.
Proof.
  induction l as [|v t IH]; intros i H; [exists None; split; reflexivity|].
  rewrite each_items_cons. cbn [forallb]. destruct (H v i (or_introl eq_refl)) as [r [Hr Hv]]. rewrite Hr. cbn [bind].
  destruct (r_valid r) eqn:E.
  - destruct (IH (i + 1) (fun v' j Hin => H v' j (or_intror Hin))) as [x [Hx Hvx]]. exists x. rewrite <- Hv. split; [exact Hx | exact Hvx].
  - exists (Some r). rewrite <- Hv, E. split; reflexivity.
Qed.

Lemma step_valid_ok (x : option res) : step_valid (fun _ : unit => Ok x) = match x with None => true | Some e => r_valid e end.
Proof. destruct x; reflexivity. Qed.

Lemma step_ok_ok (x : option res) : step_ok (fun _ : unit => Ok x).
Proof. exists x. reflexivity. Qed.

(* one array level: sizes, uniqueness, then the elements *)
Definition slice_body (rf : str) (q : simple) (pp : path) (l : list goval) : outcome (option res) :=
  let size := Z.of_nat (length l) in
  let too_few := match q_min_items q with Some m => size <? m | None => false end in
  let too_many := match q_max_items q with Some m => m <? size | None => false end in
  if too_few then Ok (Some (s_err (mkMsg C_MIN_ITEMS pp [match q_min_items q with Some m => m | None => 0 end])))
  else if too_many then Ok (Some (s_err (mkMsg C_MAX_ITEMS pp [match q_max_items q with Some m => m | None => 0 end])))
  else if q_unique q && unique_items N [] l then Ok (Some (s_err (mkMsg C_UNIQUE pp [])))
  else match q_items q with
       | None => Ok None
       | Some it' => each_items OR N rf it' pp l 0
       end.

Lemma slice_body_agree rf q pp l :
  (forall it', q_items q = Some it' -> forall v j, In v l ->
     exists r, items_validate OR N rf it' pp j v = Ok r /\ r_valid r = q_spec OR N it' v) ->
  Forall jd l ->
  exists x, slice_body rf q pp l = Ok x /\ (match x with None => true | Some e => r_valid e end) =
    ((match q_max_items q with Some m => Z.of_nat (length l) <=? m | None => true end) &&
     (match q_min_items q with Some m => m <=? Z.of_nat (length l) | None => true end) &&
     (if q_unique q then negb (has_dup N l) else true) &&
     match q_items q with Some it' => forallb (q_spec OR N it') l | None => true end).
Proof.
  intros Hrec Hl'. unfold slice_body. cbv zeta.
  destruct (q_min_items q) as [mn|] eqn:Emn; [destruct (Z.ltb_spec (Z.of_nat (length l)) mn) as [Hlt|Hge]|].
  1: { eexists. split; [reflexivity|]. cbn [r_valid s_err r_errs]. replace (mn <=? Z.of_nat (length l)) with false by (symmetry; apply Z.leb_gt; lia). rewrite andb_false_r. reflexivity. }
  all: (destruct (q_max_items q) as [mx|] eqn:Emx; [destruct (Z.ltb_spec mx (Z.of_nat (length l))) as [Hlt2|Hge2]|]).
  1,4: (eexists; split; [reflexivity|]; cbn [r_valid s_err r_errs]; replace (Z.of_nat (length l) <=? mx) with false by (symmetry; apply Z.leb_gt; lia); reflexivity).
  all: rewrite (unique_items_has_dup fin false true N Heq_sym l Hl').
  all: try (replace (mn <=? Z.of_nat (length l)) with true by (symmetry; apply Z.leb_le; lia)).
  all: try (replace (Z.of_nat (length l) <=? mx) with true by (symmetry; apply Z.leb_le; lia)).
  all: cbn [andb].
  all: (destruct (q_unique q && has_dup N l) eqn:Eu;
        [ eexists; split; [reflexivity|]; cbn [r_valid s_err r_errs]; apply andb_true_iff in Eu; destruct Eu as [Eu1 Eu2]; rewrite Eu1, Eu2; reflexivity |]).
  all: assert (Hu : (if q_unique q then negb (has_dup N l) else true) = true) by (destruct (q_unique q); [cbn [andb] in Eu; rewrite Eu|]; reflexivity).
  all: rewrite Hu; cbn [andb].
  all: (destruct (q_items q) as [it'|] eqn:Ei; [|exists None; split; reflexivity]).
  all: apply each_agree; intros v j Hin; apply (Hrec it' eq_refl v j Hin).
Qed.

(* ---- every level of the items validator ---- *)
Theorem items_agree rf : forall it p i d, qclean rf it -> jd d -> qfits it d ->
  exists r, items_validate OR N rf it p i d = Ok r /\ r_valid r = q_spec OR N it d.
Proof.
  fix IH 1. intros it p i d Hc Hd Hfit.
  rewrite items_validate_eq, q_spec_eq. rewrite qclean_eq in Hc. rewrite qfits_eq in Hfit.
  destruct Hc as [Hl Hci]. destruct Hfit as [Hf1 Hfi].
  pose proof Hl as [Hnull [Henum [Hpat [_ [_ [_ Hk]]]]]].
  cbv zeta. set (p' := p ++ [SIdx i]).
  match goal with |- exists r, chain true [?s1; ?s2; ?s3; ?s4; ?s5; ?s6] new_res = Ok r /\ _ =>
    assert (Hslice : exists x, s5 tt = Ok x /\ (match x with None => true | Some e => r_valid e end) =
              match d with
              | VArr _ l =>
                  (match q_max_items it with Some m => Z.of_nat (length l) <=? m | None => true end) &&
                  (match q_min_items it with Some m => m <=? Z.of_nat (length l) | None => true end) &&
                  (if q_unique it then negb (has_dup N l) else true) &&
                  match q_items it with Some it' => forallb (q_spec OR N it') l | None => true end
              | _ => true
              end)
  end.
  { destruct d as [| | | | | |id l| |id m]; try (exfalso; exact Hd); try discriminate Hd; try (exists None; split; reflexivity).
    cbn [is_slice_kind slice_elems]. apply jd_arr in Hd. destruct Hd as [_ Hl'].
    pose proof (slice_body_agree rf it p' l) as HS. unfold slice_body in HS. cbv zeta in HS.
    destruct (q_items it) as [it'|].
    - apply HS; [|exact Hl'].
      intros it'' E v j Hin. injection E as E. subst it''. apply (IH it');
        [ exact Hci | apply (proj1 (Forall_forall _ _) Hl' v Hin) | apply (proj1 (Forall_forall _ _) Hfi v Hin) ].
    - apply HS; [|exact Hl']. intros it'' E. discriminate E. }
  destruct Hslice as [xs [Hxs Hvs]].
  match goal with |- exists r, chain true ?steps new_res = Ok r /\ _ =>
    assert (Hst : Forall step_ok steps) by (repeat constructor; try apply step_ok_ok; exists xs; exact Hxs);
    destruct (chain_total true steps Hst new_res) as [r Hr]
  end.
  exists r. split; [exact Hr|]. apply chain_verdict in Hr. rewrite Hr. cbn [forallb r_valid new_res r_errs andb].
  rewrite !step_valid_ok. unfold step_valid at 1. rewrite Hxs, Hvs.
  rewrite (type_q_agree p' it d Hd Hnull Hf1), (enum_q_agree p' it d Hd Henum).
  destruct d as [|b|x|d32 f| | |id l| |id m]; try (exfalso; exact Hd); try discriminate Hd.
  - (* boolean *) cbn [is_string_kind is_number_kind andb numeric_ok string_ok range_spec]. btauto.
  - (* string *) cbn [is_string_kind is_number_kind andb numeric_ok range_spec].
    rewrite <- (string_q_agree rf p' it x Hpat Hk). destruct (o_fmt_known OR rf); btauto.
  - (* number *) cbn [jd] in Hd. destruct Hd as [-> Hf]. destruct Hf1 as [_ Hne].
    cbn [is_string_kind is_number_kind andb string_ok].
    rewrite (number_q_agree rf p' it f Hl Hf (Hne false f eq_refl)). btauto.
  - (* array *) cbn [is_string_kind is_number_kind andb numeric_ok string_ok range_spec]. btauto.
  - (* object *) cbn [is_string_kind is_number_kind andb numeric_ok string_ok range_spec]. btauto.
Qed.

(* ---- parameters and headers ---- *)
Lemma basic_slice_eq rf q p d : basic_slice_validate OR N rf q p d = slice_body rf q p (slice_elems d).
Proof. reflexivity. Qed.

Lemma string_root_quirk p q req ae x :
  (match string_validate_q OR p q req ae (VStr x) with None => true | Some r => r_valid r end) =
  negb (req && negb ae && default_empty q && Z.eqb x 0) &&
  (match string_validate_q OR p q false false (VStr x) with None => true | Some r => r_valid r end).
Proof.
  unfold string_validate_q, default_empty. cbn [andb negb].
  destruct (req && negb ae && match q_default q with None => true | Some (VStr 0) => true | Some _ => false end && Z.eqb x 0); reflexivity.
Qed.

Theorem simple_agree sr d : qclean (q_format (sr_simple sr)) (sr_simple sr) -> jd d -> qfits (sr_simple sr) d ->
  exists r, simple_validate OR N sr d = Ok (Some r) /\ r_valid r = root_spec OR N sr d.
Proof.
  intros Hc Hd Hfit. set (q := sr_simple sr) in *.
  unfold root_spec. fold q. rewrite q_spec_eq. rewrite qclean_eq in Hc. rewrite qfits_eq in Hfit.
  destruct Hc as [Hl Hci]. destruct Hfit as [Hf1 Hfi].
  pose proof Hl as [Hnull [Henum [Hpat [_ [_ [_ Hk]]]]]].
  set (p := [SRoot (sr_name sr)]).
  assert (Hslice : exists x, (if is_slice_kind d then basic_slice_validate OR N (q_format q) q p d else Ok None) = Ok x /\
            (match x with None => true | Some e => r_valid e end) =
            match d with
            | VArr _ l =>
                (match q_max_items q with Some m => Z.of_nat (length l) <=? m | None => true end) &&
                (match q_min_items q with Some m => m <=? Z.of_nat (length l) | None => true end) &&
                (if q_unique q then negb (has_dup N l) else true) &&
                match q_items q with Some it' => forallb (q_spec OR N it') l | None => true end
            | _ => true
            end).
  { destruct d as [| | | | | |id l| |id m]; try (exfalso; exact Hd); try discriminate Hd; try (exists None; split; reflexivity).
    cbn [is_slice_kind]. rewrite basic_slice_eq. cbn [slice_elems]. apply jd_arr in Hd. destruct Hd as [_ Hl'].
    apply (slice_body_agree (q_format q) q p l); [|exact Hl'].
    intros it' Ei v j Hin. rewrite Ei in Hci, Hfi. apply (items_agree (q_format q) it' p j v);
      [ exact Hci | apply (proj1 (Forall_forall _ _) Hl' v Hin) | apply (proj1 (Forall_forall _ _) Hfi v Hin) ]. }
  destruct Hslice as [xs [Hxs Hvs]].
  assert (Hchain : exists r, chain false
        [ (fun _ => Ok (Some (type_validate N p [q_type q] (q_nullable q) (q_format q) d)));
          (fun _ => Ok (if is_string_kind d then string_validate_q OR p q (sr_required sr) (sr_allow_empty sr) d else None));
          (fun _ => Ok (if is_string_kind d && o_fmt_known OR (q_format q) then Some (format_validate_q OR p (q_format q) d) else None));
          (fun _ => Ok (if is_number_kind d then Some (number_validate_tf N p q d) else None));
          (fun _ => if is_slice_kind d then basic_slice_validate OR N (q_format q) q p d else Ok None);
          (fun _ => Ok (common_validate_q N p q d)) ] new_res = Ok r).
  { apply chain_total. repeat constructor; try apply step_ok_ok. exists xs. exact Hxs. }
  destruct Hchain as [r Hr].
  exists r. split.
  { unfold simple_validate. fold q. fold p. destruct d; try (exfalso; exact Hd); try discriminate Hd; rewrite Hr; reflexivity. }
  apply chain_verdict in Hr. rewrite Hr. cbn [forallb r_valid new_res r_errs andb].
  rewrite !step_valid_ok. unfold step_valid at 1. rewrite Hxs, Hvs.
  rewrite (type_q_agree p q d Hd Hnull Hf1), (enum_q_agree p q d Hd Henum).
  destruct d as [|b|x|d32 f| | |id l| |id m]; try (exfalso; exact Hd); try discriminate Hd.
  - cbn [is_string_kind is_number_kind andb numeric_ok string_ok range_spec negb]. btauto.
  - cbn [is_string_kind is_number_kind andb numeric_ok range_spec].
    rewrite string_root_quirk. rewrite <- (string_q_agree (q_format q) p q x Hpat Hk). destruct (o_fmt_known OR (q_format q)); btauto.
  - cbn [jd] in Hd. destruct Hd as [-> Hf]. destruct Hf1 as [_ Hne].
    cbn [is_string_kind is_number_kind andb string_ok negb].
    rewrite (number_q_agree (q_format q) p q f Hl Hf (Hne false f eq_refl)). btauto.
  - cbn [is_string_kind is_number_kind andb numeric_ok string_ok range_spec negb]. btauto.
  - cbn [is_string_kind is_number_kind andb numeric_ok string_ok range_spec negb]. btauto.
Qed.

End Agree.
