(* Termination with a verdict (C06, positive half): on a schema without references the pipeline returns a result -
   no panic, no exhaustion - as soon as the fuel exceeds the nesting depth of the schema, for every value, option set,
   oracle and numeric implementation. *)
From Coq Require Import List ZArith Bool Lia.
From Verif Require Import Base.Sx Base.GoVal Schema.Ast Schema.Build Schema.Pipeline.
Import ListNotations.
Open Scope Z_scope.

Definition tot {T} (o : outcome T) : Prop := exists r, o = Ok r.
Arguments tot : simpl never.

Lemma tot_ok {T} (r : T) : tot (Ok r).
Proof. exists r; reflexivity. Qed.

Lemma tot_bind {T U} (x : outcome T) (f : T -> outcome U) : tot x -> (forall t, tot (f t)) -> tot (bind x f).
Proof. intros [r ->] H. apply H. Qed.

Ltac tot_step :=
  repeat match goal with
         | |- tot (Ok _) => apply tot_ok
         | |- tot (bind _ _) => apply tot_bind; [|intros ?]
         | |- tot (rec ?r _ _ _) => unfold rec
         | |- tot (match ?x with _ => _ end) => destruct x
         | |- tot (if ?b then _ else _) => destruct b
         end.

(* the immediate sub-schemas of a schema satisfy P *)
Definition kids (P : schema -> Prop) (s : schema) : Prop :=
  (forall c, s_items_one s = Some c -> P c) /\
  (forall cs, s_items_tuple s = Some cs -> Forall P cs) /\
  (forall a c, s_add_items s = Some (a, Some c) -> P c) /\
  Forall (fun kc => P (snd kc)) (s_props s) /\
  Forall (fun kc => P (snd kc)) (s_pat_props s) /\
  (forall a c, s_add_props s = Some (a, Some c) -> P c) /\
  Forall P (s_all_of s) /\ Forall P (s_any_of s) /\ Forall P (s_one_of s) /\
  (forall c, s_not s = Some c -> P c) /\
  Forall (fun kd => forall c, fst (snd kd) = Some c -> P c) (s_deps s).

Lemma lookup_schema_forall (P : schema -> Prop) (l : list (str * schema)) (n : str) (c : schema) :
  Forall (fun kc => P (snd kc)) l -> lookup_schema l n = Some c -> P c.
Proof.
  induction l as [|[k s] t IH]; simpl; intros HF H; [discriminate|]. inversion HF as [|x xs Hx Hxs]; subst.
  destruct (Z.eqb k n); [inversion H; subst; exact Hx | apply IH; assumption].
Qed.

Section Groups.
Variable OR : oracles.
Variable N : numops.
Variable opt : options.
Variable rec_sp : schema -> path -> path -> goval -> outcome res.

Definition good (c : schema) : Prop := forall p q d, tot (rec_sp c p q d).

Lemma tot_slice_items_one s1 p sl l : good s1 -> forall i r, tot (slice_items_one rec_sp s1 p sl l i r).
Proof. intros H. induction l as [|v t IH]; intros i r; simpl; tot_step; [apply H | apply IH]. Qed.

Lemma tot_slice_items_tuple ss p sl : Forall good ss -> forall l i r, tot (slice_items_tuple rec_sp ss p sl l i r).
Proof.
  induction ss as [|s1 st IH]; intros HF [|v t] i r; simpl; tot_step.
  - inversion HF; subst. match goal with H : good s1 |- _ => apply H end.
  - inversion HF; subst. apply IH. assumption.
Qed.

Lemma tot_slice_additional sa p sl rest : good sa -> forall i r, tot (slice_additional rec_sp sa p sl rest i r).
Proof. intros H. induction rest as [|v t IH]; intros i r; simpl; tot_step; [apply H | apply IH]. Qed.

Lemma tot_slice_validate p s d : kids good s -> tot (slice_validate N rec_sp p s d).
Proof.
  intros [H1 [H2 [H3 _]]]. unfold slice_validate. destruct d; try apply tot_ok.
  apply tot_bind; [destruct (s_items_one s) eqn:E; [apply tot_slice_items_one; apply H1; reflexivity | apply tot_ok] | intros r1].
  apply tot_bind; [apply tot_slice_items_tuple; destruct (s_items_tuple s) eqn:E; [apply H2; reflexivity | constructor] | intros r2].
  apply tot_bind; [|intros r3; apply tot_ok].
  destruct (s_add_items s) as [[allows [sa|]]|] eqn:E; tot_step. apply tot_slice_additional. apply (H3 _ _ eq_refl).
Qed.

Lemma tot_pattern_property pps p key value :
  Forall (fun kc => good (snd kc)) pps -> forall r m pats, tot (pattern_property OR rec_sp pps p key value r m pats).
Proof.
  induction pps as [|[k ps] t IH]; intros HF r m pats; simpl; [apply tot_ok|]. inversion HF as [|x xs Hx Hxs]; subst.
  tot_step; try (apply IH; assumption). apply Hx.
Qed.

Lemma tot_validate_pattern_property s p key value r :
  kids good s -> tot (validate_pattern_property OR rec_sp s p key value r).
Proof.
  intros [_ [_ [_ [_ [H _]]]]]. unfold validate_pattern_property. destruct (s_pat_props s) eqn:E; [apply tot_ok|].
  apply tot_pattern_property. exact H.
Qed.

Lemma tot_additional_properties s p obj m : kids good s -> forall r, tot (additional_properties OR rec_sp s p obj m r).
Proof.
  intros K. pose proof K as [_ [_ [_ [_ [_ [Ha _]]]]]].
  induction m as [|[key value] t IH]; intros r; simpl; [apply tot_ok|].
  destruct (has_prop s key); [apply IH|].
  apply tot_bind; [apply tot_validate_pattern_property; exact K | intros [[matched pats] r1]].
  destruct matched; [apply IH|].
  destruct (s_add_props s) as [[a [sa|]]|] eqn:E; try apply IH.
  apply tot_bind; [unfold rec; apply (Ha _ _ eq_refl) | intros x; apply IH].
Qed.

Lemma tot_properties_schema props p obj m :
  Forall (fun kc => good (snd kc)) props -> forall r created, tot (properties_schema opt rec_sp props p obj m r created).
Proof.
  induction props as [|[pname ps] t IH]; intros HF r created; simpl; [apply tot_ok|]. inversion HF as [|x xs Hx Hxs]; subst.
  destruct (lookup_val m pname).
  - apply tot_bind; [unfold rec; apply Hx | intros y; apply IH; assumption].
  - destruct (s_default ps); apply IH; assumption.
Qed.

Lemma tot_merge_patterns pats s p obj key value : kids good s -> forall r, tot (merge_patterns rec_sp pats s p obj key value r).
Proof.
  intros [_ [_ [_ [_ [H _]]]]]. induction pats as [|[pn x] t IH]; intros r; simpl; [apply tot_ok|].
  destruct (lookup_schema (s_pat_props s) pn) eqn:E; [|apply IH].
  apply tot_bind; [unfold rec; apply (lookup_schema_forall good _ _ _ H E) | intros y; apply IH].
Qed.

Lemma tot_pattern_loop s p obj m : kids good s -> forall r, tot (pattern_loop OR rec_sp s p obj m r).
Proof.
  intros K. induction m as [|[key value] t IH]; intros r; simpl; [apply tot_ok|].
  apply tot_bind; [apply tot_validate_pattern_property; exact K | intros [[matched pats] r1]].
  destruct (has_prop s key || negb matched); [apply IH|].
  apply tot_bind; [apply tot_merge_patterns; exact K | intros r2; apply IH].
Qed.

Lemma tot_object_validate p s d : kids good s -> tot (object_validate OR opt rec_sp p s d).
Proof.
  intros K. pose proof K as [_ [_ [_ [Hp _]]]]. unfold object_validate. destruct d; try apply tot_ok.
  cbv zeta.
  destruct (match s_min_props s with Some mn => _ | None => false end); [apply tot_ok|].
  destruct (match s_max_props s with Some mx => _ | None => false end); [apply tot_ok|].
  apply tot_bind.
  - destruct (s_add_props s) as [[[|] o]|]; try apply tot_ok; apply tot_additional_properties; exact K.
  - intros r1. apply tot_bind; [apply tot_properties_schema; exact Hp | intros [r2 created]].
    apply tot_pattern_loop; exact K.
Qed.

Lemma tot_any_of vs p d : Forall good vs -> forall main keep best, tot (any_of rec_sp vs p d main keep best).
Proof.
  induction vs as [|s1 t IH]; intros HF main keep best; simpl; [apply tot_ok|]. inversion HF as [|x xs Hx Hxs]; subst.
  apply tot_bind; [unfold rec; apply Hx | intros y]. tot_step; apply IH; assumption.
Qed.

Lemma tot_one_of vs p d : Forall good vs -> forall keep first best validated, tot (one_of rec_sp vs p d keep first best validated).
Proof.
  induction vs as [|s1 t IH]; intros HF keep first best validated; simpl; [apply tot_ok|]. inversion HF as [|x xs Hx Hxs]; subst.
  apply tot_bind; [unfold rec; apply Hx | intros y]. destruct (r_valid y); [apply IH; assumption|].
  match goal with |- tot (if ?b then _ else _) => destruct b end; apply IH; assumption.
Qed.

Lemma tot_all_of vs p d : Forall good vs -> forall main keep validated, tot (all_of rec_sp vs p d main keep validated).
Proof.
  induction vs as [|s1 t IH]; intros HF main keep validated; simpl; [apply tot_ok|]. inversion HF as [|x xs Hx Hxs]; subst.
  apply tot_bind; [unfold rec; apply Hx | intros y; apply IH; assumption].
Qed.

Lemma find_dep_good (l : list (str * (option schema * list str))) (key : str) (ds : schema) (props : list str) :
  Forall (fun kd => forall c, fst (snd kd) = Some c -> good c) l ->
  (fix find (l : list (str * (option schema * list str))) :=
     match l with
     | [] => None
     | (k, dep) :: l' => if Z.eqb k key then Some dep else find l'
     end) l = Some (Some ds, props) -> good ds.
Proof.
  induction l as [|[k dep] t IH]; intros HF H; [discriminate|]. inversion HF as [|x xs Hx Hxs]; subst.
  destruct (Z.eqb k key); [inversion H; subst; apply Hx; reflexivity | apply IH; assumption].
Qed.

Lemma tot_dependencies s p d m all : kids good s -> forall main, tot (dependencies rec_sp s p d m all main).
Proof.
  intros [_ [_ [_ [_ [_ [_ [_ [_ [_ [_ H]]]]]]]]]]. induction m as [|[key v] t IH]; intros main; simpl; [apply tot_ok|].
  match goal with |- tot (match ?f with _ => _ end) => destruct f as [[[ds|] props]|] eqn:E end; try apply IH.
  apply tot_bind; [unfold rec; apply (find_dep_good _ _ _ _ H E) | intros x; apply IH].
Qed.

Lemma tot_props_validate p s d : kids good s -> tot (props_validate rec_sp p s d).
Proof.
  intros K. pose proof K as [_ [_ [_ [_ [_ [_ [Hall [Hany [Hone [Hnot _]]]]]]]]]]. unfold props_validate. cbv zeta.
  apply tot_bind.
  { destruct (s_any_of s) eqn:E; [apply tot_ok|]. apply tot_bind; [apply tot_any_of; exact Hany | intros; apply tot_ok]. }
  intros [main1 keep_any]. apply tot_bind.
  { destruct (s_one_of s) eqn:E; [apply tot_ok|]. apply tot_bind; [apply tot_one_of; exact Hone | intros [[[first best] validated] keep]; apply tot_ok]. }
  intros [main2 keep_one]. apply tot_bind.
  { destruct (s_all_of s) eqn:E; [apply tot_ok|]. apply tot_bind; [apply tot_all_of; exact Hall | intros [[main' keep] validated]; apply tot_ok]. }
  intros [main3 keep_all]. apply tot_bind.
  { destruct (s_not s) eqn:E; [|apply tot_ok]. apply tot_bind; [unfold rec; apply (Hnot _ eq_refl) | intros; apply tot_ok]. }
  intros main4. apply tot_bind; [|intros; apply tot_ok].
  destruct (s_deps s); [apply tot_ok|]. destruct d; try apply tot_ok. apply tot_dependencies; exact K.
Qed.

Lemma tot_format_validate p s d : tot (format_validate OR p s d).
Proof. unfold format_validate. tot_step. Qed.

Lemma tot_sv_body s p q d : kids good s -> tot (sv_body OR N opt rec_sp s p q d).
Proof.
  intros K. unfold sv_body. destruct d; cbv beta iota zeta; try apply tot_ok;
  try match goal with
  | |- tot (match ?c with _ => _ end) => destruct c as [[dd|]|]; try apply tot_ok
  end;
  (apply tot_bind; [apply tot_props_validate; exact K | intros x2];
   apply tot_bind; [match goal with |- tot (if ?b then _ else _) => destruct b; [|apply tot_ok] end;
                    apply tot_bind; [apply tot_format_validate | intros; apply tot_ok] | intros r4];
   apply tot_bind; [match goal with |- tot (if ?b then _ else _) => destruct b; [|apply tot_ok] end;
                    apply tot_bind; [apply tot_slice_validate; exact K | intros; apply tot_ok] | intros r6];
   apply tot_bind; [match goal with |- tot (if ?b then _ else _) => destruct b; [|apply tot_ok] end;
                    apply tot_bind; [apply tot_object_validate; exact K | intros; apply tot_ok] | intros r8; apply tot_ok]).
Qed.

End Groups.

(* ------------------------------------------------------------------ schemas without references, of bounded depth *)

Fixpoint bounded (n : nat) (s : schema) {struct n} : Prop :=
  match n with
  | O => False
  | S m => s_ref s = None /\ kids (bounded m) s
  end.

Lemma kids_impl (P Q : schema -> Prop) (s : schema) : (forall c, P c -> Q c) -> kids P s -> kids Q s.
Proof.
  intros H [H1 [H2 [H3 [H4 [H5 [H6 [H7 [H8 [H9 [H10 H11]]]]]]]]]].
  split; [intros c E; apply H, (H1 c E)|].
  split; [intros cs E; eapply Forall_impl; [|apply (H2 cs E)]; exact H|].
  split; [intros a c E; apply H, (H3 a c E)|].
  split; [eapply Forall_impl; [|exact H4]; intros a; apply H|].
  split; [eapply Forall_impl; [|exact H5]; intros a; apply H|].
  split; [intros a c E; apply H, (H6 a c E)|].
  split; [eapply Forall_impl; [|exact H7]; exact H|].
  split; [eapply Forall_impl; [|exact H8]; exact H|].
  split; [eapply Forall_impl; [|exact H9]; exact H|].
  split; [intros c E; apply H, (H10 c E)|].
  eapply Forall_impl; [|exact H11]. intros a Ha c E. apply H, Ha, E.
Qed.

Lemma resolve_ref_free defs fuel s : s_ref s = None -> resolve defs fuel s = Ok s.
Proof. intros H. destruct fuel; simpl; rewrite H; reflexivity. Qed.

Lemma eager_bounded defs : forall n fuel s, bounded n s -> (n <= fuel)%nat -> eager defs fuel s = Ok tt.
Proof.
  induction n as [|n IH]; intros fuel s Hb Hle; [destruct Hb|]. destruct fuel as [|f]; [lia|].
  destruct Hb as [Href K]. cbn [eager]. rewrite (resolve_ref_free defs f s Href). cbn [bind].
  destruct K as [_ [_ [_ [_ [_ [_ [Hall [Hany [Hone [Hnot _]]]]]]]]]].
  assert (HF : Forall (bounded n) (s_any_of s ++ s_all_of s ++ s_one_of s ++ match s_not s with Some c => [c] | None => [] end)).
  { repeat (apply Forall_app; split); try assumption. destruct (s_not s) eqn:E; [constructor; [apply Hnot; reflexivity | constructor] | constructor]. }
  induction HF as [|c t Hc Ht IHl]; [reflexivity|]. rewrite (IH f c Hc); [|lia]. cbn [bind]. exact IHl.
Qed.

(* C06, positive half: a verdict is returned, whatever the value *)
Theorem ref_free_schemas_terminate OR N opt defs : forall n fuel s,
  bounded n s -> (n < fuel)%nat -> forall p q d, tot (sv_validate OR N opt defs fuel s p q d).
Proof.
  induction n as [|n IH]; intros fuel s Hb Hlt p q d; [destruct Hb|]. destruct fuel as [|f]; [lia|].
  cbn [sv_validate]. rewrite (eager_bounded defs (S n) f s Hb); [|lia]. cbn [bind].
  destruct Hb as [Href K]. rewrite (resolve_ref_free defs f s Href). cbn [bind].
  apply tot_sv_body. eapply kids_impl; [|exact K]. intros c Hc p' q' d'. apply IH; [exact Hc | lia].
Qed.

Corollary against_schema_terminates OR N opt defs n fuel s d :
  bounded n s -> (n < fuel)%nat -> tot (against_schema OR N opt defs fuel s d).
Proof.
  intros Hb Hlt. unfold against_schema. apply tot_bind; [apply ref_free_schemas_terminate with (n := n); assumption | intros r; apply tot_ok].
Qed.

(* more fuel than needed changes nothing: the verdict does not depend on the fuel once it suffices *)
(* (stated for the record; proved below for the bounded class) *)
