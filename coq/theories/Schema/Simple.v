(* L1 model of the parameter / header / items validators (validator.go:37-224, 300-683, 685-790) and of
   the number validator with a declared type and format (validator.go:874-952, values.go:406-459).
   No proofs in this file. *)
From Coq Require Import List ZArith Bool.
From Verif Require Import Base.Sx Base.GoVal Schema.Ast Schema.Pipeline.
Import ListNotations.
Open Scope Z_scope.

(* spec.SimpleSchema + CommonValidations + nested Items *)
Inductive simple : Type := mkSimple {
  q_type : str;
  q_nullable : bool;
  q_format : str;
  q_default : option goval;
  q_enum : list goval;
  q_multiple_of : option f64;
  q_maximum : option f64;
  q_excl_max : bool;
  q_minimum : option f64;
  q_excl_min : bool;
  q_max_length : option Z;
  q_min_length : option Z;
  q_pattern : str;
  q_max_items : option Z;
  q_min_items : option Z;
  q_unique : bool;
  q_items : option simple;
}.

Record sroot : Type := {
  sr_header : bool;          (* HeaderValidator (true) or ParamValidator (false) *)
  sr_name : str;
  sr_required : bool;        (* param.Required; a header validator passes true *)
  sr_allow_empty : bool;     (* param.AllowEmptyValue; a header validator passes false *)
  sr_simple : simple;
}.

Definition P_NIL_ITEM : Z := 4.     (* retired: a nil array element used to panic at validator.go:84-85 (repaired) *)

Definition C_RANGE := 2001.         (* values.go:451-457 "... value must be of type ..." (plain error) *)
Definition C_INVALID_TYPE_NAME := 2002.   (* errors.InvalidTypeName: unknown format name *)

Section Simple.
Variable OR : oracles.
Variable N : numops.

Definition two31 : Z := 2147483648.
Definition two32 : Z := 4294967296.

(* values.go:406-459 IsValueValidAgainstRange: true = error *)
Definition int_value (d : goval) : option (option Z) :=    (* Some (Some z): integral value z; Some None: numeric, not integral *)
  match d with
  | VInt _ z => Some (Some z)
  | VFlt _ f => Some (n_exact_int N f)
  | _ => None
  end.

Definition k_uint32 : str := 24.
Definition k_uint64 : str := 25.
Definition k_float : str := 26.
Definition k_double : str := 27.

Definition range_bad (d : goval) (typ fmt : str) : bool :=
  match int_value d with
  | None => true                                  (* non numeric val *)
  | Some iv =>
      if Z.eqb typ k_integer then
        match iv with
        | None => true                            (* strconv.ParseInt on a literal with a fraction / NaN / Inf *)
        | Some z =>
            if Z.eqb fmt k_int32 then negb ((- two31 <=? z) && (z <? two31))
            else if Z.eqb fmt k_uint32 then negb ((0 <=? z) && (z <? two32))
            else if Z.eqb fmt k_uint64 then negb ((0 <=? z) && (z <? two64))
            else
              (* a float64 is formatted with its shortest decimal digits before strconv.ParseInt sees it: -2^63 prints as
                 -9223372036854776000, which is out of range (every other in-range float64 prints inside the range) *)
              let lo_ok := match d with VFlt _ _ => - two63 <? z | _ => - two63 <=? z end in
              negb (lo_ok && (z <? two63))
        end
      else
        if Z.eqb fmt k_float || Z.eqb fmt k_float32 then
          match d with VFlt _ f => negb (n_fits_f32 N f) | _ => false end
        else false
  end.

(* validator.go:874-952 with a declared type and format *)
Definition number_validate_tf (p : path) (q : simple) (d : goval) : res :=
  let typ := q_type q in
  let fmt := q_format q in
  let r0 := if range_bad d typ fmt then r_add new_res [mkMsg C_RANGE [] (0 :: path_code p)] else new_res in
  let constraint (which : Z) (c : option f64) (native : f64 -> bool) (general : f64 -> bool) (e : f64 -> msg) : option res :=
    match c with
    | None => None
    | Some cv =>
        let cd := VFlt false cv in
        if range_bad cd typ fmt
        then let r := r_add new_res [mkMsg C_RANGE [] (which :: path_code p)] in
             Some (if general cv then merge r (Some (s_err (e cv))) else r)
        else Some (if native cv then merge new_res (Some (s_err (e cv))) else new_res)
    end in
  let dflt := VFlt false (as_float64 N d) in
  let r_mult :=
    match q_multiple_of q with
    | None => None
    | Some f =>
        let out (m : mres) (r : res) :=
          match m with
          | MOk => r
          | MNotMultiple => merge r (Some (s_err (mkMsg C_MULTIPLE_OF p [f])))
          | MNotPositive => merge r (Some (s_err (mkMsg C_MULT_POSITIVE p [f])))
          end in
        if range_bad (VFlt false f) typ fmt
        then Some (out (n_mult_of N (as_float64 N d) f) (r_add new_res [mkMsg C_RANGE [] (1 :: path_code p)]))
        else Some (out (mult_native N d f) new_res)
    end in
  let r_max := constraint 2 (q_maximum q) (fun m => max_native N d m (q_excl_max q)) (fun m => max_native N dflt m (q_excl_max q))
                          (fun m => mkMsg C_MAX p [m; if q_excl_max q then 1 else 0]) in
  let r_min := constraint 3 (q_minimum q) (fun m => min_native N d m (q_excl_min q)) (fun m => min_native N dflt m (q_excl_min q))
                          (fun m => mkMsg C_MIN p [m; if q_excl_min q then 1 else 0]) in
  r_inc (merge (merge (merge r0 r_mult) r_min) r_max).

(* validator.go:1011-1047 with Required / AllowEmptyValue / Default *)
Definition string_validate_q (p : path) (q : simple) (required allow_empty : bool) (d : goval) : option res :=
  match d with
  | VStr x =>
      let default_empty := match q_default q with None => true | Some (VStr 0) => true | Some _ => false end in
      if required && negb allow_empty && default_empty && Z.eqb x 0 then Some (s_err (mkMsg C_REQUIRED p []))
      else
      let too_long := match q_max_length q with Some m => m <? o_rune_len OR x | None => false end in
      let too_short := match q_min_length q with Some m => o_rune_len OR x <? m | None => false end in
      if too_long then Some (s_err (mkMsg C_TOO_LONG p [match q_max_length q with Some m => m | None => 0 end]))
      else if too_short then Some (s_err (mkMsg C_TOO_SHORT p [match q_min_length q with Some m => m | None => 0 end]))
      else if Z.eqb (q_pattern q) 0 then None
      else if negb (o_re_ok OR (q_pattern q)) then Some (s_err (mkMsg C_PATTERN p [q_pattern q; -1]))
      else if negb (o_re_match OR (q_pattern q) x) then Some (s_err (mkMsg C_PATTERN p [q_pattern q]))
      else None
  | _ => Some (s_err (invalid_type p [k_string] (-2)))
  end.

(* formats.go:73-95 + values.go:302-314: the format checked is the validator's own, the applicability test
   (formats.go:57-71) looks at the format of the *source* (parameter / header) *)
Definition format_validate_q (p : path) (fmt : str) (d : goval) : res :=
  match d with
  | VStr x =>
      if negb (o_fmt_known OR fmt) then r_add new_res [mkMsg C_INVALID_TYPE_NAME [] [fmt]]
      else if o_fmt_check OR fmt x then new_res
      else r_add new_res [invalid_type p [fmt] x]
  | _ => new_res
  end.

Definition common_validate_q (p : path) (q : simple) (d : goval) : option res :=
  match q_enum q with
  | [] => None
  | en => if existsb (enum_match N d) en then None else Some (s_err (mkMsg C_ENUM p (flat_map goval_code en)))
  end.

Definition slice_elems (d : goval) : list goval :=
  match d with VArr _ l | VSlice _ l => l | _ => [] end.

(* the chain "if err != nil { if err.HasErrors() { Merge; break }; Merge }" over optional results *)
Fixpoint chain (inc : bool) (steps : list (unit -> outcome (option res))) (r : res) : outcome res :=
  match steps with
  | [] => Ok r
  | st :: t =>
      do x <- st tt;
      match x with
      | None => chain inc t r
      | Some e =>
          let r' := if inc then r_inc r else r in
          if r_valid e then chain inc t (merge r' (Some e)) else Ok (merge r' (Some e))
      end
  end.

(* validator.go:76-129 (itemsValidator.Validate) and 741-786 (basicSliceValidator.Validate), mutually recursive
   through nested items: structural on the items description *)
Fixpoint items_validate (root_format : str) (it : simple) (p : path) (index : Z) (d : goval) {struct it} : outcome res :=
  (* a nil element has kind Invalid: only the type and enum steps apply (validator.go:84-87) *)
      let p' := p ++ [SIdx index] in
      let slice_step :=
        (fun _ : unit =>
           if is_slice_kind d then
             let l := slice_elems d in
             let size := Z.of_nat (length l) in
             let too_few := match q_min_items it with Some m => size <? m | None => false end in
             let too_many := match q_max_items it with Some m => m <? size | None => false end in
             if too_few then Ok (Some (s_err (mkMsg C_MIN_ITEMS p' [match q_min_items it with Some m => m | None => 0 end])))
             else if too_many then Ok (Some (s_err (mkMsg C_MAX_ITEMS p' [match q_max_items it with Some m => m | None => 0 end])))
             else if q_unique it && unique_items N [] l then Ok (Some (s_err (mkMsg C_UNIQUE p' [])))
             else match q_items it with
                  | None => Ok None
                  | Some it' =>
                      (fix each (l : list goval) (i : Z) : outcome (option res) :=
                         match l with
                         | [] => Ok None
                         | v :: t => do x <- items_validate root_format it' p' i v;
                                     if r_valid x then each t (i + 1) else Ok (Some x)
                         end) l 0
                  end
           else Ok None) in
      chain true
        [ (fun _ => Ok (Some (type_validate N p' [q_type it] (q_nullable it) (q_format it) d)));
          (fun _ => Ok (if is_string_kind d then string_validate_q p' it false false d else None));
          (fun _ => Ok (if is_string_kind d && o_fmt_known OR root_format then Some (format_validate_q p' (q_format it) d) else None));
          (fun _ => Ok (if is_number_kind d then Some (number_validate_tf p' it d) else None));
          slice_step;
          (fun _ => Ok (common_validate_q p' it d)) ]
        new_res.

Definition basic_slice_validate (root_format : str) (q : simple) (p : path) (d : goval) : outcome (option res) :=
  let l := slice_elems d in
  let size := Z.of_nat (length l) in
  let too_few := match q_min_items q with Some m => size <? m | None => false end in
  let too_many := match q_max_items q with Some m => m <? size | None => false end in
  if too_few then Ok (Some (s_err (mkMsg C_MIN_ITEMS p [match q_min_items q with Some m => m | None => 0 end])))
  else if too_many then Ok (Some (s_err (mkMsg C_MAX_ITEMS p [match q_max_items q with Some m => m | None => 0 end])))
  else if q_unique q && unique_items N [] l then Ok (Some (s_err (mkMsg C_UNIQUE p [])))
  else match q_items q with
       | None => Ok None
       | Some it =>
           (fix each (l : list goval) (i : Z) : outcome (option res) :=
              match l with
              | [] => Ok None
              | v :: t => do x <- items_validate root_format it p i v;
                          if r_valid x then each t (i + 1) else Ok (Some x)
              end) l 0
       end.

(* validator.go:546-599 (ParamValidator.Validate) and 355-407 (HeaderValidator.Validate): nil is not validated *)
Definition simple_validate (sr : sroot) (d : goval) : outcome (option res) :=
  match d with
  | VNil => Ok None
  | _ =>
      let q := sr_simple sr in
      let p := [SRoot (sr_name sr)] in
      do r <- chain false
        [ (fun _ => Ok (Some (type_validate N p [q_type q] (q_nullable q) (q_format q) d)));
          (fun _ => Ok (if is_string_kind d then string_validate_q p q (sr_required sr) (sr_allow_empty sr) d else None));
          (fun _ => Ok (if is_string_kind d && o_fmt_known OR (q_format q) then Some (format_validate_q p (q_format q) d) else None));
          (fun _ => Ok (if is_number_kind d then Some (number_validate_tf p q d) else None));
          (fun _ => if is_slice_kind d then basic_slice_validate (q_format q) q p d else Ok None);
          (fun _ => Ok (common_validate_q p q d)) ]
        new_res;
      Ok (Some r)
  end.

End Simple.

(* ---- codec ---- *)
Fixpoint get_simple_fuel (fuel : nat) (s : sx) : option simple :=
  match fuel with
  | O => None
  | S f =>
      match s with
      | L [A typ; nullable; A fmt; dflt; enum; mult; maxi; exmax; mini; exmin; maxlen; minlen; A pat; maxit; minit; unique; items] =>
          match getBool nullable, getOpt get_goval dflt, getList get_goval enum, getOpt getZ mult, getOpt getZ maxi,
                getBool exmax, getOpt getZ mini, getBool exmin with
          | Some nullable, Some dflt, Some enum, Some mult, Some maxi, Some exmax, Some mini, Some exmin =>
              match getOpt getZ maxlen, getOpt getZ minlen, getOpt getZ maxit, getOpt getZ minit, getBool unique,
                    getOpt (get_simple_fuel f) items with
              | Some maxlen, Some minlen, Some maxit, Some minit, Some unique, Some items =>
                  Some (mkSimple typ nullable fmt dflt enum mult maxi exmax mini exmin maxlen minlen pat maxit minit unique items)
              | _, _, _, _, _, _ => None
              end
          | _, _, _, _, _, _, _, _ => None
          end
      | _ => None
      end
  end.
Definition get_simple (s : sx) : option simple := get_simple_fuel (S (sx_depth s)) s.

Definition get_sroot (s : sx) : option sroot :=
  match s with
  | L [hdr; A name; req; allow; q] =>
      match getBool hdr, getBool req, getBool allow, get_simple q with
      | Some hdr, Some req, Some allow, Some q =>
          Some {| sr_header := hdr; sr_name := name; sr_required := req; sr_allow_empty := allow; sr_simple := q |}
      | _, _, _, _ => None
      end
  | _ => None
  end.
