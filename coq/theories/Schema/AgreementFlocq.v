(* The binary64 instance used by the tie satisfies the order hypothesis of the agreement theorems on finite numbers
   (JSON has no others): the theorems therefore speak about the very model instance that is run against Go. *)
From Coq Require Import ZArith Bool.
From Flocq Require Import IEEE754.BinarySingleNaN IEEE754.Binary IEEE754.Bits.
From Verif Require Import Base.GoVal Base.F64.
Open Scope Z_scope.

Lemma flocq_order_total : forall a b, f_finite a = true -> f_finite b = true ->
  n_lt flocq_ops a b = negb (n_le flocq_ops b a).
Proof.
  intros a b Ha Hb. cbn [n_lt n_le flocq_ops]. unfold f_lt, f_le, f_cmp, b64_compare.
  rewrite (Binary.Bcompare_swap 53 1024 (fb a) (fb b)).
  unfold f_finite in Ha, Hb. rewrite (Binary.Bcompare_correct 53 1024 (fb a) (fb b) Ha Hb). cbn [CompOpp].
  destruct (Raux.Rcompare (Binary.B2R 53 1024 (fb a)) (Binary.B2R 53 1024 (fb b))); reflexivity.
Qed.

Lemma flocq_eq_sym : forall a b, f_finite a = true -> f_finite b = true -> n_eq flocq_ops a b = n_eq flocq_ops b a.
Proof.
  intros a b Ha Hb. cbn [n_eq flocq_ops]. unfold f_eq, f_cmp, b64_compare.
  rewrite (Binary.Bcompare_swap 53 1024 (fb a) (fb b)).
  destruct (Binary.Bcompare 53 1024 (fb a) (fb b)) as [[| |]|]; reflexivity.
Qed.
