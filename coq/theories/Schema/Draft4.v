(* L0: JSON Schema draft 4 validity (the vocabulary the library supports), written from the
   specification and not from the code: one boolean per keyword, conjunction of all keywords.
   Numbers go through the same abstract [numops] as the code model (the relation between binary64
   operations and exact arithmetic is the subject of Numeric.v / C13); strings through the same oracles. *)
From Coq Require Import List ZArith Bool.
From Verif Require Import Base.Sx Base.GoVal Schema.Ast.
Import ListNotations.
Open Scope Z_scope.

Section D4.
Variable OR : oracles.
Variable N : numops.
Variable defs : env.

(* JSON equality: numbers by value, arrays pointwise, objects as maps *)
Fixpoint json_eq_fuel (fuel : nat) (a b : goval) : bool :=
  match fuel with
  | O => false
  | S f =>
      match a, b with
      | VNil, VNil => true
      | VBool x, VBool y => Bool.eqb x y
      | VStr x, VStr y => Z.eqb x y
      | VFlt _ x, VFlt _ y => n_eq N x y
      | VArr _ l1, VArr _ l2 =>
          (fix go (l1 l2 : list goval) : bool :=
             match l1, l2 with
             | [], [] => true
             | x :: t1, y :: t2 => json_eq_fuel f x y && go t1 t2
             | _, _ => false
             end) l1 l2
      | VObj _ m1, VObj _ m2 =>
          Nat.eqb (length m1) (length m2) &&
          forallb (fun kv => existsb (fun kv2 => Z.eqb (fst kv) (fst kv2) && json_eq_fuel f (snd kv) (snd kv2)) m2) m1
      | _, _ => false
      end
  end.

Fixpoint jdepth (v : goval) : nat :=
  match v with
  | VArr _ l => S (fold_left (fun acc e => Nat.max acc (jdepth e)) l O)
  | VObj _ m => S (fold_left (fun acc kv => Nat.max acc (jdepth (snd kv))) m O)
  | _ => 1%nat
  end.

Definition json_eq (a b : goval) : bool := json_eq_fuel (S (jdepth a)) a b.

Fixpoint mem_str (x : str) (l : list str) : bool :=
  match l with [] => false | y :: t => Z.eqb x y || mem_str x t end.

(* 5.5.2 type *)
Definition has_type (t : str) (d : goval) : bool :=
  match d with
  | VNil => Z.eqb t k_null
  | VBool _ => Z.eqb t k_boolean
  | VStr _ => Z.eqb t k_string
  | VFlt _ f => Z.eqb t k_number || (Z.eqb t k_integer && n_is_int N f)
  | VArr _ _ => Z.eqb t k_array
  | VObj _ _ => Z.eqb t k_object
  | _ => false
  end.

Definition type_ok (s : schema) (d : goval) : bool :=
  match s_types s with [] => true | ts => existsb (fun t => has_type t d) ts end.

(* 5.5.1 enum *)
Definition enum_ok (s : schema) (d : goval) : bool :=
  match s_enum s with [] => true | en => existsb (json_eq d) en end.

(* 5.1 numeric keywords apply to numbers only *)
Definition numeric_ok (s : schema) (d : goval) : bool :=
  match d with
  | VFlt _ f =>
      (match s_maximum s with
       | Some m => if s_excl_max s then n_lt N f m else n_le N f m
       | None => true
       end) &&
      (match s_minimum s with
       | Some m => if s_excl_min s then n_lt N m f else n_le N m f
       | None => true
       end) &&
      (match s_multiple_of s with
       | Some m => match n_mult_of N f m with MOk => true | _ => false end
       | None => true
       end)
  | _ => true
  end.

(* 5.2 string keywords, and format as an assertion delegated to the registry *)
Definition string_ok (s : schema) (d : goval) : bool :=
  match d with
  | VStr x =>
      (match s_max_length s with Some m => o_rune_len OR x <=? m | None => true end) &&
      (match s_min_length s with Some m => m <=? o_rune_len OR x | None => true end) &&
      (if Z.eqb (s_pattern s) 0 then true else o_re_match OR (s_pattern s) x) &&
      (if o_fmt_known OR (s_format s) then o_fmt_check OR (s_format s) x else true)
  | _ => true
  end.

Fixpoint has_dup (l : list goval) : bool :=
  match l with
  | [] => false
  | x :: t => existsb (json_eq x) t || has_dup t
  end.

Fixpoint lookup_member (m : list (str * goval)) (k : str) : option goval :=
  match m with
  | [] => None
  | (k', v) :: t => if Z.eqb k k' then Some v else lookup_member t k
  end.

(* conjunction of partial booleans: None as soon as one is None *)
Fixpoint all_opt (l : list (option bool)) : option bool :=
  match l with
  | [] => Some true
  | None :: _ => None
  | Some b :: t => match all_opt t with Some c => Some (b && c) | None => None end
  end.

Fixpoint count_true (l : list (option bool)) : option Z :=
  match l with
  | [] => Some 0
  | None :: _ => None
  | Some b :: t => match count_true t with Some c => Some (if b then c + 1 else c) | None => None end
  end.

Variable rec : schema -> goval -> option bool.

(* 5.3 array keywords *)
Definition array_ok (s : schema) (d : goval) : option bool :=
  match d with
  | VArr _ l =>
      let size := Z.of_nat (length l) in
      let sizes := (match s_max_items s with Some m => size <=? m | None => true end) &&
                   (match s_min_items s with Some m => m <=? size | None => true end) &&
                   (if s_unique s then negb (has_dup l) else true) in
      let items :=
        match s_items_one s, s_items_tuple s with
        | Some s1, _ => all_opt (map (rec s1) l)                    (* items is a schema: every element; additionalItems ignored *)
        | None, Some tuple =>                                       (* items is an array *)
            let positional := all_opt (map (fun sv => rec (fst sv) (snd sv)) (combine tuple l)) in
            let rest := skipn (length tuple) l in
            let additional :=
              match s_add_items s with
              | Some (allows, Some sa) => all_opt (map (rec sa) rest)
              | Some (false, None) => Some (match rest with [] => true | _ => false end)
              | _ => Some true
              end in
            all_opt [positional; additional]
        | None, None => Some true                                   (* items absent: additionalItems ignored *)
        end in
      all_opt [Some sizes; items]
  | _ => Some true
  end.

(* 5.4 object keywords *)
Definition object_ok (s : schema) (d : goval) : option bool :=
  match d with
  | VObj _ m =>
      let n := Z.of_nat (length m) in
      let sizes := (match s_max_props s with Some mx => n <=? mx | None => true end) &&
                   (match s_min_props s with Some mn => mn <=? n | None => true end) in
      let required := forallb (fun k => match lookup_member m k with Some _ => true | None => false end) (s_required s) in
      let member (kv : str * goval) : option bool :=
        let (k, v) := kv in
        let by_prop := match lookup_schema (s_props s) k with Some ps => [rec ps v] | None => [] end in
        let by_pat := flat_map (fun pp => if o_re_match OR (fst pp) k then [rec (snd pp) v] else []) (s_pat_props s) in
        let described := match by_prop, by_pat with [], [] => false | _, _ => true end in
        let additional :=
          if described then []
          else match s_add_props s with
               | Some (_, Some sa) => [rec sa v]
               | Some (false, None) => [Some false]
               | _ => []
               end in
        all_opt (by_prop ++ by_pat ++ additional) in
      let deps :=
        all_opt (map (fun dep =>
                        let '(k, (ds, props)) := dep in
                        match lookup_member m k with
                        | None => Some true
                        | Some _ =>
                            match ds with
                            | Some dsch => rec dsch d
                            | None => Some (forallb (fun pk => match lookup_member m pk with Some _ => true | None => false end) props)
                            end
                        end) (s_deps s)) in
      all_opt [Some sizes; Some required; all_opt (map member m); deps]
  | _ => Some true
  end.

(* 5.5.3 - 5.5.6 *)
Definition composition_ok (s : schema) (d : goval) : option bool :=
  let all := all_opt (map (fun c => rec c d) (s_all_of s)) in
  let any := match s_any_of s with
             | [] => Some true
             | l => match count_true (map (fun c => rec c d) l) with Some c => Some (0 <? c) | None => None end
             end in
  let one := match s_one_of s with
             | [] => Some true
             | l => match count_true (map (fun c => rec c d) l) with Some c => Some (Z.eqb c 1) | None => None end
             end in
  let nt := match s_not s with
            | None => Some true
            | Some ns => match rec ns d with Some b => Some (negb b) | None => None end
            end in
  all_opt [all; any; one; nt].

Definition d4_body (s : schema) (d : goval) : option bool :=
  all_opt [Some (type_ok s d); Some (enum_ok s d); Some (numeric_ok s d); Some (string_ok s d);
           array_ok s d; object_ok s d; composition_ok s d].

End D4.

(* a schema that is a reference is its target (siblings of $ref are ignored) *)
Fixpoint d4 (OR : oracles) (N : numops) (defs : env) (fuel : nat) (s : schema) (d : goval) : option bool :=
  match fuel with
  | O => None
  | S f =>
      match s_ref s with
      | Some n => match lookup_def defs n with Some t => d4 OR N defs f t d | None => None end
      | None => d4_body OR N (d4 OR N defs f) s d
      end
  end.
