(* The data class of the agreement theorems (Agreement.v) and the facts about values that do not depend on schemas. *)
From Coq Require Import List ZArith Bool Lia.
From Verif Require Import Base.Sx Base.GoVal Schema.Ast Schema.Pipeline Schema.Draft4.
Import ListNotations.
Open Scope Z_scope.

(* ------------------------------------------------------------------ JSON data *)

Definition plain_key (k : str) : Prop := k <> k_dollar_schema /\ k <> k_id /\ k <> k_headers.

Section Data.
(* the numbers of the data and of the schema are finite (JSON has no other) *)
Variable fin : f64 -> Prop.
(* null in the data is admitted only together with schemas free of allOf / anyOf / not at every level (see [local_clean]) *)
Variable allow_null : bool.
(* arrays in the data are admitted only together with schemas whose formats sit next to a type list that accepts arrays (see [local_clean]) *)
Variable allow_arr : bool.

Fixpoint jd (v : goval) : Prop :=
  match v with
  | VNil => allow_null = true
  | VBool _ | VStr _ => True
  | VFlt is32 f => is32 = false /\ fin f
  | VArr _ l => allow_arr = true /\ (fix all (l : list goval) : Prop := match l with [] => True | x :: t => jd x /\ all t end) l
  | VObj _ m =>
      (fix all (m : list (str * goval)) : Prop :=
         match m with [] => True | kv :: t => plain_key (fst kv) /\ jd (snd kv) /\ all t end) m /\
      NoDup (map fst m)
  | _ => False
  end.

Lemma jd_arr id l : jd (VArr id l) <-> allow_arr = true /\ Forall jd l.
Proof.
  cbn [jd]. assert (E : (fix all (l : list goval) : Prop := match l with [] => True | x :: t => jd x /\ all t end) l <-> Forall jd l).
  { induction l as [|x t IH]; [split; [constructor | intros; exact I]|].
    split; [intros [H1 H2]; constructor; [exact H1 | apply IH; exact H2] | intros H; inversion H; subst; split; [assumption | apply IH; assumption]]. }
  rewrite E. reflexivity.
Qed.

Lemma jd_obj id m : jd (VObj id m) <-> Forall (fun kv => plain_key (fst kv) /\ jd (snd kv)) m /\ NoDup (map fst m).
Proof.
  cbn [jd]. assert (E : forall m : list (str * goval),
    (fix all (m : list (str * goval)) : Prop := match m with [] => True | kv :: t => plain_key (fst kv) /\ jd (snd kv) /\ all t end) m
    <-> Forall (fun kv => plain_key (fst kv) /\ jd (snd kv)) m).
  { intros mm. induction mm as [|x t IH]; [split; [constructor | intros; exact I]|].
    split; [intros [H1 [H2 H3]]; constructor; [split; assumption | apply IH; exact H3]
           | intros H; inversion H as [|y ys [Hy1 Hy2] Hys]; subst; split; [assumption | split; [assumption | apply IH; assumption]]]. }
  rewrite E. reflexivity.
Qed.

(* the two depth functions coincide on JSON data *)
Lemma depth_eq : forall v, jd v -> goval_depth v = jdepth v.
Proof.
  fix IH 1. intros v. destruct v as [| | | | | |id l| |id m]; intros H; try reflexivity; try (exfalso; exact H).
  - cbn [goval_depth jdepth]. f_equal. cbn [jd] in H. destruct H as [_ H]. generalize 0%nat as acc. revert l H.
    fix IHl 1. intros l. destruct l as [|x t]; intros H acc; [reflexivity|]. destruct H as [Hx Ht].
    cbn [fold_left]. rewrite (IH x Hx). apply (IHl t Ht).
  - cbn [goval_depth jdepth]. f_equal. apply jd_obj in H. destruct H as [H _]. generalize 0%nat as acc. revert m H.
    fix IHm 1. intros m. destruct m as [|kv t]; intros H acc; [reflexivity|]. inversion H as [|y ys [_ Hx] Ht]; subst.
    cbn [fold_left]. rewrite (IH (snd kv) Hx). apply (IHm t Ht).
Qed.

Section Values.
Variable N : numops.

(* ------------------------------------------------------------------ equality of JSON values *)

Lemma find_first_nodup (m : list (str * goval)) (k : str) (P : goval -> bool) :
  NoDup (map fst m) ->
  match (fix find (m : list (str * goval)) : option goval :=
           match m with [] => None | (k', v) :: t => if Z.eqb k' k then Some v else find t end) m with
  | Some v2 => P v2
  | None => false
  end = existsb (fun kv2 => Z.eqb k (fst kv2) && P (snd kv2)) m.
Proof.
  induction m as [|[k' v] t IH]; intros Hnd; [reflexivity|]. cbn [existsb fst snd map] in *. inversion Hnd as [|x xs Hx Hxs]; subst.
  rewrite (Z.eqb_sym k k'). destruct (Z.eqb_spec k' k) as [e|ne].
  - subst. cbn [andb]. destruct (P v); [reflexivity|]. cbn [orb]. symmetry. apply not_true_iff_false. intros H.
    apply existsb_exists in H. destruct H as [[k2 v2] [Hin H]]. cbn [fst snd] in H. apply andb_true_iff in H. destruct H as [H _].
    apply Z.eqb_eq in H. subst. apply Hx. apply in_map_iff. exists (k2, v2). split; [reflexivity | exact Hin].
  - cbn [andb orb]. apply IH. exact Hxs.
Qed.

Lemma deq_jeq : forall fuel a b, jd a -> jd b -> deep_eq_fuel N fuel a b = json_eq_fuel N fuel a b.
Proof.
  induction fuel as [|f IH]; intros a b Ha Hb; [reflexivity|].
  destruct a as [| | |a32 fa| | |ida la| |ida ma]; try (exfalso; exact Ha); destruct b as [| | |b32 fb| | |idb lb| |idb mb]; try (exfalso; exact Hb); try reflexivity.
  - cbn [deep_eq_fuel json_eq_fuel]. cbn [jd] in Ha, Hb. destruct Ha as [-> _]. destruct Hb as [-> _]. reflexivity.
  - cbn [deep_eq_fuel json_eq_fuel]. apply jd_arr in Ha. apply jd_arr in Hb. destruct Ha as [_ Ha]. destruct Hb as [_ Hb]. revert lb Hb.
    induction Ha as [|x t Hx Ht IHl]; intros [|y u] Hb; try reflexivity. inversion Hb; subst.
    rewrite (IH x y); [|assumption|assumption]. f_equal. apply IHl. assumption.
  - cbn [deep_eq_fuel json_eq_fuel]. apply jd_obj in Ha. apply jd_obj in Hb. destruct Ha as [Ha _]. destruct Hb as [Hb Hnd]. f_equal.
    induction Ha as [|kv t [_ Hkv] Ht IHl]; [reflexivity|]. cbn [forallb]. rewrite IHl. f_equal.
    transitivity (existsb (fun kv2 => Z.eqb (fst kv) (fst kv2) && deep_eq_fuel N f (snd kv) (snd kv2)) mb);
      [exact (find_first_nodup mb (fst kv) (fun v2 => deep_eq_fuel N f (snd kv) v2) Hnd)|].
    clear - IH Hkv Hb. induction Hb as [|kv2 u [_ Hkv2] Hu IHu]; [reflexivity|]. cbn [existsb]. rewrite <- IHu.
    f_equal. f_equal. apply IH; assumption.
Qed.

Lemma deep_eq_json_eq a b : jd a -> jd b -> deep_eq N a b = json_eq N a b.
Proof. intros Ha Hb. unfold deep_eq, json_eq. rewrite (depth_eq a Ha). apply deq_jeq; assumption. Qed.

Lemma enum_match_json_eq d e : jd d -> jd e -> enum_match N d e = json_eq N d e.
Proof.
  intros Hd He. pose proof (deep_eq_json_eq d e Hd He) as H.
  destruct d as [| | |d32 fd| | |idd ld| |idd md]; try (exfalso; exact Hd); destruct e as [| | |e32 fe| | |ide le| |ide me]; try (exfalso; exact He);
    try exact H; try reflexivity.
  cbn [jd] in Hd, He. destruct Hd as [-> _]. destruct He as [-> _]. reflexivity.
Qed.

End Values.
End Data.

Arguments jd_arr {fin allow_null allow_arr} id l.
Arguments jd_obj {fin allow_null allow_arr} id m.
Arguments depth_eq {fin allow_null allow_arr} v _.
Arguments deq_jeq {fin allow_null allow_arr N} fuel a b _ _.
Arguments deep_eq_json_eq {fin allow_null allow_arr N} a b _ _.
Arguments enum_match_json_eq {fin allow_null allow_arr N} d e _ _.

(* the class with null and arrays admitted contains the others *)
Lemma jd_mono (fin : f64 -> Prop) (an aa : bool) : forall d, jd fin an aa d -> jd fin true true d.
Proof.
  fix IH 1. intros d. destruct d as [| | |d32 f| | |id l| |id m]; intros H; try exact H; try reflexivity.
  - apply jd_arr. apply jd_arr in H. destruct H as [_ H]. split; [reflexivity|]. revert l H. fix IHl 1. intros l H.
    destruct l as [|x t]; [constructor|]. inversion H; subst. constructor; [apply IH; assumption | apply IHl; assumption].
  - apply jd_obj. apply jd_obj in H. destruct H as [H Hnd]. split; [|exact Hnd]. clear Hnd. revert m H. fix IHm 1. intros m H.
    destruct m as [|kv t]; [constructor|]. inversion H as [|y ys [Hk Hv] Ht]; subst.
    constructor; [split; [exact Hk | apply IH; exact Hv] | apply IHm; exact Ht].
Qed.
