(* The class of Schema/SimpleAgree.v is decidable: the procedure evaluated by the correspondence run on every case. *)
From Coq Require Import List ZArith Bool Lia.
From Verif Require Import Base.Sx Base.GoVal Schema.Ast Schema.Pipeline Schema.Draft4 Schema.Simple Schema.AgreementData
  Schema.AgreementDec Schema.SimpleAgree.
Import ListNotations.
Open Scope Z_scope.

Section Dec.
Variable OR : oracles.
Variable N : numops.
Variable fin_b : f64 -> bool.
Notation jdb := (jd_b fin_b false true).

Definition bound_b (q : simple) (o : option f64) (need_fin : bool) : bool :=
  match o with
  | Some m => (negb need_fin || fin_b m) && negb (range_bad N (VFlt false m) (q_type q) (q_format q))
  | None => true
  end.

Definition qlocal_b (rf : str) (q : simple) : bool :=
  negb (q_nullable q) && forallb (fun e => jd_bf fin_b true true (S (goval_depth e)) e) (q_enum q) &&
  (Z.eqb (q_pattern q) 0 || o_re_ok OR (q_pattern q)) &&
  bound_b q (q_maximum q) true && bound_b q (q_minimum q) true && bound_b q (q_multiple_of q) false &&
  Bool.eqb (o_fmt_known OR rf) (o_fmt_known OR (q_format q)).

Definition qfits1_b (q : simple) (d : goval) : bool :=
  (Z.eqb (q_format q) 0 || numeric_q q ||
   ((match d with VStr _ => Z.eqb (q_type q) k_string | _ => true end) &&
    (match d with VArr _ _ => Z.eqb (q_type q) k_array | _ => true end))) &&
  (match d with VFlt _ f => negb (match n_exact_int N f with Some z => Z.eqb z (- two63) | None => false end) | _ => true end).

Fixpoint qclean_b (rf : str) (q : simple) {struct q} : bool :=
  qlocal_b rf q && match q_items q with Some it => qclean_b rf it | None => true end.

Fixpoint qfits_b (q : simple) (d : goval) {struct q} : bool :=
  qfits1_b q d &&
  match q_items q with
  | Some it => match d with VArr _ l => forallb (qfits_b it) l | _ => true end
  | None => true
  end.

Lemma qclean_b_eq rf q : qclean_b rf q = (qlocal_b rf q && match q_items q with Some it => qclean_b rf it | None => true end).
Proof. destruct q; reflexivity. Qed.
Lemma qfits_b_eq q d : qfits_b q d = (qfits1_b q d && match q_items q with
                                                     | Some it => match d with VArr _ l => forallb (qfits_b it) l | _ => true end
                                                     | None => true end).
Proof. destruct q; reflexivity. Qed.

Lemma forallb_Forall' {A} (P : A -> Prop) (f : A -> bool) l : (forall x, f x = true -> P x) -> forallb f l = true -> Forall P l.
Proof.
  intros H. induction l as [|x t IH]; intros E; [constructor|]. cbn [forallb] in E. apply andb_true_iff in E. destruct E as [E1 E2].
  constructor; [apply H; exact E1 | apply IH; exact E2].
Qed.

Lemma qlocal_b_sound rf q : qlocal_b rf q = true -> qlocal OR N (finP fin_b) rf q.
Proof.
  intros H. unfold qlocal_b in H. repeat (apply andb_true_iff in H; let H' := fresh "L" in destruct H as [H H']).
  unfold qlocal.
  split; [apply negb_true_iff; exact H|].
  split; [apply (forallb_Forall' _ _ _ (fun e He => jd_bf_sound fin_b true true _ e He) L4)|].
  split; [apply orb_true_iff in L3; destruct L3 as [E | E]; [left; apply Z.eqb_eq; exact E | right; exact E]|].
  split; [intros m E; rewrite E in L2; cbn [bound_b negb orb] in L2; apply andb_true_iff in L2; destruct L2 as [A B]; split; [exact A | apply negb_true_iff; exact B]|].
  split; [intros m E; rewrite E in L1; cbn [bound_b negb orb] in L1; apply andb_true_iff in L1; destruct L1 as [A B]; split; [exact A | apply negb_true_iff; exact B]|].
  split; [intros m E; rewrite E in L0; cbn [bound_b negb orb andb] in L0; apply negb_true_iff; exact L0|].
  apply Bool.eqb_prop. exact L.
Qed.

Lemma qfits1_b_sound q d : qfits1_b q d = true -> qfits1 N q d.
Proof.
  intros H. unfold qfits1_b in H. apply andb_true_iff in H. destruct H as [H1 H2]. split.
  - apply orb_true_iff in H1. destruct H1 as [H1 | H1]; [apply orb_true_iff in H1; destruct H1 as [H1 | H1]; [left; apply Z.eqb_eq; exact H1 | right; left; exact H1]|].
    right. right. apply andb_true_iff in H1. destruct H1 as [A B]. split.
    + intros x E. subst d. apply Z.eqb_eq. exact A.
    + intros id l E. subst d. apply Z.eqb_eq. exact B.
  - intros b f E. subst d. apply negb_true_iff in H2. intros C. rewrite C, Z.eqb_refl in H2. discriminate.
Qed.

Theorem qclean_b_sound rf : forall q, qclean_b rf q = true -> qclean OR N (finP fin_b) rf q.
Proof.
  fix IH 1. intros q H. rewrite qclean_b_eq in H. rewrite qclean_eq. apply andb_true_iff in H. destruct H as [H1 H2].
  split; [apply qlocal_b_sound; exact H1|]. destruct (q_items q) as [it|]; [apply IH; exact H2 | exact I].
Qed.

Theorem qfits_b_sound : forall q d, qfits_b q d = true -> qfits N q d.
Proof.
  fix IH 1. intros q d H. rewrite qfits_b_eq in H. rewrite qfits_eq. apply andb_true_iff in H. destruct H as [H1 H2].
  split; [apply qfits1_b_sound; exact H1|]. destruct (q_items q) as [it|]; [|exact I].
  destruct d; try exact I. apply (forallb_Forall' _ _ _ (fun v Hv => IH it v Hv) H2).
Qed.

End Dec.
