(* Whole-tree facts of the post-processing model (C18, C19): the recursion equations of apply_defaults / prune hold at
   every nesting level (the fuel of the model is never the reason for an answer), so the per-object theorems of
   PostFacts.v apply to every object of the instance, however deep; pruning is idempotent, never deepens a value, and
   at every level only ever removes members. *)
From Coq Require Import List ZArith Bool Lia.
From Verif Require Import Base.Sx Base.GoVal Schema.Ast Schema.Pipeline Schema.PipelineTermRec Schema.Post Schema.PostFacts.
Import ListNotations.
Open Scope Z_scope.

(* ------------------------------------------------------------------ the fuel is immaterial *)

Lemma apply_defaults_fuel_stable r : forall f1 f2 d,
  (goval_depth d < f1)%nat -> (goval_depth d < f2)%nat -> apply_defaults_fuel f1 r d = apply_defaults_fuel f2 r d.
Proof.
  induction f1 as [|f1 IH]; intros f2 d H1 H2; [lia|]. destruct f2 as [|f2]; [lia|].
  destruct d as [| | | | | |sl l| |id m]; try reflexivity; cbn [apply_defaults_fuel].
  - f_equal. apply map_ext_in. intros v Hv. pose proof (depth_elem sl l v Hv) as Hd. apply IH; lia.
  - f_equal. f_equal. apply map_ext_in. intros kv Hkv. pose proof (depth_member id m kv Hkv) as Hd.
    f_equal. apply IH; lia.
Qed.

Lemma prune_fuel_stable r : forall f1 f2 d,
  (goval_depth d < f1)%nat -> (goval_depth d < f2)%nat -> prune_fuel f1 r d = prune_fuel f2 r d.
Proof.
  induction f1 as [|f1 IH]; intros f2 d H1 H2; [lia|]. destruct f2 as [|f2]; [lia|].
  destruct d as [| | | | | |sl l| |id m]; try reflexivity; cbn [prune_fuel].
  - f_equal. apply map_ext_in. intros v Hv. pose proof (depth_elem sl l v Hv) as Hd. apply IH; lia.
  - f_equal. apply map_ext_in. intros kv Hkv. apply filter_In in Hkv as [Hkv _].
    pose proof (depth_member id m kv Hkv) as Hd. f_equal. apply IH; lia.
Qed.

(* ------------------------------------------------------------------ recursion equations, at every depth *)

Theorem apply_defaults_obj_eq r id m :
  apply_defaults r (VObj id m) =
  VObj id (map (fun kv => (fst kv, apply_defaults r (snd kv))) m ++ added_members r id m).
Proof.
  unfold apply_defaults at 1. cbn [apply_defaults_fuel]. f_equal. f_equal. apply map_ext_in. intros kv Hkv.
  pose proof (depth_member id m kv Hkv) as Hd. f_equal. unfold apply_defaults. apply apply_defaults_fuel_stable; lia.
Qed.

Theorem apply_defaults_arr_eq r sl l :
  apply_defaults r (VArr sl l) = VArr sl (map (apply_defaults r) l).
Proof.
  unfold apply_defaults at 1. cbn [apply_defaults_fuel]. f_equal. apply map_ext_in. intros v Hv.
  pose proof (depth_elem sl l v Hv) as Hd. unfold apply_defaults. apply apply_defaults_fuel_stable; lia.
Qed.

Theorem apply_defaults_scalar_eq r v : is_container v = false -> apply_defaults r v = v.
Proof. intros H. unfold apply_defaults. apply apply_defaults_fuel_scalar. exact H. Qed.

Theorem prune_obj_eq r id m :
  prune r (VObj id m) =
  VObj id (map (fun kv => (fst kv, prune r (snd kv))) (filter (fun kv => has_field_entry r id (fst kv)) m)).
Proof.
  unfold prune at 1. cbn [prune_fuel]. f_equal. apply map_ext_in. intros kv Hkv. apply filter_In in Hkv as [Hkv _].
  pose proof (depth_member id m kv Hkv) as Hd. f_equal. unfold prune. apply prune_fuel_stable; lia.
Qed.

Theorem prune_arr_eq r sl l : prune r (VArr sl l) = VArr sl (map (prune r) l).
Proof.
  unfold prune at 1. cbn [prune_fuel]. f_equal. apply map_ext_in. intros v Hv.
  pose proof (depth_elem sl l v Hv) as Hd. unfold prune. apply prune_fuel_stable; lia.
Qed.

Theorem prune_scalar_eq r v : is_container v = false -> prune r v = v.
Proof. intros H. unfold prune. destruct v; try reflexivity; discriminate H. Qed.

(* ------------------------------------------------------------------ pruning never deepens a value *)

Lemma fold_max_le {A} (f : A -> nat) (l : list A) (b : nat) :
  (forall x, In x l -> (f x <= b)%nat) -> forall acc, (acc <= b)%nat ->
  (fold_left (fun a e => Nat.max a (f e)) l acc <= b)%nat.
Proof.
  induction l as [|x t IH]; intros H acc Ha; simpl; [exact Ha|].
  apply IH; [intros y Hy; apply H; right; exact Hy|]. pose proof (H x (or_introl eq_refl)). lia.
Qed.

Lemma prune_fuel_depth r : forall f d, (goval_depth (prune_fuel f r d) <= goval_depth d)%nat.
Proof.
  induction f as [|f IH]; intros d; [simpl; lia|].
  destruct d as [| | | | | |sl l| |id m]; cbn [prune_fuel]; try lia.
  - cbn [goval_depth]. apply le_n_S. apply fold_max_le; [|lia]. intros x Hx.
    apply in_map_iff in Hx as [v [<- Hv]]. pose proof (fold_max_in goval_depth l v Hv 0%nat). specialize (IH v). lia.
  - cbn [goval_depth]. apply le_n_S. apply fold_max_le; [|lia]. intros x Hx.
    apply in_map_iff in Hx as [kv [<- Hkv]]. apply filter_In in Hkv as [Hkv _]. cbn [snd].
    pose proof (fold_max_in (fun kv => goval_depth (snd kv)) m kv Hkv 0%nat) as Hm. cbn beta in Hm.
    specialize (IH (snd kv)). lia.
Qed.

Theorem prune_depth r d : (goval_depth (prune r d) <= goval_depth d)%nat.
Proof. unfold prune. apply prune_fuel_depth. Qed.

(* ------------------------------------------------------------------ pruning is idempotent *)

Lemma filter_map_fst {A B} (p : A -> bool) (g : A * B -> A * B) (l : list (A * B)) :
  (forall kv, fst (g kv) = fst kv) ->
  filter (fun kv => p (fst kv)) (map g l) = map g (filter (fun kv => p (fst kv)) l).
Proof.
  intros Hg. induction l as [|kv t IH]; [reflexivity|]. cbn [map filter]. rewrite Hg.
  destruct (p (fst kv)); cbn [map]; rewrite IH; reflexivity.
Qed.

Lemma filter_idem {A} (p : A -> bool) (l : list A) : filter p (filter p l) = filter p l.
Proof.
  induction l as [|x t IH]; [reflexivity|]. cbn [filter]. destruct (p x) eqn:E; [|exact IH].
  cbn [filter]. rewrite E, IH. reflexivity.
Qed.

Lemma prune_fuel_idem r : forall f d, (goval_depth d < f)%nat -> prune_fuel f r (prune_fuel f r d) = prune_fuel f r d.
Proof.
  induction f as [|f IH]; intros d Hd; [lia|].
  destruct d as [| | | | | |sl l| |id m]; try reflexivity; cbn [prune_fuel].
  - f_equal. rewrite map_map. apply map_ext_in. intros v Hv. pose proof (depth_elem sl l v Hv). apply IH; lia.
  - f_equal.
    rewrite (filter_map_fst (fun k => has_field_entry r id k) (fun kv => (fst kv, prune_fuel f r (snd kv))));
      [|reflexivity].
    rewrite filter_idem, map_map. apply map_ext_in. intros kv Hkv. apply filter_In in Hkv as [Hkv _].
    pose proof (depth_member id m kv Hkv). cbn [fst snd]. f_equal. apply IH; lia.
Qed.

Theorem prune_idem r d : prune r (prune r d) = prune r d.
Proof.
  unfold prune at 1. pose proof (prune_depth r d) as Hle.
  rewrite (prune_fuel_stable r (S (goval_depth (prune r d))) (S (goval_depth d)) (prune r d)); [|lia|lia].
  unfold prune. apply prune_fuel_idem. lia.
Qed.

(* ------------------------------------------------------------------ at every level, pruning only removes members *)

(* [sub_keys a b]: the value [a] has the shape of [b] with some object members removed, at any depth *)
Inductive sub_keys : goval -> goval -> Prop :=
| sk_scalar v : is_container v = false -> sub_keys v v
| sk_arr sl l l' : Forall2 sub_keys l l' -> sub_keys (VArr sl l) (VArr sl l')
| sk_obj id m m' : sub_members m m' -> sub_keys (VObj id m) (VObj id m')
with sub_members : list (str * goval) -> list (str * goval) -> Prop :=
| sm_nil : sub_members [] []
| sm_keep k v v' t t' : sub_keys v v' -> sub_members t t' -> sub_members ((k, v) :: t) ((k, v') :: t')
| sm_drop kv t t' : sub_members t t' -> sub_members t (kv :: t').

Lemma prune_fuel_sub_keys r : forall f d, (goval_depth d < f)%nat -> sub_keys (prune_fuel f r d) d.
Proof.
  induction f as [|f IH]; intros d Hd; [lia|].
  destruct d as [| | | | | |sl l| |id m]; cbn [prune_fuel]; try (apply sk_scalar; reflexivity).
  - apply sk_arr. assert (Hall : forall v, In v l -> (goval_depth v < f)%nat).
    { intros v Hv. pose proof (depth_elem sl l v Hv). lia. }
    clear Hd. induction l as [|v t IHl]; cbn [map]; constructor.
    + apply IH. apply Hall. left; reflexivity.
    + apply IHl. intros x Hx. apply Hall. right; exact Hx.
  - apply sk_obj. assert (Hall : forall kv, In kv m -> (goval_depth (snd kv) < f)%nat).
    { intros kv Hkv. pose proof (depth_member id m kv Hkv). lia. }
    clear Hd. induction m as [|[k v] t IHm]; cbn [map filter]; [constructor|].
    cbn [fst]. destruct (has_field_entry r id k).
    + cbn [map fst snd]. apply sm_keep.
      * apply IH. apply (Hall (k, v)). left; reflexivity.
      * apply IHm. intros x Hx. apply Hall. right; exact Hx.
    + apply sm_drop. apply IHm. intros x Hx. apply Hall. right; exact Hx.
Qed.

Theorem prune_sub_keys r d : sub_keys (prune r d) d.
Proof. unfold prune. apply prune_fuel_sub_keys. lia. Qed.

(* ... and applying defaults only ever adds members, at any depth: the input has the shape of the output with the
   added members removed.  [ext_keys a b]: b is a with members appended to some objects. *)
Inductive ext_keys : goval -> goval -> Prop :=
| ek_scalar v : is_container v = false -> ext_keys v v
| ek_arr sl l l' : Forall2 ext_keys l l' -> ext_keys (VArr sl l) (VArr sl l')
| ek_obj id m m' extra : ext_members m m' -> ext_keys (VObj id m) (VObj id (m' ++ extra))
with ext_members : list (str * goval) -> list (str * goval) -> Prop :=
| em_nil : ext_members [] []
| em_cons k v v' t t' : ext_keys v v' -> ext_members t t' -> ext_members ((k, v) :: t) ((k, v') :: t').

Lemma apply_defaults_fuel_ext_keys r : forall f d, (goval_depth d < f)%nat -> ext_keys d (apply_defaults_fuel f r d).
Proof.
  induction f as [|f IH]; intros d Hd; [lia|].
  destruct d as [| | | | | |sl l| |id m]; cbn [apply_defaults_fuel]; try (apply ek_scalar; reflexivity).
  - apply ek_arr. assert (Hall : forall v, In v l -> (goval_depth v < f)%nat).
    { intros v Hv. pose proof (depth_elem sl l v Hv). lia. }
    clear Hd. induction l as [|v t IHl]; cbn [map]; constructor.
    + apply IH. apply Hall. left; reflexivity.
    + apply IHl. intros x Hx. apply Hall. right; exact Hx.
  - apply ek_obj. assert (Hall : forall kv, In kv m -> (goval_depth (snd kv) < f)%nat).
    { intros kv Hkv. pose proof (depth_member id m kv Hkv). lia. }
    clear Hd. induction m as [|[k v] t IHm]; cbn [map]; [constructor|].
    cbn [fst snd]. apply em_cons.
    + apply IH. apply (Hall (k, v)). left; reflexivity.
    + apply IHm. intros x Hx. apply Hall. right; exact Hx.
Qed.

Theorem apply_defaults_ext_keys r d : ext_keys d (apply_defaults r d).
Proof. unfold apply_defaults. apply apply_defaults_fuel_ext_keys. lia. Qed.
