(* L1 model and L0 "textbook" definitions of the exported value helpers of values.go (C14):
   MinLength / MaxLength (with a byte-level transcription of utf8.RuneCountInString), Pattern, UniqueItems,
   Enum / EnumCase (with reflect's ConvertibleTo / Convert fallback), MinItems / MaxItems, Required,
   RequiredString, RequiredNumber, ReadOnly, FormatOf.  No proofs in this file. *)
From Coq Require Import List ZArith Bool.
From Verif Require Import Base.Sx Base.GoVal.
Import ListNotations.
Open Scope Z_scope.

(* ------------------------------------------------------------------ values handed to the helpers *)

Inductive hval : Type :=
| HNil                                           (* untyped nil interface *)
| HBool (b : bool)
| HStr (s : str)
| HInt (k : ikind) (z : Z)
| HFlt (is32 : bool) (f : f64)
| HSlice (et : Z) (isnil : bool) (l : list hval)  (* []T with element type code et; nil or not *)
| HMap (isnil : bool) (m : list (str * hval))     (* map[string]interface{} *)
| HPtr (isnil : bool)                             (* *int: nil, or pointing to some int *)
| HOpaque (id : Z) (zero : bool).                 (* one fixed value of a type outside the kinds above (complex, chan, func, struct,
                                                     array ...): id names the value, zero says whether it is its type's zero value *)

Definition ikind_code (k : ikind) : Z :=
  match k with KInt => 0 | KInt8 => 1 | KInt16 => 2 | KInt32 => 3 | KInt64 => 4
             | KUint => 5 | KUint8 => 6 | KUint16 => 7 | KUint32 => 8 | KUint64 => 9 end.

Definition ikind_bits (k : ikind) : Z :=
  match k with KInt8 | KUint8 => 8 | KInt16 | KUint16 => 16 | KInt32 | KUint32 => 32 | _ => 64 end.

(* two's complement wrap of z into kind k *)
Definition wrap_kind (k : ikind) (z : Z) : Z :=
  let m := 2 ^ ikind_bits k in
  let r := z mod m in
  if ikind_signed k then (if r <? m / 2 then r else r - m) else r.

(* ------------------------------------------------------------------ utf8.RuneCountInString *)

(* unicode/utf8 tables: (size, low, high of the second byte) for a leading byte; None = invalid leading byte *)
Definition utf8_first (c : Z) : option (Z * Z * Z) :=
  if (0xC2 <=? c) && (c <=? 0xDF) then Some (2, 0x80, 0xBF)
  else if Z.eqb c 0xE0 then Some (3, 0xA0, 0xBF)
  else if (0xE1 <=? c) && (c <=? 0xEC) then Some (3, 0x80, 0xBF)
  else if Z.eqb c 0xED then Some (3, 0x80, 0x9F)
  else if (0xEE <=? c) && (c <=? 0xEF) then Some (3, 0x80, 0xBF)
  else if Z.eqb c 0xF0 then Some (4, 0x90, 0xBF)
  else if (0xF1 <=? c) && (c <=? 0xF3) then Some (4, 0x80, 0xBF)
  else if Z.eqb c 0xF4 then Some (4, 0x80, 0x8F)
  else None.

Definition cont (c : Z) : bool := (0x80 <=? c) && (c <=? 0xBF).

(* how many bytes the rune starting at the head of [s] consumes (utf8.go RuneCountInString loop body) *)
Definition rune_size (s : list Z) : nat :=
  match s with
  | [] => 0%nat
  | c :: rest =>
      if c <? 0x80 then 1%nat
      else match utf8_first c with
           | None => 1%nat
           | Some (size, lo, hi) =>
               if Z.of_nat (length s) <? size then 1%nat
               else match rest with
                    | c1 :: rest1 =>
                        if negb ((lo <=? c1) && (c1 <=? hi)) then 1%nat
                        else if Z.eqb size 2 then 2%nat
                        else match rest1 with
                             | c2 :: rest2 =>
                                 if negb (cont c2) then 1%nat
                                 else if Z.eqb size 3 then 3%nat
                                 else match rest2 with
                                      | c3 :: _ => if negb (cont c3) then 1%nat else 4%nat
                                      | [] => 1%nat
                                      end
                             | [] => 1%nat
                             end
                    | [] => 1%nat
                    end
           end
  end.

Fixpoint rune_count_fuel (fuel : nat) (s : list Z) : Z :=
  match fuel with
  | O => 0
  | S f => match s with
           | [] => 0
           | _ => 1 + rune_count_fuel f (skipn (rune_size s) s)
           end
  end.

Definition rune_count (s : list Z) : Z := rune_count_fuel (length s) s.

(* L0: the UTF-8 encoding of a Unicode scalar value *)
Definition utf8_encode (cp : Z) : list Z :=
  if cp <? 0x80 then [cp]
  else if cp <? 0x800 then [0xC0 + cp / 64; 0x80 + cp mod 64]
  else if cp <? 0x10000 then [0xE0 + cp / 4096; 0x80 + (cp / 64) mod 64; 0x80 + cp mod 64]
  else [0xF0 + cp / 262144; 0x80 + (cp / 4096) mod 64; 0x80 + (cp / 64) mod 64; 0x80 + cp mod 64].

Definition scalar_value (cp : Z) : Prop := (0 <= cp < 0xD800) \/ (0xE000 <= cp <= 0x10FFFF).

(* ------------------------------------------------------------------ oracles of the helper cases *)

Record horacles : Type := {
  h_bytes : str -> list Z;              (* the bytes of a string *)
  h_re_ok : str -> bool;
  h_re_match : str -> str -> bool;
  h_fmt_known : str -> bool;
  h_fmt_check : str -> str -> bool;
  h_fold_eq : str -> str -> bool;       (* strings.EqualFold *)
  h_rune_str : Z -> str;                (* string(rune(x)) for an integer x *)
  h_str_of_bytes : list Z -> str;       (* the string made of these bytes (-1 when it is not a string of the case) *)
}.

Section H.
Variable HO : horacles.
Variable N : numops.
Variable round32 : f64 -> f64.           (* float64(float32(f)) *)

(* ------------------------------------------------------------------ reflect.DeepEqual *)

Fixpoint hdepth (v : hval) : nat :=
  match v with
  | HSlice _ _ l => S (fold_left (fun acc e => Nat.max acc (hdepth e)) l O)
  | HMap _ m => S (fold_left (fun acc kv => Nat.max acc (hdepth (snd kv))) m O)
  | _ => 1%nat
  end.

Fixpoint hdeep_eq_fuel (fuel : nat) (a b : hval) : bool :=
  match fuel with
  | O => false
  | S f =>
      match a, b with
      | HNil, HNil => true
      | HBool x, HBool y => Bool.eqb x y
      | HStr x, HStr y => Z.eqb x y
      | HInt k x, HInt k' y => Z.eqb (ikind_code k) (ikind_code k') && Z.eqb x y
      | HFlt a32 x, HFlt b32 y => Bool.eqb a32 b32 && n_eq N x y
      | HSlice e1 n1 l1, HSlice e2 n2 l2 =>
          Z.eqb e1 e2 && Bool.eqb n1 n2 &&
          (fix go (l1 l2 : list hval) : bool :=
             match l1, l2 with
             | [], [] => true
             | x :: t1, y :: t2 => hdeep_eq_fuel f x y && go t1 t2
             | _, _ => false
             end) l1 l2
      | HMap n1 m1, HMap n2 m2 =>
          Bool.eqb n1 n2 && Nat.eqb (length m1) (length m2) &&
          forallb (fun kv => existsb (fun kv2 => Z.eqb (fst kv) (fst kv2) && hdeep_eq_fuel f (snd kv) (snd kv2)) m2) m1
      | HPtr n1, HPtr n2 => Bool.eqb n1 n2      (* non-nil pointers of the harness all point to equal ints *)
      | HOpaque i _, HOpaque j _ => Z.eqb i j   (* the harness builds one value per id, each deeply equal to itself *)
      | _, _ => false
      end
  end.
Definition hdeep_eq (a b : hval) : bool := hdeep_eq_fuel (S (hdepth a)) a b.

(* ------------------------------------------------------------------ reflect ConvertibleTo / Convert between the scalar kinds *)

Definition convert (d target : hval) : option hval :=       (* d converted to the type of target *)
  match d, target with
  | HInt _ z, HInt k' _ => Some (HInt k' (wrap_kind k' z))
  | HInt k z, HFlt t32 _ =>
      let f := n_of_int N z in Some (HFlt t32 (if t32 then round32 f else f))
  | HFlt _ f, HInt k' _ =>
      Some (HInt k' (wrap_kind k' (if ikind_signed k' then n_to_int64 N f else n_to_uint64 N f)))
  | HFlt _ f, HFlt t32 _ => Some (HFlt t32 (if t32 then round32 f else f))
  | HInt _ z, HStr _ => Some (HStr (h_rune_str HO z))
  | HStr s, HStr _ => Some (HStr s)
  | HBool b, HBool _ => Some (HBool b)
  | HSlice e n l, HSlice e' _ _ => if Z.eqb e e' then Some d else None
  | HSlice 6 _ l, HStr _ =>                                  (* string([]byte) *)
      Some (HStr (h_str_of_bytes HO (map (fun b => match b with HInt _ z => z | _ => 0 end) l)))
  | HStr s, HSlice 6 _ _ =>                                  (* []byte(string) *)
      Some (HSlice 6 false (map (fun z => HInt KUint8 z) (h_bytes HO s)))
  | HMap _ _, HMap _ _ => Some d
  | HPtr _, HPtr _ => Some d
  | HOpaque i _, HOpaque j _ => if Z.eqb i j then Some d else None     (* the opaque values have pairwise inconvertible types *)
  | _, _ => None
  end.

Definition hkind (v : hval) : Z :=
  match v with HNil => 0 | HBool _ => 1 | HStr _ => 2 | HInt _ _ => 3 | HFlt _ _ => 4 | HSlice _ _ _ => 5 | HMap _ _ => 6 | HPtr _ => 7 | HOpaque i _ => 8 + i end.

Definition is_numeric (v : hval) : bool := match v with HInt _ _ | HFlt _ _ => true | _ => false end.

Definition hsign (v : hval) : Z :=
  match v with
  | HInt _ z => Z.sgn z
  | HFlt _ f => if n_lt N f (n_of_int N 0) then -1 else if n_lt N (n_of_int N 0) f then 1 else 0
  | _ => 0
  end.

(* values.go equalAfterNumericConversion: numbers are converted only to numbers, and only when the conversion
   round-trips and keeps the sign; other convertible pairs (string kinds, identical types) as reflect does *)
Definition equal_after_conversion (data ev : hval) : bool :=
  match convert data ev with
  | None => false
  | Some c =>
      if is_numeric data || is_numeric ev then
        is_numeric data && is_numeric ev &&
        (match convert c data with Some back => hdeep_eq back data | None => false end) &&
        Z.eqb (hsign c) (hsign data) && hdeep_eq c ev
      else Z.eqb (hkind data) (hkind ev) && hdeep_eq c ev     (* only between types of one kind *)
  end.

(* values.go:39-78 *)
Definition is_str (v : hval) : bool := match v with HStr _ => true | _ => false end.

Definition enum_case (data : hval) (enum : option (list hval)) (case_sensitive : bool) : bool :=   (* true = error *)
  match enum with
  | None => false                                 (* reflect.ValueOf(enum).Kind() != Slice: no error *)
  | Some values =>
      match data with
      | HNil => negb (existsb (fun ev => match ev with HNil => true | _ => false end) values)
      | _ =>
          negb (existsb (fun ev =>
                           hdeep_eq data ev ||
                           (negb case_sensitive && is_str data && is_str ev &&
                            match data, ev with HStr a, HStr b => h_fold_eq HO a b | _, _ => false end) ||
                           match ev with
                           | HNil => false        (* reflect.TypeOf(enumValue) == nil: continue *)
                           | _ => equal_after_conversion data ev
                           end) values)
      end
  end.

(* values.go:112-128 *)
Fixpoint dup_scan (seen l : list hval) : bool :=
  match l with
  | [] => false
  | v :: t => if existsb (hdeep_eq v) seen then true else dup_scan (seen ++ [v]) t
  end.
Definition unique_items_h (data : hval) : bool :=
  match data with HSlice _ _ l => dup_scan [] l | _ => false end.

(* values.go:131-147 *)
Definition min_length (s : str) (n : Z) : bool := rune_count (h_bytes HO s) <? n.
Definition max_length (s : str) (n : Z) : bool := n <? rune_count (h_bytes HO s).

(* values.go:198-207 *)
Definition pattern_h (data pat : str) : bool := negb (h_re_ok HO pat) || negb (h_re_match HO pat data).

(* values.go:149-196 *)
Definition is_zero (v : hval) : option bool :=            (* None: invalid reflect.Value *)
  match v with
  | HNil => None
  | HBool b => Some (negb b)
  | HStr s => Some (Z.eqb s 0)
  | HInt _ z => Some (Z.eqb z 0)
  | HFlt _ f => Some (n_eq N f (n_of_int N 0))
  | HSlice _ isnil _ => Some isnil
  | HMap isnil _ => Some isnil
  | HPtr isnil => Some isnil
  | HOpaque _ z => Some z
  end.

Definition required_h (v : hval) : bool := match is_zero v with None => true | Some z => z end.
Definition read_only_h (op_request : bool) (v : hval) : bool :=
  if op_request then match is_zero v with None => false | Some z => negb z end else false.
Definition required_string (s : str) : bool := Z.eqb s 0.
Definition required_number (f : f64) : bool := n_eq N f (n_of_int N 0).

(* values.go:95-109 *)
Definition min_items (size n : Z) : bool := size <? n.
Definition max_items (size n : Z) : bool := n <? size.

(* values.go:302-314: 1 = unknown format name, 2 = does not validate *)
Definition format_of (fmt data : str) : Z :=
  if negb (h_fmt_known HO fmt) then 1 else if h_fmt_check HO fmt data then 0 else 2.

(* ------------------------------------------------------------------ L0: textbook definitions *)

(* the number carried by a numeric value, as an exact integer when it is one *)
Definition num_key (v : hval) : option (option Z * f64) :=
  match v with
  | HInt _ z => Some (Some z, n_of_int N z)
  | HFlt _ f => Some (n_exact_int N f, f)
  | _ => None
  end.

(* deep value equality, numerically equal numbers of different Go types being equal *)
Fixpoint value_eq_fuel (fuel : nat) (a b : hval) : bool :=
  match fuel with
  | O => false
  | S f =>
      match num_key a, num_key b with
      | Some (Some x, _), Some (Some y, _) => Z.eqb x y
      | Some (_, x), Some (_, y) => n_eq N x y
      | None, None =>
          match a, b with
          | HNil, HNil => true
          | HBool x, HBool y => Bool.eqb x y
          | HStr x, HStr y => Z.eqb x y
          | HSlice e1 n1 l1, HSlice e2 n2 l2 =>
              Z.eqb e1 e2 && Bool.eqb n1 n2 &&
              (fix go (l1 l2 : list hval) : bool :=
                 match l1, l2 with
                 | [], [] => true
                 | x :: t1, y :: t2 => value_eq_fuel f x y && go t1 t2
                 | _, _ => false
                 end) l1 l2
          | HPtr n1, HPtr n2 => Bool.eqb n1 n2
          | HOpaque i _, HOpaque j _ => Z.eqb i j
          | HMap n1 m1, HMap n2 m2 =>
              Bool.eqb n1 n2 && Nat.eqb (length m1) (length m2) &&
              forallb (fun kv => existsb (fun kv2 => Z.eqb (fst kv) (fst kv2) && value_eq_fuel f (snd kv) (snd kv2)) m2) m1
          | _, _ => false
          end
      | _, _ => false
      end
  end.
Definition value_eq (a b : hval) : bool := value_eq_fuel (S (hdepth a)) a b.

Definition enum_spec (data : hval) (values : list hval) (case_sensitive : bool) : bool :=   (* true = not a member *)
  negb (existsb (fun ev => value_eq data ev ||
                           (negb case_sensitive &&
                            match data, ev with HStr a, HStr b => h_fold_eq HO a b | _, _ => false end)) values).

Fixpoint has_dup_spec (l : list hval) : bool :=
  match l with [] => false | x :: t => existsb (value_eq x) t || has_dup_spec t end.

End H.

(* ------------------------------------------------------------------ codecs *)

Fixpoint get_hval_fuel (fuel : nat) (s : sx) : option hval :=
  match fuel with
  | O => None
  | S f =>
      match s with
      | L [A 0] => Some HNil
      | L [A 1; b] => match getBool b with Some b => Some (HBool b) | None => None end
      | L [A 2; A x] => Some (HStr x)
      | L [A 3; b; A x] => match getBool b with Some b => Some (HFlt b x) | None => None end
      | L [A 4; A k; A z] => match get_ikind k with Some k => Some (HInt k z) | None => None end
      | L [A 8; A et; n; L l] =>
          match getBool n, mapM (get_hval_fuel f) l with Some n, Some l => Some (HSlice et n l) | _, _ => None end
      | L [A 7; n; L m] =>
          match getBool n, mapM (fun e => match e with
                                          | L [A k; v] => match get_hval_fuel f v with Some v => Some (k, v) | None => None end
                                          | _ => None
                                          end) m with
          | Some n, Some m => Some (HMap n m)
          | _, _ => None
          end
      | L [A 9; n] => match getBool n with Some n => Some (HPtr n) | None => None end
      | L [A 10; A i; z] => match getBool z with Some z => Some (HOpaque i z) | None => None end
      | _ => None
      end
  end.
Definition get_hval (s : sx) : option hval := get_hval_fuel (S (sx_depth s)) s.

Fixpoint list_eqb_Z (a b : list Z) : bool :=
  match a, b with
  | [], [] => true
  | x :: a', y :: b' => Z.eqb x y && list_eqb_Z a' b'
  | _, _ => false
  end.

Definition get_horacles (s : sx) : option horacles :=
  match s with
  | L [bytes; reok; rematch; fknown; fcheck; fold; runestr] =>
      match getList (getPair getZ getZs) bytes, getZs reok, getList (getPair getZ getZ) rematch, getZs fknown,
            getList (getPair getZ getZ) fcheck, getList (getPair getZ getZ) fold, getList (getPair getZ getZ) runestr with
      | Some bytes, Some reok, Some rematch, Some fknown, Some fcheck, Some fold, Some runestr =>
          let pairb (l : list (Z * Z)) (a b : Z) := existsb (fun e => Z.eqb (fst e) a && Z.eqb (snd e) b) l in
          Some {| h_bytes := fun s => match assocZ s bytes with Some b => b | None => [] end;
                  h_re_ok := fun p => memZ p reok;
                  h_re_match := pairb rematch;
                  h_fmt_known := fun f => memZ f fknown;
                  h_fmt_check := pairb fcheck;
                  h_fold_eq := fun a b => Z.eqb a b || pairb fold a b;
                  h_rune_str := fun z => match assocZ z runestr with Some s => s | None => -1 end;
                  h_str_of_bytes := fun bs =>
                    (fix find (t : list (Z * list Z)) : Z :=
                       match t with
                       | [] => -1
                       | (id, b) :: t' => if list_eqb_Z b bs then id else find t'
                       end) bytes |}
      | _, _, _, _, _, _, _ => None
      end
  | _ => None
  end.
