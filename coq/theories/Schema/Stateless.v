(* C08: a validator object built without recycling is a constant; C12: the write effects of validation. *)
From Coq Require Import List ZArith Bool Permutation.
From Verif Require Import Base.Sx Base.GoVal Schema.Ast Schema.Pipeline Schema.PipelineFacts Schema.Simple.
Import ListNotations.
Open Scope Z_scope.

(* ------------------------------------------------------------------ the validator as an object with state *)
(* schema.go:28-36, 134-139, 210-231: the state a SchemaValidator carries between calls is its array of child
   slots (cleared or not) and whether it went back to its pool; both are only written under recycleValidators. *)
Record vobj : Type := {
  vo_schema : schema;
  vo_path : path;
  vo_recycle : bool;
  vo_slots_cleared : bool;
  vo_redeemed : bool;
}.

Definition vo_new (s : schema) (p : path) (recycle : bool) : vobj :=
  {| vo_schema := s; vo_path := p; vo_recycle := recycle; vo_slots_cleared := false; vo_redeemed := false |}.

Definition P_USED_TWICE : Z := 5.     (* nil child validators of a recycled validator: nil dereference *)

Section V.
Variable OR : oracles.
Variable N : numops.
Variable opt : options.
Variable defs : env.
Variable fuel : nat.

Definition vo_validate (v : vobj) (d : goval) : vobj * outcome res :=
  if vo_slots_cleared v || vo_redeemed v then (v, Panic P_USED_TWICE)
  else
    let r := sv_validate OR N opt defs fuel (vo_schema v) (vo_path v) (vo_path v) d in
    if vo_recycle v
    then ({| vo_schema := vo_schema v; vo_path := vo_path v; vo_recycle := true; vo_slots_cleared := true; vo_redeemed := true |}, r)
    else (v, r).

Fixpoint vo_history (v : vobj) (ds : list goval) : vobj * list (outcome res) :=
  match ds with
  | [] => (v, [])
  | d :: t => let '(v1, r) := vo_validate v d in let '(v2, rs) := vo_history v1 t in (v2, r :: rs)
  end.

(* without recycling the object is unchanged by any number of validations, and every call returns what a freshly
   built validator returns on that value *)
Theorem stateless_history s p ds :
  vo_history (vo_new s p false) ds =
  (vo_new s p false, map (fun d => sv_validate OR N opt defs fuel s p p d) ds).
Proof.
  induction ds as [|d t IH]; [reflexivity|].
  cbn [vo_history]. unfold vo_validate. cbn [vo_new vo_slots_cleared vo_redeemed vo_recycle vo_schema vo_path orb].
  fold (vo_new s p false). rewrite IH. reflexivity.
Qed.

Corollary repeating_a_call_gives_the_same s p d :
  snd (vo_history (vo_new s p false) [d; d]) =
  [sv_validate OR N opt defs fuel s p p d; sv_validate OR N opt defs fuel s p p d].
Proof. rewrite stateless_history. reflexivity. Qed.

(* with recycling the object is single use: that is why the property is about validators built without it *)
Theorem recycled_is_single_use s p d d' :
  snd (vo_history (vo_new s p true) [d; d']) = [sv_validate OR N opt defs fuel s p p d; Panic P_USED_TWICE].
Proof. reflexivity. Qed.

End V.

(* ------------------------------------------------------------------ independence of map iteration order *)
(* errors accumulate in a message-keyed set: adding the same messages in another order gives the same set and
   the same verdict (result.go:339-372) *)
Theorem add_errs_order_independent l es es' :
  Permutation es es' -> forall x, In x (add_errs l es) <-> In x (add_errs l es').
Proof.
  intros Hp x. rewrite !add_errs_In. split; intros [H|H]; auto; right.
  - eapply Permutation_in; eassumption.
  - eapply Permutation_in; [apply Permutation_sym|]; eassumption.
Qed.

Theorem add_errs_verdict_order_independent l es es' :
  Permutation es es' -> (add_errs l es = [] <-> add_errs l es' = []).
Proof.
  intros Hp. rewrite !add_errs_nil. split; intros [-> H]; split; auto; subst.
  - apply Permutation_nil. assumption.
  - apply Permutation_nil. apply Permutation_sym. assumption.
Qed.

(* ------------------------------------------------------------------ write effects (C12) *)
(* The only place where validation writes through a pointer it received is newSchemaValidator (schema.go:77-83):
   spec.ExpandSchema(schema, root) when the node carries $ref (or an id). Property schemas are copied to a scratch
   schema first (object_validator.go:339-357, 401-423). [expands] lists the references the eager construction and the
   validation of a node can expand in place; a schema without references has none. *)
Fixpoint refs_in_fuel (fuel : nat) (s : schema) : list str :=
  match fuel with
  | O => []
  | S f =>
      let sub (l : list schema) := flat_map (refs_in_fuel f) l in
      (match s_ref s with Some r => [r] | None => [] end) ++
      sub (s_all_of s) ++ sub (s_any_of s) ++ sub (s_one_of s) ++
      (match s_not s with Some n => refs_in_fuel f n | None => [] end) ++
      (match s_items_one s with Some n => refs_in_fuel f n | None => [] end) ++
      (match s_items_tuple s with Some l => sub l | None => [] end) ++
      (match s_add_items s with Some (_, Some n) => refs_in_fuel f n | _ => [] end) ++
      (match s_add_props s with Some (_, Some n) => refs_in_fuel f n | _ => [] end) ++
      sub (map snd (s_props s)) ++ sub (map snd (s_pat_props s)) ++
      flat_map (fun d => match fst (snd d) with Some n => refs_in_fuel f n | None => [] end) (s_deps s)
  end.

Definition ref_free (fuel : nat) (s : schema) : Prop := refs_in_fuel fuel s = [].

(* a reference-free node is its own resolution: nothing is expanded, at any fuel *)
Lemma resolve_ref_free defs fuel s : s_ref s = None -> resolve defs fuel s = Ok s.
Proof. intros H. destruct fuel; simpl; rewrite H; reflexivity. Qed.

Lemma ref_free_no_ref fuel s : ref_free (S fuel) s -> s_ref s = None.
Proof.
  unfold ref_free. simpl. destruct (s_ref s); [|reflexivity]. intros H. apply app_eq_nil in H as [H _]. discriminate.
Qed.

Theorem no_expansion_without_references defs fuel fuel' s :
  ref_free (S fuel') s -> resolve defs fuel s = Ok s.
Proof. intros H. apply resolve_ref_free. eapply ref_free_no_ref. eassumption. Qed.
