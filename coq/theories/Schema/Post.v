(* L1 model of post/defaulter.go and post/prune.go over the schemata bookkeeping of a validation result
   (result.go FieldSchemata). No proofs in this file. *)
From Coq Require Import List ZArith Bool.
From Verif Require Import Base.Sx Base.GoVal Schema.Ast Schema.Pipeline.
Import ListNotations.
Open Scope Z_scope.

(* result.go:142-159 FieldSchemata(): every schemata recorded for (object, field), in recording order *)
Definition field_schemata (r : res) (obj : Z) (field : str) : list sdef :=
  flat_map (fun e => let '(o, f, l) := e in if Z.eqb o obj && Z.eqb f field then l else []) (r_fields r).

Definition has_field_entry (r : res) (obj : Z) (field : str) : bool :=
  existsb (fun e => let '(o, f, l) := e in Z.eqb o obj && Z.eqb f field && negb (Nat.eqb (length l) 0)) (r_fields r).

(* post/defaulter.go:25-34: the first schema with a default wins *)
Fixpoint first_default (l : list sdef) : option goval :=
  match l with
  | [] => None
  | Some v :: _ => Some v
  | None :: t => first_default t
  end.

Fixpoint dedup_fields (l : list str) : list str :=
  match l with
  | [] => []
  | x :: t => if memZ x t then dedup_fields t else x :: dedup_fields t
  end.

(* the fields for which something was recorded on this object, without repetition *)
Definition recorded_fields (r : res) (obj : Z) : list str :=
  dedup_fields (flat_map (fun e => let '(o, f, _) := e in if Z.eqb o obj then [f] else []) (r_fields r)).

Definition has_member (m : list (str * goval)) (k : str) : bool :=
  existsb (fun kv => Z.eqb (fst kv) k) m.

(* members added to one object *)
Definition added_members (r : res) (obj : Z) (m : list (str * goval)) : list (str * goval) :=
  flat_map (fun f => if has_member m f then []
                     else match first_default (field_schemata r obj f) with
                          | Some v => [(f, v)]
                          | None => []
                          end) (recorded_fields r obj).

(* ApplyDefaults mutates the objects recorded in the result, wherever they sit in the instance *)
Fixpoint apply_defaults_fuel (fuel : nat) (r : res) (d : goval) : goval :=
  match fuel with
  | O => d
  | S f =>
      match d with
      | VObj id m => VObj id (map (fun kv => (fst kv, apply_defaults_fuel f r (snd kv))) m ++ added_members r id m)
      | VArr id l => VArr id (map (apply_defaults_fuel f r) l)
      | _ => d
      end
  end.
Definition apply_defaults (r : res) (d : goval) : goval := apply_defaults_fuel (S (goval_depth d)) r d.

(* post/prune.go: delete the members without schemata, then recurse into what is left *)
Fixpoint prune_fuel (fuel : nat) (r : res) (d : goval) : goval :=
  match fuel with
  | O => d
  | S f =>
      match d with
      | VObj id m => VObj id (map (fun kv => (fst kv, prune_fuel f r (snd kv)))
                                  (filter (fun kv => has_field_entry r id (fst kv)) m))
      | VArr id l => VArr id (map (prune_fuel f r) l)
      | _ => d
      end
  end.
Definition prune (r : res) (d : goval) : goval := prune_fuel (S (goval_depth d)) r d.
