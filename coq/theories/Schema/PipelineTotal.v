(* The only panic of the schema pipeline is the documented one (a reference that cannot be resolved),
   and the recorded non-termination (reference cycle through composition keywords only). *)
From Coq Require Import List ZArith Bool Lia.
From Verif Require Import Base.Sx Base.GoVal Schema.Ast Schema.Build Schema.Pipeline.
Import ListNotations.
Open Scope Z_scope.

Definition np {T} (o : outcome T) : Prop := match o with Panic s => s = P_BAD_REF | _ => True end.
Arguments np : simpl never.

Lemma np_bind {T U} (x : outcome T) (f : T -> outcome U) : np x -> (forall t, np (f t)) -> np (bind x f).
Proof. destruct x; unfold np; simpl; intros H H'; auto; apply H'. Qed.

Ltac np_step :=
  repeat match goal with
         | |- np (Ok _) => exact I
         | |- np OutOfFuel => exact I
         | |- np (bind _ _) => apply np_bind; [|intros ?]
         | H : forall a b c d, np (?r a b c d) |- np (?r _ _ _ _) => apply H
         | |- np (rec ?r _ _ _) => unfold rec
         | |- np (match ?x with _ => _ end) => destruct x
         | |- np (if ?b then _ else _) => destruct b
         end.

Section Groups.
Variable OR : oracles.
Variable N : numops.
Variable opt : options.
Variable rec_sp : schema -> path -> path -> goval -> outcome res.
Hypothesis Hrec : forall s p q d, np (rec_sp s p q d).

Lemma np_slice_items_one s1 p sl l : forall i r, np (slice_items_one rec_sp s1 p sl l i r).
Proof. induction l as [|v t IH]; intros i r; simpl; np_step. apply IH. Qed.

Lemma np_slice_items_tuple ss p sl : forall l i r, np (slice_items_tuple rec_sp ss p sl l i r).
Proof. induction ss as [|s1 st IH]; intros [|v t] i r; simpl; np_step. apply IH. Qed.

Lemma np_slice_additional sa p sl rest : forall i r, np (slice_additional rec_sp sa p sl rest i r).
Proof. induction rest as [|v t IH]; intros i r; simpl; np_step. apply IH. Qed.

Lemma np_slice_validate p s d : np (slice_validate N rec_sp p s d).
Proof.
  unfold slice_validate. destruct d; try exact I.
  apply np_bind; [destruct (s_items_one s); [apply np_slice_items_one|exact I]|intros r1].
  apply np_bind; [apply np_slice_items_tuple|intros r2].
  apply np_bind; [|intros r3; exact I].
  destruct (s_add_items s) as [[allows [sa|]]|]; np_step; apply np_slice_additional.
Qed.

Lemma np_pattern_property pps p key value : forall r m pats, np (pattern_property OR rec_sp pps p key value r m pats).
Proof. induction pps as [|[k ps] t IH]; intros r m pats; simpl; np_step; apply IH. Qed.

Lemma np_validate_pattern_property s p key value r : np (validate_pattern_property OR rec_sp s p key value r).
Proof. unfold validate_pattern_property. destruct (s_pat_props s); [exact I|apply np_pattern_property]. Qed.

Lemma np_additional_properties s p obj m : forall r, np (additional_properties OR rec_sp s p obj m r).
Proof.
  induction m as [|[key value] t IH]; intros r; simpl; [exact I|].
  destruct (has_prop s key); [apply IH|].
  apply np_bind; [apply np_validate_pattern_property|intros [[matched pats] r1]].
  destruct matched; [apply IH|].
  destruct (s_add_props s) as [[b [sa|]]|]; try apply IH.
  apply np_bind; [apply Hrec|intros x; apply IH].
Qed.

Lemma np_properties_schema props p obj m : forall r created, np (properties_schema opt rec_sp props p obj m r created).
Proof.
  induction props as [|[pname ps] t IH]; intros r created; simpl; [exact I|].
  destruct (lookup_val m pname).
  - apply np_bind; [apply Hrec|intros x; apply IH].
  - destruct (s_default ps); apply IH.
Qed.

Lemma np_merge_patterns pats s p obj key value : forall r, np (merge_patterns rec_sp pats s p obj key value r).
Proof.
  induction pats as [|[pn x] t IH]; intros r; simpl; [exact I|].
  destruct (lookup_schema (s_pat_props s) pn); [|apply IH].
  apply np_bind; [apply Hrec|intros y; apply IH].
Qed.

Lemma np_pattern_loop s p obj m : forall r, np (pattern_loop OR rec_sp s p obj m r).
Proof.
  induction m as [|[key value] t IH]; intros r; simpl; [exact I|].
  apply np_bind; [apply np_validate_pattern_property|intros [[matched pats] r1]].
  destruct (has_prop s key || negb matched); [apply IH|].
  apply np_bind; [apply np_merge_patterns|intros r2; apply IH].
Qed.

Lemma np_object_validate p s d : np (object_validate OR opt rec_sp p s d).
Proof.
  unfold object_validate. destruct d; try exact I.
  repeat match goal with |- np (if ?b then _ else _) => destruct b; [exact I|] end.
  apply np_bind.
  - destruct (s_add_props s) as [[[|] x]|]; try exact I; apply np_additional_properties.
  - intros r1. apply np_bind; [apply np_properties_schema|intros [r2 created]]. apply np_pattern_loop.
Qed.

Lemma np_any_of vs p d : forall main keep best, np (any_of rec_sp vs p d main keep best).
Proof.
  induction vs as [|s1 t IH]; intros main keep best; simpl; [exact I|].
  apply np_bind; [apply Hrec|intros x]. destruct (r_valid x); [exact I|].
  destruct best as [b|]; [destruct (r_mc b <? r_mc x)|]; apply IH.
Qed.

Lemma np_one_of vs p d : forall keep first best validated, np (one_of rec_sp vs p d keep first best validated).
Proof.
  induction vs as [|s1 t IH]; intros keep first best validated; simpl; [exact I|].
  apply np_bind; [apply Hrec|intros x]. destruct (r_valid x); [apply IH|].
  match goal with |- np (if ?b then _ else _) => destruct b end; apply IH.
Qed.

Lemma np_all_of vs p d : forall main keep validated, np (all_of rec_sp vs p d main keep validated).
Proof.
  induction vs as [|s1 t IH]; intros main keep validated; simpl; [exact I|].
  apply np_bind; [apply Hrec|intros x; apply IH].
Qed.

Lemma np_dependencies s p d m all : forall main, np (dependencies rec_sp s p d m all main).
Proof.
  induction m as [|[key v] t IH]; intros main; simpl; [exact I|].
  match goal with |- np (match ?x with Some _ => _ | None => _ end) => destruct x as [[[ds|] props]|] end; try apply IH.
  apply np_bind; [apply Hrec|intros x; apply IH].
Qed.

Lemma np_props_validate p s d : np (props_validate rec_sp p s d).
Proof.
  unfold props_validate.
  apply np_bind.
  { destruct (s_any_of s); [exact I|]. apply np_bind; [apply np_any_of|intros; exact I]. }
  intros [main1 keep_any]. apply np_bind.
  { destruct (s_one_of s); [exact I|]. apply np_bind; [apply np_one_of|intros [[[first best] validated] keep]; exact I]. }
  intros [main2 keep_one]. apply np_bind.
  { destruct (s_all_of s); [exact I|]. apply np_bind; [apply np_all_of|intros [[main' keep] validated]; exact I]. }
  intros [main3 keep_all]. apply np_bind.
  { destruct (s_not s); [|exact I]. apply np_bind; [apply Hrec|intros; exact I]. }
  intros main4. apply np_bind; [|intros; exact I].
  destruct (s_deps s); [exact I|]. destruct d; try exact I. apply np_dependencies.
Qed.

Lemma np_format_validate p s d : np (format_validate OR p s d).
Proof. unfold format_validate. destruct d; try exact I. destruct (o_fmt_check OR (s_format s) s0); exact I. Qed.

Lemma np_sv_body s p q d : np (sv_body OR N opt rec_sp s p q d).
Proof.
  unfold sv_body. destruct d; cbv beta iota zeta; try exact I;
  try match goal with
  | |- np (match ?c with _ => _ end) => destruct c as [[dd|]|]; try exact I
  end;
  (apply np_bind; [apply np_props_validate|intros x2];
   apply np_bind; [match goal with |- np (if ?b then _ else _) => destruct b; [|exact I] end;
                   apply np_bind; [apply np_format_validate|intros; exact I]|intros r4];
   apply np_bind; [match goal with |- np (if ?b then _ else _) => destruct b; [|exact I] end;
                   apply np_bind; [apply np_slice_validate|intros; exact I]|intros r6];
   apply np_bind; [match goal with |- np (if ?b then _ else _) => destruct b; [|exact I] end;
                   apply np_bind; [apply np_object_validate|intros; exact I]|intros r8; exact I]).
Qed.

End Groups.

Lemma np_resolve defs fuel : forall s, np (resolve defs fuel s).
Proof.
  induction fuel as [|f IH]; intros s; simpl; destruct (s_ref s); try exact I.
  destruct (lookup_def defs s0); [apply IH|reflexivity].
Qed.

Lemma np_eager defs fuel : forall s, np (eager defs fuel s).
Proof.
  induction fuel as [|f IH]; intros s; simpl; [exact I|].
  apply np_bind; [apply np_resolve|intros s'].
  induction (s_any_of s' ++ s_all_of s' ++ s_one_of s' ++ match s_not s' with Some n => [n] | None => [] end) as [|c t IHl];
    [exact I|]. apply np_bind; [apply IH|intros; apply IHl].
Qed.

(* every panic of the model is the documented invalid-schema panic, for every schema, value, option set,
   oracle and numeric implementation, at every fuel *)
Theorem only_documented_panic OR N opt defs fuel : forall s p q d, np (sv_validate OR N opt defs fuel s p q d).
Proof.
  induction fuel as [|f IH]; intros s p q d; simpl; [exact I|].
  apply np_bind; [apply np_eager|intros _].
  apply np_bind; [apply np_resolve|intros s']. apply np_sv_body, IH.
Qed.

(* ... and that panic needs a reference that is not in the environment *)
Fixpoint refs_closed_fuel (defs : env) (fuel : nat) (s : schema) : Prop :=
  match s_ref s with
  | None => True
  | Some n => match fuel with
              | O => True
              | S f => match lookup_def defs n with Some t => refs_closed_fuel defs f t | None => False end
              end
  end.

Lemma resolve_no_panic defs fuel : forall s, refs_closed_fuel defs fuel s -> forall site, resolve defs fuel s <> Panic site.
Proof.
  induction fuel as [|f IH]; intros s H site; simpl in *; destruct (s_ref s); try discriminate.
  destruct (lookup_def defs s0); [apply IH, H|contradiction].
Qed.

(* the recorded non-termination: definitions.a = {allOf:[{$ref:a}]}, root {allOf:[{$ref:a}]}.
   Constructing the validator expands the reference again at every level: no fuel suffices. *)
Definition cyc_ref : str := 32.
Definition cyc_a : schema := set_all_of [set_ref (Some cyc_ref) empty_schema] empty_schema.
Definition cyc_defs : env := [(cyc_ref, cyc_a)].

Definition cyc_R : schema := set_ref (Some cyc_ref) empty_schema.

Lemma eager_cyc_R fuel : eager cyc_defs fuel cyc_R = OutOfFuel.
Proof.
  induction fuel as [|f IH]; [reflexivity|].
  destruct f as [|f']; [reflexivity|].
  (* resolve (S f') R = Ok cyc_a; the only composition child of cyc_a is R again *)
  change (eager cyc_defs (S (S f')) cyc_R) with
    (bind (resolve cyc_defs (S f') cyc_R)
          (fun s' => (fix go (l : list schema) : outcome unit :=
                        match l with [] => Ok tt | c :: t => bind (eager cyc_defs (S f') c) (fun _ => go t) end)
                       (s_any_of s' ++ s_all_of s' ++ s_one_of s' ++ match s_not s' with Some n => [n] | None => [] end))).
  assert (E : resolve cyc_defs (S f') cyc_R = Ok cyc_a) by (destruct f'; reflexivity).
  rewrite E. cbn [bind]. change (s_any_of cyc_a ++ s_all_of cyc_a ++ s_one_of cyc_a ++ match s_not cyc_a with Some n => [n] | None => [] end)
    with [cyc_R]. cbn [bind]. rewrite IH. reflexivity.
Qed.

(* the validator of the root {allOf:[{$ref:a}]} cannot be constructed with any amount of fuel: the code recurses
   until the Go runtime dies (observed: fatal error, stack overflow / out of memory) *)
Theorem unguarded_cycle_never_terminates OR N opt fuel p q d :
  sv_validate OR N opt cyc_defs fuel cyc_a p q d = OutOfFuel.
Proof.
  destruct fuel as [|f]; [reflexivity|]. simpl sv_validate.
  assert (E : eager cyc_defs f cyc_a = OutOfFuel).
  { destruct f as [|f']; [reflexivity|].
    change (eager cyc_defs (S f') cyc_a) with
      (bind (resolve cyc_defs f' cyc_a)
            (fun s' => (fix go (l : list schema) : outcome unit :=
                          match l with [] => Ok tt | c :: t => bind (eager cyc_defs f' c) (fun _ => go t) end)
                         (s_any_of s' ++ s_all_of s' ++ s_one_of s' ++ match s_not s' with Some n => [n] | None => [] end))).
    assert (E : resolve cyc_defs f' cyc_a = Ok cyc_a) by (destruct f'; reflexivity).
    rewrite E. cbn [bind]. change (s_any_of cyc_a ++ s_all_of cyc_a ++ s_one_of cyc_a ++ match s_not cyc_a with Some n => [n] | None => [] end)
      with [cyc_R]. cbn [bind]. rewrite eager_cyc_R. reflexivity. }
  rewrite E. reflexivity.
Qed.
