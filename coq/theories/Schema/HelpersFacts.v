(* Facts about the value helpers (C14): the byte-level transcription of utf8.RuneCountInString counts
   Unicode code points on valid UTF-8; Required / ReadOnly follow the zero-value test; UniqueItems and Enum
   against their textbook definitions. *)
From Coq Require Import List ZArith Bool Lia.
From Verif Require Import Base.Sx Base.GoVal Schema.Helpers.
Import ListNotations.
Open Scope Z_scope.

(* ------------------------------------------------------------------ rune counting *)

Lemma leb_t a b : a <= b -> (a <=? b) = true.  Proof. intros; apply Z.leb_le; assumption. Qed.
Lemma leb_f a b : b < a -> (a <=? b) = false.  Proof. intros; apply Z.leb_gt; assumption. Qed.
Lemma ltb_t a b : a < b -> (a <? b) = true.    Proof. intros; apply Z.ltb_lt; assumption. Qed.
Lemma ltb_f a b : b <= a -> (a <? b) = false.  Proof. intros; apply Z.ltb_ge; assumption. Qed.
Lemma eqb_t a b : a = b -> (a =? b) = true.    Proof. intros; apply Z.eqb_eq; assumption. Qed.
Lemma eqb_f a b : a <> b -> (a =? b) = false.  Proof. intros; apply Z.eqb_neq; assumption. Qed.

Ltac Zify.zify_post_hook ::= Z.div_mod_to_equations.

(* decide one comparison of the goal from arithmetic facts in the context *)
Ltac decide_cmp :=
  match goal with
  | |- context [?a <=? ?b] => first [rewrite (leb_t a b) by lia | rewrite (leb_f a b) by lia]
  | |- context [?a <? ?b] => first [rewrite (ltb_t a b) by lia | rewrite (ltb_f a b) by lia]
  | |- context [?a =? ?b] => first [rewrite (eqb_t a b) by lia | rewrite (eqb_f a b) by lia]
  end.

Lemma utf8_first_2 c : 0xC2 <= c <= 0xDF -> utf8_first c = Some (2, 0x80, 0xBF).
Proof. intros H. unfold utf8_first. repeat decide_cmp. reflexivity. Qed.
Lemma utf8_first_E0 : utf8_first 0xE0 = Some (3, 0xA0, 0xBF).
Proof. reflexivity. Qed.
Lemma utf8_first_3a c : 0xE1 <= c <= 0xEC -> utf8_first c = Some (3, 0x80, 0xBF).
Proof. intros H. unfold utf8_first. repeat decide_cmp. reflexivity. Qed.
Lemma utf8_first_ED : utf8_first 0xED = Some (3, 0x80, 0x9F).
Proof. reflexivity. Qed.
Lemma utf8_first_3b c : 0xEE <= c <= 0xEF -> utf8_first c = Some (3, 0x80, 0xBF).
Proof. intros H. unfold utf8_first. repeat decide_cmp. reflexivity. Qed.
Lemma utf8_first_F0 : utf8_first 0xF0 = Some (4, 0x90, 0xBF).
Proof. reflexivity. Qed.
Lemma utf8_first_4 c : 0xF1 <= c <= 0xF3 -> utf8_first c = Some (4, 0x80, 0xBF).
Proof. intros H. unfold utf8_first. repeat decide_cmp. reflexivity. Qed.
Lemma utf8_first_F4 : utf8_first 0xF4 = Some (4, 0x80, 0x8F).
Proof. reflexivity. Qed.

Lemma of_nat_len_ge2 {T} (a b : T) rest : 2 <= Z.of_nat (length (a :: b :: rest)).
Proof. simpl length. lia. Qed.

(* the rune at the head of (encode cp ++ rest) consumes exactly the bytes of the encoding *)
Lemma rune_size_encode cp rest : scalar_value cp ->
  rune_size (utf8_encode cp ++ rest) = length (utf8_encode cp).
Proof.
  intros Hs. unfold utf8_encode.
  destruct (Z.ltb_spec cp 0x80) as [H1|H1].
  { cbv beta iota. cbn [app]. unfold rune_size. rewrite (ltb_t cp 0x80) by lia. reflexivity. }
  destruct (Z.ltb_spec cp 0x800) as [H2|H2].
  { cbv beta iota. cbn [app]. unfold rune_size.
    rewrite (ltb_f (0xC0 + cp / 64) 0x80) by lia.
    rewrite (utf8_first_2 (0xC0 + cp / 64)) by lia.
    rewrite (ltb_f (Z.of_nat (length ((0xC0 + cp / 64) :: (0x80 + cp mod 64) :: rest))) 2) by (cbn [length]; lia).
    rewrite (leb_t 0x80 (0x80 + cp mod 64)), (leb_t (0x80 + cp mod 64) 0xBF) by lia.
    reflexivity. }
  destruct (Z.ltb_spec cp 0x10000) as [H3|H3].
  { cbv beta iota. cbn [app]. unfold rune_size.
    rewrite (ltb_f (0xE0 + cp / 4096) 0x80) by lia.
    assert (Hlen : (Z.of_nat (length ((0xE0 + cp / 4096) :: (0x80 + (cp / 64) mod 64) :: (0x80 + cp mod 64) :: rest)) <? 3) = false)
      by (apply ltb_f; cbn [length]; lia).
    assert (Hc2 : cont (0x80 + cp mod 64) = true) by (unfold cont; rewrite leb_t, leb_t by lia; reflexivity).
    destruct (Z.eq_dec (cp / 4096) 0) as [E0|N0].
    - rewrite E0. change (0xE0 + 0) with 0xE0. rewrite utf8_first_E0. rewrite E0 in Hlen. change (0xE0 + 0) with 0xE0 in Hlen. rewrite Hlen.
      rewrite (leb_t 0xA0 (0x80 + (cp / 64) mod 64)), (leb_t (0x80 + (cp / 64) mod 64) 0xBF) by lia.
      cbn [negb andb]. rewrite Hc2. reflexivity.
    - destruct (Z.eq_dec (cp / 4096) 13) as [ED|ND].
      + rewrite ED. change (0xE0 + 13) with 0xED. rewrite utf8_first_ED. rewrite ED in Hlen. change (0xE0 + 13) with 0xED in Hlen. rewrite Hlen.
        assert (cp < 0xD800) by (destruct Hs as [Hs|Hs]; lia).
        rewrite (leb_t 0x80 (0x80 + (cp / 64) mod 64)), (leb_t (0x80 + (cp / 64) mod 64) 0x9F) by lia.
        cbn [negb andb]. rewrite Hc2. reflexivity.
      + destruct (Z.le_gt_cases (cp / 4096) 12) as [Hle|Hgt].
        * rewrite (utf8_first_3a (0xE0 + cp / 4096)) by lia. rewrite Hlen.
          rewrite (leb_t 0x80 (0x80 + (cp / 64) mod 64)), (leb_t (0x80 + (cp / 64) mod 64) 0xBF) by lia.
          cbn [negb andb]. rewrite Hc2. reflexivity.
        * rewrite (utf8_first_3b (0xE0 + cp / 4096)) by lia. rewrite Hlen.
          rewrite (leb_t 0x80 (0x80 + (cp / 64) mod 64)), (leb_t (0x80 + (cp / 64) mod 64) 0xBF) by lia.
          cbn [negb andb]. rewrite Hc2. reflexivity. }
  { assert (Hmax : cp <= 0x10FFFF) by (destruct Hs as [Hs|Hs]; lia).
    cbv beta iota. cbn [app]. unfold rune_size.
    rewrite (ltb_f (0xF0 + cp / 262144) 0x80) by lia.
    assert (Hlen : (Z.of_nat (length ((0xF0 + cp / 262144) :: (0x80 + (cp / 4096) mod 64) :: (0x80 + (cp / 64) mod 64) :: (0x80 + cp mod 64) :: rest)) <? 4) = false)
      by (apply ltb_f; cbn [length]; lia).
    assert (Hc2 : cont (0x80 + (cp / 64) mod 64) = true) by (unfold cont; rewrite leb_t, leb_t by lia; reflexivity).
    assert (Hc3 : cont (0x80 + cp mod 64) = true) by (unfold cont; rewrite leb_t, leb_t by lia; reflexivity).
    destruct (Z.eq_dec (cp / 262144) 0) as [E0|N0].
    - rewrite E0. change (0xF0 + 0) with 0xF0. rewrite utf8_first_F0. rewrite E0 in Hlen. change (0xF0 + 0) with 0xF0 in Hlen. rewrite Hlen.
      rewrite (leb_t 0x90 (0x80 + (cp / 4096) mod 64)), (leb_t (0x80 + (cp / 4096) mod 64) 0xBF) by lia.
      cbn [negb andb]. rewrite Hc2, Hc3. reflexivity.
    - destruct (Z.eq_dec (cp / 262144) 4) as [E4|N4].
      + rewrite E4. change (0xF0 + 4) with 0xF4. rewrite utf8_first_F4. rewrite E4 in Hlen. change (0xF0 + 4) with 0xF4 in Hlen. rewrite Hlen.
        rewrite (leb_t 0x80 (0x80 + (cp / 4096) mod 64)), (leb_t (0x80 + (cp / 4096) mod 64) 0x8F) by lia.
        cbn [negb andb]. rewrite Hc2, Hc3. reflexivity.
      + rewrite (utf8_first_4 (0xF0 + cp / 262144)) by lia. rewrite Hlen.
        rewrite (leb_t 0x80 (0x80 + (cp / 4096) mod 64)), (leb_t (0x80 + (cp / 4096) mod 64) 0xBF) by lia.
        cbn [negb andb]. rewrite Hc2, Hc3. reflexivity. }
Qed.

Lemma encode_nonempty cp : (1 <= length (utf8_encode cp))%nat.
Proof. unfold utf8_encode. repeat match goal with |- context [if ?b then _ else _] => destruct b end; simpl; lia. Qed.

Lemma skipn_app_exact {T} (a b : list T) : skipn (length a) (a ++ b) = b.
Proof. induction a; simpl; auto. Qed.

Lemma rune_count_fuel_encode cps : Forall scalar_value cps ->
  forall fuel, (length cps <= fuel)%nat -> rune_count_fuel fuel (flat_map utf8_encode cps) = Z.of_nat (length cps).
Proof.
  induction 1 as [|cp t Hcp Ht IH]; intros fuel Hf.
  - destruct fuel; reflexivity.
  - destruct fuel as [|f]; [simpl in Hf; lia|].
    cbn [flat_map rune_count_fuel].
    pose proof (encode_nonempty cp) as Hne.
    destruct (utf8_encode cp ++ flat_map utf8_encode t) eqn:E.
    { destruct (utf8_encode cp); simpl in *; [lia|discriminate]. }
    rewrite <- E, rune_size_encode by assumption. rewrite skipn_app_exact.
    rewrite IH by (simpl in Hf; lia). simpl length. lia.
Qed.

Lemma flat_map_length_ge cps : (length cps <= length (flat_map utf8_encode cps))%nat.
Proof.
  induction cps as [|cp t IH]; simpl; [lia|]. rewrite app_length. pose proof (encode_nonempty cp). lia.
Qed.

(* MinLength / MaxLength count Unicode code points *)
Theorem rune_count_counts_code_points cps : Forall scalar_value cps ->
  rune_count (flat_map utf8_encode cps) = Z.of_nat (length cps).
Proof.
  intros H. unfold rune_count. apply rune_count_fuel_encode; [assumption|apply flat_map_length_ge].
Qed.

(* on arbitrary bytes every step consumes at least one byte: the count is at most the number of bytes *)
Lemma rune_size_pos s : s <> [] -> (1 <= rune_size s)%nat.
Proof.
  destruct s as [|c rest]; [congruence|]. intros _. unfold rune_size.
  repeat match goal with
         | |- context [if ?b then _ else _] => destruct b
         | |- context [match ?x with _ => _ end] => destruct x
         end; lia.
Qed.

Section H.
Variable HO : horacles.
Variable N : numops.

(* Required rejects exactly the zero values (and untyped nil); ReadOnly rejects exactly non-zero values in a request *)
Theorem required_iff_zero v : required_h N v = true <-> (is_zero N v = None \/ is_zero N v = Some true).
Proof. unfold required_h. destruct (is_zero N v) as [[|]|]; intuition congruence. Qed.

Theorem read_only_iff_nonzero_in_request op v :
  read_only_h N op v = true <-> (op = true /\ is_zero N v = Some false).
Proof. unfold read_only_h. destruct op, (is_zero N v) as [[|]|]; simpl; intuition congruence. Qed.

(* a typed nil slice / map / pointer is a zero value, an empty non-nil one is not *)
Example zero_values :
  (is_zero N (HSlice 12 true []), is_zero N (HSlice 12 false []), is_zero N (HMap true []), is_zero N (HMap false []),
   is_zero N (HPtr true), is_zero N (HPtr false), is_zero N HNil, is_zero N (HStr 0), is_zero N (HBool false))
  = (Some true, Some false, Some true, Some false, Some true, Some false, None, Some true, Some true).
Proof. reflexivity. Qed.

(* Pattern: error iff the pattern does not compile or does not match *)
Theorem pattern_iff data pat : pattern_h HO data pat = true <-> (h_re_ok HO pat = false \/ h_re_match HO pat data = false).
Proof. unfold pattern_h. destruct (h_re_ok HO pat), (h_re_match HO pat data); simpl; intuition congruence. Qed.

(* FormatOf: unknown names are rejected, otherwise the registry decides *)
Theorem format_of_spec fmt data :
  format_of HO fmt data = (if h_fmt_known HO fmt then if h_fmt_check HO fmt data then 0 else 2 else 1).
Proof. unfold format_of. destruct (h_fmt_known HO fmt); reflexivity. Qed.

(* the duplicate scan is "some later element equals an earlier one" *)
Lemma dup_scan_spec l : forall seen,
  dup_scan N seen l = true <->
  exists pre x post, l = pre ++ x :: post /\ existsb (hdeep_eq N x) (seen ++ pre) = true.
Proof.
  induction l as [|v t IH]; intros seen; simpl.
  - split; [discriminate|]. intros (pre & x & post & E & _). destruct pre; discriminate.
  - destruct (existsb (hdeep_eq N v) seen) eqn:E.
    + split; [intros _|reflexivity]. exists [], v, t. rewrite app_nil_r. auto.
    + rewrite IH. split.
      * intros (pre & x & post & -> & H). exists (v :: pre), x, post. split; [reflexivity|].
        rewrite <- app_assoc in H. exact H.
      * intros (pre & x & post & El & H). destruct pre as [|p pre'].
        -- simpl in El. injection El as -> ->. rewrite app_nil_r in H. congruence.
        -- simpl in El. injection El as -> ->. exists pre', x, post. split; [reflexivity|].
           rewrite <- app_assoc. exact H.
Qed.

Theorem unique_items_spec et isnil l :
  unique_items_h N (HSlice et isnil l) = true <->
  exists pre x post, l = pre ++ x :: post /\ existsb (hdeep_eq N x) pre = true.
Proof. unfold unique_items_h. rewrite dup_scan_spec. simpl. tauto. Qed.

End H.
