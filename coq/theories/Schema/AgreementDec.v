(* A decision procedure for the fragment of Schema/Agreement.v, sound for it: the harness evaluates it on every case,
   so that the evidence says how much of the run lies inside the proved fragment. *)
From Coq Require Import List ZArith Bool Lia.
From Verif Require Import Base.Sx Base.GoVal Schema.Ast Schema.Build Schema.Pipeline Schema.Draft4 Schema.PipelineTerm Schema.AgreementData Schema.Agreement.
Import ListNotations.
Open Scope Z_scope.

Fixpoint nodup_b (l : list Z) : bool :=
  match l with [] => true | x :: t => negb (existsb (Z.eqb x) t) && nodup_b t end.

Lemma nodup_b_sound l : nodup_b l = true -> NoDup l.
Proof.
  induction l as [|x t IH]; intros H; [constructor|]. cbn [nodup_b] in H. apply andb_true_iff in H. destruct H as [H1 H2].
  constructor; [|apply IH; exact H2]. intros Hin. apply negb_true_iff in H1.
  assert (E : existsb (Z.eqb x) t = true) by (apply existsb_exists; exists x; split; [exact Hin | apply Z.eqb_refl]). congruence.
Qed.

(* the data class, decided (the flags are parameters: enumerated values are checked in the most permissive class) *)
Definition plain_key_b0 (k : str) : bool := negb (Z.eqb k k_dollar_schema) && negb (Z.eqb k k_id) && negb (Z.eqb k k_headers).

Lemma plain_key_b0_sound k : plain_key_b0 k = true -> plain_key k.
Proof.
  unfold plain_key_b0, plain_key. intros H. apply andb_true_iff in H. destruct H as [H H3]. apply andb_true_iff in H. destruct H as [H1 H2].
  apply negb_true_iff in H1, H2, H3. apply Z.eqb_neq in H1, H2, H3. auto.
Qed.

Fixpoint jd_bf (fin_b : f64 -> bool) (an aa : bool) (fuel : nat) (v : goval) : bool :=
  match fuel with
  | O => false
  | S f =>
      match v with
      | VNil => an
      | VBool _ | VStr _ => true
      | VFlt is32 x => negb is32 && fin_b x
      | VArr _ l => aa && forallb (jd_bf fin_b an aa f) l
      | VObj _ m => forallb (fun kv => plain_key_b0 (fst kv) && jd_bf fin_b an aa f (snd kv)) m && nodup_b (map fst m)
      | _ => false
      end
  end.

Lemma jd_bf_sound fin_b an aa : forall fuel v, jd_bf fin_b an aa fuel v = true -> jd (fun f => fin_b f = true) an aa v.
Proof.
  induction fuel as [|f IH]; intros v H; [discriminate|]. destruct v as [| | |is32 x| | |id l| |id m]; cbn [jd_bf] in H; try discriminate; try exact I; try exact H.
  - apply andb_true_iff in H. destruct H as [H1 H2]. apply negb_true_iff in H1. cbn [jd]. split; assumption.
  - apply andb_true_iff in H. destruct H as [Ha H]. apply jd_arr. split; [exact Ha|]. apply Forall_forall. intros x Hx. apply IH. apply (proj1 (forallb_forall _ _) H x Hx).
  - apply andb_true_iff in H. destruct H as [H1 H2]. apply jd_obj. split; [|apply nodup_b_sound; exact H2].
    apply Forall_forall. intros kv Hkv. pose proof (proj1 (forallb_forall _ _) H1 kv Hkv) as Hk. apply andb_true_iff in Hk. destruct Hk as [Hk1 Hk2].
    split; [apply plain_key_b0_sound; exact Hk1 | apply IH; exact Hk2].
Qed.

Section Dec.
Variable fin_b : f64 -> bool.
Variable allow_null : bool.
(* arrays in the data are admitted only together with schemas whose formats sit next to a type list that accepts arrays (see [local_clean]) *)
Variable allow_arr : bool.
Variable OR : oracles.
Definition finP (f : f64) : Prop := fin_b f = true.

Definition plain_key_b (k : str) : bool := negb (Z.eqb k k_dollar_schema) && negb (Z.eqb k k_id) && negb (Z.eqb k k_headers).

Lemma plain_key_b_sound k : plain_key_b k = true -> plain_key k.
Proof.
  unfold plain_key_b, plain_key. intros H. apply andb_true_iff in H. destruct H as [H H3]. apply andb_true_iff in H. destruct H as [H1 H2].
  apply negb_true_iff in H1, H2, H3. apply Z.eqb_neq in H1, H2, H3. auto.
Qed.

Definition jd_b := jd_bf fin_b allow_null allow_arr.

Lemma jd_b_sound : forall fuel v, jd_b fuel v = true -> jd finP allow_null allow_arr v.
Proof. exact (jd_bf_sound fin_b allow_null allow_arr). Qed.

Definition kids_b (P : schema -> bool) (s : schema) : bool :=
  (match s_items_one s with Some c => P c | None => true end) &&
  (match s_items_tuple s with Some cs => forallb P cs | None => true end) &&
  (match s_add_items s with Some (_, Some c) => P c | _ => true end) &&
  forallb (fun kc => P (snd kc)) (s_props s) &&
  forallb (fun kc => P (snd kc)) (s_pat_props s) &&
  (match s_add_props s with Some (_, Some c) => P c | _ => true end) &&
  forallb P (s_all_of s) && forallb P (s_any_of s) && forallb P (s_one_of s) &&
  (match s_not s with Some c => P c | None => true end) &&
  forallb (fun kd => match fst (snd kd) with Some c => P c | None => true end) (s_deps s).

Lemma forallb_Forall {A} (P : A -> bool) (Q : A -> Prop) l : (forall x, P x = true -> Q x) -> forallb P l = true -> Forall Q l.
Proof. intros H Hf. apply Forall_forall. intros x Hx. apply H. apply (proj1 (forallb_forall _ _) Hf x Hx). Qed.

Lemma kids_b_sound (P : schema -> bool) (Q : schema -> Prop) s : (forall c, P c = true -> Q c) -> kids_b P s = true -> kids Q s.
Proof.
  intros HPQ H. unfold kids_b in H. repeat (apply andb_true_iff in H; let H' := fresh "K" in destruct H as [H H']).
  unfold kids.
  split; [intros c E; rewrite E in H; apply HPQ; exact H|].
  split; [intros cs E; rewrite E in K8; apply (forallb_Forall P Q cs HPQ K8)|].
  split; [intros a c E; rewrite E in K7; apply HPQ; exact K7|].
  split; [apply (forallb_Forall _ _ _ (fun kc Hk => HPQ (snd kc) Hk) K6)|].
  split; [apply (forallb_Forall _ _ _ (fun kc Hk => HPQ (snd kc) Hk) K5)|].
  split; [intros a c E; rewrite E in K4; apply HPQ; exact K4|].
  split; [apply (forallb_Forall P Q _ HPQ K3)|].
  split; [apply (forallb_Forall P Q _ HPQ K2)|].
  split; [apply (forallb_Forall P Q _ HPQ K1)|].
  split; [intros c E; rewrite E in K0; apply HPQ; exact K0|].
  apply Forall_forall. intros kd Hkd c E. pose proof (proj1 (forallb_forall _ _) K kd Hkd) as Hk. cbv beta in Hk. rewrite E in Hk. apply HPQ. exact Hk.
Qed.

Definition is_none {A} (o : option A) : bool := match o with None => true | Some _ => false end.
Definition is_nil_b {A} (l : list A) : bool := match l with [] => true | _ => false end.

Definition local_clean_b (s : schema) : bool :=
  (negb allow_null || (is_nil_b (s_all_of s) && is_nil_b (s_any_of s) && is_nil_b (s_one_of s) && is_none (s_not s))) &&
  is_none (s_ref s) && (Z.eqb (s_format s) 0 || (contains k_number (s_types s) || contains k_integer (s_types s)) ||
     (contains k_string (s_types s) && (negb allow_arr || contains k_array (s_types s)))) && negb (s_nullable s) &&
  forallb (fun e => jd_bf fin_b true true (S (goval_depth e)) e) (s_enum s) &&
  (Z.eqb (s_pattern s) 0 || o_re_ok OR (s_pattern s)) &&
  (* arrays *)
  (is_none (s_items_one s) || is_none (s_items_tuple s)) &&
  negb (match s_items_tuple s with Some [] => true | _ => false end) &&
  negb (match s_add_items s with Some (false, Some _) => true | _ => false end) &&
  (* objects *)
  (forallb (fun pp => o_re_ok OR (fst pp)) (s_pat_props s) && nodup_b (map fst (s_pat_props s))) && forallb (fun kp => is_none (s_default (snd kp)) || negb (existsb (Z.eqb (fst kp)) (s_required s))) (s_props s) && nodup_b (map fst (s_props s)) &&
  negb (match s_add_props s with Some (false, Some _) => true | _ => false end) &&
  (* composition *)
  nodup_b (map fst (s_deps s)) &&
  (* numbers *)
  (match s_maximum s with Some m => fin_b m | None => true end) && (match s_minimum s with Some m => fin_b m | None => true end).

Lemma local_clean_b_sound s : local_clean_b s = true -> local_clean finP allow_null allow_arr OR s.
Proof.
  intros H. unfold local_clean_b in H. repeat (apply andb_true_iff in H; let H' := fresh "L" in destruct H as [H H']).
  assert (HF : fmt_clean allow_null allow_arr s).
  { unfold fmt_clean, nullsafe. split.
    - apply orb_true_iff in L12. destruct L12 as [E | E].
      + apply orb_true_iff in E. destruct E as [E | E]; [left; apply Z.eqb_eq; exact E | right; left; exact E].
      + destruct (contains k_number (s_types s) || contains k_integer (s_types s)) eqn:En; [right; left; reflexivity|].
        right. right. apply andb_true_iff in E. destruct E as [E1 E2]. split; [reflexivity|]. split; [exact E1|].
        intros Ha. rewrite Ha in E2. exact E2.
    - intros Hn. rewrite Hn in H. cbn [negb orb] in H. apply andb_true_iff in H. destruct H as [H Hc]. apply andb_true_iff in H. destruct H as [H Ho].
      apply andb_true_iff in H. destruct H as [Ha Hb].
      split; [revert Ha; destruct (s_all_of s); [reflexivity | discriminate]|].
      split; [revert Hb; destruct (s_any_of s); [reflexivity | discriminate]|].
      split; [revert Ho; destruct (s_one_of s); [reflexivity | discriminate] | revert Hc; destruct (s_not s); [discriminate | reflexivity]]. }
  split; [|exact HF].
  unfold local_clean0, array_clean, object_clean, comp_clean, bounds_fin.
  split; [revert L13; destruct (s_ref s); [discriminate | reflexivity]|].
  split; [apply negb_true_iff; exact L11|].
  split; [apply (forallb_Forall _ _ _ (fun e He => jd_bf_sound fin_b true true _ e He) L10)|].
  split; [apply orb_true_iff in L9; destruct L9 as [E | E]; [left; apply Z.eqb_eq; exact E | right; exact E]|].
  split.
  { split; [apply orb_true_iff in L8; destruct L8 as [E | E]; [left; revert E; destruct (s_items_one s); [discriminate | reflexivity] | right; revert E; destruct (s_items_tuple s); [discriminate | reflexivity]]|].
    split; [intros E; rewrite E in L7; discriminate|].
    intros sa E. rewrite E in L6. discriminate. }
  split.
  { split; [apply andb_true_iff in L5; destruct L5 as [P1 P2]; split; [apply (forallb_Forall _ _ _ (fun pp Hpp => Hpp) P1) | apply nodup_b_sound; exact P2]|].
    split; [intros k ps Hin Hd Hr; pose proof (proj1 (forallb_forall _ _) L4 (k, ps) Hin) as E; cbn [fst snd] in E;
            apply orb_true_iff in E; destruct E as [E | E]; [destruct (s_default ps); [discriminate | apply Hd; reflexivity]|];
            apply negb_true_iff in E; assert (E' : existsb (Z.eqb k) (s_required s) = true) by (apply existsb_exists; exists k; split; [exact Hr | apply Z.eqb_refl]); congruence|].
    split; [apply nodup_b_sound; exact L3|].
    intros sa E. rewrite E in L2. discriminate. }
  split; [apply nodup_b_sound; exact L1|].
  split; [intros m E; rewrite E in L0; exact L0 | intros m E; rewrite E in L; exact L].
Qed.

(* the same without the condition on formats, which the recursive theorem asks of (schema, value) pairs (AgreementRec.fits_b) *)
Definition local_clean0_b (s : schema) : bool :=
  is_none (s_ref s) && negb (s_nullable s) &&
  forallb (fun e => jd_bf fin_b true true (S (goval_depth e)) e) (s_enum s) &&
  (Z.eqb (s_pattern s) 0 || o_re_ok OR (s_pattern s)) &&
  (* arrays *)
  (is_none (s_items_one s) || is_none (s_items_tuple s)) &&
  negb (match s_items_tuple s with Some [] => true | _ => false end) &&
  negb (match s_add_items s with Some (false, Some _) => true | _ => false end) &&
  (* objects *)
  (forallb (fun pp => o_re_ok OR (fst pp)) (s_pat_props s) && nodup_b (map fst (s_pat_props s))) && forallb (fun kp => is_none (s_default (snd kp)) || negb (existsb (Z.eqb (fst kp)) (s_required s))) (s_props s) && nodup_b (map fst (s_props s)) &&
  negb (match s_add_props s with Some (false, Some _) => true | _ => false end) &&
  (* composition *)
  nodup_b (map fst (s_deps s)) &&
  (* numbers *)
  (match s_maximum s with Some m => fin_b m | None => true end) && (match s_minimum s with Some m => fin_b m | None => true end).

Lemma local_clean0_b_sound s : local_clean0_b s = true -> local_clean0 finP OR s.
Proof.
  intros H. unfold local_clean0_b in H. repeat (apply andb_true_iff in H; let H' := fresh "L" in destruct H as [H H']).
  unfold local_clean0, array_clean, object_clean, comp_clean, bounds_fin.
  split; [revert H; destruct (s_ref s); [discriminate | reflexivity]|].
  split; [apply negb_true_iff; exact L11|].
  split; [apply (forallb_Forall _ _ _ (fun e He => jd_bf_sound fin_b true true _ e He) L10)|].
  split; [apply orb_true_iff in L9; destruct L9 as [E | E]; [left; apply Z.eqb_eq; exact E | right; exact E]|].
  split.
  { split; [apply orb_true_iff in L8; destruct L8 as [E | E]; [left; revert E; destruct (s_items_one s); [discriminate | reflexivity] | right; revert E; destruct (s_items_tuple s); [discriminate | reflexivity]]|].
    split; [intros E; rewrite E in L7; discriminate|].
    intros sa E. rewrite E in L6. discriminate. }
  split.
  { split; [apply andb_true_iff in L5; destruct L5 as [P1 P2]; split; [apply (forallb_Forall _ _ _ (fun pp Hpp => Hpp) P1) | apply nodup_b_sound; exact P2]|].
    split; [intros k ps Hin Hd Hr; pose proof (proj1 (forallb_forall _ _) L4 (k, ps) Hin) as E; cbn [fst snd] in E;
            apply orb_true_iff in E; destruct E as [E | E]; [destruct (s_default ps); [discriminate | apply Hd; reflexivity]|];
            apply negb_true_iff in E; assert (E' : existsb (Z.eqb k) (s_required s) = true) by (apply existsb_exists; exists k; split; [exact Hr | apply Z.eqb_refl]); congruence|].
    split; [apply nodup_b_sound; exact L3|].
    intros sa E. rewrite E in L2. discriminate. }
  split; [apply nodup_b_sound; exact L1|].
  split; [intros m E; rewrite E in L0; exact L0 | intros m E; rewrite E in L; exact L].
Qed.

Fixpoint clean_b (n : nat) (s : schema) {struct n} : bool :=
  match n with
  | O => false
  | S m => local_clean_b s && kids_b (clean_b m) s
  end.

Theorem clean_b_sound : forall n s, clean_b n s = true -> clean finP allow_null allow_arr OR n s.
Proof.
  induction n as [|n IH]; intros s H; [discriminate|]. cbn [clean_b] in H. apply andb_true_iff in H. destruct H as [H1 H2].
  split; [apply local_clean_b_sound; exact H1 | apply (kids_b_sound (clean_b n) (clean finP allow_null allow_arr OR n) s IH H2)].
Qed.

End Dec.

(* ------------------------------------------------------------------ with references (AgreementRef.v) *)
From Verif Require Import Schema.AgreementRef.

Section DecRef.
Variable fin_b : f64 -> bool.
Variable allow_null : bool.
(* arrays in the data are admitted only together with schemas whose formats sit next to a type list that accepts arrays (see [local_clean]) *)
Variable allow_arr : bool.
Variable OR : oracles.
Variable defs : env.
Variable K : nat.

Fixpoint follow (fuel : nat) (s : schema) : option (nat * schema) :=
  match s_ref s with
  | None => Some (O, s)
  | Some r =>
      match fuel with
      | O => None
      | S f => match lookup_def defs r with
               | Some u => match follow f u with Some (k, t) => Some (S k, t) | None => None end
               | None => None
               end
      end
  end.

Lemma follow_chain : forall fuel s k t, follow fuel s = Some (k, t) -> chain defs k s t /\ (k <= fuel)%nat.
Proof.
  induction fuel as [|f IH]; intros s k t H; cbn [follow] in H.
  - destruct (s_ref s) eqn:E; [discriminate|]. inversion H; subst. split; [constructor; exact E | lia].
  - destruct (s_ref s) as [r|] eqn:E; [|inversion H; subst; split; [constructor; exact E | lia]].
    destruct (lookup_def defs r) as [u|] eqn:El; [|discriminate]. destruct (follow f u) as [[k' t']|] eqn:Ef; [|discriminate].
    inversion H; subst. destruct (IH u k' t Ef) as [Hc Hk]. split; [econstructor; eassumption | lia].
Qed.

Fixpoint cleanr_b (n : nat) (s : schema) {struct n} : bool :=
  match n with
  | O => false
  | S m => match follow K s with
           | Some (_, t) => local_clean_b fin_b allow_null allow_arr OR t && kids_b (cleanr_b m) t
           | None => false
           end
  end.

Theorem cleanr_b_sound : forall n s, cleanr_b n s = true -> cleanr (finP fin_b) allow_null allow_arr OR defs K n s.
Proof.
  induction n as [|n IH]; intros s H; [discriminate|]. cbn [cleanr_b] in H.
  destruct (follow K s) as [[k t]|] eqn:Ef; [|discriminate]. apply andb_true_iff in H. destruct H as [H1 H2].
  destruct (follow_chain K s k t Ef) as [Hc Hk]. exists k, t. split; [exact Hc|]. split; [exact Hk|].
  split; [apply local_clean_b_sound; exact H1 | apply (kids_b_sound (cleanr_b n) _ t IH H2)].
Qed.

End DecRef.
