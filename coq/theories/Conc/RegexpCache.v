(* C15: the regular-expression cache of rexp.go under arbitrary interleavings.

   compileRegexp(p):   c := reDict.Load(); if c[p] != nil return c[p]        (lock-free read of the published map)
                       r, err := regexp.Compile(p); if err != nil return err
                       cacheRegexp(r); return r
   cacheRegexp(r):     lock; c := reDict.Load(); if c[r.String()] == nil { store(copy of c + {r.String(): r}) }; unlock

   Every arrow below is one atomic action (atomic.Value load / store, mutex lock / unlock, the pure compile);
   any thread may move at any time.  [compile] and [source] are parameters: the only fact assumed about package
   regexp is that the source text of a compiled expression is the text it was compiled from. *)
From Coq Require Import List ZArith Bool Lia.
Import ListNotations.
Open Scope Z_scope.

Section Cache.
Variable re : Type.
Variable compile : Z -> option re.
Variable source : re -> Z.
Hypothesis compile_source : forall p r, compile p = Some r -> source r = p.

Definition cmap := Z -> option re.
Definition cadd (c : cmap) (k : Z) (r : re) : cmap := fun q => if Z.eqb q k then Some r else c q.

Inductive tstate : Type :=
| TIdle
| TLookup (p : Z)                         (* about to load the published map *)
| TMissed (p : Z)                         (* not in the snapshot: about to compile *)
| TCompiled (p : Z) (r : re)              (* compiled: about to lock *)
| THold (p : Z) (r : re)                  (* holds the mutex: about to load the map again *)
| TLoaded (p : Z) (r : re) (c : cmap)     (* holds the mutex, has loaded c: about to store (or skip) *)
| TStored (p : Z) (r : re)                (* about to unlock *)
| TDone (p : Z) (res : option re).        (* compileRegexp(p) returned res (None = error) *)

Record state : Type := { cache : cmap; lock : option nat; threads : nat -> tstate }.

Definition set_thread (st : state) (t : nat) (x : tstate) : nat -> tstate :=
  fun u => if Nat.eqb u t then x else threads st u.

Inductive step : state -> state -> Prop :=
| s_call st t p : threads st t = TIdle ->
    step st {| cache := cache st; lock := lock st; threads := set_thread st t (TLookup p) |}
| s_hit st t p r : threads st t = TLookup p -> cache st p = Some r ->
    step st {| cache := cache st; lock := lock st; threads := set_thread st t (TDone p (Some r)) |}
| s_miss st t p : threads st t = TLookup p -> cache st p = None ->
    step st {| cache := cache st; lock := lock st; threads := set_thread st t (TMissed p) |}
| s_compile_err st t p : threads st t = TMissed p -> compile p = None ->
    step st {| cache := cache st; lock := lock st; threads := set_thread st t (TDone p None) |}
| s_compile_ok st t p r : threads st t = TMissed p -> compile p = Some r ->
    step st {| cache := cache st; lock := lock st; threads := set_thread st t (TCompiled p r) |}
| s_lock st t p r : threads st t = TCompiled p r -> lock st = None ->
    step st {| cache := cache st; lock := Some t; threads := set_thread st t (THold p r) |}
| s_load st t p r : threads st t = THold p r ->
    step st {| cache := cache st; lock := lock st; threads := set_thread st t (TLoaded p r (cache st)) |}
| s_store st t p r c : threads st t = TLoaded p r c -> c (source r) = None ->
    step st {| cache := cadd c (source r) r; lock := lock st; threads := set_thread st t (TStored p r) |}
| s_skip st t p r c r' : threads st t = TLoaded p r c -> c (source r) = Some r' ->
    step st {| cache := cache st; lock := lock st; threads := set_thread st t (TStored p r) |}
| s_unlock st t p r : threads st t = TStored p r ->
    step st {| cache := cache st; lock := None; threads := set_thread st t (TDone p (Some r)) |}
| s_return st t p res : threads st t = TDone p res ->
    step st {| cache := cache st; lock := lock st; threads := set_thread st t TIdle |}.

Definition init : state := {| cache := fun _ => None; lock := None; threads := fun _ => TIdle |}.

Inductive reachable : state -> Prop :=
| r_init : reachable init
| r_step st st' : reachable st -> step st st' -> reachable st'.

(* ------------------------------------------------------------------ the invariant *)

Definition in_critical (x : tstate) : bool :=
  match x with THold _ _ | TLoaded _ _ _ | TStored _ _ => true | _ => false end.

Definition thread_ok (st : state) (t : nat) (x : tstate) : Prop :=
  match x with
  | TCompiled p r => compile p = Some r
  | THold p r => compile p = Some r /\ lock st = Some t
  | TLoaded p r c => compile p = Some r /\ lock st = Some t /\ c = cache st
  | TStored p r => compile p = Some r /\ lock st = Some t
  | TDone p res => res = compile p
  | _ => True
  end.

Record inv (st : state) : Prop := {
  i_sound : forall q r, cache st q = Some r -> compile q = Some r;
  i_threads : forall t, thread_ok st t (threads st t);
  i_lock : forall t, lock st = Some t -> in_critical (threads st t) = true;
}.

Lemma set_thread_same st t x : set_thread st t x t = x.
Proof. unfold set_thread. now rewrite Nat.eqb_refl. Qed.

Lemma set_thread_other st t x u : u <> t -> set_thread st t x u = threads st u.
Proof. unfold set_thread. intros H. apply Nat.eqb_neq in H. now rewrite H. Qed.

Lemma inv_init : inv init.
Proof. constructor; simpl; [discriminate|exact (fun _ => I)|discriminate]. Qed.

(* only the states inside the critical section have obligations that mention the shared state *)
Lemma noncritical_ok st st' u x : in_critical x = false -> thread_ok st u x -> thread_ok st' u x.
Proof. destruct x; simpl; intros H; try discriminate; auto. Qed.

Lemma frame_ok st st' u x : cache st' = cache st -> lock st' = lock st -> thread_ok st u x -> thread_ok st' u x.
Proof. intros Hc Hl. destruct x; simpl; rewrite ?Hc, ?Hl; auto. Qed.

Lemma critical_holds_lock st u : (forall t, thread_ok st t (threads st t)) ->
  in_critical (threads st u) = true -> lock st = Some u.
Proof. intros Ht H. specialize (Ht u). destruct (threads st u); simpl in *; try discriminate; tauto. Qed.

(* the mover t changes its own state to x (proved ok separately); every other thread keeps its state *)
Lemma others_frame st st' t x :
  (forall u, thread_ok st u (threads st u)) ->
  cache st' = cache st -> lock st' = lock st -> threads st' = set_thread st t x -> thread_ok st' t x ->
  forall u, thread_ok st' u (threads st' u).
Proof.
  intros Ht Hc Hl Hth Hx u. rewrite Hth. destruct (Nat.eq_dec u t) as [->|Hne].
  - now rewrite set_thread_same.
  - rewrite (set_thread_other _ _ _ _ Hne). apply (frame_ok st); auto.
Qed.

Lemma others_noncritical st st' t x :
  (forall u, thread_ok st u (threads st u)) ->
  (forall u, u <> t -> in_critical (threads st u) = false) ->
  threads st' = set_thread st t x -> thread_ok st' t x ->
  forall u, thread_ok st' u (threads st' u).
Proof.
  intros Ht Hnc Hth Hx u. rewrite Hth. destruct (Nat.eq_dec u t) as [->|Hne].
  - now rewrite set_thread_same.
  - rewrite (set_thread_other _ _ _ _ Hne). apply (noncritical_ok st); auto.
Qed.

Lemma lock_frame st st' t x :
  (forall u, lock st = Some u -> in_critical (threads st u) = true) ->
  lock st' = lock st -> threads st' = set_thread st t x ->
  (in_critical (threads st t) = true -> in_critical x = true) ->
  forall u, lock st' = Some u -> in_critical (threads st' u) = true.
Proof.
  intros Hl Hlk Hth Hx u Hu. rewrite Hlk in Hu. rewrite Hth. destruct (Nat.eq_dec u t) as [->|Hne].
  - rewrite set_thread_same. apply Hx, Hl, Hu.
  - rewrite (set_thread_other _ _ _ _ Hne). apply Hl, Hu.
Qed.

Lemma step_inv st st' : inv st -> step st st' -> inv st'.
Proof.
  intros [Hs Ht Hl] Hstep.
  assert (Hcrit : forall u, in_critical (threads st u) = true -> lock st = Some u) by (intros u; apply critical_holds_lock; assumption).
  destruct Hstep.
  - (* s_call *) constructor; [exact Hs| |].
    + eapply (others_frame st _ t (TLookup p)); eauto; simpl; auto.
    + eapply (lock_frame st _ t (TLookup p)); eauto. rewrite H. discriminate.
  - (* s_hit *) constructor; [exact Hs| |].
    + eapply (others_frame st _ t (TDone p (Some r))); eauto; simpl; auto; try (symmetry; apply Hs; assumption).
    + eapply (lock_frame st _ t (TDone p (Some r))); eauto. rewrite H. discriminate.
  - (* s_miss *) constructor; [exact Hs| |].
    + eapply (others_frame st _ t (TMissed p)); eauto; simpl; auto.
    + eapply (lock_frame st _ t (TMissed p)); eauto. rewrite H. discriminate.
  - (* s_compile_err *) constructor; [exact Hs| |].
    + eapply (others_frame st _ t (TDone p None)); eauto; simpl; auto; try (symmetry; assumption).
    + eapply (lock_frame st _ t (TDone p None)); eauto. rewrite H. discriminate.
  - (* s_compile_ok *) constructor; [exact Hs| |].
    + eapply (others_frame st _ t (TCompiled p r)); eauto; simpl; auto.
    + eapply (lock_frame st _ t (TCompiled p r)); eauto. rewrite H. discriminate.
  - (* s_lock: nobody held the mutex, so no other thread is inside the critical section *)
    constructor; [exact Hs| |].
    + eapply (others_noncritical st _ t (THold p r)); eauto; simpl.
      * intros u _. destruct (in_critical (threads st u)) eqn:E; [|reflexivity]. apply Hcrit in E. congruence.
      * specialize (Ht t). rewrite H in Ht. simpl in Ht. auto.
    + intros u Hu. cbn [lock] in Hu. injection Hu as <-. cbn [threads]. now rewrite set_thread_same.
  - (* s_load *) constructor; [exact Hs| |].
    + eapply (others_frame st _ t (TLoaded p r (cache st))); eauto; simpl; auto; try (specialize (Ht t); rewrite H in Ht; simpl in Ht; tauto).
    + eapply (lock_frame st _ t (TLoaded p r (cache st))); eauto.
  - (* s_store: the stored map is the loaded snapshot, still the published one, plus one sound entry *)
    pose proof (Ht t) as Hme. rewrite H in Hme. simpl in Hme. destruct Hme as [Hc [Hlk Hceq]]. subst c.
    constructor.
    + cbn [cache]. intros q r0. unfold cadd. destruct (Z.eqb_spec q (source r)) as [->|Hne].
      * intros E. injection E as <-. rewrite (compile_source _ _ Hc). assumption.
      * apply Hs.
    + eapply (others_noncritical st _ t (TStored p r)); eauto; simpl; [|auto].
      intros u Hne. destruct (in_critical (threads st u)) eqn:E; [|reflexivity]. apply Hcrit in E. congruence.
    + eapply (lock_frame st _ t (TStored p r)); eauto.
  - (* s_skip *) constructor; [exact Hs| |].
    + eapply (others_frame st _ t (TStored p r)); eauto; simpl; auto; try (specialize (Ht t); rewrite H in Ht; simpl in Ht; tauto).
    + eapply (lock_frame st _ t (TStored p r)); eauto.
  - (* s_unlock *)
    pose proof (Ht t) as Hme. rewrite H in Hme. simpl in Hme. destruct Hme as [Hc Hlk].
    constructor; [exact Hs| |discriminate].
    eapply (others_noncritical st _ t (TDone p (Some r))); eauto; simpl; [|symmetry; assumption].
    intros u Hne. destruct (in_critical (threads st u)) eqn:E; [|reflexivity]. apply Hcrit in E. congruence.
  - (* s_return *) constructor; [exact Hs| |].
    + eapply (others_frame st _ t TIdle); eauto; simpl; auto.
    + eapply (lock_frame st _ t TIdle); eauto. rewrite H. discriminate.
Qed.

Theorem reachable_inv st : reachable st -> inv st.
Proof. induction 1; [apply inv_init|eapply step_inv; eassumption]. Qed.

(* ------------------------------------------------------------------ the properties *)

(* whatever the interleaving, an entry of the published cache is the compilation of its key *)
Theorem cache_sound st : reachable st -> forall p r, cache st p = Some r -> compile p = Some r.
Proof. intros H. exact (i_sound st (reachable_inv st H)). Qed.

(* every completed call returns what was asked for: the compilation of that very pattern, or its error *)
Theorem returns_asked st t p res : reachable st -> threads st t = TDone p res -> res = compile p.
Proof. intros H E. pose proof (i_threads st (reachable_inv st H) t) as Ht. rewrite E in Ht. exact Ht. Qed.

(* an invalid pattern is never cached *)
Theorem invalid_never_cached st p : reachable st -> compile p = None -> cache st p = None.
Proof.
  intros H Hc. destruct (cache st p) as [r|] eqn:E; [|reflexivity].
  apply (cache_sound st H) in E. congruence.
Qed.

(* entries are never lost nor replaced, by any step of any thread *)
Theorem entries_never_lost st st' : reachable st -> step st st' ->
  forall p r, cache st p = Some r -> cache st' p = Some r.
Proof.
  intros Hr Hstep p r0 Hp. destruct Hstep; simpl; try assumption.
  pose proof (i_threads st (reachable_inv st Hr) t) as Ht. rewrite H in Ht. simpl in Ht. destruct Ht as [_ [_ ->]].
  unfold cadd. destruct (Z.eqb_spec p (source r)) as [->|Hne]; [congruence|assumption].
Qed.

(* mutual exclusion: at most one thread is inside cacheRegexp's critical section *)
Theorem mutual_exclusion st t u : reachable st ->
  in_critical (threads st t) = true -> in_critical (threads st u) = true -> t = u.
Proof.
  intros H Ht Hu. pose proof (reachable_inv st H) as [_ Hth _].
  pose proof (Hth t) as A. pose proof (Hth u) as B.
  destruct (threads st t); simpl in Ht; try discriminate;
  destruct (threads st u); simpl in Hu; try discriminate; simpl in A, B;
  repeat match goal with H : _ /\ _ |- _ => destruct H end; congruence.
Qed.

End Cache.
