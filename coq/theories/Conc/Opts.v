(* C05: the package default options (options.go:36-62) and their readers (spec.go:79-84), any number of
   goroutines, any interleaving.  SetContinueOnErrors(c): lock; defaultOpts.ContinueOnErrors = c; unlock.
   NewSpecValidator: lock; options := defaultOpts; unlock   (as repaired: the read used to be unguarded). *)
From Coq Require Import List Arith Bool Lia.
Import ListNotations.

Inductive ostate : Type :=
| OIdle
| OWantWrite (c : bool)        (* SetContinueOnErrors(c) called: about to lock *)
| OWriting (c : bool)          (* holds the mutex: about to write *)
| OWritten                     (* about to unlock *)
| OWantRead                    (* NewSpecValidator called: about to lock *)
| OReading                     (* holds the mutex: about to copy *)
| OCopied (v : bool)           (* about to unlock *)
| OGot (v : bool).             (* the validator holds its private copy v *)

Record state : Type := { opts : bool; lock : option nat; threads : nat -> ostate; written : list bool }.

Definition set_thread (st : state) (t : nat) (x : ostate) : nat -> ostate :=
  fun u => if Nat.eqb u t then x else threads st u.

Inductive step : state -> state -> Prop :=
| o_set st t c : threads st t = OIdle ->
    step st {| opts := opts st; lock := lock st; threads := set_thread st t (OWantWrite c); written := written st |}
| o_new st t : threads st t = OIdle ->
    step st {| opts := opts st; lock := lock st; threads := set_thread st t OWantRead; written := written st |}
| o_lock_w st t c : threads st t = OWantWrite c -> lock st = None ->
    step st {| opts := opts st; lock := Some t; threads := set_thread st t (OWriting c); written := written st |}
| o_write st t c : threads st t = OWriting c ->
    step st {| opts := c; lock := lock st; threads := set_thread st t OWritten; written := c :: written st |}
| o_unlock_w st t : threads st t = OWritten ->
    step st {| opts := opts st; lock := None; threads := set_thread st t OIdle; written := written st |}
| o_lock_r st t : threads st t = OWantRead -> lock st = None ->
    step st {| opts := opts st; lock := Some t; threads := set_thread st t OReading; written := written st |}
| o_read st t : threads st t = OReading ->
    step st {| opts := opts st; lock := lock st; threads := set_thread st t (OCopied (opts st)); written := written st |}
| o_unlock_r st t v : threads st t = OCopied v ->
    step st {| opts := opts st; lock := None; threads := set_thread st t (OGot v); written := written st |}
| o_done st t v : threads st t = OGot v ->
    step st {| opts := opts st; lock := lock st; threads := set_thread st t OIdle; written := written st |}.

Definition init (o : bool) : state := {| opts := o; lock := None; threads := fun _ => OIdle; written := [] |}.

Inductive reachable (o : bool) : state -> Prop :=
| r_init : reachable o (init o)
| r_step st st' : reachable o st -> step st st' -> reachable o st'.

(* the states in which a thread touches the shared variable or is about to *)
Definition in_critical (x : ostate) : bool :=
  match x with OWriting _ | OWritten | OReading | OCopied _ => true | _ => false end.

Record inv (o : bool) (st : state) : Prop := {
  i_holder : forall t, in_critical (threads st t) = true -> lock st = Some t;
  i_lock : forall t, lock st = Some t -> in_critical (threads st t) = true;
  i_value : opts st = o \/ In (opts st) (written st);
  i_copies : forall t v, (threads st t = OCopied v \/ threads st t = OGot v) -> v = o \/ In v (written st);
}.

Lemma set_same st t x : set_thread st t x t = x.
Proof. unfold set_thread. now rewrite Nat.eqb_refl. Qed.
Lemma set_other st t x u : u <> t -> set_thread st t x u = threads st u.
Proof. unfold set_thread. intros H. apply Nat.eqb_neq in H. now rewrite H. Qed.

Lemma inv_init o : inv o (init o).
Proof. constructor; simpl; auto; try discriminate. intros t v [H|H]; discriminate. Qed.

(* bookkeeping lemmas: thread t moves to x, the others keep their state *)
Lemma holder_same_lock st t x lk :
  (forall u, in_critical (threads st u) = true -> lock st = Some u) ->
  lk = lock st -> (in_critical x = true -> in_critical (threads st t) = true) ->
  forall u, in_critical (set_thread st t x u) = true -> lk = Some u.
Proof.
  intros Hh -> Hx u Hu. destruct (Nat.eq_dec u t) as [->|Hne].
  - rewrite set_same in Hu. apply Hh, Hx, Hu.
  - rewrite (set_other _ _ _ _ Hne) in Hu. apply Hh, Hu.
Qed.

Lemma lock_same_lock st t x lk :
  (forall u, lock st = Some u -> in_critical (threads st u) = true) ->
  lk = lock st -> (in_critical (threads st t) = true -> in_critical x = true) ->
  forall u, lk = Some u -> in_critical (set_thread st t x u) = true.
Proof.
  intros Hl -> Hx u Hu. destruct (Nat.eq_dec u t) as [->|Hne].
  - rewrite set_same. apply Hx, Hl, Hu.
  - rewrite (set_other _ _ _ _ Hne). apply Hl, Hu.
Qed.

Lemma holder_acquire st t x :
  (forall u, in_critical (threads st u) = true -> lock st = Some u) -> lock st = None ->
  forall u, in_critical (set_thread st t x u) = true -> Some t = Some u.
Proof.
  intros Hh Hn u Hu. destruct (Nat.eq_dec u t) as [->|Hne]; [reflexivity|].
  rewrite (set_other _ _ _ _ Hne) in Hu. apply Hh in Hu. congruence.
Qed.

Lemma holder_release st t x :
  (forall u, in_critical (threads st u) = true -> lock st = Some u) ->
  in_critical (threads st t) = true -> in_critical x = false ->
  forall u, in_critical (set_thread st t x u) = true -> @None nat = Some u.
Proof.
  intros Hh Ht Hx u Hu. destruct (Nat.eq_dec u t) as [->|Hne].
  - rewrite set_same in Hu. congruence.
  - rewrite (set_other _ _ _ _ Hne) in Hu. apply Hh in Hu. apply Hh in Ht. congruence.
Qed.

Lemma copies_frame o st t x w :
  (forall u v, (threads st u = OCopied v \/ threads st u = OGot v) -> v = o \/ In v (written st)) ->
  (forall v, In v (written st) -> In v w) ->
  (forall v, (x = OCopied v \/ x = OGot v) -> v = o \/ In v w) ->
  forall u v, (set_thread st t x u = OCopied v \/ set_thread st t x u = OGot v) -> v = o \/ In v w.
Proof.
  intros Hc Hw Hx u v Hu. destruct (Nat.eq_dec u t) as [->|Hne].
  - rewrite set_same in Hu. apply Hx, Hu.
  - rewrite (set_other _ _ _ _ Hne) in Hu. destruct (Hc u v Hu) as [E|E]; [left; assumption|right; apply Hw, E].
Qed.

Lemma step_inv o st st' : inv o st -> step st st' -> inv o st'.
Proof.
  intros [Hh Hl Hv Hc] Hs. destruct Hs; constructor; cbn [opts lock threads written].
  - (* o_set *) apply (holder_same_lock st t _ _ Hh eq_refl). discriminate.
  - apply (lock_same_lock st t _ _ Hl eq_refl). rewrite H. discriminate.
  - assumption.
  - apply (copies_frame o st t _ _ Hc); auto. intros v [E|E]; discriminate.
  - (* o_new *) apply (holder_same_lock st t _ _ Hh eq_refl). discriminate.
  - apply (lock_same_lock st t _ _ Hl eq_refl). rewrite H. discriminate.
  - assumption.
  - apply (copies_frame o st t _ _ Hc); auto. intros v [E|E]; discriminate.
  - (* o_lock_w *) apply holder_acquire; assumption.
  - intros u Hu. injection Hu as <-. now rewrite set_same.
  - assumption.
  - apply (copies_frame o st t _ _ Hc); auto. intros v [E|E]; discriminate.
  - (* o_write *) apply (holder_same_lock st t _ _ Hh eq_refl). intros _. rewrite H. reflexivity.
  - apply (lock_same_lock st t _ _ Hl eq_refl). reflexivity.
  - right. left. reflexivity.
  - apply (copies_frame o st t _ _ Hc); [intros v Hin; right; assumption|]. intros v [E|E]; discriminate.
  - (* o_unlock_w *) apply (holder_release st t); [assumption|rewrite H; reflexivity|reflexivity].
  - discriminate.
  - assumption.
  - apply (copies_frame o st t _ _ Hc); auto. intros v [E|E]; discriminate.
  - (* o_lock_r *) apply holder_acquire; assumption.
  - intros u Hu. injection Hu as <-. now rewrite set_same.
  - assumption.
  - apply (copies_frame o st t _ _ Hc); auto. intros v [E|E]; discriminate.
  - (* o_read *) apply (holder_same_lock st t _ _ Hh eq_refl). intros _. rewrite H. reflexivity.
  - apply (lock_same_lock st t _ _ Hl eq_refl). reflexivity.
  - assumption.
  - apply (copies_frame o st t _ _ Hc); auto. intros v [E|E]; [injection E as <-; assumption|discriminate].
  - (* o_unlock_r *) apply (holder_release st t); [assumption|rewrite H; reflexivity|reflexivity].
  - discriminate.
  - assumption.
  - apply (copies_frame o st t _ _ Hc); auto. intros v' [E|E]; [discriminate|injection E as <-]. apply (Hc t v). left. assumption.
  - (* o_done *) apply (holder_same_lock st t _ _ Hh eq_refl). discriminate.
  - apply (lock_same_lock st t _ _ Hl eq_refl). rewrite H. discriminate.
  - assumption.
  - apply (copies_frame o st t _ _ Hc); auto. intros v' [E|E]; discriminate.
Qed.

Theorem reachable_inv o st : reachable o st -> inv o st.
Proof. induction 1; [apply inv_init|eapply step_inv; eassumption]. Qed.

(* every access to defaultOpts happens with the mutex held, and at most one goroutine holds it: no two accesses
   to the variable are concurrent, whatever the interleaving and the number of goroutines *)
Theorem accesses_are_exclusive o st t u : reachable o st ->
  in_critical (threads st t) = true -> in_critical (threads st u) = true -> t = u.
Proof.
  intros H Ht Hu. pose proof (reachable_inv o st H) as [Hh _ _ _].
  apply Hh in Ht. apply Hh in Hu. congruence.
Qed.

(* a validator's private copy is a value the option held at some point: the initial one or one that was set *)
Theorem copy_is_a_written_value o st t v : reachable o st -> threads st t = OGot v -> v = o \/ In v (written st).
Proof. intros H E. apply (i_copies o st (reachable_inv o st H) t v). right. assumption. Qed.
